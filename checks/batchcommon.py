"""Shared by C09 and C15: spec/Batch.tla, harness/drivers/batch."""
import json, os
import vlib


def exhaustive(ctx, cfgs):
    for cfg in cfgs:
        r = ctx.tlc("MCBatch", cfg, coverage=not ctx.quick)
        if not ctx.quick:
            z = [a for a in r.coverage_zero() if a in ("Start", "Validate", "Exec", "Skip", "Finish")]
            if z:
                raise vlib.Inconclusive("vacuous model: actions never taken in %s: %s" % (cfg, z))


def replay_cases(ctx, gen_cfg, binary, focus, env=None):
    """B1: TLC enumerates all terminal histories; each is replayed against the real executor.
    focus: the descriptor components this property talks about (others are ignored)."""
    r = ctx.tlc("MCBatch", gen_cfg, workers=4, count=False)
    cases = r.printed("CASE")
    if not cases:
        raise vlib.Inconclusive("TLC generated no cases")
    cpath = os.path.join(ctx.work, "cases.ndjson")
    vlib.write_ndjson(cpath, cases)
    opath = os.path.join(ctx.work, "results.ndjson")
    e = {"VERIF_CASES": cpath, "VERIF_OUT": opath}
    e.update(env or {})
    rc, out = ctx.run_driver(binary, test_run="^TestReplay$", env=e)
    if rc != 0 or not os.path.exists(opath):
        raise vlib.Inconclusive("batch driver failed rc=%s\n%s" % (rc, out[-3000:]))
    res = vlib.read_ndjson(opath)
    summary = [x for x in res if x.get("summary")]
    if not summary or summary[0]["cases"] != len(cases):
        raise vlib.Inconclusive("driver replayed %s cases, TLC generated %d" % (summary, len(cases)))
    nviol = 0
    for x in res:
        if x.get("summary"):
            continue
        d = [k for k in x["diffs"] if k.split(":")[0] in focus]
        if not d:
            continue
        nviol += 1
        req = x["req"]
        sig = "case:%s opt=%s ver=%s count=%s outs=%s" % ("+".join(sorted(k.split(":")[0] for k in d)), req["opt"], req["ver"], req["count"],
                                                           ",".join(i["out"] for i in req["items"]))
        ctx.violation(sig, "HandleRequest differs from Batch.tla in %s: expected %s got %s" % (d, json.dumps(x["expect"]), json.dumps(x["got"])), x)
    return cases, nviol


def record_and_validate(ctx, binary, env, label):
    """B3: run the real executor (random long batches, shared parents, concurrency), validate with TLC."""
    tpath = os.path.join(ctx.work, "trace_%s.ndjson" % label)
    e = {"VERIF_TRACE": tpath}
    e.update(env)
    rc, out = ctx.run_driver(binary, test_run="^TestTrace$", env=e)
    if rc != 0 or not os.path.exists(tpath):
        raise vlib.Inconclusive("batch trace driver failed rc=%s\n%s" % (rc, out[-3000:]))
    log = vlib.read_ndjson(tpath)
    nreq = len([x for x in log if x["ev"] == "start"])
    # observations that no specification action explains
    for x in log:
        if x["ev"] == "obs":
            ctx.violation("obs:%s:%s" % (x["kind"], x["sig"]), "real executor: %s" % x, x)
    log2 = [x for x in log if x["ev"] != "obs"]
    vlib.write_ndjson(tpath, log2)
    r = ctx.tlc("TraceBatch", "Batch_trace.cfg", workers=1, env={"TRACE_FILE": tpath}, must_pass=False, count=False, label="trace_" + label)
    if r.ok:
        ctx.traces_validated += nreq
        return log2, nreq
    m = [l for l in r.out.splitlines() if "REJECTED_AT" in l]
    if r.violated or m:
        pos = None
        if m:
            import re
            mm = re.search(r"REJECTED_AT\D+(\d+)", m[0])
            pos = int(mm.group(1)) if mm else None
        bad = log2[pos - 1] if pos and pos <= len(log2) else None
        rid = bad.get("r") if bad else None
        related = [x for x in log2 if x.get("r") == rid]
        what = "TLC rejects the recorded trace: invariants violated=%s, first unmatched event #%s=%s; events of that request: %s" % (
            r.violated, pos, json.dumps(bad), json.dumps(related)[:1500])
        kind = bad["ev"] if bad else "invariant"
        ctx.violation("trace:%s:%s" % (label, kind if not r.violated else "+".join(r.violated)), what, {"trace": related, "tlc_tail": r.out[-2000:]})
        return log2, nreq
    raise vlib.Inconclusive("trace validation run failed:\n" + r.out[-3000:])
