"""C01 - Binary TTLV round trip preserves every KMIP message (spec/Plan.tla + Wire.tla's independent parser)."""
from checks import plancommon as pc


def run(ctx):
    d = pc.prepare(ctx)
    for inv in d["static"]:
        if inv in ("RoundTrip", "Unambiguous"):
            ctx.violation("plan:" + inv, "TLC: the extracted field plan violates %s of Plan.tla (an element sequence that cannot be decoded back unambiguously)" % inv, {"tlc": d["tlc_out"][-1500:]})
    if "TagsPinned" in d["static"]:
        import json, os, vlib
        pinned = {(a, b): t for a, b, t in json.load(open(os.path.join(vlib.SPEC, "ref", "fieldtags.ref.json")))["tags"]}
        now = {(s["name"], f["name"]): f["tag"] for s in d["plan"]["structs"] for f in s["fields"]}
        for k in sorted(set(pinned) | set(now)):
            if pinned.get(k) != now.get(k):
                ctx.violation("plan:member-tag:%s.%s" % k, "member %s.%s is written under tag %s, the pinned KMIP tag is %s" % (
                    k[0], k[1], "0x%06X" % now[k] if k in now else None, "0x%06X" % pinned[k] if k in pinned else None), {"member": list(k)})
    pc.report(ctx, d, {"ttlv"}, {"encode-panic", "not-well-formed", "elements-differ", "decode-error", "reencoding-differs", "value-changed-by-roundtrip"})
    for x in d["messages"]:
        for p in x["problems"]:
            if p.startswith("gating:payload-depends-on-preceding-item:"):
                # what was put into the batch is not what comes out: a gated member of a later item is lost or invented
                ctx.violation("message:item-not-preserved-in-batch:%s" % "/".join(x["msg"].split("/")[1:3]), "message %s: %s" % (x["msg"], p[:500]), x)
            if p.startswith("ttlv:") or p.startswith("panic:"):
                ctx.violation("message:%s:%s" % (p.split(":")[1] if p.startswith("ttlv:") else "panic", x["msg"].split("/")[0] + "/" + x["msg"].split("/")[1]),
                              "message %s (operation/direction/version/population): %s" % (x["msg"], p[:600]), x)
    ctx.finish("model_checking", {
        "evaluations": d["evaluations"] + d["nmessages"],
        "distinct_nontrivial": len({(c["struct"], tuple(c["pop"])) for c in d["cases"] if sum(c["pop"]) > 1}),
        "rule": "Plan.tla gives the semantics of the reflective codec over the field plan extracted from the real types (%d structures); TLC checks RoundTrip / Unambiguous on every (structure, population, version) - all 2^n x 3^m populations for structures with <= 7 optional members, none/all/singles/pairs above - and each case is materialised by reflection, encoded by the real encoder under a header of that version, parsed by the independent parser and compared with EncTags, decoded and re-encoded (identical bytes); plus %d whole request / response messages (27 operations x 2 directions x 5 versions x minimal / full population, batches of two items with message extensions): independent parse, decode, identical re-encoding" % (len(d["plan"]["structs"]), d["nmessages"]),
        "cases_replayed_against_impl": len(d["cases"]), "messages": d["nmessages"],
        "samples": d["cases"][1000:1002],
    }, assumptions=["leaf values are representative samples; value-level fidelity of every scalar type is C03's subject",
                    "types with hand-written encoders (batch items, credential value, key value / material, unknown payload) are covered through whole messages, not through Plan.tla",
                    "interface-typed members are populated (never nil); managed objects are symmetric keys"])
