"""C02 - Decoders never panic, hang, over-read or mutate on arbitrary input (binary: spec/Wire.tla; XML / JSON / HTTP: spec/TextShapes.tla)."""
from checks import wirecommon as wc
from checks import shapes


def run(ctx):
    cases = wc.tlc_modes(ctx, ["mutants", "noncanon", "twins"])
    n = wc.replay(ctx, cases, ["c02:"])
    rows, bases, _ = shapes.replay(ctx)
    nt = shapes.judge_c02(ctx, rows)
    # staying inside an element: content a decoder may ignore or refuse (children / text inside a value element, unknown attributes or
    # members) never turns into items of the enclosing structures; the same restructured tree means the same in XML and JSON
    shapes.judge_c04_lenient(ctx, rows, bases)
    shapes.judge_c04_cross(ctx, rows)
    shapes.judge_value_missing(ctx, rows)
    ctx.finish("model_checking", {
        "evaluations": n + 3 * nt,
        "text_shape_cases": nt,
        "text_rule": "TLC enumerates from TextShapes.tla every (base document x encoding x node x mutation) - 3 documents reaching every TTLV type, 29-38 nodes each, ~110 mutations of tag, type, value, children, the JSON kind of the node and the XML token stream, truncation at every node - each rendered to a concrete XML / JSON text and decoded twice into the typed message, once into ttlv.Value, and (requests) posted to the HTTP handler: no panic, no hang (10 s), input unchanged, same result twice, ServeHTTP returns",
        "distinct_nontrivial": len([c for c in cases if not c.get("accept")]),
        "rule": "inputs = every truncation, every single-header corruption (type in {0..11,255}, length in {0,1,4,7,8,9,16,rem-1,rem,rem+1,2^31-1,2^32-8,2^32-1}, tag in {0,1}) and trailing garbage of 4 base encodings (nested structures, big integer, date), plus accepted non-canonical encodings, enumerated by TLC from MCWire.tla together with the verdict of the specification's total parser; each is decoded twice by the library into ttlv.Value (and once into RequestMessage / ResponseMessage): no panic, no hang, input unchanged, same result twice, and whatever is accepted must be exactly what Wire.tla's parser reads inside the declared extents; non-trivial = inputs the wire format rejects",
        "exhaustive": True, "cases_replayed_against_impl": n, "samples": cases[10:12] + cases[-2:],
    }, assumptions=["XML / JSON inputs are structured mutations of three base documents (one mutation per input), not arbitrary byte strings; the XML tokenizer and JSON parser underneath are Go's standard library",
                    "Stream.Recv and the HTTP handler feed the same UnmarshalTTLV; they are exercised by the C07 / C08 drivers"])
