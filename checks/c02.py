"""C02 - Decoders never panic, hang, over-read or mutate on arbitrary input (binary part: spec/Wire.tla)."""
from checks import wirecommon as wc


def run(ctx):
    cases = wc.tlc_modes(ctx, ["mutants", "noncanon"])
    n = wc.replay(ctx, cases, ["c02:"])
    ctx.finish("model_checking", {
        "evaluations": n,
        "distinct_nontrivial": len([c for c in cases if not c.get("accept")]),
        "rule": "inputs = every truncation, every single-header corruption (type in {0..11,255}, length in {0,1,4,7,8,9,16,rem-1,rem,rem+1,2^31-1,2^32-8,2^32-1}, tag in {0,1}) and trailing garbage of 4 base encodings (nested structures, big integer, date), plus accepted non-canonical encodings, enumerated by TLC from MCWire.tla together with the verdict of the specification's total parser; each is decoded twice by the library into ttlv.Value (and once into RequestMessage / ResponseMessage): no panic, no hang, input unchanged, same result twice, and whatever is accepted must be exactly what Wire.tla's parser reads inside the declared extents; non-trivial = inputs the wire format rejects",
        "exhaustive": True, "cases_replayed_against_impl": n, "samples": cases[10:12] + cases[-2:],
    }, assumptions=["binary decoder only in this check; XML / JSON malformed shapes are not yet covered by a specification (see DESIGN.md section 7)",
                    "Stream.Recv and the HTTP handler feed the same UnmarshalTTLV; they are exercised by the C07 / C08 drivers"])
