"""C03 - Binary encoder output conforms to the KMIP TTLV wire format (spec/Wire.tla)."""
from checks import wirecommon as wc


def run(ctx):
    cases = wc.tlc_modes(ctx, ["trees"])
    n = wc.replay(ctx, cases, ["c03:"])
    ctx.finish("model_checking", {
        "evaluations": n,
        "distinct_nontrivial": len([c for c in cases if c["kind"] == "nest" or c["tree"]["ty"] in (1, 4)]),
        "rule": "every generic TTLV tree enumerated by TLC from MCWire.tla (all ten item types x 4 tags x boundary values: every text/byte length 0..17, big-integer magnitudes around byte and 8-byte boundaries with both signs, extreme 32/64-bit patterns; structures of <= 3 children, depth <= 3; a text string under 8 / 31..34 / 64 structures) with its encoding computed by Wire.tla; the library's MarshalTTLV must produce exactly those bytes, UnmarshalTTLV of those bytes must give the tree, and the harness's independent parser must agree with Wire.tla; non-trivial = structures and big integers",
        "exhaustive": True, "cases_replayed_against_impl": n, "samples": cases[:1] + cases[500:502],
    }, assumptions=["Wire.tla is written from KMIP 1.4 section 9.1; values are boundary classes, not all 2^64 integers",
                    "scalar values inside real KMIP messages are compared by the C01 driver through the same independent parser"])
