"""C04 - XML and JSON encodings are interchangeable with binary TTLV (spec/TextForms.tla, spec/TraceTextForms.tla)."""
import copy, json, os, re
import xml.etree.ElementTree as ET
import vlib
from checks import textcommon as tc
from checks import shapes

REFENV = {"REF_FILE": os.path.join(vlib.SPEC, "ref", "registry.ref.json")}


def run(ctx):
    thorough = ctx.tier == "thorough"
    judge = tc.Judge()
    cov = {}
    part_items(ctx, judge, cov)
    part_messages(ctx, judge, cov)
    part_vectors(ctx, judge, cov, step=1 if thorough else 4)
    rows, bases, _ = shapes.replay(ctx, want_keeps="same", also_ops={"drop-node", "dup-node", "swap-with-next", "nest-under-previous"} | shapes.LENIENT_OPS)
    cov["alternative_notation_documents"] = shapes.judge_c04(ctx, rows, bases)
    cov["restructured_trees_compared_across_xml_and_json"] = shapes.judge_c04_cross(ctx, rows)
    cov["decorated_documents"] = shapes.judge_c04_lenient(ctx, rows, bases)
    rejected, npairs = judge.decide(ctx)
    for pair, wheres in rejected:
        a, b = pair["a"], pair["b"]
        sig = "pair:%s:%s" % (pair["ty"], json.dumps([a, b], sort_keys=True)[:120])
        ctx.violation(sig, "values that are not equivalent under TextForms!Equivalent: %s vs %s at %s (%d places)" % (json.dumps(a), json.dumps(b), wheres[0], len(wheres)), {"pair": pair, "where": wheres[:20]})
    cov["name_pairs_judged_by_tlc"] = npairs
    ctx.finish("model_checking", {
        "evaluations": cov["item_docs"] + cov["message_docs"] + cov["vector_messages"] + cov["variation_messages"],
        "distinct_nontrivial": cov["items"] + cov["messages"] + cov["vector_messages"],
        "rule": "(A) TLC checks the form invariants of TextForms.tla and enumerates every item case (type x value around each lexical boundary x registered / unregistered tag); each is written by the real typed "
                "Encoder in binary, XML and JSON; python's own XML and JSON parsers must accept the documents, element / member layout and the lexical form must match the specification's form "
                "(rendered with python integers), the library's decoding of each document and of every foreign form of the same value must re-encode to the same binary. "
                "(B) the XML, JSON and binary documents of every message of C01's message space are parsed independently and compared as trees (names against numbers are judged by TLC with the pinned registry). "
                "(C) every request / response of the OASIS vectors of supported operations is decoded and re-encoded; the vector's own XML tree, the re-encoded XML, JSON and binary trees must have the same "
                "elements in the same order with equivalent values; variations replace values by equivalent forms (hexadecimal enumerations and masks, other time zones) and text by markup / unicode classes. (D) the mutations of TextShapes.tla that keep a document a conformant notation of the same message (tag given in hexadecimal, members reordered, comments / processing instructions, character references, single-quoted attributes, XML declaration) must decode to the same binary",
        "exhaustive": True, **cov,
    }, assumptions=["text strings are covered by 20 classes, not all of Unicode; classes that XML 1.0 cannot carry (C0 controls, U+FFFE/U+FFFF) are exercised for JSON only",
                    "dates at the edges of years 1..9999 are written in UTC only",
                    "optional-element deletions of vectors are not generated (optional members are covered by the message space of part B)"])


# ---------------------------------------------------------------------------------------------- part A
def part_items(ctx, judge, cov):
    deep = "" if ctx.quick else "_deep"      # thorough: every enumeration of the registry
    ctx.tlc("TextForms", "TextForms_mc%s.cfg" % deep, workers=4, env=REFENV)
    g = ctx.tlc("TextForms", "TextForms_gen%s.cfg" % deep, workers=1, env=REFENV, count=False)
    cases = g.printed("CASE")
    if len(cases) < 1400:
        raise vlib.Inconclusive("too few TextForms cases: %d" % len(cases))
    items, meta = [], []
    for i, c in enumerate(cases):
        if c["part"] == "struct":
            items.append({"id": i, "tag": c["tag"]["tag"], "kind": "Struct", "shape": c["shape"]})
            meta.append((c, None))
            continue
        fields, pyval = tc.item_value(c)
        it = {"id": i, "tag": c["tag"]["tag"], "kind": c["kind"]}
        it.update(fields)
        it["foreign_xml"] = [tc.xml_doc(c["tag"], c["type"], tc.render_foreign("xml", c, f, pyval)) for f in c["xmlforeign"]] if c["xml"] else []
        it["foreign_json"] = [tc.json_doc(c["tag"], c["type"], tc.render_foreign("json", c, f, pyval)) for f in c["jsonforeign"]]
        items.append(it)
        meta.append((c, pyval))
    binary = ctx.build_driver("textforms")
    cpath, opath = os.path.join(ctx.work, "items.ndjson"), os.path.join(ctx.work, "items.out.ndjson")
    vlib.write_ndjson(cpath, items)
    rc, out = ctx.run_driver(binary, test_run="^TestItems$", env={"VERIF_CASES": cpath, "VERIF_OUT": opath})
    if rc != 0 or not os.path.exists(opath):
        raise vlib.Inconclusive("textforms driver failed rc=%s\n%s" % (rc, out[-3000:]))
    res = [r for r in vlib.read_ndjson(opath) if not r.get("summary")]
    if len(res) != len(items):
        raise vlib.Inconclusive("driver returned %d results for %d items" % (len(res), len(items)))
    ndocs = 0
    for r in res:
        c, pyval = meta[r["id"]]
        it = items[r["id"]]
        kind = it["kind"]
        desc = describe(c, pyval)

        def bad(what, detail):
            ctx.violation("item:%s:%s" % (kind if kind != "Struct" else "Struct", what), "%s: %s" % (desc, detail), {"item": it, "result": r, "case": c})
        if str(r.get("ttlv", "")).startswith("panic"):
            bad("binary-encode-panic", r["ttlv"])
            continue
        if r.get("ttlv_back") != r["ttlv"]:
            bad("binary-roundtrip", "binary decode/re-encode gives %s" % str(r.get("ttlv_back"))[:100])
        for enc in ("xml", "json"):
            if enc == "xml" and kind != "Struct" and not c["xml"]:
                continue        # not representable in XML 1.0: outside the property's premise
            ndocs += 1
            if enc + "_panic" in r:
                bad(enc + "-encode-panic", r[enc + "_panic"])
                continue
            doc = r[enc]
            try:
                tree = tc.parse_xml(doc) if enc == "xml" else tc.parse_json(doc)
            except tc.Malformed as ex:
                bad(enc + "-malformed", "%s; document: %s" % (ex, doc[:200]))
                continue
            # layout: naming of the element / member
            if tree["tag"] != it["tag"]:
                bad(enc + "-tag", "tag %s in the document" % hex(tree["tag"]))
            problem = naming_problem(enc, doc, c["tag"])
            if problem:
                bad(enc + "-naming", problem)
            if kind == "Struct":
                want = expected_shape(it["shape"])
                got = shape_of(tree)
                if got != want:
                    bad(enc + "-shape", "structure %s expected, document has %s" % (want, got))
            else:
                if tree["type"] != c["type"]:
                    bad(enc + "-type", "type %s expected, got %s" % (c["type"], tree["type"]))
                else:
                    why = tc.check_form(enc, c[enc][0], tree["raw"], pyval, c)
                    if why:
                        bad(enc + "-form:" + c[enc][0]["lex"], why)
            back = r.get(enc + "_back", "")
            if back != r["ttlv"]:
                bad(enc + "-decode:" + (c[enc][0]["lex"] if kind != "Struct" else "struct"), "the library decodes its own %s document to %s, binary of the original is %s; document: %s" % (enc.upper(), back[:120], r["ttlv"][:60], doc[:160]))
        for enc in ("xml", "json"):
            fdocs = it.get("foreign_" + enc, [])
            backs = r.get("foreign_%s_back" % enc) or []
            forms = c[enc + "foreign"] if kind != "Struct" else []
            for f, d, b in zip(forms, fdocs, backs):
                ndocs += 1
                if b != r["ttlv"]:
                    bad(enc + "-foreign:" + f["lex"], "document %s written elsewhere denotes the same value but decodes to %s" % (d[:160], b[:120]))
    cov["items"], cov["item_docs"] = len(items), ndocs
    byk = {}
    for c, _ in meta:
        k = c.get("kind", "Struct")
        byk[k] = byk.get(k, 0) + 1
    cov["items_by_kind"] = byk


def describe(c, pyval):
    if c["part"] == "struct":
        return "structure %s tag %s" % (c["shape"], hex(c["tag"]["tag"]))
    v = pyval
    if isinstance(v, str):
        v = "text class %s" % c["value"]
    elif isinstance(v, bytes):
        v = "bytes class %s" % c["value"]
    elif c["kind"] == "Bitmask":
        v = "%s bits %s" % (c["value"]["mname"], c["value"]["bits"] if len(c["value"]["bits"]) < 8 else "%d bits" % len(c["value"]["bits"]))
    elif c["kind"] == "Enumeration":
        v = "%s %s (%s)" % (c["value"]["ename"], pyval, c["value"]["name"] or "unregistered")
    elif c["kind"] == "DateTime":
        v = "instant %s zone %s" % (c["value"]["at"], c["value"]["zone"])
    return "%s %s, tag %s" % (c["kind"], v, "registered" if c["tag"]["registered"] else "unregistered")


def naming_problem(enc, doc, tagform):
    if enc == "xml":
        root = ET.fromstring(doc)
        if tagform["registered"]:
            return "" if root.tag == tagform["name"] and "tag" not in root.attrib else "element %s expected, got %s %s" % (tagform["name"], root.tag, root.attrib.get("tag"))
        return "" if root.tag == "TTLV" and root.attrib.get("tag", "").lower() == "0x%06x" % tagform["tag"] else "TTLV element with tag attribute expected, got %s %s" % (root.tag, root.attrib.get("tag"))
    o = json.loads(doc)
    want = tagform["name"] if tagform["registered"] else "0x%06x" % tagform["tag"]
    got = o.get("tag")
    return "" if isinstance(got, str) and (got == want or (not tagform["registered"] and got.lower() == want)) else "tag member %r expected, got %r" % (want, got)


def expected_shape(shape):
    m = {"L": "I", "S0": "()", "S1": "(T)", "S2": "((IB))"}
    return "(" + "".join(m[s] for s in shape) + ")"


def shape_of(node):
    if node["type"] == "Structure":
        return "(" + "".join(shape_of(k) for k in node["kids"]) + ")"
    return {"Integer": "I", "TextString": "T", "Boolean": "B"}.get(node["type"], "?")


# ---------------------------------------------------------------------------------------------- part B
def part_messages(ctx, judge, cov):
    binary = ctx.build_driver("plan")
    opath, dpath = os.path.join(ctx.work, "messages.out.ndjson"), os.path.join(ctx.work, "messages.docs.ndjson")
    rc, out = ctx.run_driver(binary, test_run="^TestMessages$", env={"VERIF_OUT": opath, "VERIF_DOCS": dpath}, timeout=1800)
    if rc != 0 or not os.path.exists(dpath):
        raise vlib.Inconclusive("plan driver (messages) failed rc=%s\n%s" % (rc, out[-3000:]))
    for x in vlib.read_ndjson(opath):
        if x.get("summary"):
            continue
        for p in x["problems"]:
            if p.startswith("xml:") or p.startswith("json:"):
                op = x["msg"].split("/")
                ctx.violation("message:%s:%s" % (op[0], ":".join(p.split(":")[:2])), "message %s: %s" % (x["msg"], p), x)
    docs = vlib.read_ndjson(dpath)
    if len(docs) < 500:
        raise vlib.Inconclusive("only %d message documents" % len(docs))
    n = 0
    for d in docs:
        op = d["msg"].split("/")[0]
        try:
            bt = tc.parse_ttlv(bytes.fromhex(d["ttlv"]))[0]
        except tc.Malformed as ex:
            raise vlib.Inconclusive("independent TTLV reader rejects %s: %s" % (d["msg"], ex))
        for enc in ("xml", "json"):
            n += 1
            try:
                t = tc.parse_xml(d[enc]) if enc == "xml" else tc.parse_json(d[enc])
            except tc.Malformed as ex:
                ctx.violation("message:%s:%s-malformed" % (op, enc), "message %s: %s" % (d["msg"], ex), {"msg": d["msg"], "doc": d[enc][:4000]})
                continue
            diffs = tc.compare(bt, t, judge, "%s[%s]" % (d["msg"], enc))
            if diffs:
                ctx.violation("message:%s:%s-tree:%s" % (op, enc, re.sub(r"[0-9a-f]{6,}|\d+", "#", diffs[0])[:80]), "message %s: %s document differs from the binary one: %s" % (d["msg"], enc.upper(), diffs[:3]),
                              {"msg": d["msg"], "diffs": diffs[:20], "doc": d[enc][:4000]})
    cov["messages"], cov["message_docs"] = len(docs), n


# ---------------------------------------------------------------------------------------------- part C
NOW_RE = re.compile(r'"\$NOW((\-|\+)\d+)?"')
VAR_RE = re.compile(r'"\$[A-Za-z0-9_]+"')


def load_vectors(step):
    root = os.path.join(vlib.REPO, "kmiptest", "testdata")
    src = open(os.path.join(vlib.REPO, "kmiptest", "oasis_tc.go")).read()
    m = re.search(r"UnsupportedTestCases = \[\]string\{(.*?)\n\}", src, re.S)
    unsupported = set(re.findall(r'"([^"]+)"', m.group(1))) if m else set()
    msgs, files, skipped = [], 0, 0
    for ver in sorted(os.listdir(root)):
        for fn in sorted(os.listdir(os.path.join(root, ver))):
            name = ver + "/" + fn
            if name in unsupported:
                skipped += 1
                continue
            files += 1
            data = open(os.path.join(root, ver, fn), encoding="utf-8").read()

            def now(mm):
                off = int(mm.group(1) or 0)
                return '"%s"' % tc.rfc3339(1790000000 + off, "Z")
            data = NOW_RE.sub(now, data)
            data = VAR_RE.sub('"DEADBEEFCAFE"', data)
            try:
                tree = ET.fromstring(data)
            except ET.ParseError as ex:
                raise vlib.Inconclusive("vector %s is not well-formed for python's parser: %s" % (name, ex))
            k = 0
            for el in tree:
                if el.tag not in ("RequestMessage", "ResponseMessage"):
                    continue
                k += 1
                msgs.append({"id": "%s#%d" % (name, k), "kind": el.tag, "el": el})
    total = len(msgs)
    if step > 1:
        msgs = [m_ for i, m_ in enumerate(msgs) if i % step == 0]
    return msgs, files, skipped, total


def el_to_xml(el):
    e = copy.deepcopy(el)
    e.tail = None
    return ET.tostring(e, encoding="unicode")


VAR_TEXT = ["markup", "quotes", "spaces", "tab-nl-cr", "bmp", "non-bmp", "combining", "line-separators", "ampersand-entities", "cdata-like", "del", "backslash"]


def variations(el, idx):
    """equivalent-form and value variations of one vector message -> list of (label, element)"""
    res = []
    leaves = [e for e in el.iter() if "value" in e.attrib]
    # equivalent forms: hexadecimal enumerations, hexadecimal masks, other time zone
    v = copy.deepcopy(el)
    changed = 0
    ctx_attr = None
    for e in v.iter():
        if e.tag == "AttributeName":
            ctx_attr = tc.attr_enum_tag(e.attrib.get("value"))
        t = e.attrib.get("type")
        etag = tc.TAG_NUM.get(e.tag)
        if e.tag == "AttributeValue":
            etag = ctx_attr
        if t == "Enumeration" and etag in tc.ENUMS and e.attrib["value"] in tc.ENUMS[etag]:
            e.attrib["value"] = "0x%08X" % tc.ENUMS[etag][e.attrib["value"]]
            changed += 1
        elif t == "Integer" and etag in tc.MASKS and not re.fullmatch(r"-?\d+|0x[0-9a-fA-F]+", e.attrib["value"]):
            bits = 0
            ok = True
            for p in e.attrib["value"].split():
                if p in tc.MASKS[etag]:
                    bits |= tc.MASKS[etag][p]
                else:
                    ok = False
            if ok:
                e.attrib["value"] = "0x%08X" % bits
                changed += 1
        elif t == "DateTime":
            ep = tc.parse_rfc3339(e.attrib["value"])
            if ep is not None:
                e.attrib["value"] = tc.rfc3339(ep, ["+02:00", "-11:00", "+05:45"][idx % 3])
                changed += 1
    if changed:
        res.append(("equivalent-forms", v))
    # text classes in free text fields
    texts = [i for i, e in enumerate(leaves) if e.attrib.get("type") == "TextString" and e.tag not in ("AttributeName",)]
    if texts:
        v = copy.deepcopy(el)
        vl = [e for e in v.iter() if "value" in e.attrib]
        k = texts[idx % len(texts)]
        cls = VAR_TEXT[idx % len(VAR_TEXT)]
        vl[k].attrib["value"] = tc.TEXT[cls]
        res.append(("text:" + cls, v))
    return res


def part_vectors(ctx, judge, cov, step):
    msgs, files, skipped, total = load_vectors(step)
    if total < 4800:
        raise vlib.Inconclusive("only %d vector messages found" % total)
    docs = []
    for i, m in enumerate(msgs):
        docs.append({"id": m["id"], "kind": m["kind"], "xml": el_to_xml(m["el"]), "_el": m["el"], "_var": ""})
        for label, v in variations(m["el"], i):
            docs.append({"id": m["id"] + "~" + label, "kind": m["kind"], "xml": el_to_xml(v), "_el": v, "_var": label})
    binary = ctx.build_driver("textforms")
    cpath, opath = os.path.join(ctx.work, "docs.ndjson"), os.path.join(ctx.work, "docs.out.ndjson")
    vlib.write_ndjson(cpath, [{k: v for k, v in d.items() if not k.startswith("_")} for d in docs])
    rc, out = ctx.run_driver(binary, test_run="^TestDocs$", env={"VERIF_CASES": cpath, "VERIF_OUT": opath}, timeout=1800)
    if rc != 0 or not os.path.exists(opath):
        raise vlib.Inconclusive("textforms driver (docs) failed rc=%s\n%s" % (rc, out[-3000:]))
    res = [r for r in vlib.read_ndjson(opath) if not r.get("summary")]
    if len(res) != len(docs):
        raise vlib.Inconclusive("driver returned %d results for %d documents" % (len(res), len(docs)))
    nvar = 0
    for d, r in zip(docs, res):
        var = d["_var"]
        nvar += 1 if var else 0
        kindsig = "vector" if not var else "variation:" + var.split(":")[0]
        fam = re.sub(r"[-_]?\d+([-_]\d+)*", "", d["id"].split("/")[1].split(".xml")[0])[:24]

        def bad(what, detail, extra=None):
            ctx.violation("%s:%s" % (kindsig, what), "%s: %s" % (d["id"], detail), {"id": d["id"], "xml": d["xml"][:6000], "result": {k: (v[:3000] if isinstance(v, str) else v) for k, v in r.items()}, **(extra or {})})
        if r["decode"] != "ok":
            bad("decode:" + re.sub(r"[0-9]+|\"[^\"]*\"", "#", r["decode"])[:70], "a conformant message is not decoded: %s" % r["decode"][:300])
            continue
        if "encode" in r:
            bad("encode-panic", r["encode"])
            continue
        try:
            vt = tc.norm_xml_elem(d["_el"])
        except tc.Malformed as ex:
            raise vlib.Inconclusive("vector %s: %s" % (d["id"], ex))
        for enc in ("xml", "json", "ttlv"):
            try:
                t = tc.parse_xml(r["xml"]) if enc == "xml" else tc.parse_json(r["json"]) if enc == "json" else tc.parse_ttlv(bytes.fromhex(r["ttlv"]))[0]
            except tc.Malformed as ex:
                bad(enc + "-malformed", str(ex))
                continue
            diffs = tc.compare(vt, t, judge, "%s[%s]" % (d["id"], enc))
            if diffs:
                bad("%s-tree:%s" % (enc, re.sub(r"[0-9a-f]{6,}|\d+", "#", diffs[0])[:90]), "re-encoded %s differs from the vector: %s" % (enc.upper(), diffs[:3]), {"diffs": diffs[:20]})
        for enc in ("xml", "json"):
            if r.get(enc + "_back") != "same":
                bad(enc + "-back", "decoding the re-encoded %s does not give the same binary: %s" % (enc.upper(), str(r.get(enc + "_back"))[:200]))
    cov["vector_files"], cov["vector_files_unsupported"], cov["vector_messages_total"] = files, skipped, total
    cov["vector_messages"], cov["variation_messages"] = len(docs) - nvar, nvar
