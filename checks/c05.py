"""C05 - Message elements are gated by the protocol version in the header (spec/Plan.tla Gating + pinned KMIP version table)."""
from checks import plancommon as pc


def run(ctx):
    d = pc.prepare(ctx)
    for inv in d["static"]:
        if inv in ("AnnotationsPinned", "SetVersionFirst", "Gating"):
            ctx.violation("plan:" + inv, "TLC: %s of Plan.tla is violated by the plan extracted from the code (version annotations differ from the pinned KMIP table spec/ref/versions.ref.json, or a gated field can be reached before the version register is set)" % inv, {"tlc": d["tlc_out"][-2500:]})
    gated = pc.gated_structs(d["plan"])
    pc.report(ctx, d, {"ttlv", "xml", "json"}, {"elements-differ", "later-elements-rejected-at-1.0", "later-elements-dropped-at-1.0", "encode-panic"}, only_structs=gated)
    for x in d["messages"]:
        for p in x["problems"]:
            if p.startswith("gating:") or (x["msg"].startswith(("after-discover/", "after-message/")) and p.startswith("panic:")):
                ctx.violation("message:%s:%s" % (p.split(":")[1], "/".join(x["msg"].split("/")[1:3])), "message %s: %s" % (x["msg"], p[:500]), x)
    ng = len([c for c in d["cases"] if c["struct"] in gated])
    ctx.finish("model_checking", {
        "evaluations": ng * 3,
        "distinct_nontrivial": len({(c["struct"], tuple(c["pop"]), c["ver"]) for c in d["cases"] if c["struct"] in gated and c["pop"] != c["visible"]}),
        "rule": "Plan.tla: FieldEmitted <=> populated and (no version register or vmin <= version); TLC checks Gating on every (structure, population, version in {none,1.0..1.4}) and that the extracted annotations equal the pinned table (60 gated fields) and that the set-version field comes first; every case of the %d structures with gated members is encoded by the real encoder under a header of that version in binary, XML and JSON, the emitted element names are read by independent parsers (refwire, encoding/xml, encoding/json) and compared with EncTags; for 1.4 encodings the same bytes re-labelled 1.0 must still decode with every later-version element; every fully populated payload (26 operations x 2 directions x 5 versions) is also encoded as the second item of a batch whose first item is a Discover Versions payload listing other versions - its elements must be those of the payload encoded alone (binary, and through XML / JSON); and every message is written right after a message of each other version on the same encoder (without Clear, and on a pooled encoder recycled with Clear() between the messages, back and forth): its bytes must be those of a fresh encoding; non-trivial = cases where gating removes something" % len(gated),
        "cases_replayed_against_impl": ng, "samples": [c for c in d["cases"] if c["struct"] in gated and c["pop"] != c["visible"]][:3],
    }, assumptions=["the pinned version table is the tree's own annotation set reviewed against DESIGN.md Appendix A",
                    "gated members of structures with hand-written decoders (key block, attribute) are exercised through whole messages (C01)"])
