"""C06 - Payloads, objects and attributes decode to their registered types (spec/Dispatch.tla)."""
import json, os
import vlib


def run(ctx):
    binary = ctx.build_driver("plan")
    plan = os.path.join(ctx.work, "plan.json")
    rc, out = ctx.run_driver(binary, test_run="^TestExtract$", env={"VERIF_OUT": plan})
    if rc != 0 or not os.path.exists(plan):
        raise vlib.Inconclusive("table extraction failed rc=%s\n%s" % (rc, out[-2000:]))
    ref = os.path.join(vlib.SPEC, "ref", "dispatch.ref.json")
    env = {"PLAN_FILE": plan, "DISPATCH_FILE": ref}
    r = ctx.tlc("Dispatch", "Dispatch_mc.cfg", workers=4, env=env, must_pass=False)
    if not r.ok:
        if "TablesOK" in r.violated:
            live, pinned = json.load(open(plan)), json.load(open(ref))
            n = 0
            for name, types in sorted(live["operations"].items()):
                pin = [p for p in pinned["operations"] if p[0] == name]
                if not pin or pin[0][1:] != types:
                    n += 1
                    ctx.violation("table:operation:" + name, "operation %s: pinned payload types %s, library registers %s" % (name, pin[0][1:] if pin else None, types), {})
            for p in pinned["operations"]:
                if p[0] not in live["operations"]:
                    n += 1
                    ctx.violation("table:operation:" + p[0], "operation %s is no longer registered" % p[0], {})
            for key in ("objects", "attributes"):
                pm = {p[0]: p[1] for p in pinned[key]}
                for name in sorted(set(pm) | set(live[key])):
                    if pm.get(name) != live[key].get(name):
                        n += 1
                        ctx.violation("table:%s:%s" % (key, name), "%s %s: pinned type %s, library has %s" % (key, name, pm.get(name), live[key].get(name)), {})
            if n == 0:
                ctx.violation("table:classes", "TLC: the operation classes do not partition the Operation enumeration", {"tlc": r.out[-1500:]})
        else:
            raise vlib.Inconclusive("TLC failed on Dispatch.tla:\n" + r.out[-3000:])
    g = ctx.tlc("Dispatch", "Dispatch_gen.cfg", workers=2, env={"PLAN_FILE": plan, "DISPATCH_FILE": ref}, count=False, must_pass=False)
    cases = g.printed("CASE")
    if len(cases) < 500:
        raise vlib.Inconclusive("too few dispatch cases: %d" % len(cases))
    cpath = os.path.join(ctx.work, "dispatch_cases.ndjson")
    vlib.write_ndjson(cpath, cases)
    opath = os.path.join(ctx.work, "dispatch_results.ndjson")
    rc, out = ctx.run_driver(binary, test_run="^TestDispatch$", env={"VERIF_CASES": cpath, "VERIF_OUT": opath, "VERIF_DISPATCH": ref})
    if rc != 0 or not os.path.exists(opath):
        raise vlib.Inconclusive("dispatch driver failed rc=%s\n%s" % (rc, out[-3000:]))
    res = vlib.read_ndjson(opath)
    summ = [x for x in res if x.get("summary")]
    if not summ or summ[0]["cases"] != len(cases):
        raise vlib.Inconclusive("driver replayed %s, TLC generated %d" % (summ, len(cases)))
    for x in res:
        if x.get("summary"):
            continue
        c = x["c"]
        for p in x["problems"]:
            if p.startswith("harness:") or p.startswith("drift:"):
                raise vlib.Inconclusive("harness / model drift on case %s: %s" % (c, p))
            sig = "%s:%s:%s:%s" % (c["kind"], c["expect"], c["enc"], p.split(":")[0])
            ctx.violation(sig, "%s code=0x%08X name=%r direction=%s encoding=%s expected %s: %s" % (c["kind"], c["code"], c["name"], c["dir"], c["enc"], c["expect"], p[:500]), x)
    ctx.finish("model_checking", {
        "evaluations": len(cases),
        "distinct_nontrivial": len([c for c in cases if c["expect"] != "typed"]),
        "object_source_rule": "where the type of a carried object comes from: carrier in {Get response, Register request, Export response, Import request} x Object Type field x Object Type attribute x type of the object present; the field governs where there is one (an attribute next to it never overrides it), the attribute for Import; accepted only if the governing type is registered and the object present has it",
        "rule": "Dispatch.tla: the live dispatch tables (verif export) must equal the pinned ones (27 operations x 2 directions, 9 object types, 50 attributes) and the operation classes must partition the Operation enumeration (TLC); cases = every enumerated operation code (27 implemented, 16 named but unimplemented) and codes outside the enumeration x request/response x {TTLV, XML, JSON}; every object type and unknown object types; every standard attribute with a value of its pinned type, custom / arbitrary / empty names x the ten TTLV value types, and standard names in another letter case; messages are assembled with the independent encoder and decoded by the library: Go type and Operation()/ObjectType() of the result, byte-identical re-encoding of opaque payloads and attributes, error for unknown object types; non-trivial = opaque and error cases; %d typed attribute cases skipped because the harness could not build a value of the pinned type" % summ[0].get("skipped", 0),
        "exhaustive": True, "samples": cases[:2] + [c for c in cases if c["expect"] == "error"][:1],
    }, assumptions=["the pinned tables are a snapshot of this tree", "XML / JSON documents are produced from the binary message through the library's generic (untyped) value"])
