"""C07 - Stream framing is independent of how the transport chunks bytes (spec/Framing.tla)."""
import json, os, re
import vlib


def run(ctx):
    for cfg in ("Framing_small.cfg", "Framing_big.cfg"):
        r = ctx.tlc("MCFraming", cfg, coverage=not ctx.quick)
        if not ctx.quick:
            z = [a for a in r.coverage_zero() if a in ("RecvStart", "ReadEOF", "ReadChunk")]
            if z:
                raise vlib.Inconclusive("vacuous model: %s" % z)
    binary = ctx.build_driver("framing")
    tpath = os.path.join(ctx.work, "trace.ndjson")
    rc, out = ctx.run_driver(binary, test_run="^TestTrace$", env={"VERIF_TRACE": tpath}, ok_rc=(0, 3))
    if rc == 3 and os.path.exists(tpath + ".hang"):
        # Recv did not return for this stream although the transport had answered every read (the driver's watchdog ended the process)
        h = vlib.read_ndjson(tpath + ".hang")[0]
        ctx.violation("recv:does-not-return", "Recv neither returns a message nor an error within 20 s for the stream %s (chunk plan mode %s/%s): the receiver spins or waits although the transport answers every read" % (
            json.dumps({k: h[k] for k in ("A", "trunc", "max", "bad")}), h["mode"], h["fixed"]), h)
        ctx.finish("model_checking", {"evaluations": 1, "distinct_nontrivial": 1, "rule": "the run ended at the first stream for which Recv did not return", "samples": [h]},
                   assumptions=["incomplete run: the streams after the one that hangs were not replayed"])
        return
    if rc != 0 or not os.path.exists(tpath):
        raise vlib.Inconclusive("framing driver failed rc=%s\n%s" % (rc, out[-3000:]))
    log = vlib.read_ndjson(tpath)
    # TLC ints are 32 bit: announced lengths >= 2^31 are represented by 2^30 (any length above every limit behaves alike)
    for x in log:
        if x["ev"] == "reset":
            x["A"] = [a if a < (1 << 30) else (1 << 30) for a in x["A"]]
    vlib.write_ndjson(tpath, log)
    runs = [k for k, x in enumerate(log) if x["ev"] == "reset"]
    nreads = len([x for x in log if x["ev"] == "read"])
    for x in log:
        if x["ev"] == "recv" and x.get("res") == "panic":
            ctx.violation("panic:%s" % x["sig"], "Recv panicked: %s" % x, x)
    t = ctx.tlc("TraceFraming", "Framing_trace.cfg", workers=1, env={"TRACE_FILE": tpath}, must_pass=False, count=False, label="trace")
    if t.ok:
        ctx.traces_validated += len(runs)
    else:
        m = re.search(r"REJECTED_AT\D+(\d+)", t.out)
        if not (m or t.violated):
            raise vlib.Inconclusive("trace validation failed:\n" + t.out[-3000:])
        pos = int(m.group(1)) if m else len(log)
        k = max(r for r in runs if r < pos)
        run_ev = log[k:pos]
        bad = log[pos - 1] if pos <= len(log) else None
        if t.violated:
            sig = "trace:invariant:" + "+".join(t.violated)
        elif bad["ev"] == "read":
            sig = "trace:read-request-differs"
        else:
            sig = "trace:recv:%s" % (bad.get("res") + (":" + bad.get("kind", "") if bad.get("res") == "err" else ""))
        ctx.violation(sig, "TLC rejects the recorded run at event #%d %s; run so far: %s" % (pos, json.dumps(bad), json.dumps(run_ev)[:1800]),
                      {"events": run_ev, "tlc_tail": t.out[-1500:]})
    ctx.finish("model_checking", {
        "evaluations": len(runs),
        "distinct_nontrivial": len({json.dumps([log[k]["A"], log[k]["trunc"], log[k]["max"]]) for k in runs if len(log[k]["A"]) >= 1}),
        "rule": "a run = one stream (message lengths, truncation offset, limit) received under one chunk plan by the real ttlv.Stream over the instrumented transport, validated by TLC; distinct = distinct (lengths, truncation, limit) with >= 1 message; %d Read calls checked against the model's requested byte count" % nreads,
        "read_calls_validated": nreads,
        "samples": log[runs[len(runs) // 2]: runs[len(runs) // 2] + 8],
    }, assumptions=["transports that return (0, nil) are not modelled", "allocation is judged by the TotalAlloc delta of the call (large = above 2 x limit + 256 KiB)",
                    "announced lengths >= 2^31 are abstracted to 2^30 in the model (TLC integers are 32 bit)"])
