"""C08 - Server stays available whatever clients and handlers do (spec/Server.tla, TraceServer.tla)."""
import json, os
import vlib
from checks import servercommon as sc

TRAPS = ["TrapSendAfterSwap", "TrapReportToGoneSender", "TrapOfferAfterCancel", "TrapInvalidReplyClientGone",
         "TrapWriteAfterClientClose", "TrapWaitDuringTeardown", "TrapDoubleTerminate"]


def churn(ctx):
    """Real parallelism: free-running clients against a real server on all cores (spec/Churn.tla), plain and under the race detector."""
    import re
    ctx.tlc("Churn", "Churn_mc.cfg", workers=4)
    info = {}
    for race in (False, True):
        binary = ctx.build_driver("server", race=race)
        tag = "race" if race else "plain"
        tpath, opath = os.path.join(ctx.work, "churn_%s.ndjson" % tag), os.path.join(ctx.work, "churn_%s_out.ndjson" % tag)
        rounds = (8 if race else 20) if ctx.quick else (60 if race else 300)
        rc, out = ctx.run_driver(binary, test_run="^TestChurn$", env={"VERIF_CHURN_TRACE": tpath, "VERIF_OUT": opath, "VERIF_CHURN_ROUNDS": rounds,
                                                                      "GORACE": "halt_on_error=0 exitcode=0"}, timeout=1500, ok_rc=(0, 1, 2, 66))
        fatal = re.search(r"^fatal error: (.*)$", out, re.M) or re.search(r"^panic: (.*)$", out, re.M)
        if fatal:
            frames = [l.strip() for l in out.splitlines() if "github.com/ovh/kmip-go/kmipserver." in l]
            ctx.violation("churn:process-died:" + fatal.group(1)[:60], "the server process died under connection churn (%s): %s; first library frame: %s" % (tag, fatal.group(0), frames[:1]), {"output": out[-3000:]})
            continue
        if race and "WARNING: DATA RACE" in out:
            blocks = out.split("WARNING: DATA RACE")[1:]
            # a report counts when one of the two racing accesses is itself in library code (the frame right under "Read at" /
            # "Write at" / "Previous ... at"), not when library code merely calls into the harness
            def racing_frames(b):
                ls = b.split("==================")[0].splitlines()
                return [ls[i + 1].strip() for i, l in enumerate(ls[:-1]) if re.match(r"\s*(Previous )?(read|write|Read|Write|atomic read|atomic write).* at 0x", l)]
            libs = [b for b in blocks if any(f.startswith("github.com/ovh/kmip-go/") for f in racing_frames(b))]
            if libs:
                fr = next(f for f in racing_frames(libs[0]) if f.startswith("github.com/ovh/kmip-go/"))
                fr = re.match(r"github\.com/ovh/kmip-go/[\w./()*]+", fr)
                ctx.violation("churn:data-race:" + (fr.group(0) if fr else "?"), "the race detector reports unsynchronised access in library code under connection churn: %s" % libs[0][:1500], {"report": libs[0][:4000]})
                continue
        if rc != 0 or not os.path.exists(opath):
            raise vlib.Inconclusive("churn driver failed (%s) rc=%s\n%s" % (tag, rc, out[-2000:]))
        res = [x for x in vlib.read_ndjson(opath) if x.get("summary")]
        if not res:
            raise vlib.Inconclusive("churn driver wrote no summary (%s)" % tag)
        for prob in res[0]["problems"] or []:
            ctx.violation("churn:" + prob.split(":")[0].split(" ")[0], "free-running clients (%s): %s" % (tag, prob), {"problem": prob})
        log = vlib.read_ndjson(tpath)
        t = ctx.tlc("TraceChurn", "Churn_trace.cfg", workers=1, env={"TRACE_FILE": tpath}, must_pass=False, count=False, label="churn_" + tag)
        if not t.ok:
            m = re.search(r"REJECTED_AT\D+(\d+)", t.out)
            if not m:
                raise vlib.Inconclusive("churn trace validation failed:\n" + t.out[-2000:])
            pos = int(m.group(1))
            ctx.violation("churn:trace-rejected:" + str(log[pos - 1].get("ev")), "Churn.tla does not explain event %d of the recorded run (%s): %s after %s" % (
                pos, tag, json.dumps(log[pos - 1]), json.dumps([x for x in log[max(0, pos - 200):pos - 1] if x.get("c") == log[pos - 1].get("c")][-8:])), {"event": log[pos - 1]})
        else:
            ctx.traces_validated += len([x for x in log if x["ev"] == "connect"])
        info[tag] = {"rounds": res[0]["rounds"], "workers": res[0]["workers"], "events": len(log)}
    return info


def run(ctx):
    churn_info = churn(ctx)
    ctx.tlc("Server", "Server_c1.cfg" if not ctx.quick else "Server_c1q.cfg", coverage=not ctx.quick)
    ctx.tlc("Server", "Server_live.cfg" if not ctx.quick else "Server_liveq.cfg")
    seeds = [ctx.seed] if ctx.quick else [ctx.seed * 10 + i for i in range(6)]
    scheds, missing = sc.trap_schedules(ctx, "Server_trap08.cfg", TRAPS, seeds)
    if missing:
        ctx.note("trap windows not reached by TLC simulation: %s" % [(t, s) for t, s, _ in missing])
    if len(scheds) < len(TRAPS) * len(seeds) * 0.7:
        raise vlib.Inconclusive("too few trap schedules generated: %d" % len(scheds))
    spath = os.path.join(ctx.work, "schedules.ndjson")
    vlib.write_ndjson(spath, scheds)
    binary = ctx.build_driver("server")
    log, panics = sc.run_driver_with_restart(ctx, binary, {"VERIF_SCHEDULES": spath, "VERIF_NRANDOM": 400 if ctx.quick else 6000, "VERIF_SHUTDOWN": 0}, "c08")
    for p in panics:
        ctx.violation("panic:%s:%s" % (p["top"], p["msg"]), "the server process crashed in run %s: %s (top library frame %s); last events: %s" % (
            p["run"], p["msg"], p["top"], json.dumps(p["events"])[:1500]), p)
    nruns, accepted, drift = sc.validate(ctx, log, {"responses", "hooks"})
    if drift and not ctx.viol:
        raise vlib.Inconclusive("model drift: %d recorded run(s) are not behaviours of Server.tla although no property-level anomaly was observed; first: run %s at event %s after %s" % (
            len(drift), drift[0][0], json.dumps(drift[0][1]), json.dumps(drift[0][2])[:1200]))
    ntls, tls_steps = sc.tls_front(ctx, binary)
    # the HTTP transport (kmipserver/http.go): every document shape of TextShapes.tla posted to the handler
    from checks import shapes
    rows, _, _ = shapes.replay(ctx)
    nhttp = shapes.judge_c08(ctx, rows)
    runs = sc.split_runs(log)
    div = sum(r[-1].get("diverged", 0) for r in runs if r[-1]["ev"] == "end")
    ctx.finish("model_checking", {
        "evaluations": nruns + len(panics),
        "distinct_nontrivial": len({json.dumps([[x.get("p"), x.get("g"), x.get("act"), x.get("kind")] for x in r if x["ev"] in ("rel", "env")]) for r in runs}),
        "rule": "a run = one controlled execution of the real kmipserver over in-memory connections (gate controller releases one goroutine or performs one client action at a time); %d runs start from TLC-generated schedules into the critical windows (%s), the rest are seeded random walks of the controller; distinct = distinct release/environment sequences; every run is validated event by event by TLC against TraceServer.tla and judged by the property-level oracle (panic, leaked goroutine, response order/duplication/completeness, invalid-message reply)" % (len(scheds), ", ".join(TRAPS)),
        "tls_histories": ntls, "tls_steps": tls_steps,
        "tls_rule": "TlsAccept.tla: every history of 5 (quick) / 7 (thorough) steps of three clients of kinds silent / abort (partial ClientHello, close) / full (handshake, request, close) is replayed against a real server behind crypto/tls over the in-memory network in a synctest bubble; after every step the bubble runs to quiescence: a handshake step must complete and a request step must be answered whatever the other clients are doing; at the end Shutdown returns, Serve returns, hooks pair, no goroutine runs server code",
        "churn": churn_info,
        "churn_rule": "real parallelism (no controller): 4 x GOMAXPROCS clients per round connect, send 1..3 requests (some to a panicking handler), read the responses and disconnect (one in five without reading the last response) against a real server over the in-memory listener, then Shutdown; the process must survive, every request read for is answered with its own response, hooks pair, no goroutine runs server code afterwards; the event log is validated by TLC against Churn.tla; the same run under the race detector must report no unsynchronised access in library code",
        "http_requests": nhttp,
        "http_rule": "every XML / JSON request document enumerated by TLC from TextShapes.tla (well-formed, alternative notations and ~110 malformations per node) is posted to kmipserver.NewHTTPHandler: ServeHTTP must return, with status 200 and exactly one response message of one item, failed when the request cannot be decoded",
        "trap_schedules": len(scheds), "schedule_commands_diverged": div, "events_validated": len(log),
        "samples": [scheds[0]] + runs[len(runs) // 2][:25],
    }, assumptions=["controlled runs are sequences of macro-steps (one shared-memory operation per release); the equivalence of free-running executions to such sequences rests on the linearizability of Go's channels, atomics and contexts",
                    "handlers are reached through BatchExecutor (operation handler outcomes ok / typed error / plain error, also of unhashable dynamic type (slice, wrapped struct with a slice field) / panic with string, error, int, runtime error, Stringer, unhashable error value)",
                    "in-memory transport: writes never block; the gate-level runs are TLS-less, the TLS handshake branch is covered by the TlsAccept histories (free-running goroutines, quiescence after every step)"])
