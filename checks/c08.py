"""C08 - Server stays available whatever clients and handlers do (spec/Server.tla, TraceServer.tla)."""
import json, os
import vlib
from checks import servercommon as sc

TRAPS = ["TrapSendAfterSwap", "TrapReportToGoneSender", "TrapOfferAfterCancel", "TrapInvalidReplyClientGone",
         "TrapWriteAfterClientClose", "TrapWaitDuringTeardown", "TrapDoubleTerminate"]


def run(ctx):
    ctx.tlc("Server", "Server_c1.cfg" if not ctx.quick else "Server_c1q.cfg", coverage=not ctx.quick)
    ctx.tlc("Server", "Server_live.cfg" if not ctx.quick else "Server_liveq.cfg")
    seeds = [ctx.seed] if ctx.quick else [ctx.seed * 10 + i for i in range(6)]
    scheds, missing = sc.trap_schedules(ctx, "Server_trap08.cfg", TRAPS, seeds)
    if missing:
        ctx.note("trap windows not reached by TLC simulation: %s" % [(t, s) for t, s, _ in missing])
    if len(scheds) < len(TRAPS) * len(seeds) * 0.7:
        raise vlib.Inconclusive("too few trap schedules generated: %d" % len(scheds))
    spath = os.path.join(ctx.work, "schedules.ndjson")
    vlib.write_ndjson(spath, scheds)
    binary = ctx.build_driver("server")
    log, panics = sc.run_driver_with_restart(ctx, binary, {"VERIF_SCHEDULES": spath, "VERIF_NRANDOM": 400 if ctx.quick else 6000, "VERIF_SHUTDOWN": 0}, "c08")
    for p in panics:
        ctx.violation("panic:%s:%s" % (p["top"], p["msg"]), "the server process crashed in run %s: %s (top library frame %s); last events: %s" % (
            p["run"], p["msg"], p["top"], json.dumps(p["events"])[:1500]), p)
    nruns, accepted, drift = sc.validate(ctx, log, {"responses", "hooks"})
    if drift and not ctx.viol:
        raise vlib.Inconclusive("model drift: %d recorded run(s) are not behaviours of Server.tla although no property-level anomaly was observed; first: run %s at event %s after %s" % (
            len(drift), drift[0][0], json.dumps(drift[0][1]), json.dumps(drift[0][2])[:1200]))
    ntls, tls_steps = sc.tls_front(ctx, binary)
    # the HTTP transport (kmipserver/http.go): every document shape of TextShapes.tla posted to the handler
    from checks import shapes
    rows, _, _ = shapes.replay(ctx)
    nhttp = shapes.judge_c08(ctx, rows)
    runs = sc.split_runs(log)
    div = sum(r[-1].get("diverged", 0) for r in runs if r[-1]["ev"] == "end")
    ctx.finish("model_checking", {
        "evaluations": nruns + len(panics),
        "distinct_nontrivial": len({json.dumps([[x.get("p"), x.get("g"), x.get("act"), x.get("kind")] for x in r if x["ev"] in ("rel", "env")]) for r in runs}),
        "rule": "a run = one controlled execution of the real kmipserver over in-memory connections (gate controller releases one goroutine or performs one client action at a time); %d runs start from TLC-generated schedules into the critical windows (%s), the rest are seeded random walks of the controller; distinct = distinct release/environment sequences; every run is validated event by event by TLC against TraceServer.tla and judged by the property-level oracle (panic, leaked goroutine, response order/duplication/completeness, invalid-message reply)" % (len(scheds), ", ".join(TRAPS)),
        "tls_histories": ntls, "tls_steps": tls_steps,
        "tls_rule": "TlsAccept.tla: every history of 5 (quick) / 7 (thorough) steps of three clients of kinds silent / abort (partial ClientHello, close) / full (handshake, request, close) is replayed against a real server behind crypto/tls over the in-memory network in a synctest bubble; after every step the bubble runs to quiescence: a handshake step must complete and a request step must be answered whatever the other clients are doing; at the end Shutdown returns, Serve returns, hooks pair, no goroutine runs server code",
        "http_requests": nhttp,
        "http_rule": "every XML / JSON request document enumerated by TLC from TextShapes.tla (well-formed, alternative notations and ~110 malformations per node) is posted to kmipserver.NewHTTPHandler: ServeHTTP must return, with status 200 and exactly one response message of one item, failed when the request cannot be decoded",
        "trap_schedules": len(scheds), "schedule_commands_diverged": div, "events_validated": len(log),
        "samples": [scheds[0]] + runs[len(runs) // 2][:25],
    }, assumptions=["controlled runs are sequences of macro-steps (one shared-memory operation per release); the equivalence of free-running executions to such sequences rests on the linearizability of Go's channels, atomics and contexts",
                    "handlers are reached through BatchExecutor (operation handler outcomes ok / typed error / plain error / panic with string, error, int, runtime error, Stringer)",
                    "in-memory transport: writes never block; the gate-level runs are TLS-less, the TLS handshake branch is covered by the TlsAccept histories (free-running goroutines, quiescence after every step)"])
