"""C09 - Server batch execution follows KMIP batch semantics (spec/Batch.tla)."""
from checks import batchcommon as bc


def run(ctx):
    n = 3 if ctx.quick else 4
    bc.exhaustive(ctx, ["Batch_mc%d.cfg" % n])
    binary = ctx.build_driver("batch")
    cases, nviol = bc.replay_cases(ctx, "Batch_gen%d.cfg" % n, binary, focus={"called", "resp", "hdr", "panic"})
    # the same with an application's item middleware that retries a failed item once (outcome retriedSuccess)
    bc.replay_cases(ctx, "Batch_gen_retry.cfg", binary, focus={"called", "resp", "hdr", "panic"}, env={"VERIF_RETRY": 1})
    env = {"VERIF_NSEQ": 1500 if ctx.quick else 20000, "VERIF_NCONN": 300 if ctx.quick else 3000, "VERIF_G": 4, "VERIF_K": 50 if ctx.quick else 500,
           "VERIF_MAXITEMS": 12 if ctx.quick else 24}
    log, nreq = bc.record_and_validate(ctx, binary, env, "long")
    distinct = len({str(c["req"]) for c in cases})
    ctx.finish("model_checking", {
        "evaluations": len(cases) + nreq,
        "distinct_nontrivial": distinct,
        "rule": "every request shape (option x version x count x per-item outcome x hasId, <= %d items) enumerated by TLC from Batch.tla is one case; distinct = distinct request descriptors; plus %d random longer batches validated as traces" % (n, nreq),
        "exhaustive": True,
        "cases_replayed_against_impl": len(cases),
        "samples": cases[:2] + cases[len(cases) // 2: len(cases) // 2 + 1] + log[:6],
    }, assumptions=["handler outcomes are realised by scripted handlers of the harness", "result messages (free text) are not compared"])
