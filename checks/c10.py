"""C10 - A client call only ever receives the response to its own request (spec/ClientConn.tla)."""
import json, os
import vlib
from checks import servercommon as sc
from checks import clientcommon as cc

TRAPS = ["TrapCancelBetween", "TrapLateResponse", "TrapCancelInRecv", "TrapCancelAtOffer"]
WANT = {"misdelivery", "hang", "leak", "errors"}


def free_callers(ctx):
    """Real parallelism: many goroutines call one client through Roundtrip / Request / Batch at the same time (spec/FreeCalls.tla)."""
    import re
    ctx.tlc("FreeCalls", "FreeCalls_mc.cfg", workers=4)
    info = {}
    for race in (False, True):
        binary = ctx.build_driver("client", race=race)
        tag = "race" if race else "plain"
        tpath, opath = os.path.join(ctx.work, "free_%s.ndjson" % tag), os.path.join(ctx.work, "free_%s_out.ndjson" % tag)
        rounds = (20 if race else 60) if ctx.quick else (150 if race else 600)
        rc, out = ctx.run_driver(binary, test_run="^TestFreeCallers$", env={"VERIF_FREE_TRACE": tpath, "VERIF_OUT": opath, "VERIF_FREE_ROUNDS": rounds,
                                                                           "GORACE": "halt_on_error=0 exitcode=0"}, timeout=1500, ok_rc=(0, 1, 2, 66))
        fatal = re.search(r"^fatal error: (.*)$", out, re.M) or re.search(r"^panic: (.*)$", out, re.M)
        if fatal:
            ctx.violation("free:process-died:" + fatal.group(1)[:60], "the client process died under concurrent callers (%s): %s" % (tag, fatal.group(0)), {"output": out[-3000:]})
            continue
        if race and "WARNING: DATA RACE" in out:
            def racing_frames(b):
                ls = b.split("==================")[0].splitlines()
                return [ls[i + 1].strip() for i, l in enumerate(ls[:-1]) if re.match(r"\s*(Previous )?(read|write|Read|Write|atomic read|atomic write).* at 0x", l)]
            libs = [b for b in out.split("WARNING: DATA RACE")[1:] if any(f.startswith("github.com/ovh/kmip-go/") for f in racing_frames(b))]
            if libs:
                fr = next(f for f in racing_frames(libs[0]) if f.startswith("github.com/ovh/kmip-go/"))
                ctx.violation("free:data-race:" + fr.split("(")[0] + fr[len(fr.split("(")[0]):].split()[0][:40], "the race detector reports unsynchronised access in library code under concurrent callers: %s" % libs[0][:1500], {"report": libs[0][:4000]})
                continue
        if rc != 0 or not os.path.exists(opath):
            raise vlib.Inconclusive("free-callers driver failed (%s) rc=%s\n%s" % (tag, rc, out[-2000:]))
        log = vlib.read_ndjson(tpath)
        ncall = len([x for x in log if x["ev"] == "call"])
        summ = [x for x in vlib.read_ndjson(opath) if x.get("summary")]
        if not summ or ncall != summ[0]["workers"] * summ[0]["rounds"]:
            raise vlib.Inconclusive("free-callers driver logged %d calls, summary %s" % (ncall, summ))
        cfg = os.path.join(ctx.work, "spec", "FreeCalls_trace_%s.cfg" % tag)
        open(cfg, "w").write("SPECIFICATION TraceSpec\nCONSTANTS\n  Callers = {%s}\n  Ids = {%s}\nCONSTRAINT HighWater\nPOSTCONDITION TraceAccepted\nCHECK_DEADLOCK FALSE\n" % (
            ", ".join(str(k) for k in range(1, summ[0]["workers"] + 1)), ", ".join(str(i) for i in range(1, ncall + 1))))
        t = ctx.tlc("TraceFreeCalls", os.path.basename(cfg), workers=1, env={"TRACE_FILE": tpath}, must_pass=False, count=False, label="free_" + tag)
        if not t.ok:
            m = re.search(r"REJECTED_AT\D+(\d+)", t.out)
            if not m:
                raise vlib.Inconclusive("free-callers trace validation failed:\n" + t.out[-2000:])
            pos = int(m.group(1))
            ev = log[pos - 1]
            mine = [x for x in log[:pos - 1] if x.get("k") == ev.get("k")][-1:]
            if ev["ev"] == "ret" and ev["outcome"] == "resp":
                ctx.violation("free:misdelivery", "concurrent callers (%s): call %s of goroutine %s returned the response to request %s (api %s)" % (
                    tag, mine[0]["id"] if mine else "?", ev["k"], ev["id"], mine[0].get("api") if mine else "?"), {"event": ev, "call": mine})
            else:
                raise vlib.Inconclusive("free-callers trace rejected at %s" % json.dumps(ev))
        else:
            ctx.traces_validated += ncall
        info[tag] = {"callers": summ[0]["workers"], "calls": ncall, "errors": len([x for x in log if x["ev"] == "ret" and x["outcome"] == "err"])}
    ctx.extra_cov = dict(getattr(ctx, "extra_cov", {}), free_callers=info,
                         free_rule="real parallelism (no controller): 4 x GOMAXPROCS goroutines call one client at the same time through Roundtrip / Request / Batch against an in-memory server answering every request with its own id; every call returns its own id or an error (validated by TLC against FreeCalls.tla); the same run under the race detector reports no unsynchronised access in library code")


def run(ctx, pid="C10", traps=TRAPS, want=WANT, cfgs=("Client_c10q.cfg", "Client_c10.cfg"), with_close=0, extra=None):
    if pid == "C10":
        free_callers(ctx)
        from checks import c11
        c11.exchange_faults(ctx, only=("wrong-response",))      # the fault plans of ExchangeFaults.tla: no exchange returns a foreign response
    ctx.tlc("ClientConn", cfgs[0] if ctx.quick else cfgs[1], coverage=not ctx.quick)
    seeds = [ctx.seed, ctx.seed + 100] if ctx.quick else [ctx.seed * 10 + i for i in range(8)]
    scheds, missing = sc.trap_schedules(ctx, "Client_trap.cfg", traps, seeds, mode="sim", module="MCClient", compiler=cc.schedule_from_states, depth=120)
    if pid == "C10":
        # the two windows a random simulation rarely enters are found breadth-first in the fault-free configuration
        missing = [m for m in missing if m[0] not in ("TrapCancelInRecv", "TrapCancelAtOffer")]
        s3, m3 = sc.trap_schedules(ctx, "Client_trap10.cfg", ["TrapCancelInRecv", "TrapCancelAtOffer"], [0], mode="bfs", module="MCClient", compiler=cc.schedule_from_states)
        scheds += s3
        missing += m3
    if extra:
        s2, m2 = extra(ctx)
        scheds += s2
        missing += m2
    if missing:
        ctx.note("trap windows not reached: %s" % [(t, s) for t, s, _ in missing])
    if len(scheds) < len(traps):
        raise vlib.Inconclusive("too few trap schedules: %d" % len(scheds))
    scheds = [dict(s, id="%s-r%d" % (s["id"], k)) for s in scheds for k in range(4)]
    spath = os.path.join(ctx.work, "schedules.ndjson")
    vlib.write_ndjson(spath, scheds)
    binary = ctx.build_driver("client")
    log, panics = sc.run_driver_with_restart(ctx, binary, {"VERIF_SCHEDULES": spath, "VERIF_NRANDOM": 500 if ctx.quick else 8000, "VERIF_CLOSE": with_close}, pid.lower())
    for p in panics:
        ctx.violation("panic:%s:%s" % (p["top"], p["msg"]), "the client process crashed in run %s: %s (top library frame %s); last events: %s" % (
            p["run"], p["msg"], p["top"], json.dumps(p["events"])[:1500]), p)
    nruns, accepted, drift = sc.validate(ctx, log, want, cfg="Client_trace.cfg", module="TraceClient", oracle_fn=cc.oracle)
    if drift and not ctx.viol:
        raise vlib.Inconclusive("model drift: %d recorded run(s) are not behaviours of ClientConn.tla although no property-level anomaly was observed; first: run %s at event %s after %s" % (
            len(drift), drift[0][0], json.dumps(drift[0][1]), json.dumps(drift[0][2])[:1200]))
    runs = sc.split_runs(log)
    ncancel = len([r for r in runs if any(x["ev"] == "env" and x["act"] == "Cancel" for x in r)])
    nfault = len([r for r in runs if any(x["ev"] == "env" and x["act"] in ("SrvClose", "SrvReset") for x in r[: next((i for i, y in enumerate(r) if y["ev"] == "note"), len(r))])])
    ctx.finish("model_checking", {
        "evaluations": nruns + len(panics),
        "distinct_nontrivial": ncancel if pid == "C10" else nfault,
        "rule": "a run = one controlled execution of the real kmipclient (up to 3 concurrent callers on one client, up to 6 connection generations; in two thirds of the runs two seconds of virtual time pass before every call) against controller-operated in-memory servers under the gate controller; %d runs follow TLC-generated schedules into the windows %s (4 replays each), the rest are seeded random walks; non-trivial = runs with a cancellation (C10) / a server close or reset before the drain phase (C11); every run is validated step by step by TLC against TraceClient.tla (invariants NoMisdelivery, AtMostFour, ClosedFails, Recovers at every step) and judged by the oracle" % (len(scheds), ", ".join(traps)),
        "trap_schedules": len(scheds), "events_validated": len(log), "runs_with_cancellation": ncancel, "runs_with_fault": nfault,
        "samples": [scheds[0]] + runs[len(runs) // 2][:25], **getattr(ctx, "extra_cov", {}),
    }, assumptions=["controlled runs are macro-step sequences (one shared-memory operation per release); see C08",
                    "the mutex is modelled by a gate before Lock: the controller never releases a caller into a held mutex",
                    "in-memory transport; in the gate-level runs version negotiation is skipped (enforced version); the exchange-fault runs of C11 negotiate"])
