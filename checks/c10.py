"""C10 - A client call only ever receives the response to its own request (spec/ClientConn.tla)."""
import json, os
import vlib
from checks import servercommon as sc
from checks import clientcommon as cc

TRAPS = ["TrapCancelBetween", "TrapLateResponse", "TrapCancelInRecv", "TrapCancelAtOffer"]
WANT = {"misdelivery", "hang", "leak", "errors"}


def run(ctx, pid="C10", traps=TRAPS, want=WANT, cfgs=("Client_c10q.cfg", "Client_c10.cfg"), with_close=0, extra=None):
    ctx.tlc("ClientConn", cfgs[0] if ctx.quick else cfgs[1], coverage=not ctx.quick)
    seeds = [ctx.seed, ctx.seed + 100] if ctx.quick else [ctx.seed * 10 + i for i in range(8)]
    scheds, missing = sc.trap_schedules(ctx, "Client_trap.cfg", traps, seeds, mode="sim", module="MCClient", compiler=cc.schedule_from_states, depth=120)
    if pid == "C10":
        # the two windows a random simulation rarely enters are found breadth-first in the fault-free configuration
        missing = [m for m in missing if m[0] not in ("TrapCancelInRecv", "TrapCancelAtOffer")]
        s3, m3 = sc.trap_schedules(ctx, "Client_trap10.cfg", ["TrapCancelInRecv", "TrapCancelAtOffer"], [0], mode="bfs", module="MCClient", compiler=cc.schedule_from_states)
        scheds += s3
        missing += m3
    if extra:
        s2, m2 = extra(ctx)
        scheds += s2
        missing += m2
    if missing:
        ctx.note("trap windows not reached: %s" % [(t, s) for t, s, _ in missing])
    if len(scheds) < len(traps):
        raise vlib.Inconclusive("too few trap schedules: %d" % len(scheds))
    scheds = [dict(s, id="%s-r%d" % (s["id"], k)) for s in scheds for k in range(4)]
    spath = os.path.join(ctx.work, "schedules.ndjson")
    vlib.write_ndjson(spath, scheds)
    binary = ctx.build_driver("client")
    log, panics = sc.run_driver_with_restart(ctx, binary, {"VERIF_SCHEDULES": spath, "VERIF_NRANDOM": 500 if ctx.quick else 8000, "VERIF_CLOSE": with_close}, pid.lower())
    for p in panics:
        ctx.violation("panic:%s:%s" % (p["top"], p["msg"]), "the client process crashed in run %s: %s (top library frame %s); last events: %s" % (
            p["run"], p["msg"], p["top"], json.dumps(p["events"])[:1500]), p)
    nruns, accepted, drift = sc.validate(ctx, log, want, cfg="Client_trace.cfg", module="TraceClient", oracle_fn=cc.oracle)
    if drift and not ctx.viol:
        raise vlib.Inconclusive("model drift: %d recorded run(s) are not behaviours of ClientConn.tla although no property-level anomaly was observed; first: run %s at event %s after %s" % (
            len(drift), drift[0][0], json.dumps(drift[0][1]), json.dumps(drift[0][2])[:1200]))
    runs = sc.split_runs(log)
    ncancel = len([r for r in runs if any(x["ev"] == "env" and x["act"] == "Cancel" for x in r)])
    nfault = len([r for r in runs if any(x["ev"] == "env" and x["act"] in ("SrvClose", "SrvReset") for x in r[: next((i for i, y in enumerate(r) if y["ev"] == "note"), len(r))])])
    ctx.finish("model_checking", {
        "evaluations": nruns + len(panics),
        "distinct_nontrivial": ncancel if pid == "C10" else nfault,
        "rule": "a run = one controlled execution of the real kmipclient (up to 3 concurrent callers on one client, up to 6 connection generations; in two thirds of the runs two seconds of virtual time pass before every call) against controller-operated in-memory servers under the gate controller; %d runs follow TLC-generated schedules into the windows %s (4 replays each), the rest are seeded random walks; non-trivial = runs with a cancellation (C10) / a server close or reset before the drain phase (C11); every run is validated step by step by TLC against TraceClient.tla (invariants NoMisdelivery, AtMostFour, ClosedFails, Recovers at every step) and judged by the oracle" % (len(scheds), ", ".join(traps)),
        "trap_schedules": len(scheds), "events_validated": len(log), "runs_with_cancellation": ncancel, "runs_with_fault": nfault,
        "samples": [scheds[0]] + runs[len(runs) // 2][:25], **getattr(ctx, "extra_cov", {}),
    }, assumptions=["controlled runs are macro-step sequences (one shared-memory operation per release); see C08",
                    "the mutex is modelled by a gate before Lock: the controller never releases a caller into a held mutex",
                    "in-memory transport; in the gate-level runs version negotiation is skipped (enforced version); the exchange-fault runs of C11 negotiate"])
