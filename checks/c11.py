"""C11 - Client survives connection faults at every point of an exchange (spec/ClientConn.tla)."""
from checks import c10
from checks import servercommon as sc
from checks import clientcommon as cc

TRAPS = ["TrapSendAfterSwap", "TrapReportToGoneSender", "TrapResetThenCall", "TrapCloseNoConn", "TrapCloseDuringDial", "TrapCallAfterClose"]
WANT = {"misdelivery", "hang", "leak", "errors", "tries", "recovers", "closedfails"}


def extra(ctx):
    s1, m1 = sc.trap_schedules(ctx, "Client_trap4.cfg", ["TrapFourthTry"], [0], mode="bfs", module="MCClient", compiler=cc.schedule_from_states, extra_cfg="CONSTRAINT FocusFourth")
    s2, m2 = sc.trap_schedules(ctx, "Client_trap4.cfg", ["TrapCloseAfterReply"], [0], mode="bfs", module="MCClient", compiler=cc.schedule_from_states)
    s3, m3 = sc.trap_schedules(ctx, "Client_trap4x.cfg", ["TrapRxClosedBeforeCancel"], [0], mode="bfs", module="MCClient", compiler=cc.schedule_from_states)
    s4, m4 = sc.trap_schedules(ctx, "Client_trap4b.cfg", ["TrapFourthTryAfterSuccess"], [0], mode="bfs", module="MCClient", compiler=cc.schedule_from_states, extra_cfg="CONSTRAINT FocusAfterSuccess")
    return s1 + s2 + s3 + s4, m1 + m2 + m3 + m4


def run(ctx):
    if not ctx.quick:
        ctx.tlc("ClientConn", "Client_c11x.cfg", workers=14, timeout=2400)
    c10.run(ctx, pid="C11", traps=TRAPS, want=WANT, cfgs=("Client_c11q.cfg", "Client_c11y.cfg"), with_close=1, extra=extra)
