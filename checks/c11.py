"""C11 - Client survives connection faults at every point of an exchange (spec/ClientConn.tla)."""
from checks import c10
from checks import servercommon as sc
from checks import clientcommon as cc

TRAPS = ["TrapSendAfterSwap", "TrapReportToGoneSender", "TrapResetThenCall", "TrapCloseNoConn", "TrapCloseDuringDial", "TrapCallAfterClose"]
WANT = {"misdelivery", "hang", "leak", "errors", "tries", "recovers", "closedfails"}


def extra(ctx):
    s1, m1 = sc.trap_schedules(ctx, "Client_trap4.cfg", ["TrapFourthTry"], [0], mode="bfs", module="MCClient", compiler=cc.schedule_from_states, extra_cfg="CONSTRAINT FocusFourth")
    s2, m2 = sc.trap_schedules(ctx, "Client_trap4.cfg", ["TrapCloseAfterReply"], [0], mode="bfs", module="MCClient", compiler=cc.schedule_from_states)
    s3, m3 = sc.trap_schedules(ctx, "Client_trap4x.cfg", ["TrapRxClosedBeforeCancel"], [0], mode="bfs", module="MCClient", compiler=cc.schedule_from_states)
    s4, m4 = sc.trap_schedules(ctx, "Client_trap4b.cfg", ["TrapFourthTryAfterSuccess"], [0], mode="bfs", module="MCClient", compiler=cc.schedule_from_states, extra_cfg="CONSTRAINT FocusAfterSuccess")
    return s1 + s2 + s3 + s4, m1 + m2 + m3 + m4


def exchange_faults(ctx, only=None):
    """C11 at the granularity of transport operations: the fault plans of ExchangeFaults.tla replayed on an unmodified client
    (version negotiation included), every run validated by TLC against TraceExchangeFaults.tla."""
    import json, os, re
    import vlib
    ctx.tlc("ExchangeFaults", "ExchangeFaults_mc.cfg", workers=4)
    g = ctx.tlc("ExchangeFaults", "ExchangeFaults_gen.cfg", workers=1, count=False)
    plans = g.printed("CASE")
    if len(plans) < 30:
        raise vlib.Inconclusive("only %d fault plans generated" % len(plans))
    ppath = os.path.join(ctx.work, "fault_plans.ndjson")
    vlib.write_ndjson(ppath, plans)
    binary = ctx.build_driver("client")
    reps = 2 if ctx.quick else 12
    cov = {}
    for tag, test, nexp in (("injecting", "TestFaults", reps * len(plans)), ("default", "TestDefaultDialer", None)):
        if only and tag == "default":
            continue
        _fault_runs(ctx, binary, ppath, plans, reps, only, tag, test, nexp, cov)
    if not only:
        ctx.extra_cov = dict(getattr(ctx, "extra_cov", {}), **cov)


def _fault_runs(ctx, binary, ppath, plans, reps, only, tag, test, nexp, cov):
    import json, os, re
    import vlib
    tpath, opath = os.path.join(ctx.work, "fault_trace_%s.ndjson" % tag), os.path.join(ctx.work, "fault_results_%s.ndjson" % tag)
    rc, out = ctx.run_driver(binary, test_run="^%s$" % test, env={"VERIF_FAULT_CASES": ppath, "VERIF_TRACE": tpath, "VERIF_OUT": opath, "VERIF_FAULT_REPS": reps}, timeout=1500)
    if rc != 0 or not os.path.exists(opath):
        raise vlib.Inconclusive("fault driver (%s) failed rc=%s\n%s" % (test, rc, out[-3000:]))
    res = vlib.read_ndjson(opath)
    summ = [x for x in res if x.get("summary")]
    if not summ or (nexp is not None and summ[0]["cases"] != nexp):
        raise vlib.Inconclusive("fault driver (%s) ran %s cases, expected %s" % (test, summ, nexp))
    flagged = set()
    for x in res:
        if x.get("summary"):
            continue
        p = x["plan"]
        flagged.add(x["case"])
        for prob in x["problems"]:
            if only and prob.split(":")[0] not in only:
                continue
            ctx.violation("faults:%s:%s/%s/%s" % (prob.split(":")[0], p["pt"], p["kind"], "every-connection" if p["persist"] else "once"),
                          "fault plan %s: %s" % (json.dumps(p), prob), x)
    if only:
        # (C10 looks at these runs for one thing only: a call that returns a response which is not its own)
        ctx.extra_cov = dict(getattr(ctx, "extra_cov", {}), fault_runs_checked_for_foreign_responses=reps * len(plans))
        return
    log = vlib.read_ndjson(tpath)
    # runs and a property-level reading of each (independent of the specification's machine)
    runs, cur = [], None
    for x in log:
        if x["ev"] == "case":
            cur = [x]
            runs.append(cur)
        else:
            cur.append(x)

    def anomalies(r):
        c, found, e, rx, dials, results = r[0], [], 0, 0, 0, []
        for x in r[1:]:
            if x["ev"] == "begin":
                e, rx, dials = x["e"], 0, 0
            elif x["ev"] == "rx":
                rx += 1
                if rx > 4:
                    found.append("transmissions:%d" % rx)
            elif x["ev"] == "dial":
                dials += 1
            elif x["ev"] == "ret":
                results.append(x["outcome"])
                if x["outcome"] not in ("resp", "err"):
                    found.append("outcome:" + x["outcome"])
                elif x["outcome"] == "err" and c["kind"] in ("with-reply", "srvreq"):
                    # these are no failures of the exchange: the complete reply reaches the client (together with the end of the stream /
                    # after a message of the server's own), so the call has its response
                    found.append("error-although-the-complete-reply-arrived:exchange-%d" % e)
                elif x["outcome"] == "err":
                    hit = c["pt"] != "none" and (e >= c["exch"] if c["persist"] else e == c["exch"] + (1 if c["pt"] == "after-reply" else 0))
                    if not hit:
                        found.append("error-in-an-exchange-no-failure-hit:exchange-%d" % e)
        return found

    for r in runs:
        if r[0]["n"] in flagged:
            continue
        for a in anomalies(r):
            c = r[0]
            ctx.violation("faults:%s:%s/%s/%s" % (a.split(":")[0] + ":" + a.split(":")[1].split("-")[0] if a.startswith("error") else a, c["pt"], c["kind"], "every-connection" if c["persist"] else "once"),
                          "fault plan %s: %s; events %s" % (json.dumps(c), a, json.dumps(r[1:40])), {"run": r})
    remaining = list(runs)
    accepted = 0
    for attempt in range(8):
        if not remaining:
            break
        vp = os.path.join(ctx.work, "fault_validate_%d.ndjson" % attempt)
        vlib.write_ndjson(vp, [x for r in remaining for x in r])
        t = ctx.tlc("TraceExchangeFaults", "ExchangeFaults_trace.cfg", workers=1, env={"TRACE_FILE": vp}, must_pass=False, count=False, label="faults%d" % attempt)
        if t.ok:
            accepted += len(remaining)
            break
        m = re.search(r"REJECTED_AT\D+(\d+)", t.out)
        if not (m or t.violated):
            raise vlib.Inconclusive("fault trace validation failed:\n" + t.out[-3000:])
        pos = int(m.group(1)) if m else 1
        n, badi = 0, len(remaining) - 1
        for i, r in enumerate(remaining):
            if n + len(r) >= pos:
                badi = i
                break
            n += len(r)
        r = remaining[badi]
        accepted += badi
        ev = r[pos - n - 1] if 0 <= pos - n - 1 < len(r) else None
        if r[0]["n"] in flagged or anomalies(r):
            pass      # reported above
        elif ev and ev.get("ev") == "ret" and ev.get("outcome") == "err":
            # the machine's guard of RetErr is the property-level statement itself: an error needs a failure during that very call
            # (a fault that fired, or a connection that died while idle); a call that fails without one did not use a fresh connection
            ctx.violation("faults:error-without-a-failure-during-the-call:%s/%s/%s" % (r[0]["pt"], r[0]["kind"], "every-connection" if r[0]["persist"] else "once"),
                          "fault plan %s: the exchange returns an error (%s) although nothing failed during it: %s" % (json.dumps(r[0]), ev.get("class"), json.dumps(r[max(0, pos - n - 14): pos - n])), {"run": r})
        elif t.violated:
            ctx.violation("faults:invariant:" + "+".join(t.violated), "fault plan %s: TLC: %s violated on the recorded run at %s" % (json.dumps(r[0]), t.violated, json.dumps(ev)), {"run": r})
        else:
            raise vlib.Inconclusive("model drift: a recorded fault run is not a behaviour of ExchangeFaults.tla although no property-level anomaly was observed: plan %s at event %s of %s" % (
                json.dumps(r[0]), json.dumps(ev), json.dumps(r[:60])))
        remaining = remaining[badi + 1:]
    ctx.traces_validated += accepted
    if tag == "default":
        cov.update({"default_dialer_runs": len(runs), "default_dialer_rule": "the plans whose failures a server can cause, through the client's default dialer (crypto/tls over loopback TCP, DialContext with a context cancelled right after it returned): same event log, same TLC validation"})
        return
    cov.update({"fault_plans": len(plans), "fault_runs": len(runs), "fault_events_validated": len(log),
                     "fault_rule": "every fault plan of ExchangeFaults.tla (exchange 1 = the version negotiation inside Dial, or the first call; write failing at the client's socket with broken pipe / closed / reset / short write; server closing or resetting before replying, after half of the response, right after the complete response; once or on every connection) x %d repetitions (the client reads whole messages or three bytes at a time), on an unmodified client in one synctest bubble: no hang, no panic, own response or error, at most 4 transmissions and 4 dials per call, errors only in exchanges a failure hit, recovery in the next exchange, calls fail after Close, no goroutine left; every run validated by TLC against TraceExchangeFaults.tla" % reps})


def cluster(ctx):
    """C11 for the cluster client (kmipclient.DialCluster, its own dialer over crypto/tls): the plans of ClusterDial.tla (servers going
    down and coming back, the retry timeout passing or not, calls after the connection was lost) replayed on the real client over
    loopback TCP, every plan validated by TLC against TraceClusterDial.tla."""
    import json, os, re
    import vlib
    ctx.tlc("ClusterDial", "ClusterDial_mc.cfg", workers=4)
    g = ctx.tlc("MCClusterDial", "ClusterDial_gen.cfg", workers=1, count=False)
    plans = g.printed("CASE")
    if len(plans) < 200:
        raise vlib.Inconclusive("only %d cluster plans generated" % len(plans))
    plans.sort(key=lambda p: json.dumps(p))
    if ctx.quick:
        plans = [p for k, p in enumerate(plans) if p.get("fb") or k % 5 == ctx.seed % 5]   # every plan that reaches the fallback, a fifth of the others
    if not any(p.get("fb") for p in plans):
        raise vlib.Inconclusive("no plan reaches the dialer's fallback")
    binary = ctx.build_driver("client")
    total = judged = 0
    for tag, sel, env in (("timeout-set", plans, {"VERIF_CLUSTER_RETRY_MS": 2000}),
                          # a client built without WithRetryTimeout (the library's default applies): plans in which no timeout passes
                          ("defaults", [p for p in plans if all(st["op"] != "tick" for st in p["plan"])][:40], {"VERIF_CLUSTER_RETRY_MS": 5000, "VERIF_CLUSTER_DEFAULTS": 1})):
        ppath = os.path.join(ctx.work, "cluster_plans_%s.ndjson" % tag)
        tpath = os.path.join(ctx.work, "cluster_trace_%s.ndjson" % tag)
        vlib.write_ndjson(ppath, sel)
        rc, out = ctx.run_driver(binary, test_run="^TestCluster$", env=dict(env, VERIF_CLUSTER_CASES=ppath, VERIF_TRACE=tpath), timeout=1500)
        if rc != 0 or not os.path.exists(tpath):
            raise vlib.Inconclusive("cluster driver failed rc=%s\n%s" % (rc, out[-3000:]))
        log = vlib.read_ndjson(tpath)
        byplan = {}
        for e in log:
            byplan.setdefault(e["plan"], []).append(e)
        if len(byplan) != len(sel):
            raise vlib.Inconclusive("cluster driver replayed %d of %d plans" % (len(byplan), len(sel)))
        keep = []
        for k in sorted(byplan):
            evs = byplan[k]
            total += 1
            if any(e["ev"] == "problem" for e in evs):
                raise vlib.Inconclusive("cluster driver: %s" % [e for e in evs if e["ev"] == "problem"])
            # the anomalies C11 names, judged from the events alone
            up, flagged = {1, 2}, False
            for e in evs:
                if e["ev"] == "flip":
                    up ^= {e["s"]}
                if e["ev"] not in ("build", "call"):
                    continue
                what = None
                if e["result"] == "panic":
                    what = ("panic", "the %s panicked: %s" % (e["ev"], e["panic"][:200]))
                elif e["result"] == "hang":
                    what = ("hang", "the %s did not return within 20 s" % e["ev"])
                elif e["result"] == "err" and up:
                    what = ("error-although-a-server-is-reachable", "the %s failed although server(s) %s were up (contacted: %s)" % (e["ev"], sorted(up), e["attempts"]))
                elif e["result"] == "err" and any(a in up for a in e["attempts"]) and not e.get("unreliable"):
                    what = ("error-although-a-server-answered", "the %s failed although server %s, which it contacted, was up" % (e["ev"], [a for a in e["attempts"] if a in up]))
                elif e["result"] == "ok" and e["at"] not in up:
                    what = ("answer-from-a-server-that-is-down", "answered by server %s, up = %s" % (e["at"], sorted(up)))
                if what:
                    flagged = True
                    ctx.violation("cluster:%s:%s:%s" % (tag, e["ev"], what[0]), "cluster client (%s), plan %s: %s; events %s" % (tag, json.dumps(sel[k]["plan"]), what[1], json.dumps(evs)[:1500]),
                                  {"plan": sel[k], "events": evs})
                    break
            if flagged or any(e.get("unreliable") for e in evs):
                continue
            judged += 1
            keep += [{kk: v for kk, v in e.items() if kk in ("ev", "s", "attempts", "result", "at")} for e in evs]
        if not keep:
            continue
        vpath = os.path.join(ctx.work, "cluster_validate_%s.ndjson" % tag)
        vlib.write_ndjson(vpath, keep)
        t = ctx.tlc("TraceClusterDial", "ClusterDial_trace.cfg", workers=1, env={"TRACE_FILE": vpath}, must_pass=False, count=False, label="cluster-" + tag)
        if t.ok:
            ctx.traces_validated += len([e for e in keep if e["ev"] == "reset"])
        else:
            m = re.search(r"REJECTED_AT\D+(\d+)", t.out)
            if not m:
                raise vlib.Inconclusive("cluster trace validation failed:\n" + t.out[-3000:])
            pos = int(m.group(1))
            start = max(k for k in range(pos) if keep[k]["ev"] == "reset")
            raise vlib.Inconclusive("model drift: TLC rejects a cluster run (%s) without a property-level anomaly at event %s; run so far: %s" % (tag, json.dumps(keep[pos - 1]), json.dumps(keep[start:pos])[:1500]))
    if judged < total * 0.5:
        raise vlib.Inconclusive("only %d of %d cluster plans ran within the timing the model assumes" % (judged, total))
    ctx.extra_cov = dict(getattr(ctx, "extra_cov", {}), cluster_plans_replayed=total, cluster_plans_validated_by_tlc=judged)


def run(ctx):
    exchange_faults(ctx)
    cluster(ctx)
    if not ctx.quick:
        ctx.tlc("ClientConn", "Client_c11x.cfg", workers=14, timeout=2400)
    c10.run(ctx, pid="C11", traps=TRAPS, want=WANT, cfgs=("Client_c11q.cfg", "Client_c11y.cfg"), with_close=1, extra=extra)
