"""C12 - Client turns every protocol-violating server response into an error (spec/ClientResp.tla)."""
import json, os
import vlib


def key(c):
    return (c["api"], c["n"], c["hdr"], tuple(c["items"]), c.get("idpat", "own"))


def run(ctx):
    r = ctx.tlc("MCClientResp", "ClientResp_mc.cfg", coverage=not ctx.quick)
    if not ctx.quick:
        z = [a for a in r.coverage_zero() if a in ("Recv", "Counts", "Items")]
        if z:
            raise vlib.Inconclusive("vacuous model: %s" % z)
    g = ctx.tlc("MCClientResp", "ClientResp_gen.cfg", workers=4, count=False)
    terminal = g.printed("CASE")
    allowed = {}
    for c in terminal:
        allowed.setdefault(key(c), []).append((c["outcome"], c["carries"]))
    cases = []
    seen = set()
    for c in terminal:
        if key(c) not in seen:
            seen.add(key(c))
            cases.append(c)
    if len(cases) < 9000:
        raise vlib.Inconclusive("expected > 9000 response shapes, got %d" % len(cases))
    cpath = os.path.join(ctx.work, "cases.ndjson")
    vlib.write_ndjson(cpath, cases)
    binary = ctx.build_driver("clientresp")
    opath = os.path.join(ctx.work, "results.ndjson")
    rc, out = ctx.run_driver(binary, test_run="^TestReplay$", env={"VERIF_CASES": cpath, "VERIF_OUT": opath}, timeout=3000)
    if rc != 0 or not os.path.exists(opath):
        raise vlib.Inconclusive("clientresp driver failed rc=%s\n%s" % (rc, out[-3000:]))
    res = vlib.read_ndjson(opath)
    summ = [x for x in res if x.get("summary")]
    if not summ or summ[0]["cases"] != len(cases):
        raise vlib.Inconclusive("driver replayed %s, TLC generated %d" % (summ, len(cases)))
    runs = 0
    bad_samples = []
    for x in res:
        if x.get("summary"):
            continue
        runs += 1
        c = cases[x["case"]]
        got = x["got"]
        if got["outcome"] == "harness-error":
            raise vlib.Inconclusive("harness could not set the case up: %s" % x)
        ok = False
        for (o, car) in allowed[key(c)]:
            if got["outcome"] == o and (got["carries"] or not car):
                ok = True
        if ok:
            continue
        exp = allowed[key(c)]
        if got["outcome"] == "panic":
            sig = "panic:%s:%s" % (c["api"], got.get("detail", "").split(":")[0])
        else:
            cls = sorted(set(i for i in c["items"]))
            sig = "%s:%s->%s%s" % (c["api"], "+".join(cls) if c["hdr"] == "match" and len(c["items"]) == c["n"] else "counts", got["outcome"].split(":")[0],
                                  "" if got["outcome"] != "error" else "(status/reason/message missing)")
        ctx.violation(sig, "%s of %s with response shape hdr=%s items=%s: specification allows %s, real client gave %s" % (
            c["api"], x["op"], c["hdr"] + "/ids=" + c.get("idpat", "own"), c["items"], exp, json.dumps(got)), {"case": c, "op": x["op"], "got": got})
    ctx.traces_validated = 0
    ctx.finish("model_checking", {
        "evaluations": runs,
        "distinct_nontrivial": len([c for c in cases if not all(i == "S_same_pl" for i in c["items"])]),
        "rule": "every response shape (api x request size x header count x item count x per-item class of 13) enumerated by TLC from ClientResp.tla is served by a scripted server to a real client call; non-trivial = not the all-good response; operations rotate over %d fluent builders in the quick tier and all of them in the thorough tier" % 9,
        "exhaustive": True,
        "cases_replayed_against_impl": runs,
        "samples": cases[4000:4003],
    }, assumptions=["payloads of 9 representative operations (plus DiscoverVersions inside Dial) stand for all 27",
                    "a decoder that leniently accepts foreign content as a payload of the requested type is within the property"])
