"""C13 - Version negotiation adopts the highest common protocol version (spec/Negotiate.tla)."""
import json, os, re
import vlib


def run(ctx):
    r = ctx.tlc("MCNegotiate", "Negotiate_mc.cfg", coverage=not ctx.quick)
    if not ctx.quick:
        z = [a for a in r.coverage_zero() if a in ("Enforce", "Offer", "Reply", "Scan", "Adopt", "Request")]
        if z:
            raise vlib.Inconclusive("vacuous model: %s" % z)
    g = ctx.tlc("MCNegotiate", "Negotiate_gen.cfg", workers=4, count=False)
    cases = g.printed("CASE")
    if len(cases) < 10000:
        raise vlib.Inconclusive("expected > 10000 configurations, TLC printed %d" % len(cases))
    cpath = os.path.join(ctx.work, "cases.ndjson")
    vlib.write_ndjson(cpath, cases)
    binary = ctx.build_driver("negotiate")
    opath = os.path.join(ctx.work, "results.ndjson")
    tpath = os.path.join(ctx.work, "trace.ndjson")
    rc, out = ctx.run_driver(binary, test_run="^TestReplay$", env={"VERIF_CASES": cpath, "VERIF_OUT": opath, "VERIF_TRACE": tpath})
    if rc != 0 or not os.path.exists(opath):
        raise vlib.Inconclusive("negotiate driver failed rc=%s\n%s" % (rc, out[-3000:]))
    res = vlib.read_ndjson(opath)
    summ = [x for x in res if x.get("summary")]
    if not summ or summ[0]["cases"] != len(cases):
        raise vlib.Inconclusive("driver replayed %s, TLC generated %d" % (summ, len(cases)))
    for x in res:
        if x.get("summary"):
            continue
        got, exp = x["got"], x.get("expect") or {}
        if got.get("panic"):
            sig = "panic:%s" % got["panic"]
        else:
            cls = classify(exp, got)
            sig = "%s:%s:%s" % (x["peer"], "+".join(x["diffs"]), cls)
        ctx.violation(sig, "Dial against the %s server: C=%s enforced=%s reply=%s expected outcome=%s adopted=%s sent=%s; got outcome=%s adopted=%s offered=%s sent=%s err=%s" % (
            x["peer"], exp.get("C", x.get("C")), exp.get("enforced"), got.get("reply"), exp.get("outcome"), exp.get("adopted"), exp.get("sent"),
            got.get("outcome"), got.get("adopted"), got.get("offered"), got.get("sent"), got.get("err")), x)
    # B3: every recorded run validated by TLC
    log = vlib.read_ndjson(tpath)
    nruns = len([x for x in log if x["ev"] == "conf"])
    t = ctx.tlc("TraceNegotiate", "Negotiate_trace.cfg", workers=1, env={"TRACE_FILE": tpath}, must_pass=False, count=False, label="trace")
    if t.ok:
        ctx.traces_validated += nruns
    else:
        m = re.search(r"REJECTED_AT\D+(\d+)", t.out)
        if not (m or t.violated):
            raise vlib.Inconclusive("trace validation failed:\n" + t.out[-3000:])
        pos = int(m.group(1)) if m else 0
        k = pos - 1
        while k > 0 and log[k]["ev"] != "conf":
            k -= 1
        run_ev = log[k:pos]
        conf = log[k]
        # only report here what case replay has not reported already (same run): keep one signature per peer
        ctx.violation("trace:%s" % conf.get("peer"), "TLC rejects the recorded Dial run at event #%d: %s" % (pos, json.dumps(run_ev)), {"events": run_ev, "tlc_tail": t.out[-1500:]})
    ctx.finish("model_checking", {
        "evaluations": len(cases) + summ[0]["own"],
        "distinct_nontrivial": len([c for c in cases if c["enforced"] == 99 and len(c["reply"]) >= 2]),
        "rule": "every (client set, enforced version, server answer list | not-supported | other error) configuration enumerated by TLC from Negotiate.tla is one real Dial against a scripted server; non-trivial = negotiated with an answer of >= 2 versions; plus all 31 x 31 (client set, server set) pairs against the library's own BatchExecutor; every run also validated as a trace",
        "exhaustive": True,
        "samples": cases[5000:5002] + log[:7],
    }, assumptions=["Dial failing although a common version exists is not counted as a violation (the property does not demand success)",
                    "transport is an in-memory pipe, no TLS"])


def classify(exp, got):
    if not exp:
        return "unknown"
    reply = got.get("reply") or []
    C = exp.get("C") or []
    if got.get("adopted") not in C and got.get("outcome") == "connected" and exp.get("enforced") == 99:
        return "adopted-not-in-client-set"
    if got.get("outcome") == "connected" and exp.get("outcome") == "connected":
        return "not-highest-common"
    if got.get("outcome") == "connected" and exp.get("outcome") == "failed":
        return "connected-without-common"
    return "other"
