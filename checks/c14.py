"""C14 - Key material survives registration, transport and extraction (spec/KeyFormats.tla)."""
import os, re
import vlib


def run(ctx):
    r = ctx.tlc("KeyFormats", "KeyFormats_mc.cfg", workers=4)
    g = ctx.tlc("KeyFormats", "KeyFormats_gen.cfg", workers=1, count=False)
    cases = g.printed("CASE")
    reg = [c for c in cases if c["part"] == "register"]
    if len(reg) < 4000 or len(cases) - len(reg) < 400:
        raise vlib.Inconclusive("too few key cases: %d" % len(cases))
    binary = ctx.build_driver("keys")
    cpath = os.path.join(ctx.work, "cases.ndjson")
    vlib.write_ndjson(cpath, cases)
    opath = os.path.join(ctx.work, "results.ndjson")
    thorough = ctx.tier == "thorough"
    env = {"VERIF_CASES": cpath, "VERIF_OUT": opath, "VERIF_SEED": str(ctx.seed),
           "VERIF_RSA_PAIRS": "4" if thorough else "1", "VERIF_RSA_PER_PAIR": "4" if thorough else "3", "VERIF_EXTRA_KEYS": "6" if thorough else "0"}
    rc, out = ctx.run_driver(binary, test_run="^TestReplay$", env=env, timeout=3000)
    if rc != 0 or not os.path.exists(opath):
        raise vlib.Inconclusive("keys driver failed rc=%s\n%s" % (rc, out[-3000:]))
    res = vlib.read_ndjson(opath)
    summ = [x for x in res if x.get("summary")]
    if not summ or summ[0]["cases"] != len(cases):
        raise vlib.Inconclusive("driver replayed %s, TLC generated %d" % (summ, len(cases)))
    summ = summ[0]
    for x in res:
        if x.get("summary"):
            continue
        c = x["c"]
        p0 = re.sub(r"^(ttlv|xml|json) v1\.\d ", "", x["problems"][0])
        head = p0.split(": ")
        what = ": ".join(head[:2]) if head[0].startswith("accessor") or head[0] in ("table", "transport") else head[0]
        what = re.sub(r"(got|error:).*", r"\1", what)[:90]
        if c["part"] == "register":
            sig = "register:%s:%s:%s" % (c["kind"], c["kft"], what)
            text = "%s key class %s, formats %s, KMIP 1.%d, %s: %s" % (c["kind"], x["key"]["class"], "+".join(c["format"]) or "default", c["ver"], c["enc"], x["problems"][:3])
        elif c["part"] == "presence":
            sig = "presence:%s:%s:%s" % (c["obj"], c["missing"], what)
            text = "%s with key format %s, missing %s: %s" % (c["obj"], c["kft"], c["missing"], x["problems"][:3])
        else:
            sig = "rsa-components:%s:%s" % (c["expect"], what)
            text = "transparent RSA private key with components %s (specification: %s): %s" % (c["comps"], c["expect"], x["problems"][:3])
        ctx.violation(sig, text, x)
    ctx.finish("model_checking", {
        "evaluations": summ["runs"],
        "distinct_nontrivial": len(cases),
        "rule": "TLC checks the decision table of KeyFormats.tla (kind x requested format set x version |-> object type, key format type) and enumerates every case; each register case is "
                "replayed with the real Register builders on a client speaking the case's version, for every key of a pool that covers the byte-pattern classes (scalar / coordinate / "
                "CRT component with leading zero bytes, top bit set, d=1, d=n-1, all-zero and 0xff symmetric keys); the registered object must carry the specification's object type and "
                "key format type, is transported (binary / XML / JSON document hop, or the real client-server connection with further requests before extraction) and every accessor of "
                "GetResponsePayload is called: the ones for the key's kind must return a key equal to the original (big.Int comparison, PEM forms re-parsed), all others an error, none may panic. "
                "Presence cases (object kind x key format x missing part) and all 128 component subsets of transparent RSA private keys are built, sent through the three encodings at 1.0/1.2/1.4 and "
                "every accessor is called on every decodable one: error expected, panic or a key that differs from the original is a violation",
        "exhaustive": True, "pool": summ["pool"], "classes": summ["classes"], "stats": summ["stats"],
        "tlc_states": r.distinct, "samples": cases[:2] + cases[-2:],
    }, assumptions=["RSA keys are 1024-bit (a few prime pairs from crypto/rand, several public exponents per pair chosen for the byte patterns of D, Dp, Dq); other sizes are not explored",
                    "requested format sets of more than two formats are not enumerated",
                    "an object with empty (zero-length / zero-valued) material is treated as having material: accessors may return it"])
