"""C15 - The ID placeholder is scoped to a single request (spec/Batch.tla, ph/reads variables)."""
from checks import batchcommon as bc


def run(ctx):
    n = 3 if ctx.quick else 4
    bc.exhaustive(ctx, ["Batch_mc%d.cfg" % n, "Batch_mc2r.cfg"])
    binary = ctx.build_driver("batch")
    cases, nviol = bc.replay_cases(ctx, "Batch_gen%d.cfg" % n, binary, focus={"reads", "panic"})
    # the same with an application's item middleware that retries a failed item once (outcome retriedSuccess)
    bc.replay_cases(ctx, "Batch_gen_retry.cfg", binary, focus={"reads", "panic"}, env={"VERIF_RETRY": 1})
    total = 0
    logs = []
    rounds = 3 if ctx.quick else 12
    for k in range(rounds):
        env = {"VERIF_NSEQ": 20, "VERIF_NCONN": 400 if ctx.quick else 2000, "VERIF_G": 8 if k % 2 == 0 else 32, "VERIF_K": 100 if ctx.quick else 400,
               "VERIF_MAXITEMS": 8, "VERIF_SEED": ctx.seed * 100 + k}
        log, nreq = bc.record_and_validate(ctx, binary, env, "conc%d" % k)
        total += nreq
        logs = logs or log
    setters = len([c for c in cases if any(i["out"] == "successSetsId" for i in c["req"]["items"])])
    ctx.finish("model_checking", {
        "evaluations": len(cases) + total,
        "distinct_nontrivial": setters,
        "rule": "cases = all request shapes <= %d items from Batch.tla; non-trivial = a handler sets the placeholder; plus %d requests recorded back-to-back on shared parents and from 8..32 concurrent goroutines, validated by TLC against TraceBatch.tla" % (n, total),
        "exhaustive": True,
        "cases_replayed_against_impl": len(cases),
        "samples": [c for c in cases if len(c["reads"]) >= 2][:2] + logs[:8],
    }, assumptions=["concurrent interleavings are those the Go scheduler produces under runtime.Gosched() yields inside handlers (not controlled)",
                    "requests through a real server connection are covered by the C08 driver"])
