"""C16 - Shutdown drains cleanly and connection hooks are paired (spec/Server.tla with the Shutdown caller and grace timer)."""
import json, os
import vlib
from checks import servercommon as sc

TRAPS = ["TrapAcceptedDuringShutdown", "TrapHandlerOutlivesGrace", "TrapShutdownMidResponse", "TrapShutdownDuringConnect",
         "TrapShutdownAfterOwnerClose", "TrapShutdownAfterOwnerCloseIdle"]


def stalled(ctx, binary):
    """Shutdown while the response is on its way to a client that has stopped reading (spec/ShutdownStall.tla): TLC checks the design
    (Drained, HookOnce, and - with fairness for the server's own steps only - that Shutdown returns); the plans are replayed on the real
    server over a transport whose writes block, and every run is validated by TLC against TraceShutdownStall.tla."""
    import re
    ctx.tlc("ShutdownStall", "ShutdownStall_mc.cfg", workers=2)
    g = ctx.tlc("MCShutdownStall", "ShutdownStall_gen.cfg", workers=1, count=False)
    plans = sorted(g.printed("CASE"), key=lambda p: json.dumps(p, sort_keys=True))
    if len(plans) < 20:
        raise vlib.Inconclusive("only %d stall plans generated" % len(plans))
    ppath, tpath = os.path.join(ctx.work, "stall_plans.ndjson"), os.path.join(ctx.work, "stall_trace.ndjson")
    vlib.write_ndjson(ppath, plans)
    rc, out = ctx.run_driver(binary, test_run="^TestStall$", env={"VERIF_STALL_CASES": ppath, "VERIF_TRACE": tpath}, timeout=900)
    if not os.path.exists(tpath):
        raise vlib.Inconclusive("stall driver failed rc=%s\n%s" % (rc, out[-3000:]))
    log = vlib.read_ndjson(tpath)
    byplan = {}
    for e in log:
        byplan.setdefault(e["plan"], []).append(e)
    keep, flagged = [], 0
    for k in sorted(byplan):
        evs = byplan[k]
        plan = plans[k % len(plans)]
        tag = "%s/%s/%s%s" % (plan["stall"], plan["shutdown"], plan["after"], "/tls" if k >= len(plans) else "")
        end = [e for e in evs if e["ev"] == "end"]
        prob = [e for e in evs if e["ev"] == "problem"]
        whats = []
        if prob and not end:
            whats.append(("run-does-not-end", prob[0]["what"]))
        elif prob:
            raise vlib.Inconclusive("stall driver: %s" % prob)
        for e in end:
            if e["sd"] != "returned":
                whats.append(("shutdown-does-not-return", "Shutdown has not returned 10 s after the call (grace period 3 s)"))
            if e["hooks"] != e["connects"]:
                whats.append(("hooks-unpaired", "%d connect hook(s), %d terminate hook(s)" % (e["connects"], e["hooks"])))
            if e["left"] > 0:
                whats.append(("goroutines-left", "%d goroutine(s) of the server are left 10 s after Shutdown was called" % e["left"]))
            if e["serve"] != "ErrShutdown":
                whats.append(("serve-result", "Serve: %s" % e["serve"]))
        # a request whose handler ended before the grace period was over, for a client that was reading, is answered
        stalled_now, graced = False, False
        for e in evs:
            if e["ev"] in ("stall", "resume"):
                stalled_now = e["ev"] == "stall"
            if e["ev"] == "grace":
                graced = True
            if e["ev"] == "handler-exit" and not stalled_now and not graced and end and not end[0]["answered"]:
                whats.append(("completed-request-not-answered", "the handler ended before the grace period was over, the client was reading, and no response arrived"))
        for e in evs:
            # (behind TLS, closing a connection whose peer does not read takes crypto/tls up to 5 s more: its close_notify alert is written
            # with a deadline of its own)
            if e["ev"] == "shutdown-return" and e["after_ms"] > (8200 if k >= len(plans) else 3100):
                whats.append(("returns-long-after-the-grace-period", "Shutdown returned %d ms after the call" % e["after_ms"]))
        if whats:
            flagged += 1
            ctx.violation("stall:%s:%s" % (whats[0][0], tag), "client that stops reading, plan %s: %s; events: %s" % (tag, "; ".join(w[1] for w in whats), json.dumps(evs)[:1500]), {"plan": plan, "events": evs})
            continue
        keep += [{kk: v for kk, v in e.items() if kk in ("ev", "sd", "answered", "hooks")} for e in evs]
    if rc != 0 and not flagged:
        raise vlib.Inconclusive("stall driver failed rc=%s\n%s" % (rc, out[-3000:]))
    if len(byplan) != 2 * len(plans) and not flagged:
        raise vlib.Inconclusive("stall driver replayed %d of %d plans" % (len(byplan), 2 * len(plans)))
    if keep:
        vpath = os.path.join(ctx.work, "stall_validate.ndjson")
        vlib.write_ndjson(vpath, keep)
        t = ctx.tlc("TraceShutdownStall", "ShutdownStall_trace.cfg", workers=1, env={"TRACE_FILE": vpath}, must_pass=False, count=False, label="stall")
        if t.ok:
            ctx.traces_validated += len([e for e in keep if e["ev"] == "reset"])
        else:
            m = re.search(r"REJECTED_AT\D+(\d+)", t.out)
            if not m:
                raise vlib.Inconclusive("stall trace validation failed:\n" + t.out[-3000:])
            pos = int(m.group(1))
            start = max(k for k in range(pos) if keep[k]["ev"] == "reset")
            raise vlib.Inconclusive("model drift: TLC rejects a stalled-client run without a property-level anomaly at event %s; run so far: %s" % (json.dumps(keep[pos - 1]), json.dumps(keep[start:pos])[:1500]))
    return 2 * len(plans)


def run(ctx):
    ctx.tlc("Server", "Server_sd1.cfg" if not ctx.quick else "Server_sd1q.cfg", coverage=not ctx.quick)
    ctx.tlc("Server", "Server_sdlive.cfg" if not ctx.quick else "Server_sdliveq.cfg")
    seeds = [ctx.seed] if ctx.quick else [ctx.seed * 10 + i for i in range(6)]
    scheds, missing = sc.trap_schedules(ctx, "Server_trap16.cfg", TRAPS, [0], mode="bfs")
    # the window that the accept guard closes: unreachable in the specification of the current design, so the schedule
    # into it comes from the specification variant without the guard; on conforming code its replay diverges harmlessly
    closed, _ = sc.trap_schedules(ctx, "Server_trap16.cfg", ["TrapLateHandler"], [0], mode="bfs")
    if closed:
        raise vlib.Inconclusive("Server.tla with the accept guard reaches the late-handler window")
    s3, m3 = sc.trap_schedules(ctx, "Server_trap16u.cfg", ["TrapLateHandler"], [0], mode="bfs")
    scheds += s3
    missing += m3
    s4, m4 = sc.trap_schedules(ctx, "Server_trap16c.cfg", ["TrapClientGoneDuringHandler", "TrapTornDownDuringHandler"], [0], mode="bfs")
    scheds += s4
    missing += m4
    # Go chooses at random among ready select cases: every window schedule is replayed several times
    scheds = [dict(s, id="%s-r%d" % (s["id"], k)) for s in scheds for k in range(12)]
    if not ctx.quick:
        s2, m2 = sc.trap_schedules(ctx, "Server_trap16s.cfg", TRAPS, seeds, mode="sim")
        scheds += s2
    if missing:
        ctx.note("trap windows not reached by TLC simulation: %s" % [(t, s) for t, s, _ in missing])
    spath = os.path.join(ctx.work, "schedules.ndjson")
    vlib.write_ndjson(spath, scheds)
    binary = ctx.build_driver("server")
    log, panics = sc.run_driver_with_restart(ctx, binary, {"VERIF_SCHEDULES": spath, "VERIF_NRANDOM": 400 if ctx.quick else 6000, "VERIF_SHUTDOWN": 1}, "c16")
    for p in panics:
        ctx.violation("panic:%s:%s" % (p["top"], p["msg"]), "the server process crashed in run %s: %s; last events: %s" % (p["run"], p["msg"], json.dumps(p["events"])[:1500]), p)
    nstall = stalled(ctx, binary)
    ntls, tls_steps = sc.tls_front(ctx, binary)      # Shutdown behind a TLS listener (TlsAccept.tla histories end with Shutdown)
    nruns, accepted, drift = sc.validate(ctx, log, {"hooks", "shutdown", "responses"})
    if drift and not ctx.viol:
        raise vlib.Inconclusive("model drift: %d recorded run(s) are not behaviours of Server.tla although no property-level anomaly was observed; first: run %s at event %s after %s" % (
            len(drift), drift[0][0], json.dumps(drift[0][1]), json.dumps(drift[0][2])[:1200]))
    runs = sc.split_runs(log)
    nsd = len([r for r in runs if any(x["ev"] == "env" and x["act"] == "StartShutdown" for x in r)])
    ctx.finish("model_checking", {
        "evaluations": nruns + len(panics),
        "distinct_nontrivial": nsd,
        "rule": "a run = one controlled execution of the real Server.Serve/Shutdown over in-memory connections inside a synctest bubble (virtual time: the 3 s grace timer fires when the controller lets it); non-trivial = runs in which Shutdown was called; %d runs start from TLC-generated schedules (%s); every run validated by TLC against TraceServer.tla and judged by the oracle (Serve result, handler after Shutdown returned, hook pairing, leaked goroutines)" % (len(scheds), ", ".join(TRAPS)),
        "stalled_client_plans": nstall, "stalled_client_rule": "the plans of MCShutdownStall.tla (when the client stops reading x when Shutdown is called x what the client does then) on the real server over a transport whose writes block, each run validated by TLC against TraceShutdownStall.tla",
        "tls_histories": ntls, "tls_rule": "TlsAccept.tla histories end with Shutdown while clients are connected, mid-handshake or past it: Shutdown returns (connections past the handshake are cut after the grace period), Serve returns, hooks pair, and a client accepted before the call that completes its handshake after Shutdown returned gets no handler",
        "trap_schedules": len(scheds), "events_validated": len(log),
        "samples": ([scheds[0]] if scheds else []) + runs[len(runs) // 3][:25],
    }, assumptions=["the grace period is an ordering / virtual time, no wall-clock bound is verified",
                    "controlled runs are macro-step sequences (see C08)", "the gate-level runs use TLS-less in-memory connections; TLS is covered by the TlsAccept histories"])
