"""C17 - Tag, enumeration and bit-mask names form a stable bijection (spec/Registry.tla)."""
import json, os
import vlib


def run(ctx):
    binary = ctx.build_driver("registry")
    reg = os.path.join(ctx.work, "registry.live.json")
    rc, out = ctx.run_driver(binary, test_run="^TestExtract$", env={"VERIF_OUT": reg})
    if rc != 0 or not os.path.exists(reg):
        raise vlib.Inconclusive("registry extraction failed rc=%s\n%s" % (rc, out[-2000:]))
    ref = os.path.join(vlib.SPEC, "ref", "registry.ref.json")
    env = {"REG_FILE": reg, "REF_FILE": ref}
    r = ctx.tlc("Registry", "Registry_mc.cfg", workers=4, env=env, must_pass=False)
    if not r.ok:
        if "RegistryOK" in r.out and ("is violated" in r.out or "equal to FALSE" in r.out):
            live, pinned = json.load(open(reg)), json.load(open(ref))
            diffs = diff(live, pinned)
            if diffs:
                for sig, text in diffs[:20]:
                    ctx.violation(sig, text, {"diff": text})
            else:
                ctx.violation("registry:not-well-formed", "TLC: the extracted registry violates the bijection / structure invariants of Registry.tla", {"tlc": r.out[-1500:]})
        else:
            raise vlib.Inconclusive("TLC failed on Registry.tla:\n" + r.out[-3000:])
    g = ctx.tlc("Registry", "Registry_gen.cfg", workers=2, env={"REG_FILE": ref, "REF_FILE": ref}, count=False)
    cases = g.printed("CASE")
    if len(cases) < 1000:
        raise vlib.Inconclusive("too few registry cases: %d" % len(cases))
    cpath = os.path.join(ctx.work, "cases.ndjson")
    vlib.write_ndjson(cpath, cases)
    opath = os.path.join(ctx.work, "results.ndjson")
    rc, out = ctx.run_driver(binary, test_run="^TestReplay$", env={"VERIF_CASES": cpath, "VERIF_OUT": opath})
    if rc != 0 or not os.path.exists(opath):
        raise vlib.Inconclusive("registry driver failed rc=%s\n%s" % (rc, out[-3000:]))
    res = vlib.read_ndjson(opath)
    summ = [x for x in res if x.get("summary")]
    if not summ or summ[0]["cases"] != len(cases):
        raise vlib.Inconclusive("driver replayed %s, TLC generated %d" % (summ, len(cases)))
    for x in res:
        if x.get("summary"):
            continue
        c = x["c"]
        p0 = x["problems"][0]
        sig = "%s:%s:%s" % (c["kind"], "registered" if (c["name"] if c["kind"] == "tag" else c["vname"]) else "unregistered", p0.split(":")[0] + ":" + (p0.split(":")[1] if ":" in p0 else ""))
        ctx.violation(sig, "%s tag=0x%06X name=%r value=%s vname=%r: %s" % (c["kind"], c["tag"], c["name"], c["value"], c["vname"], x["problems"][:3]), x)
    ctx.finish("model_checking", {
        "evaluations": len(cases),
        "distinct_nontrivial": len([c for c in cases if c["kind"] != "tag" or c["name"]]),
        "rule": "the live registry (extracted through TagString / EnumValuesByTag / AppendBitmaskString) must equal the pinned KMIP 1.0-1.4 registry and satisfy Registry.tla's bijection and structure invariants (checked by TLC); then every pinned tag (292), every enumeration value (601 in 47 enumerations), every mask flag (22) and unregistered numbers around them (tag + 0x200 / 0x400 / 0x1000 / 0x10000, values beyond the maximum) is replayed through TagString, EnumByName / EnumName, BitmaskByStr and XML / JSON / binary / text single-item round trips, reading back the number that was written and reading foreign documents written by name; non-trivial = registered entries",
        "exhaustive": True, "samples": cases[:2] + cases[-2:],
    }, assumptions=["the pinned registry was taken from this tree and only spot-checked against the KMIP tables (not re-keyed from the OASIS documents)",
                    "the empty enumeration OpaqueDataType cannot be observed through the public API"])


def diff(live, pinned):
    res = []
    lt, pt = {t[0]: t[1] for t in live["tags"]}, {t[0]: t[1] for t in pinned["tags"]}
    for k in sorted(set(lt) | set(pt)):
        if lt.get(k) != pt.get(k):
            res.append(("registry:tag-0x%06X" % k, "tag 0x%06X: pinned name %r, library has %r" % (k, pt.get(k), lt.get(k))))
    le, pe = {e[0]: e for e in live["enums"]}, {e[0]: e for e in pinned["enums"]}
    for k in sorted(set(le) | set(pe)):
        a = {v[0]: v[1] for v in le.get(k, [0, "", []])[2]}
        b = {v[0]: v[1] for v in pe.get(k, [0, "", []])[2]}
        for v in sorted(set(a) | set(b)):
            if a.get(v) != b.get(v):
                res.append(("registry:enum-%s-%d" % (pe.get(k, le.get(k))[1], v), "enumeration %s value %d: pinned %r, library has %r" % (pe.get(k, le.get(k))[1], v, b.get(v), a.get(v))))
    lm, pm = {m[0]: m for m in live["masks"]}, {m[0]: m for m in pinned["masks"]}
    for k in sorted(set(lm) | set(pm)):
        a = {v[0]: v[1] for v in lm.get(k, [0, "", []])[2]}
        b = {v[0]: v[1] for v in pm.get(k, [0, "", []])[2]}
        for v in sorted(set(a) | set(b)):
            if a.get(v) != b.get(v):
                res.append(("registry:mask-%d" % v, "mask tag 0x%06X bit %d: pinned %r, library has %r" % (k, v, b.get(v), a.get(v))))
    return res
