"""C17 - Tag, enumeration and bit-mask names form a stable bijection (spec/Registry.tla)."""
import json, re, os
import vlib


def run(ctx):
    binary = ctx.build_driver("registry")
    reg = os.path.join(ctx.work, "registry.live.json")
    rc, out = ctx.run_driver(binary, test_run="^TestExtract$", env={"VERIF_OUT": reg})
    if rc != 0 or not os.path.exists(reg):
        raise vlib.Inconclusive("registry extraction failed rc=%s\n%s" % (rc, out[-2000:]))
    ref = os.path.join(vlib.SPEC, "ref", "registry.ref.json")
    env = {"REG_FILE": reg, "REF_FILE": ref}
    r = ctx.tlc("Registry", "Registry_mc.cfg", workers=4, env=env, must_pass=False)
    if not r.ok:
        if "RegistryOK" in r.out and ("is violated" in r.out or "equal to FALSE" in r.out):
            live, pinned = json.load(open(reg)), json.load(open(ref))
            diffs = diff(live, pinned)
            if diffs:
                for sig, text in diffs[:20]:
                    ctx.violation(sig, text, {"diff": text})
            else:
                ctx.violation("registry:not-well-formed", "TLC: the extracted registry violates the bijection / structure invariants of Registry.tla", {"tlc": r.out[-1500:]})
        else:
            raise vlib.Inconclusive("TLC failed on Registry.tla:\n" + r.out[-3000:])
    g = ctx.tlc("Registry", "Registry_gen.cfg", workers=2, env={"REG_FILE": ref, "REF_FILE": ref}, count=False)
    cases = g.printed("CASE")
    if len(cases) < 1000:
        raise vlib.Inconclusive("too few registry cases: %d" % len(cases))
    cpath = os.path.join(ctx.work, "cases.ndjson")
    vlib.write_ndjson(cpath, cases)
    opath = os.path.join(ctx.work, "results.ndjson")
    rc, out = ctx.run_driver(binary, test_run="^TestReplay$", env={"VERIF_CASES": cpath, "VERIF_OUT": opath})
    if rc != 0 or not os.path.exists(opath):
        raise vlib.Inconclusive("registry driver failed rc=%s\n%s" % (rc, out[-3000:]))
    res = vlib.read_ndjson(opath)
    summ = [x for x in res if x.get("summary")]
    if not summ or summ[0]["cases"] != len(cases):
        raise vlib.Inconclusive("driver replayed %s, TLC generated %d" % (summ, len(cases)))
    for x in res:
        if x.get("summary"):
            continue
        c = x["c"]
        p0 = x["problems"][0].split("-to-")[0] if c["kind"].startswith("name-") else re.sub(r"gives-0x[0-9a-f]+", "gives-another-value", x["problems"][0])
        sig = "%s:%s:%s" % (c["kind"], "registered" if (c["name"] if c["kind"] == "tag" else c["vname"]) else "unregistered", p0.split(":")[0] + ":" + (p0.split(":")[1] if ":" in p0 else ""))
        ctx.violation(sig, "%s tag=0x%06X name=%r value=%s vname=%r: %s" % (c["kind"], c["tag"], c["name"], c["value"], c["vname"], x["problems"][:3]), x)
    # the registry while it changes: RegistryDyn.tla histories (registrations of vendor extensions interleaved with lookups and writes)
    deep = "" if ctx.quick else "_deep"
    ctx.tlc("RegistryDyn", "RegistryDyn_mc%s.cfg" % deep, workers=4)
    gd = ctx.tlc("RegistryDyn", "RegistryDyn_gen%s.cfg" % deep, workers=1, count=False)
    hist = gd.printed("CASE")
    if len(hist) < 8000:
        raise vlib.Inconclusive("too few registry histories: %d" % len(hist))
    hpath, dpath = os.path.join(ctx.work, "dyn.ndjson"), os.path.join(ctx.work, "dyn.out.ndjson")
    vlib.write_ndjson(hpath, hist)
    rc, out = ctx.run_driver(binary, test_run="^TestDynamic$", env={"VERIF_DYN_CASES": hpath, "VERIF_OUT": dpath})
    if rc != 0 or not os.path.exists(dpath):
        raise vlib.Inconclusive("registry driver (dynamic) failed rc=%s\n%s" % (rc, out[-3000:]))
    dres = vlib.read_ndjson(dpath)
    dsum = [x for x in dres if x.get("summary")]
    if not dsum or dsum[0]["histories"] != len(hist):
        raise vlib.Inconclusive("driver replayed %s, TLC generated %d histories" % (dsum, len(hist)))
    for x in dres:
        if x.get("summary"):
            continue
        p0 = x["problems"][0]
        ctx.violation("dynamic:%s" % p0.split(":")[0], "enumeration %s, history %s: %s" % (x["tag"], [(s["op"], s["slot"]) for s in x["h"]], x["problems"][:3]), x)
    ctx.finish("model_checking", {
        "evaluations": len(cases) + dsum[0]["steps"],
        "dynamic_histories": len(hist),
        "dynamic_rule": "RegistryDyn.tla: every history of 4 (quick) / 5 (thorough) steps over {register extension value 1|2, look it up by name / by value, look up a pinned entry, write it in XML and JSON and read it back}; TLC checks that each observation is a function of the registrations before it; each history is replayed on the real process-global registry (State, CryptographicAlgorithm, ObjectType) with fresh vendor values",
        "distinct_nontrivial": len([c for c in cases if c["kind"] != "tag" or c["name"]]),
        "rule": "the live registry (extracted through TagString / EnumValuesByTag / AppendBitmaskString) must equal the pinned KMIP 1.0-1.4 registry and satisfy Registry.tla's bijection and structure invariants (checked by TLC); then every pinned tag (292), every enumeration value (601 in 47 enumerations), every mask flag (22) and unregistered numbers around them (tag + 0x200 / 0x400 / 0x1000 / 0x10000, values beyond the maximum) is replayed through TagString, EnumByName / EnumName, BitmaskByStr and XML / JSON / binary / text single-item round trips, reading back the number that was written and reading foreign documents written by name; non-trivial = registered entries",
        "exhaustive": True, "samples": cases[:2] + cases[-2:],
    }, assumptions=["the pinned registry was taken from this tree and only spot-checked against the KMIP tables (not re-keyed from the OASIS documents)",
                    "the empty enumeration OpaqueDataType cannot be observed through the public API"])


def diff(live, pinned):
    res = []
    lt, pt = {t[0]: t[1] for t in live["tags"]}, {t[0]: t[1] for t in pinned["tags"]}
    for k in sorted(set(lt) | set(pt)):
        if lt.get(k) != pt.get(k):
            res.append(("registry:tag-0x%06X" % k, "tag 0x%06X: pinned name %r, library has %r" % (k, pt.get(k), lt.get(k))))
    le, pe = {e[0]: e for e in live["enums"]}, {e[0]: e for e in pinned["enums"]}
    for k in sorted(set(le) | set(pe)):
        a = {v[0]: v[1] for v in le.get(k, [0, "", []])[2]}
        b = {v[0]: v[1] for v in pe.get(k, [0, "", []])[2]}
        for v in sorted(set(a) | set(b)):
            if a.get(v) != b.get(v):
                res.append(("registry:enum-%s-%d" % (pe.get(k, le.get(k))[1], v), "enumeration %s value %d: pinned %r, library has %r" % (pe.get(k, le.get(k))[1], v, b.get(v), a.get(v))))
    lm, pm = {m[0]: m for m in live["masks"]}, {m[0]: m for m in pinned["masks"]}
    for k in sorted(set(lm) | set(pm)):
        a = {v[0]: v[1] for v in lm.get(k, [0, "", []])[2]}
        b = {v[0]: v[1] for v in pm.get(k, [0, "", []])[2]}
        for v in sorted(set(a) | set(b)):
            if a.get(v) != b.get(v):
                res.append(("registry:mask-%d" % v, "mask tag 0x%06X bit %d: pinned %r, library has %r" % (k, v, b.get(v), a.get(v))))
    return res
