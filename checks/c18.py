"""C18 - Re-encoding an accepted input reaches a fixed point (binary part: spec/Wire.tla Canon)."""
from checks import wirecommon as wc


def run(ctx):
    cases = wc.tlc_modes(ctx, ["noncanon", "mutants", "trees"])
    n = wc.replay(ctx, cases, ["c18:"])
    acc = [c for c in cases if c["kind"] == "bytes" and c.get("accept")]
    ctx.finish("model_checking", {
        "evaluations": n,
        "distinct_nontrivial": len([c for c in acc if not c.get("strict")]),
        "rule": "inputs = the accepted ones among: non-canonical encodings (non-zero padding, over-long / unpadded big integers, booleans with other bits set, structures around them), every truncation and single-header corruption of 4 base encodings, all canonical trees; TLC checks Canon(Canon(x)) = Canon(x) and Parse(Canon(x)) = Parse(x) on Wire.tla; the library decodes each accepted input, re-encodes, decodes and re-encodes again: the second re-encoding must be byte-identical to the first and the re-encoding must be accepted; non-trivial = accepted but not canonical",
        "exhaustive": True, "cases_replayed_against_impl": n, "samples": acc[:3],
    }, assumptions=["binary encoding only in this check; alternative XML / JSON lexical forms and the cross-encoding hops are not yet covered by a specification (DESIGN.md section 7)"])
