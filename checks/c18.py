"""C18 - Re-encoding an accepted input reaches a fixed point (binary part: spec/Wire.tla Canon)."""
import json, os
import vlib
from checks import wirecommon as wc
from checks import shapes


def typed_fixed_point(ctx):
    """typed targets: perturbed whole messages (zeroed leaves, unknown / duplicated / swapped elements) through the real
    decode -> encode -> decode -> encode cycle in the three encodings"""
    binary = ctx.build_driver("plan")
    opath = os.path.join(ctx.work, "typed_fixed_point.ndjson")
    rc, out = ctx.run_driver(binary, test_run="^TestTypedFixedPoint$", env={"VERIF_OUT": opath})
    if rc != 0 or not os.path.exists(opath):
        raise vlib.Inconclusive("typed fixed point driver failed rc=%s\n%s" % (rc, out[-3000:]))
    res = vlib.read_ndjson(opath)
    summ = [x for x in res if x.get("summary")][0]
    for x in res:
        if x.get("summary"):
            continue
        for p in x["problems"]:
            parts = p.split(":")
            op, d, label = x["input"].split("/", 2)
            sig = "typed:%s:%s:%s" % (parts[0], parts[1], label)
            ctx.violation(sig, "message %s direction %s perturbed by %s (%s): %s" % (op, d, label, x["hex"][:400], p[:400]), x)
    return summ


def run(ctx):
    cases = wc.tlc_modes(ctx, ["noncanon", "mutants", "trees"])
    n = wc.replay(ctx, cases, ["c18:"])
    tf = typed_fixed_point(ctx)
    rows, _, _ = shapes.replay(ctx)
    nacc = shapes.judge_c18(ctx, rows)
    acc = [c for c in cases if c["kind"] == "bytes" and c.get("accept")]
    ctx.finish("model_checking", {
        "evaluations": n + tf["inputs"] + nacc, "text_documents_accepted": nacc, "text_documents": len(rows),
        "text_rule": "every XML / JSON document enumerated from TextShapes.tla (alternative notations and ~110 malformations per node of three base documents) that the typed decoder accepts is re-encoded in binary and in its own encoding, decoded and re-encoded again: no panic, both re-encodings accepted, second equals first", "typed_inputs": tf["inputs"], "typed_inputs_accepted": tf["accepted"],
        "distinct_nontrivial": len([c for c in acc if not c.get("strict")]),
        "rule": "inputs = the accepted ones among: non-canonical encodings (non-zero padding, over-long / unpadded big integers, booleans with other bits set, structures around them), every truncation and single-header corruption of 4 base encodings, all canonical trees; TLC checks Canon(Canon(x)) = Canon(x) and Parse(Canon(x)) = Parse(x) on Wire.tla; the library decodes each accepted input, re-encodes, decodes and re-encodes again: the second re-encoding must be byte-identical to the first and the re-encoding must be accepted; non-trivial = accepted but not canonical; plus, for typed targets, every whole message (27 operations x 2 directions) perturbed at every node (leaf value zeroed, unknown element appended, last child duplicated, first two children swapped) through decode / encode / decode / encode in binary, XML and JSON - the oracle there is the fixed-point property itself",
        "exhaustive": True, "cases_replayed_against_impl": n, "samples": acc[:3],
    }, assumptions=["XML / JSON inputs are single structured mutations of three base documents plus the typed perturbations; not arbitrary texts"])
