"""C19 - Middleware chains run in order and are re-entrant (spec/Chain.tla)."""
import json, os
import vlib


def run(ctx):
    n = 3 if ctx.quick else 4
    r = ctx.tlc("MCChain", "Chain_mc%d.cfg" % n, coverage=not ctx.quick)
    if not ctx.quick:
        z = [a for a in r.coverage_zero() if a in ("Call", "SetMsg", "SetCtx", "Ret", "RetOwn", "RetErr", "FinishEmpty", "BeginFresh")]
        if z:
            raise vlib.Inconclusive("vacuous model: actions never taken: %s" % z)
    ctx.tlc("MCChain", "Chain_mc2q.cfg")
    g = ctx.tlc("MCChain", "Chain_gen%d.cfg" % n, workers=4, count=False)
    cases = g.printed("CASE")
    if not cases:
        raise vlib.Inconclusive("no cases generated")
    cpath = os.path.join(ctx.work, "cases.ndjson")
    vlib.write_ndjson(cpath, cases)
    binary = ctx.build_driver("chain")
    opath = os.path.join(ctx.work, "results.ndjson")
    rc, out = ctx.run_driver(binary, test_run="^TestReplay$", env={"VERIF_CASES": cpath, "VERIF_OUT": opath})
    if rc != 0 or not os.path.exists(opath):
        raise vlib.Inconclusive("chain driver failed rc=%s\n%s" % (rc, out[-3000:]))
    res = vlib.read_ndjson(opath)
    summ = [x for x in res if x.get("summary")]
    if not summ or summ[0]["cases"] != len(cases):
        raise vlib.Inconclusive("driver replayed %s, TLC generated %d" % (summ, len(cases)))
    for x in res:
        if x.get("summary"):
            continue
        fin = x["got"]["final"]
        if isinstance(fin[0], str) and fin[0].startswith("panic:"):
            sig = "panic:%s:%s" % (x["kind"], fin[0][6:])
        else:
            sig = "hist:%s%s:%s" % (x["kind"], "(cancelled-ctx)" if x.get("deadctx") else "(cancelled-root)" if x.get("deadroot") else "", "-".join(x["chain"]))
        ctx.violation(sig, "call trace of the real %s chain %s (request #%d on the chain) differs from Chain.tla: expected %s got %s" % (
            x["kind"], x["chain"], x["rep"] + 1, json.dumps(x["expect"]), json.dumps(x["got"])), x)
    # B3: concurrent requests sharing a chain, validated by TLC
    sample = [c for c in cases if len(c["chain"]) >= 1]
    ctx.rng.shuffle(sample)
    sample = sample[: (40 if ctx.quick else 400)]
    spath = os.path.join(ctx.work, "sample.ndjson")
    vlib.write_ndjson(spath, sample)
    tpath = os.path.join(ctx.work, "trace.ndjson")
    rc, out = ctx.run_driver(binary, test_run="^TestTrace$", env={"VERIF_CASES": spath, "VERIF_TRACE": tpath, "VERIF_G": 16})
    if rc != 0 or not os.path.exists(tpath):
        raise vlib.Inconclusive("chain trace driver failed rc=%s\n%s" % (rc, out[-3000:]))
    log = vlib.read_ndjson(tpath)
    ntr = len([x for x in log if x["ev"] == "begin"])
    t = ctx.tlc("TraceChain", "Chain_trace.cfg", workers=1, env={"TRACE_FILE": tpath}, must_pass=False, count=False, label="trace")
    if t.ok:
        ctx.traces_validated += ntr
    else:
        import re
        m = re.search(r"REJECTED_AT\D+(\d+)", t.out)
        if not (m or t.violated):
            raise vlib.Inconclusive("trace validation failed:\n" + t.out[-3000:])
        pos = int(m.group(1)) if m else None
        bad = log[pos - 1] if pos and pos <= len(log) else None
        q = bad.get("q") if bad else None
        # events of that slot since its last begin
        rel = []
        for x in log[:pos]:
            if x.get("q") == q:
                if x["ev"] == "begin":
                    rel = []
                rel.append(x)
        kind = rel[0].get("kind") if rel else "?"
        chain = rel[0].get("chain") if rel else []
        ctx.violation("trace:%s:%s" % (kind, "-".join(chain)), "TLC rejects the recorded concurrent call trace at event #%s %s; events of that request: %s" % (
            pos, json.dumps(bad), json.dumps(rel)[:1500]), {"events": rel, "tlc_tail": t.out[-1500:]})
    ctx.finish("model_checking", {
        "evaluations": summ[0]["runs"] + ntr,
        "distinct_nontrivial": len([c for c in cases if len(c["chain"]) >= 2]) * 3,
        "rule": "every chain of <= %d stages over 8 stage programs enumerated by TLC from Chain.tla x 3 real chains (client Roundtrip, server message chain, server batch-item chain; the server chains also with derived contexts that are already cancelled and under an already cancelled root context that stages detach), 3 consecutive requests each; non-trivial = chains with >= 2 stages; plus %d requests run 16 at a time through shared chains and validated as traces" % (n, ntr),
        "exhaustive": True,
        "cases_replayed_against_impl": summ[0]["runs"],
        "samples": cases[100:102] + log[1:8],
    }, assumptions=["the context seen by the client's transport is not observable (context tokens are checked up to the innermost stage)",
                    "concurrent interleavings are those of the Go scheduler"])
