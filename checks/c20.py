"""C20 - Codec results do not depend on concurrency or call history (spec/CodecCache.tla, TraceCodec.tla)."""
import itertools, json, os, re, shutil, subprocess, concurrent.futures
import vlib

KINDS = ["ReqGet", "ReqLocate", "ReqCreate", "RespGet", "RespQuery", "RespLocate"]
ENCS = ["ttlv", "xml", "json"]
MODEL_CALLS = [[("ReqGet", 0, False), ("RespGet", 4, True)], [("ReqLocate", 4, False), ("ReqLocate", 0, True)], [("RespGet", 3, False), ("ReqGet", 1, True)]]


def call(msg, ver, op="enc", enc="ttlv", reuse=False, noclear=False):
    return {"msg": msg, "ver": ver, "op": op, "enc": enc, "reuse": reuse, "noclear": noclear}


def tlc_orders(ctx, seeds):
    sdir = os.path.join(ctx.work, "spec")
    if not os.path.isdir(sdir):
        shutil.copytree(vlib.SPEC, sdir)

    def one(s):
        out = os.path.join(ctx.work, "cc_%d.json" % s)
        meta = os.path.join(ctx.work, "ccmeta_%d" % s)
        cmd = ["tlc", "-noGenerateSpecTE", "-simulate", "num=5", "-depth", "300", "-seed", str(s), "-dumpTrace", "json", out, "-metadir", meta,
               "-workers", "1", "-config", "CodecCache_sched.cfg", "MCCodecCache.tla"]
        e = dict(os.environ)
        e["JAVA_TOOL_OPTIONS"] = "-Xss512m -Xmx1g"
        subprocess.run(cmd, cwd=sdir, env=e, stdout=subprocess.PIPE, stderr=subprocess.STDOUT, text=True, timeout=120)
        shutil.rmtree(meta, ignore_errors=True)
        if not os.path.exists(out):
            return None
        st = [x[1] for x in json.load(open(out))["counterexample"]["state"]]
        order = []
        for a, b in zip(st, st[1:]):
            for p in range(len(a["stack"])):
                if a["stack"][p] != b["stack"][p] or a["phase"][p] != b["phase"][p] or a["idx"][p] != b["idx"][p]:
                    order.append(p + 1)
        return order
    with concurrent.futures.ThreadPoolExecutor(max_workers=6) as ex:
        res = list(ex.map(one, seeds))
    ctx.tlc_cmds.append("tlc -simulate -seed <s> -dumpTrace json -config CodecCache_sched.cfg MCCodecCache.tla (x%d)" % len(seeds))
    return [r for r in res if r]


def run(ctx):
    ctx.tlc("MCCodecCache", "CodecCache_mc.cfg", coverage=not ctx.quick)
    rng = ctx.rng
    jobs = []
    # (a) history: every order of first use of the six message kinds on one goroutine
    perms = list(itertools.permutations(KINDS))
    if ctx.quick:
        rng.shuffle(perms)
        perms = perms[:40]
    for n, perm in enumerate(perms):
        calls = []
        for i, k in enumerate(perm):
            v = (i * 3 + n) % 5
            calls.append(call(k, v, "enc", ENCS[(n + i) % 3], reuse=(n % 2 == 0)))
        for i, k in enumerate(perm):
            v = (i * 2 + n + 1) % 5
            calls.append(call(k, v, "dec", ENCS[(n + i + 1) % 3]))
        jobs.append({"id": "hist-perm-%d" % n, "job": {"mode": "seq", "procs": [calls]}})
    # all version sequences of length 3 on one reused (cleared) encoder, per writer
    seqs = list(itertools.product(range(5), repeat=3))
    if ctx.quick:
        rng.shuffle(seqs)
        seqs = seqs[:25]
    for n, vs in enumerate(seqs):
        for enc in ENCS:
            jobs.append({"id": "hist-ver-%s-%s" % ("".join(map(str, vs)), enc),
                         "job": {"mode": "seq", "procs": [[call(KINDS[(n + i) % 6], v, "enc", enc, reuse=True) for i, v in enumerate(vs)] + [call("BareParams", 0, "enc", enc, reuse=True)]]}})
    # the same on an encoder that is NOT cleared between messages (binary): each message's header sets the register anew
    for n, vs in enumerate(seqs):
        jobs.append({"id": "hist-ver-noclear-%s" % "".join(map(str, vs)),
                     "job": {"mode": "seq", "procs": [[call(KINDS[(n + i) % 6], v, "enc", "ttlv", reuse=True, noclear=True) for i, v in enumerate(vs)]]}})
    # versions no KMIP release carries (0.260, 1.256, 2.0, 1.5, 3.4, 0.4): a message of such a version, then one of 1.0..1.4
    EXOTIC = [1260, 2256, 3000, 2005, 4004, 1004]
    for n, ex in enumerate(EXOTIC if not ctx.quick else EXOTIC[:4]):
        for v in range(5):
            for enc in (ENCS if not ctx.quick else ENCS[:1]):
                k = KINDS[(n + v) % 6]
                jobs.append({"id": "hist-exotic-%d-then-1.%d-%s" % (ex, v, enc),
                             "job": {"mode": "seq", "procs": [[call(k, ex, "enc", enc), call(k, v, "enc", enc), call(KINDS[(n + v + 3) % 6], v, "enc", enc, reuse=True)]]}})
    # an encoding that fails in the middle of a message (recovered by the caller), then Clear and further messages on the same encoder
    for n, enc in enumerate(ENCS):
        for v in range(5):
            k1, k2 = KINDS[(n + v) % 6], KINDS[(n + v + 2) % 6]
            jobs.append({"id": "hist-poison-%s-1.%d" % (enc, v),
                         "job": {"mode": "seq", "procs": [[call(k1, v, "enc", enc, reuse=True), call("Poison", v, "enc", enc, reuse=True), call(k1, v, "enc", enc, reuse=True), call(k2, (v + 1) % 5, "enc", enc, reuse=True)]]}})
    # (b) gated: goroutines building plans under contention in an order taken from a TLC behaviour of CodecCache.tla
    orders = tlc_orders(ctx, [ctx.seed * 100 + i for i in range(8 if ctx.quick else 60)])
    if len(orders) < 4:
        raise vlib.Inconclusive("TLC produced too few behaviours of CodecCache.tla: %d" % len(orders))
    for n, order in enumerate(orders):
        procs = [[call(m, v, "enc" if (n + i) % 3 else "dec", ENCS[(n + pi) % 3], reuse=r) for i, (m, v, r) in enumerate(p)] for pi, p in enumerate(MODEL_CALLS)]
        jobs.append({"id": "gated-%d" % n, "job": {"mode": "gated", "procs": procs, "order": [p for p in order for _ in range(4)]}})
    # (c) free running from a cold start
    nfree = 6 if ctx.quick else 80
    for n in range(nfree):
        procs = [[call(KINDS[(g + i + n) % 6], (g + i) % 5, "enc" if (g + i) % 2 else "dec", ENCS[(g + n) % 3], reuse=(i > 0))] for g in range(16) for i in range(1)]
        jobs.append({"id": "free-%d" % n, "job": {"mode": "free", "reps": 2, "procs": procs}})
    # (d) warm caches, one structure, varying interface values: a plan is a function of the type only and is not modified by its use
    VARIANTS = [["RespGet", "RespGetSecret", "RespGetOpaque"], ["ReqRegisterKey", "ReqRegisterCert"]]
    nham = 2 if ctx.quick else 12
    for n in range(nham):
        fam = VARIANTS[n % 2]
        procs = [[call(fam[(g + i) % len(fam)], (g + n) % 5, "enc", ENCS[n % 3]) for i in range(len(fam))] for g in range(8)]
        jobs.append({"id": "warm-variants-%d" % n, "job": {"mode": "free", "reps": 150 if ctx.quick else 400, "procs": procs}})
    # (e) shared values: 8 goroutines encode the SAME message values (big integers of both signs among them) again and again:
    # encoding reads its input, so sharing a value between goroutines changes nothing
    nshared = 3 if ctx.quick else 12
    for n in range(nshared):
        fam = ["RespGetBig", "RespGetCarved", "ReqLocate"] if n % 2 == 0 else ["RespGetBig", "RespGet", "RespGetCarved"]
        procs = [[call(fam[(g + i) % len(fam)], (n + 4) % 5, "enc", ENCS[(n + i) % 3]) for i in range(len(fam))] for g in range(8)]
        jobs.append({"id": "shared-values-%d" % n, "job": {"mode": "free", "shared": True, "reps": 150 if ctx.quick else 400, "procs": procs}})
    # (f) custom attributes: 8 goroutines decode (and encode) messages whose custom / unknown attribute values differ from goroutine to
    # goroutine: what a decoding returns is the content of ITS document
    ncust = 3 if ctx.quick else 12
    for n in range(ncust):
        procs = [[call("RespGetCustom", (g + n) % 5, "dec" if i % 2 == 0 else "enc", ENCS[(n + g // 3) % 3]) for i in range(2)] for g in range(8)]
        jobs.append({"id": "custom-attributes-%d" % n, "job": {"mode": "free", "reps": 300 if ctx.quick else 800, "procs": procs}})
    # (g) 8 goroutines write the same big integers (small and large, both signs) in JSON at once: the limits that decide between the number
    # and the hexadecimal form are constants, not state (first in the list: it is part of every run under the race detector)
    for n in range(2 if ctx.quick else 6):
        procs = [[call("RespGetBig", (g + n) % 5, "enc", "json") for i in range(2)] for g in range(8)]
        jobs.insert(0, {"id": "json-bigints-%d" % n, "job": {"mode": "free", "shared": n % 2 == 0, "reps": 400 if ctx.quick else 1500, "procs": procs}})
    jpath = os.path.join(ctx.work, "jobs.ndjson")
    vlib.write_ndjson(jpath, jobs)
    results = []
    for race in (False, True):
        binary = ctx.build_driver("codec", race=race)
        sel = jobs if not race else [j for j in jobs if j["job"]["mode"] == "free" or j["id"].startswith("gated")][: (12 if ctx.quick else 150)]
        jp = jpath if not race else os.path.join(ctx.work, "jobs_race.ndjson")
        if race:
            vlib.write_ndjson(jp, sel)
        opath = os.path.join(ctx.work, "codec_results_%s.ndjson" % ("race" if race else "plain"))
        rc, out = ctx.run_driver(binary, test_run="^TestParent$", env={"VERIF_JOBS": jp, "VERIF_OUT": opath}, timeout=1500)
        if rc != 0 or not os.path.exists(opath):
            raise vlib.Inconclusive("codec driver failed rc=%s\n%s" % (rc, out[-3000:]))
        res = vlib.read_ndjson(opath)
        summ = [x for x in res if x.get("summary")]
        if not summ or summ[0]["jobs"] != len(sel):
            raise vlib.Inconclusive("codec driver ran %s of %d jobs" % (summ, len(sel)))
        results.append((race, res))
    # decoding is a function of the document: every document shape of TextShapes.tla (duplicate members, members differing in case,
    # reordered members ...) is decoded eight times in one process
    from checks import shapes
    rows, _, _ = shapes.replay(ctx, deep_ok=False)
    nshape = shapes.judge_c20(ctx, rows)
    ctx.note("%d text document shapes decoded eight times each" % nshape)
    ncalls = 0
    ref = None
    gated_events = []
    for race, res in results:
        for x in res:
            if "reference" in x:
                ref = ref or x["reference"]
                continue
            if x.get("summary"):
                continue
            if x.get("problem") == "reference-failed":
                ctx.violation("reference:call-fails-alone:%s" % x["key"], "call %s fails alone in a fresh process: %s" % (x["key"], x["detail"][:800]), x)
                continue
            ncalls += x.get("calls", 0)
            for p in x.get("problems") or []:
                kind = p["kind"]
                det = str(p.get("detail", ""))
                m = re.search(r"(panic|fatal error): ([^\n]*)", det)
                sig = "%s:%s%s" % (x["mode"], kind, (":" + m.group(2)[:80]) if m else (":" + p.get("key", "") if kind.startswith("result") else ""))
                ctx.violation(sig, "job %s (%s%s): %s %s" % (x["id"], x["mode"], ", race detector" if race else "", kind, (p.get("key") or det)[:1200]), {"job": x["id"], "problem": p})
            if x["mode"] == "gated" and not race:
                gated_events.append([dict(e) for e in x["events"]])
    if ref is None or len(ref) < 170:
        raise vlib.Inconclusive("reference table incomplete: %s" % (len(ref) if ref else None))
    # B3: the recorded cache events and results of the gated jobs against TraceCodec.tla
    tpath = os.path.join(ctx.work, "codec_trace.ndjson")
    log = []
    for evs in gated_events:
        log.append({"ev": "reset"})
        log += evs
    vlib.write_ndjson(tpath, log)
    rpath = os.path.join(ctx.work, "codec_ref.json")
    json.dump(ref, open(rpath, "w"))
    t = ctx.tlc("TraceCodec", "Codec_trace.cfg", workers=1, env={"TRACE_FILE": tpath, "REF_FILE": rpath}, must_pass=False, count=False, label="trace")
    if t.ok:
        ctx.traces_validated += len(gated_events)
    else:
        m = re.search(r"REJECTED_AT\D+(\d+)", t.out)
        if not (m or t.violated):
            raise vlib.Inconclusive("trace validation failed:\n" + t.out[-3000:])
        pos = int(m.group(1)) if m else 1
        bad = log[pos - 1] if pos <= len(log) else None
        ctx.violation("trace:%s" % (bad.get("ev") if bad else "invariant"), "TLC rejects the recorded plan-cache trace at event #%d %s (previous events: %s)" % (
            pos, json.dumps(bad), json.dumps(log[max(0, pos - 8): pos - 1])[:1200]), {"tlc_tail": t.out[-1500:]})
    ctx.finish("model_checking", {
        "evaluations": ncalls,
        "distinct_nontrivial": len(jobs),
        "rule": "every job runs in a fresh child process (cold plan caches); the reference is each of the 180 distinct calls (6 message kinds with members of every introduction version x 5 versions x {binary, XML, JSON} x {encode, decode}) alone in its own process; jobs: %d history jobs (orders of first use of the message kinds, version sequences on a reused cleared encoder), %d gated jobs (3 goroutines building plans under contention, released in an order taken from a TLC behaviour of CodecCache.tla, cache events recorded and validated by TLC against TraceCodec.tla), %d free-running jobs (16-32 goroutines), and a subset again under the race detector; every result digest must equal the reference" % (
            len([j for j in jobs if j["job"]["mode"] == "seq"]), len(orders), nfree),
        "cache_events_validated": len(log), "samples": [jobs[0], jobs[-1]] + log[1:6],
    }, assumptions=["decoded values are compared through a canonical dump of the Go value", "the text encoder (MarshalText) is not exercised",
                    "gated interleavings follow TLC behaviours only approximately: the real plan recursion has more miss/store steps than the abstract model; the remaining steps are released in FIFO order"])
