"""Shared by C10 and C11: spec/ClientConn.tla, spec/TraceClient.tla, harness/drivers/client."""
import json, os, re
import vlib
from checks import servercommon as sc

PKEY = re.compile(r'<<(\d+), "(\w)">>')


def schedule_from_states(states):
    cmds = []
    for a, b in zip(states, states[1:]):
        cmd = None
        for key, old in a["pc"].items():
            new = b["pc"][key]
            m = PKEY.match(key)
            c, role = int(m.group(1)), m.group(2)
            if new == old + "!" and not old.endswith("!"):
                cmd = {"op": "rel", "c": c, "role": role}
                if old == "rt.dial":
                    cmd["out"] = b["res"][key]
            elif old == "none" and new == "new!" and role == "K":
                cmd = {"op": "env", "act": "StartCall", "c": c}
            elif old == "none" and new == "new!" and role == "X":
                cmd = {"op": "env", "act": "StartClose"}
        if cmd is None:
            for k in range(len(a["cancelled"])):
                if b["cancelled"][k] and not a["cancelled"][k]:
                    cmd = {"op": "env", "act": "Cancel", "c": k + 1}
            for g in range(len(a["srvClosed"])):
                if len(b["pending"][g]) > len(a["pending"][g]) and len(b["c2s"][g]) < len(a["c2s"][g]):
                    cmd = {"op": "env", "act": "SrvRead", "c": g + 1}
                elif len(b["s2c"][g]) > len(a["s2c"][g]):
                    cmd = {"op": "env", "act": "SrvReply", "c": g + 1, "id": b["s2c"][g][-1]}
                elif b["srvClosed"][g] and not a["srvClosed"][g]:
                    cmd = {"op": "env", "act": "SrvClose", "c": g + 1}
                elif b["srvReset"][g] and not a["srvReset"][g]:
                    cmd = {"op": "env", "act": "SrvReset", "c": g + 1}
        if cmd:
            cmds.append(cmd)
    return cmds


def oracle(run, want):
    """Property-level observations of one recorded client run (C10 / C11), independent of the gate-level model."""
    res = []
    end = [x for x in run if x["ev"] == "end"]
    for x in run:
        if x["ev"] == "obs" and x["kind"] == "blocked":
            for role, at in x["blocked"]:
                r = role.split(".")[1]
                if r == "K" and "hang" in want:
                    res.append(("hang:K@" + at, "caller %s never returned (blocked at %s) although every server answered or went away" % (role, at)))
                elif r in ("R", "W") and "leak" in want:
                    res.append(("leak:%s@%s" % (r, at), "goroutine %s of an abandoned connection left behind at %s" % (role, at)))
                elif r == "X" and "hang" in want:
                    res.append(("hang:Close@" + at, "Client.Close never returned"))
    if not end:
        return res
    end = end[0]
    for k, r in enumerate(end["results"], 1):
        if r[0] == "resp" and r[1] != k and "misdelivery" in want:
            res.append(("misdelivery", "call %d returned the response to request %s" % (k, r[1])))
        if r[0] == "panic":
            res.append(("panic:" + str(r[1]), "call %d panicked: %s" % (k, r[1])))
        if r[0] == "err" and str(r[1]).startswith("other:") and "errors" in want:
            res.append(("error:unclassified", "call %d returned an unexpected error: %s" % (k, r[1])))
    if "tries" in want:
        for k, n in enumerate(end["tries"], 1):
            if n > 4:
                res.append(("transmissions:%d" % n, "request %d was transmitted %d times" % (k, n)))
    if "closedfails" in want:
        xdone = next((i for i, x in enumerate(run) if x["ev"] == "arr" and x["g"] == "done" and x["p"] == [0, "X"]), None)
        if xdone is not None:
            for i, x in enumerate(run):
                if x["ev"] == "hand" and x["k"] == "rx" and i > xdone:
                    res.append(("closed:call-succeeded-after-close", "call %d received a response after Client.Close had returned" % x["c"]))
    if "recovers" in want or "closedfails" in want:
        # replay the log at the level of "which connection is current, is it dead, was the client closed"
        dead, user_closed, close_done, close_started = False, False, False, False
        lock_state = {}
        for i, x in enumerate(run):
            if x["ev"] == "rel" and x["g"] == "term.cancel":
                dead = True
            if x["ev"] == "rel" and x["g"] == "cl.close":
                user_closed = True        # conn.Close(): by Client.Close or by reconnect (then a dial follows)
            if x["ev"] == "rel" and x["g"] == "rt.dial" and x.get("out") == "ok":
                dead, user_closed = False, False
            if x["ev"] == "arr" and x["g"] == "done" and x["p"] == [0, "X"]:
                close_done = True
            if x["ev"] == "env" and x["act"] == "StartClose":
                close_started = True
            if x["ev"] == "rel" and x["g"] == "rt.lock":
                k = x["p"][0]
                lock_state[k] = {"dead": dead and not user_closed, "after_close": close_done, "close_started": close_started, "i": i}
        for k, st in lock_state.items():
            r = end["results"][k - 1]
            seg = run[st["i"]:]
            # events of caller k until its exit
            mine = []
            for x in seg:
                if x.get("p") == [k, "K"]:
                    mine.append(x)
                    if x["ev"] == "arr" and x["g"] == "done":
                        break
            dialed = any(x["ev"] == "rel" and x["g"] == "rt.dial" for x in mine)
            cancelled = any(x["ev"] == "env" and x["act"] == "Cancel" and x["c"] == k for x in run)
            closed_meanwhile = any(x["ev"] == "env" and x["act"] == "StartClose" for x in seg[:len(seg)] if run.index(x) < (run.index(mine[-1]) if mine else len(run)))
            if "recovers" in want and st["dead"] and r[0] == "err" and not cancelled and not st["close_started"] and not closed_meanwhile and not dialed:
                res.append(("recovers:dead-connection-reused", "call %d found a dead connection when it took the mutex and failed with %s without dialing a fresh one" % (k, r[1])))
            if "closedfails" in want and st["after_close"] and r[0] == "resp":
                res.append(("closed:call-succeeded-after-close", "call %d started after Client.Close had returned and succeeded" % k))
    return res
