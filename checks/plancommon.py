"""Shared by C01, C04, C05: spec/Plan.tla over the extracted plan, harness/drivers/plan."""
import json, os
import vlib

_cache = {}


def prepare(ctx):
    """extract the plan from the code, check Plan.tla with TLC, generate the cases, run the driver once."""
    binary = ctx.build_driver("plan")
    nul = 1 if ctx.pid == "C01" else 0      # text strings ending with U+0000: binary round trip only (XML 1.0 cannot carry the character)
    plan = os.path.join(ctx.work, "plan.json")
    rc, out = ctx.run_driver(binary, test_run="^TestExtract$", env={"VERIF_OUT": plan})
    if rc != 0 or not os.path.exists(plan):
        raise vlib.Inconclusive("plan extraction failed rc=%s\n%s" % (rc, out[-2000:]))
    env = {"PLAN_FILE": plan, "VERSIONS_FILE": os.path.join(vlib.SPEC, "ref", "versions.ref.json"),
           "TAGS_FILE": os.path.join(vlib.SPEC, "ref", "fieldtags.ref.json")}
    deep = "" if ctx.quick else "_deep"     # thorough tier: every population for structures with up to 9 optional members
    r = ctx.tlc("Plan", "Plan_mc%s.cfg" % deep, workers=12, env=env, must_pass=False)
    static = []
    if not r.ok:
        if r.violated:
            static = r.violated
        else:
            raise vlib.Inconclusive("TLC failed on Plan.tla:\n" + r.out[-3000:])
    g = ctx.tlc("Plan", "Plan_gen%s.cfg" % deep, workers=2, env=env, count=False)
    cases = g.printed("CASE")
    if len(cases) < 5000:
        raise vlib.Inconclusive("too few plan cases: %d" % len(cases))
    cpath = os.path.join(ctx.work, "plan_cases.ndjson")
    vlib.write_ndjson(cpath, cases)
    opath = os.path.join(ctx.work, "plan_results.ndjson")
    rc, out = ctx.run_driver(binary, test_run="^TestStructCases$", env={"VERIF_CASES": cpath, "VERIF_OUT": opath, "VERIF_NUL": nul})
    if rc != 0 or not os.path.exists(opath):
        raise vlib.Inconclusive("plan driver failed rc=%s\n%s" % (rc, out[-3000:]))
    res = vlib.read_ndjson(opath)
    summ = [x for x in res if x.get("summary")]
    if not summ or summ[0]["cases"] != len(cases):
        raise vlib.Inconclusive("driver replayed %s, TLC generated %d" % (summ, len(cases)))
    mpath = os.path.join(ctx.work, "plan_messages.ndjson")
    rc, out = ctx.run_driver(binary, test_run="^TestMessages$", env={"VERIF_OUT": mpath, "VERIF_NUL": nul})
    if rc != 0 or not os.path.exists(mpath):
        raise vlib.Inconclusive("plan message driver failed rc=%s\n%s" % (rc, out[-3000:]))
    msgs = vlib.read_ndjson(mpath)
    planj = json.load(open(plan))
    return {"cases": cases, "results": [x for x in res if not x.get("summary")], "evaluations": summ[0]["evaluations"],
            "messages": [x for x in msgs if not x.get("summary")], "nmessages": [x for x in msgs if x.get("summary")][0]["messages"],
            "static": static, "plan": planj, "tlc_out": r.out}


def gated_structs(plan):
    return {s["name"] for s in plan["structs"] if any(f["vmin"] != 0 for f in s["fields"])}


def report(ctx, data, want_enc, kinds, only_structs=None):
    """report struct-case problems of the given encodings / kinds"""
    for x in data["results"]:
        c = x["c"]
        if only_structs is not None and c["struct"] not in only_structs:
            continue
        for p in x["problems"]:
            parts = p.split(":")
            enc, kind = parts[0], parts[1] if len(parts) > 1 else ""
            if enc == "drift":
                raise vlib.Inconclusive("model drift: %s" % x)
            if enc in want_enc and kind in kinds:
                sig = "%s:%s:%s" % (enc, kind, c["struct"])
                ctx.violation(sig, "structure %s population %s at version %s: %s" % (c["struct"], c["pop"], "none" if c["ver"] < 0 else "1.%d" % c["ver"], p[:700]), x)
