"""Shared by C08 and C16: spec/Server.tla, spec/TraceServer.tla, harness/drivers/server."""
import concurrent.futures, json, os, re, shutil, subprocess
import vlib

PKEY = re.compile(r'<<(\d+), "(\w)">>')


def schedule_from_states(states):
    """Compile a TLC behaviour (list of state dicts from -dumpTrace json) into controller commands:
    releases and environment actions; arrivals and rendezvous happen by themselves."""
    cmds = []
    for a, b in zip(states, states[1:]):
        cmd = None
        for key, old in a["pc"].items():
            new = b["pc"][key]
            m = PKEY.match(key)
            c, role = int(m.group(1)), m.group(2)
            if new == old + "!" and not old.endswith("!"):
                cmd = {"op": "rel", "c": c, "role": role}
                if old == "u.connect":
                    cmd["out"] = b["hookC"][c - 1]
            elif old == "none" and new == "new!" and role == "D":
                cmd = {"op": "env", "act": "StartShutdown"}
            elif old == "none" and new == "new!" and role == "T":
                cmd = {"op": "env", "act": "TimerFire"}
        if cmd is None and a.get("listener") == "open" and b.get("listener") == "closed" and all(v == "none" for k, v in b["pc"].items() if k.endswith('"D">>')):
            cmd = {"op": "env", "act": "OwnerClose"}
        if cmd is None:
            if len(b["acceptQ"]) > len(a["acceptQ"]):
                cmd = {"op": "env", "act": "CliConnect", "c": b["acceptQ"][-1]}
            else:
                for c in range(len(a["sentk"])):
                    if b["sentk"][c] > a["sentk"][c]:
                        cmd = {"op": "env", "act": "CliSend", "c": c + 1, "kind": b["inbox"][c][-1][0]}
                    elif b["cliClosed"][c] and not a["cliClosed"][c]:
                        cmd = {"op": "env", "act": "CliClose", "c": c + 1}
                    elif b["cliWr"][c] and not a["cliWr"][c]:
                        cmd = {"op": "env", "act": "CliHalfClose", "c": c + 1}
        if cmd:
            cmds.append(cmd)
    # the connect hook outcome must be known when the connection is made
    for i, cmd in enumerate(cmds):
        if cmd.get("act") == "CliConnect":
            for later in cmds[i:]:
                if later.get("op") == "rel" and later.get("c") == cmd["c"] and "out" in later:
                    cmd["out"] = later["out"]
                    break
    return cmds


def trap_schedules(ctx, base_cfg, traps, seeds, mode="sim", module="MCServer", compiler=None, extra_cfg="", depth=90):
    """For every trap invariant and seed, let TLC (simulation mode) find a behaviour into the window."""
    sdir = os.path.join(ctx.work, "spec")
    if not os.path.isdir(sdir):
        shutil.copytree(vlib.SPEC, sdir)
    base = open(os.path.join(sdir, base_cfg)).read()
    jobs = []
    for t in traps:
        for s in seeds:
            jobs.append((t, s))

    def one(job):
        t, s = job
        cfg = "trap_%s_%d.cfg" % (t, s)
        open(os.path.join(sdir, cfg), "w").write(base + "\nINVARIANTS %s\n%s\n" % (t, extra_cfg))
        out = os.path.join(ctx.work, "trap_%s_%d.json" % (t, s))
        meta = os.path.join(ctx.work, "meta_%s_%d" % (t, s))
        if mode == "sim":
            cmd = ["tlc", "-noGenerateSpecTE", "-simulate", "num=300000", "-depth", str(depth), "-seed", str(s), "-dumpTrace", "json", out,
                   "-metadir", meta, "-workers", "2", "-config", cfg, module + ".tla"]
        else:   # breadth-first: the shortest behaviour into the window
            cmd = ["tlc", "-noGenerateSpecTE", "-dumpTrace", "json", out, "-metadir", meta, "-workers", "3", "-config", cfg, module + ".tla"]
        e = dict(os.environ)
        e["JAVA_TOOL_OPTIONS"] = "-Xss512m -Xmx2g"
        try:
            p = subprocess.run(cmd, cwd=sdir, env=e, stdout=subprocess.PIPE, stderr=subprocess.STDOUT, text=True, timeout=60 if mode == "sim" else 180)
        except subprocess.TimeoutExpired:
            return t, s, None, "timeout"
        finally:
            shutil.rmtree(meta, ignore_errors=True)
        if not os.path.exists(out):
            return t, s, None, p.stdout[-500:]
        d = json.load(open(out))
        states = [x[1] for x in d["counterexample"]["state"]]
        return t, s, (compiler or schedule_from_states)(states), ""

    scheds, missing = [], []
    with concurrent.futures.ThreadPoolExecutor(max_workers=6) as ex:
        for t, s, cmds, err in ex.map(one, jobs):
            if cmds is None:
                missing.append((t, s, err))
            else:
                scheds.append({"id": "trap-%s-%s%d" % (t, mode, s), "cmds": cmds})
    ctx.tlc_cmds.append("tlc %s -dumpTrace json -config %s+INVARIANTS <Trap> %s.tla (x%d)" % ("-simulate -seed <s>" if mode == "sim" else "(bfs)", base_cfg, module, len(jobs)))
    return scheds, missing


def run_driver_with_restart(ctx, binary, env, label):
    """The driver process dies when a server goroutine panics; the run in progress is recorded as a panic
    observation and the driver is restarted after it."""
    trace_all, panics = [], []
    skip = 0
    for attempt in range(40):
        tpath = os.path.join(ctx.work, "trace_%s_%d.ndjson" % (label, attempt))
        e = dict(env)
        e.update({"VERIF_TRACE": tpath, "VERIF_SKIP": skip, "VERIF_PROGRESS": tpath + ".progress"})
        rc, out = ctx.run_driver(binary, test_run="^TestRuns$", env=e, timeout=1200)
        log = []
        if os.path.exists(tpath):
            for line in open(tpath):
                line = line.strip()
                if not line:
                    continue
                try:
                    log.append(json.loads(line))
                except ValueError:
                    break      # truncated last line of a crashed run
        prog = open(tpath + ".progress").read().split("\n") if os.path.exists(tpath + ".progress") else []
        prog = [p for p in prog if p]
        if rc == 0 and prog and prog[-1].startswith("done"):
            trace_all += log
            return trace_all, panics
        if rc == 3 and prog and prog[-1].startswith("hang"):
            # the controller could not continue a run (watchdog): what was recorded of it is kept and judged by the oracle, the driver
            # is restarted after it
            last = prog[-1].split(" ")
            n = int(last[1]) if len(last) > 1 and last[1].isdigit() else skip + 1
            trace_all += log
            skip = n
            continue
        if rc == 124:
            raise vlib.Inconclusive("server driver timed out")
        if "panic:" in out or "fatal error:" in out:
            last = prog[-1].split(" ", 1) if prog else ["0", "?"]
            n, rid = int(last[0]), last[1] if len(last) > 1 else "?"
            m = re.search(r"(panic|fatal error): ([^\n]*)", out)
            frames = [l[len("github.com/ovh/kmip-go/"):l.rfind("(")] for l in out.splitlines() if l.startswith("github.com/ovh/kmip-go/") and "(" in l]
            top = frames[0] if frames else "?"
            # events of the crashed run (the log was flushed before the run started; keep what is there)
            k = max([i for i, x in enumerate(log) if x.get("ev") == "reset"] or [0])
            crashed = log[k:]
            panics.append({"run": rid, "msg": m.group(2) if m else "?", "top": top, "events": crashed[-40:]})
            trace_all += log[:k]
            skip = n
            continue
        raise vlib.Inconclusive("server driver failed rc=%s\n%s" % (rc, out[-3000:]))
    if trace_all:
        ctx.note("the server driver had to be restarted 40 times (runs the controller could not continue / crashes); the runs recorded so far are judged")
        return trace_all, panics
    raise vlib.Inconclusive("server driver keeps crashing")


def split_runs(log):
    runs, cur = [], None
    for x in log:
        if x["ev"] == "reset":
            cur = [x]
            runs.append(cur)
        elif cur is not None:
            cur.append(x)
    return runs


def expected_out(kinds):
    out = []
    for k, kind in enumerate(kinds, 1):
        if kind == "req":
            out.append(["ok", k])
        elif kind in ("enc", "plain"):
            out.append(["inv", 0])
            break
        elif kind == "part":
            break
    return out


def oracle(run, want):
    """Property-level observations of one recorded run (what C08 / C16 state), independent of the gate-level model.
    Returns list of (signature, text)."""
    res = []
    end = [x for x in run if x["ev"] == "end"]
    for x in run:
        if x["ev"] == "obs" and x["kind"] == "leak":
            res.append(("leak:" + ",".join(sorted(b[0].split(".")[1] + "@" + b[1] for b in x["blocked"])), "goroutines left behind: %s" % x["blocked"]))
    # the terminate hook of a connection runs after the last handler of that connection: not while a handler of it has been entered
    # and has not returned (a handler is entered when it arrives at its gate and returns right after its release)
    running = {}
    for x in run:
        if x["ev"] in ("arr", "rel") and isinstance(x.get("p"), list):
            c = x["p"][0]
            if x["g"] == "u.handler":
                running[c] = x["ev"] == "arr"
        elif x["ev"] == "hand" and x.get("m") == "u.handler":
            running[x["c"]] = True      # the request was handed over and the handler entered (arrival reported with the rendezvous)
        elif x["ev"] == "obs" and x.get("kind") == "terminate-hook-entered" and running.get(x.get("c")) and "hooks" in want:
            res.append(("hooks:terminate-hook-while-a-handler-of-the-connection-runs", "conn %d: the terminate hook is entered while a handler of the connection has not returned" % x["c"]))
            break
    for x in run:
        # once Shutdown has returned and everything that can run has run (no client has done anything since), a goroutine of a
        # connection that has not ended is waiting for its client: it is left behind
        if x["ev"] == "obs" and x.get("kind") == "alive-after-shutdown" and x.get("blocked") and "shutdown" in want:
            res.append(("shutdown:goroutine-left-after-shutdown:" + ",".join(sorted({b[0].split(".")[1] + "@" + b[1] for b in x["blocked"]})),
                        "Shutdown has returned and nothing more can run, yet these goroutines of connections have not ended: %s" % x["blocked"]))
    if not end:
        return res
    end = end[0]
    drain = next((i for i, x in enumerate(run) if x["ev"] == "note" and x.get("what") == "drain"), len(run))
    shutdown = any(x["ev"] == "env" and x["act"] == "StartShutdown" for x in run)
    # Shutdown has returned: its last gate was released, or the driver saw the call return (whatever gates it passed)
    sd_ret = next((i for i, x in enumerate(run) if (x["ev"] == "rel" and x["g"] == "sd.return") or (x["ev"] == "obs" and x.get("kind") == "shutdown-returned")), None)
    for c in (1, 2):
        sent = [x["kind"] for x in run if x["ev"] == "env" and x["act"] == "CliSend" and x["c"] == c]
        connected = any(x["ev"] == "env" and x["act"] == "CliConnect" and x["c"] == c for x in run)
        out, handled, hooks = end["out"][c - 1], end["handled"][c - 1], end["termhooks"][c - 1]
        hook_out = next((x.get("out") for x in run if x["ev"] == "rel" and x["g"] == "u.connect" and x["p"][0] == c), None)
        accepted = any(x["ev"] == "arr" and x["g"] == "hc.start" and x["p"][0] == c for x in run)
        if "responses" in want:
            oks = [o[1] for o in out if o[0] == "ok"]
            if oks != sorted(set(oks)) or any(o[0] == "inv" for o in out[:-1]):
                res.append(("responses:out-of-order-or-duplicated", "conn %d: responses %s" % (c, out)))
            elif oks != handled[:len(oks)]:
                res.append(("responses:not-matching-handled-requests", "conn %d: responses %s handled %s" % (c, out, handled)))
            if any(o[0] == "inv" for o in out) and not any(k in ("enc", "plain") for k in sent):
                res.append(("responses:invalid-message-reply-without-cause", "conn %d: %s sent %s" % (c, out, sent)))
            early = any(x["ev"] == "env" and x["act"] in ("CliHalfClose", "CliClose") and x["c"] == c for x in run[:drain])
            if connected and accepted and hook_out == "ok" and not early and not shutdown:
                exp = expected_out(sent)
                if out != exp:
                    kind = "missing-invalid-message-reply" if ["inv", 0] in exp and ["inv", 0] not in out else "missing-or-extra-response"
                    res.append(("responses:" + kind, "conn %d stayed live, client sent %s: expected responses %s, client received %s" % (c, sent, exp, out)))
        if "hooks" in want:
            exp_hooks = 1 if hook_out == "ok" else 0
            if hooks != exp_hooks:
                res.append(("hooks:terminate-hook-count-%d-expected-%d" % (hooks, exp_hooks), "conn %d: connect hook %s, terminate hook ran %d times" % (c, hook_out, hooks)))
    if "shutdown" in want and shutdown:
        # a request whose handler returns during the grace period (Shutdown called, grace timer not fired) on a connection the
        # client keeps open has completed: it is answered. (Cancellation is legitimate only after the grace period.)
        sd_at = next(i for i, x in enumerate(run) if x["ev"] == "env" and x["act"] == "StartShutdown")
        timer = any(x["ev"] == "env" and x["act"] == "TimerFire" for x in run) or any(x.get("g") == "sd.timer" for x in run if x["ev"] in ("rel", "arr"))
        for c in (1, 2):
            sent = [x["kind"] for x in run if x["ev"] == "env" and x["act"] == "CliSend" and x["c"] == c]
            closed = any(x["ev"] == "env" and x["act"] in ("CliHalfClose", "CliClose") and x["c"] == c for x in run[:drain])
            if timer or closed or any(k != "req" for k in sent):
                continue
            rels = [i for i, x in enumerate(run) if x["ev"] == "rel" and x["g"] == "u.handler" and x["p"][0] == c]
            oks = [o[1] for o in end["out"][c - 1] if o[0] == "ok"]
            for j, i in enumerate(rels):
                if i > sd_at and j < len(end["handled"][c - 1]) and end["handled"][c - 1][j] not in oks:
                    res.append(("shutdown:completed-request-not-answered-within-grace", "conn %d: the handler of request %d returned after Shutdown was called and before the grace period ended, the client kept the connection open, but received only %s" % (c, end["handled"][c - 1][j], end["out"][c - 1])))
                    break
        if sd_ret is not None:
            late = [x for x in run[sd_ret:] if x["ev"] == "rel" and x["g"] == "u.handler"]
            if late:
                res.append(("shutdown:handler-started-after-shutdown-returned", "handler invoked after Shutdown returned: %s" % late[0]))
            # ... and every connection whose connect hook succeeded has had its terminate hook by then
            for c in (1, 2):
                hooked = next((i for i, x in enumerate(run) if x["ev"] == "rel" and x["g"] == "u.connect" and x["p"][0] == c and x.get("out") == "ok"), None)
                term = next((i for i, x in enumerate(run) if x["ev"] in ("rel", "arr") and x["g"] == "u.terminate" and x["p"][0] == c), None)
                if hooked is not None and hooked < sd_ret and (term is None or term > sd_ret):
                    res.append(("shutdown:returned-before-terminate-hook", "conn %d: connect hook succeeded before Shutdown returned, its terminate hook had not run by then" % c))
            if end["serve"] != "shutdown":
                res.append(("shutdown:serve-result-" + str(end["serve"]), "Serve returned %s" % end["serve"]))
    return res


def validate(ctx, log, want, cfg="Server_trace.cfg", module="TraceServer", oracle_fn=None):
    """Strict gate-level validation of all runs by TLC. A run the model cannot explain is a VIOLATION when it also
    shows a property-level anomaly (reported by the oracle), otherwise model drift (exit 2)."""
    runs = split_runs(log)
    accepted = 0
    drift = []
    anomalies = 0
    oracle_fn = oracle_fn or oracle
    for r in runs:
        for sig, text in oracle_fn(r, want):
            anomalies += 1
            ctx.violation(sig, "run %s: %s" % (r[0].get("id"), text), {"run": r[0].get("id"), "events": r[-60:]})
    # a goroutine the model does not know (no role) executing library gates cannot be explained by the specification: such a run
    # is a violation if the oracle saw an anomaly in it (reported above), model drift otherwise; TLC is not asked about it
    def foreign(r):
        for x in r:
            p = x.get("p")
            if isinstance(p, list) and len(p) == 2 and p[1] == "":
                return x
        return None
    for r in runs:
        if any(x["ev"] == "obs" and x.get("kind") == "driver-hang" for x in r) and not oracle_fn(r, want):
            drift.append((r[0].get("id"), {"ev": "driver-hang"}, r[-12:]))
    runs_ok = [r for r in runs if not any(x["ev"] == "obs" and x.get("kind") == "driver-hang" for x in r)]
    remaining = []
    for r in runs_ok:
        x = foreign(r)
        if x is None:
            remaining.append(r)
        elif not oracle_fn(r, want):
            drift.append((r[0].get("id"), x, [y for y in r if y.get("seq", 0) < x.get("seq", 0)][-12:]))
    for attempt in range(6):
        if not remaining:
            break
        tpath = os.path.join(ctx.work, "validate_%d.ndjson" % attempt)
        vlib.write_ndjson(tpath, [x for r in remaining for x in r])
        t = ctx.tlc(module, cfg, workers=1, env={"TRACE_FILE": tpath}, must_pass=False, count=False, label="trace%d" % attempt)
        if t.ok:
            accepted += len(remaining)
            break
        m = re.search(r"REJECTED_AT\D+(\d+)", t.out)
        if not (m or t.violated):
            if ctx.viol:
                ctx.note("TLC could not evaluate the remaining traces (%d runs); the oracle's findings stand" % len(remaining))
                break
            raise vlib.Inconclusive("trace validation failed:\n" + t.out[-3000:])
        pos = int(m.group(1)) if m else 1
        # locate the run
        n = 0
        bad = None
        for i, r in enumerate(remaining):
            if n + len(r) >= pos:
                bad = i
                break
            n += len(r)
        if bad is None:
            bad = len(remaining) - 1
        r = remaining[bad]
        accepted += bad
        ev = r[pos - n - 1] if 0 <= pos - n - 1 < len(r) else None
        if oracle_fn(r, want):
            pass  # already reported as a violation above
        elif t.violated:
            ctx.violation("invariant:" + "+".join(t.violated), "run %s: TLC: invariant %s violated on the recorded trace at event %s" % (r[0].get("id"), t.violated, json.dumps(ev)),
                          {"run": r[0].get("id"), "events": r[max(0, pos - n - 40): pos - n + 2]})
        else:
            drift.append((r[0].get("id"), ev, r[max(0, pos - n - 12): pos - n]))
        remaining = remaining[bad + 1:]
    ctx.traces_validated += accepted
    return len(runs), accepted, drift


def tls_front(ctx, binary):
    """TlsAccept.tla histories replayed against a real server behind a TLS listener; returns (histories, steps)"""
    deep = "" if ctx.quick else "_deep"
    ctx.tlc("TlsAccept", "TlsAccept_mc%s.cfg" % deep, workers=4)
    g = ctx.tlc("TlsAccept", "TlsAccept_gen%s.cfg" % deep, workers=1, count=False)
    hist = g.printed("CASE")
    if len(hist) < 7000:
        raise vlib.Inconclusive("too few TLS histories: %d" % len(hist))
    hpath, opath = os.path.join(ctx.work, "tls.ndjson"), os.path.join(ctx.work, "tls.out.ndjson")
    vlib.write_ndjson(hpath, hist)
    rc, out = ctx.run_driver(binary, test_run="^TestTLS$", env={"VERIF_TLS_CASES": hpath, "VERIF_OUT": opath}, timeout=1800)
    if rc != 0 or not os.path.exists(opath):
        raise vlib.Inconclusive("server driver (TLS) failed rc=%s\n%s" % (rc, out[-3000:]))
    res = vlib.read_ndjson(opath)
    summ = [x for x in res if x.get("summary")]
    if not summ or summ[0]["histories"] != len(hist):
        raise vlib.Inconclusive("driver replayed %s, TLC generated %d TLS histories" % (summ, len(hist)))
    for x in res:
        if x.get("summary"):
            continue
        p0 = x["problems"][0]
        ctx.violation("tls:%s" % p0.split(":")[0], "TLS listener, clients %s, history %s: %s" % (x["c"]["kind"], [(s["op"], s["c"]) for s in x["c"]["h"]], x["problems"][:3]), x)
    return len(hist), summ[0]["steps"]
