"""Rendering of spec/TextShapes.tla cases into concrete XML / JSON documents, and the replay through the text decoders
and the HTTP handler (used by C02, C04 and C08)."""
import json, os, re
import vlib
from checks import textcommon as tc

NUMERIC = {"Integer", "LongInteger", "Interval"}


def build(nodes):
    """preorder list with depths -> tree of dicts"""
    root = None
    stack = []
    for i, n in enumerate(nodes):
        node = {"n": n["n"], "t": n["t"], "v": n["v"], "kids": [], "idx": i + 1}
        while stack and stack[-1][0] >= n["d"]:
            stack.pop()
        if stack:
            stack[-1][1]["kids"].append(node)
        else:
            root = node
        stack.append((n["d"], node))
    return root


def esc(s):
    return s.replace("&", "&amp;").replace("<", "&lt;").replace('"', "&quot;")


# ------------------------------------------------------------------ XML
def xml_node(n, ind=0):
    if "raw" in n:
        return n["raw"]
    pad = "  " * ind
    name = n.get("xname", n["n"])
    attrs = []
    if "xtag" in n:
        if n["xtag"] is not None:
            attrs.append(("tag", n["xtag"]))
    t = n.get("type", n["t"] if n["t"] != "Structure" else None)
    if t is not None:
        attrs.append(("type", t))
    if "value" in n:
        if n["value"] is not None:
            attrs.append(("value", n["value"]))
    elif n["t"] != "Structure":
        attrs.append(("value", n["v"]))
    attrs += n.get("extra_attrs", [])
    q = "'" if n.get("single_quotes") else '"'
    at = "".join(" %s=%s%s%s" % (k, q, v if n.get("raw_attr") == k else esc(v).replace("'", "&apos;") if q == "'" else esc(v), q) for k, v in attrs)
    inner = n.get("inner", "")
    kids = n["kids"] + n.get("extra_kids", [])
    if not kids and not inner and not n.get("open_close"):
        return "%s<%s%s/>" % (pad, name, at)
    body = inner + "".join("\n" + xml_node(k, ind + 1) for k in kids)
    close = "" if n.get("unclosed") else "\n%s</%s>" % (pad, n.get("close_name", name))
    return "%s<%s%s>%s%s" % (pad, name, at, body, close)


# ------------------------------------------------------------------ JSON
def json_value(n):
    if "jvalue" in n:
        return n["jvalue"]
    if n["t"] == "Structure":
        kids = n["kids"] + n.get("extra_kids", [])
        return "[" + ", ".join(json_node(k) for k in kids) + "]"
    if n["t"] in NUMERIC and re.fullmatch(r"-?\d+", n["v"]):
        return n["v"]
    if n["t"] == "Boolean":
        return n["v"]
    if n["t"] == "BigInteger":
        return json.dumps("0x" + n["v"])
    return json.dumps(n["v"])


def json_node(n):
    if "raw" in n:
        return n["raw"]
    members = []
    if "jtag" in n:
        if n["jtag"] is not None:
            members.append(("tag", n["jtag"]))
    else:
        members.append(("tag", json.dumps(n["n"])))
    if "jtype" in n:
        if n["jtype"] is not None:
            members.append(("type", n["jtype"]))
    elif n["t"] != "Structure":
        members.append(("type", json.dumps(n["t"])))
    if not n.get("no_value"):
        members.append(("value", json_value(n)))
    members += n.get("extra_members", [])
    if n.get("reorder"):
        members = list(reversed(members))
    return "{" + ", ".join("%s: %s" % (json.dumps(k), v) for k, v in members) + "}"


def find(root, idx, parent=None):
    if root["idx"] == idx:
        return root, parent
    for k in root["kids"]:
        r = find(k, idx, root)
        if r:
            return r
    return None


def clone(n):
    c = dict(n)
    c["kids"] = [clone(k) for k in n["kids"]]
    return c


def render(docs, c):
    """-> document text for case c (one mutation, or two in the thorough tier)"""
    enc = c["enc"]
    root = clone(build(docs[c["doc"]]))
    posts = [apply_op(root, enc, c["at"], c["op"])]
    if c.get("op2", "none") != "none":
        posts.append(apply_op(root, enc, c["at2"], c["op2"]))
    text = xml_node(root) if enc == "xml" else json_node(root)
    for post in posts:
        if post:
            text = post(text)
    return text


def apply_op(root, enc, at, op):
    """applies one mutation to the tree; returns a function to apply to the serialised text (or None)"""
    c = {"at": at}
    found = find(root, at)
    if not found:
        return None
    node, parent = found
    leaf = node["t"] != "Structure"
    own_tag = tc.TAG_NUM.get(node["n"], 0x42FFFF)
    post = None      # function applied to the serialised text

    def set_tag(kind, val):
        if enc == "xml":
            if kind == "name":
                node["xname"] = val
            else:
                node["xname"] = "TTLV"
                node["xtag"] = val
        else:
            node["jtag"] = None if val is None else (val if kind == "rawjson" else json.dumps(val))

    def set_type(val, rawjson=False):
        if enc == "xml":
            node["type"] = val
        else:
            node["jtype"] = None if val is None else (val if rawjson else json.dumps(val))

    def set_value(xml_val, json_raw):
        if enc == "xml":
            node["value"] = xml_val
        else:
            node["jvalue"] = json_raw

    # ---- tag
    if op == "tag-unknown-name":
        set_tag("name", "NoSuchTagName")
    elif op == "tag-empty":
        set_tag("hex", "")
    elif op == "tag-hex-bad":
        set_tag("hex", "0xZZ")
    elif op == "tag-hex-unregistered":
        set_tag("hex", "0x540001")
    elif op == "tag-hex-own":
        set_tag("hex", "0x%06X" % own_tag)
    elif op == "tag-other-registered":
        set_tag("name", "Comment" if node["n"] != "Comment" else "Description")
    elif op == "tag-missing" or op == "ttlv-element-without-tag":
        set_tag("hex", None)
    elif op == "tag-hex-negative":
        set_tag("hex", "0x-1")
    elif op == "tag-hex-huge":
        set_tag("hex", "0xFFFFFFFFFFFFFFFFFF")
    elif op == "tag-hex-wide-own":
        set_tag("hex", "0x%07X" % (0x1000000 + own_tag))
    elif op == "tag-hex-wide-unregistered":
        set_tag("hex", "0x1540001")
    elif op == "tag-number":
        set_tag("rawjson", "4325385")
    elif op == "tag-null":
        set_tag("rawjson", "null")
    elif op == "tag-array":
        set_tag("rawjson", '["UniqueIdentifier"]')
    # ---- type
    elif op == "type-unknown":
        set_type("Bogus")
    elif op == "type-empty":
        set_type("")
    elif op == "type-lowercase":
        set_type((node["t"]).lower())
    elif op.startswith("type-as:"):
        set_type(op.split(":", 1)[1])
    elif op == "type-missing":
        set_type(None)
        if enc == "xml":
            node["type"] = None
            node["t_missing"] = True
    elif op == "type-number":
        set_type("7", rawjson=True)
    elif op == "type-null":
        set_type("null", rawjson=True)
    elif op == "type-array":
        set_type('["Integer"]', rawjson=True)
    # ---- leaf values
    elif op == "value-missing":
        if enc == "xml":
            node["value"] = None
        else:
            node["no_value"] = True
    elif op == "value-empty":
        set_value("", '""')
    elif op == "value-garbage":
        set_value("zz~!", '"zz~!"')
    elif op == "value-hex-odd":
        set_value("ABC", '"ABC"')
    elif op == "value-0x":
        set_value("0x", '"0x"')
    elif op == "value-huge":
        set_value("99999999999999999999999999", "99999999999999999999999999")
    elif op == "value-negative":
        set_value("-1", "-1")
    elif op == "value-float":
        set_value("1.5", "1.5")
    elif op == "value-spaces":
        set_value("  " + node["v"] + "  ", json.dumps("  " + node["v"] + "  "))
    elif op == "value-long":
        set_value(node["v"] * 3000, json.dumps(node["v"] * 3000))
    elif op == "value-null":
        node["jvalue"] = "null"
    elif op == "value-bool":
        node["jvalue"] = "true"
    elif op == "value-number":
        node["jvalue"] = "12"
    elif op == "value-string":
        node["jvalue"] = '"text"'
    elif op == "value-quoted-number":
        node["jvalue"] = json.dumps(node["v"])
    elif op == "value-array":
        node["jvalue"] = "[]"
    elif op == "value-object":
        node["jvalue"] = '{"tag": "Comment", "type": "TextString", "value": "x"}'
    elif op == "value-array-of-scalars":
        node["jvalue"] = '[1, "a", null, true]'
    elif op == "value-array-with-null":
        node["jvalue"] = "[null]"
    elif op == "value-nested-arrays":
        node["jvalue"] = "[[[]]]"
    # ---- tree
    elif op == "drop-node":
        if parent:
            parent["kids"].remove(node)
        else:
            node["raw"] = ""
    elif op == "dup-node":
        if parent:
            i = parent["kids"].index(node)
            parent["kids"].insert(i, clone(node))
        else:
            node["extra_kids"] = [clone(k) for k in node["kids"]]
    elif op == "swap-with-next":
        if parent:
            ks = parent["kids"]
            i = ks.index(node)
            j = (i + 1) % len(ks)
            ks[i], ks[j] = ks[j], ks[i]
        elif len(node["kids"]) > 1:
            node["kids"][0], node["kids"][1] = node["kids"][1], node["kids"][0]
    elif op == "nest-under-previous":
        if parent:
            ks = parent["kids"]
            i = ks.index(node)
            if i > 0 and ks[i - 1]["t"] == "Structure":
                ks.remove(node)
                wrap = {"n": "Comment", "t": "Structure", "v": "", "idx": -2, "kids": [
                    {"n": "Comment", "t": "Structure", "v": "", "idx": -3, "kids": [{"n": "Comment", "t": "TextString", "v": "x", "kids": [], "idx": -4}]}, node]}
                if enc == "xml":
                    wrap["xname"], wrap["xtag"] = "TTLV", "0x540001"
                else:
                    wrap["jtag"] = json.dumps("0x540001")
                ks[i - 1]["kids"].append(wrap)
    elif op == "leaf-with-children":
        node["extra_kids"] = [{"n": "Comment", "t": "TextString", "v": "x", "kids": [], "idx": -1}]
        if enc == "json":
            node["jvalue"] = '[{"tag": "Comment", "type": "TextString", "value": "x"}]'
    elif op == "struct-empty":
        node["kids"] = []
        node["open_close"] = True
    elif op == "struct-with-value":
        if enc == "xml":
            node["value"] = "1"
        else:
            node["jvalue"] = '"1"'
    elif op == "struct-with-leaf-type-and-value":
        set_type("Integer")
        if enc == "xml":
            node["value"] = "1"
        else:
            node["jvalue"] = "1"
    # ---- JSON node kinds
    elif op == "node-array":
        node["raw"] = "[" + json_node({**node, "raw": None} if False else {k: v for k, v in node.items() if k != "raw"}) + "]"
    elif op == "node-string":
        node["raw"] = '"item"'
    elif op == "node-number":
        node["raw"] = "42"
    elif op == "node-null":
        node["raw"] = "null"
    elif op == "node-true":
        node["raw"] = "true"
    elif op == "node-empty-object":
        node["raw"] = "{}"
    elif op == "dup-key-tag":
        node["extra_members"] = [("tag", json.dumps("Comment"))]
    elif op == "dup-key-value":
        node["extra_members"] = [("value", '"second"')]
    elif op == "dup-key-type":
        node["extra_members"] = [("type", json.dumps("TextString"))]
    elif op == "extra-key":
        node["extra_members"] = [("name", json.dumps("x")), ("comment", "[1, 2]")]
    elif op == "keys-reordered":
        node["reorder"] = True
    elif op == "key-case-variants-value":
        node["no_value"] = True
        node["extra_members"] = [("Value", json_value(node)), ("VALUE", '"other"'), ("vALUE", "7")]
    elif op == "key-case-variants-tag":
        node["jtag"] = None
        node["extra_members"] = [("Tag", json.dumps(node["n"])), ("TAG", json.dumps("Comment")), ("tAG", json.dumps("BatchCount"))]
    elif op == "key-case-variants-type":
        node["jtype"] = None
        node["extra_members"] = [("Type", json.dumps(node["t"])), ("TYPE", json.dumps("TextString")), ("tYPE", json.dumps("Integer"))]
    elif op == "keys-uppercase":
        post = lambda s: s.replace('"tag":', '"TAG":').replace('"type":', '"TYPE":').replace('"value":', '"VALUE":')
    # ---- XML tokens
    elif op == "attr-dup":
        node["extra_attrs"] = [("type", "Integer")] if leaf else [("tag", "0x420001"), ("tag", "0x420002")]
    elif op == "text-content":
        node["inner"] = "some text"
    elif op == "comment-inside":
        node["inner"] = "<!-- a comment -->"
    elif op == "pi-inside":
        node["inner"] = "<?target data?>"
    elif op == "cdata-inside":
        node["inner"] = "<![CDATA[<Comment type=\"TextString\" value=\"x\"/>]]>"
    elif op == "ns-prefix":
        node["xname"] = "k:" + node["n"]
        node["extra_attrs"] = [("xmlns:k", "urn:x-kmip")]
    elif op == "ns-default":
        node["extra_attrs"] = [("xmlns", "urn:x-kmip")]
    elif op == "entity-undefined":
        node["extra_attrs"] = [("name", "&undefined;")]
        node["raw_attr"] = "name"
    elif op == "char-ref":
        if leaf and node["v"]:
            node["value"] = "&#x%X;" % ord(node["v"][0]) + esc(node["v"][1:])
            node["raw_attr"] = "value"
    elif op == "value-in-child-text":
        node["value"] = None
        node["inner"] = node["v"] or "1"
    elif op == "extra-attribute":
        node["extra_attrs"] = [("name", "x"), ("unknown", "y")]
    elif op == "attr-single-quotes":
        node["single_quotes"] = True
    elif op == "unclosed":
        node["unclosed"] = True
        node["open_close"] = True
    elif op == "mismatched-close":
        node["close_name"] = "Comment"
        node["open_close"] = True
    # ---- document text
    elif op == "truncate-at-node":
        marker = "@@CUT%d@@" % c["at"]
        if enc == "xml":
            node["extra_attrs"] = [("name", marker)]
        else:
            node["extra_members"] = [("name", json.dumps(marker))]
        post = lambda s: s[:s.index(marker)]
    elif op == "trailing-garbage":
        post = lambda s: s + " }]garbage<"
    elif op == "trailing-second-document":
        post = lambda s: s + "\n" + s
    elif op == "two-roots":
        post = lambda s: s + "\n" + s
    elif op == "empty-document":
        post = lambda s: ""
    elif op == "whitespace-document":
        post = lambda s: " \n\t "
    elif op == "bom":
        post = lambda s: "﻿" + s
    elif op == "bare-nan":
        node["jvalue"] = "NaN"
    elif op == "single-quotes":
        post = lambda s: s.replace('"', "'")
    elif op == "trailing-comma":
        post = lambda s: s[:-1] + ",}"
    elif op == "deep-nesting":
        node["jvalue"] = "[" * 12000 + "]" * 12000
    elif op == "xml-declaration":
        post = lambda s: '<?xml version="1.0" encoding="UTF-8"?>\n' + s
    elif op == "xml-declaration-latin1":
        post = lambda s: '<?xml version="1.0" encoding="ISO-8859-1"?>\n' + s
    elif op == "doctype-internal-entity":
        post = lambda s: '<!DOCTYPE x [<!ENTITY a "aaaaaaaaaa"><!ENTITY b "&a;&a;&a;&a;&a;&a;&a;&a;">]>\n' + s.replace('value="', 'value="&b;', 1)
    elif op == "leading-comment":
        post = lambda s: "<!-- produced elsewhere -->\n" + s
    elif op == "utf16":
        post = lambda s: s    # encoded below
    else:
        raise ValueError("unknown op " + op)
    return post


def base_text(docs, name, enc):
    root = build(docs[name])
    return xml_node(root) if enc == "xml" else json_node(root)


def replay(ctx, want_keeps=None, deep_ok=True, also_ops=None):
    """runs TLC on TextShapes.tla, renders the cases, replays them; returns (cases, results, bases) where bases[(doc,enc)] is the
    result of the unmutated document"""
    deep = "_deep" if (not ctx.quick and deep_ok) else ""       # thorough: every case also with a second mutation at the last node
    r = ctx.tlc("TextShapes", "TextShapes_mc%s.cfg" % deep, workers=4)
    g = ctx.tlc("TextShapes", "TextShapes_gen%s.cfg" % deep, workers=1, count=False)
    cases = g.printed("CASE")
    if len(cases) < 6000:
        raise vlib.Inconclusive("too few shape cases: %d" % len(cases))
    docs = spec_docs(r)
    if want_keeps:
        cases = [c for c in cases if c["keeps"] == want_keeps or (also_ops and c["op"] in also_ops)]
    shapes = []
    order = []
    for dn in sorted(docs):
        for enc in ("xml", "json"):
            order.append(("base", dn, enc))
            shapes.append({"id": len(shapes), "enc": enc, "target": docs[dn][0]["n"], "doc": base_text(docs, dn, enc)})
    for c in cases:
        text = render(docs, c)
        if c["op"] == "utf16":
            continue
        order.append(("case", c))
        shapes.append({"id": len(shapes), "enc": c["enc"], "target": docs[c["doc"]][0]["n"], "doc": text})
    binary = ctx.build_driver("textforms")
    cpath, opath = os.path.join(ctx.work, "shapes.ndjson"), os.path.join(ctx.work, "shapes.out.ndjson")
    vlib.write_ndjson(cpath, shapes)
    rc, out = ctx.run_driver(binary, test_run="^TestShapes$", env={"VERIF_CASES": cpath, "VERIF_OUT": opath}, timeout=1800)
    if rc != 0 or not os.path.exists(opath):
        raise vlib.Inconclusive("textforms driver (shapes) failed rc=%s\n%s" % (rc, out[-3000:]))
    res = [x for x in vlib.read_ndjson(opath) if not x.get("summary")]
    if len(res) != len(shapes):
        raise vlib.Inconclusive("driver returned %d results for %d shapes" % (len(res), len(shapes)))
    bases, rows = {}, []
    for o, s, x in zip(order, shapes, res):
        if o[0] == "base":
            bases[(o[1], o[2])] = x
            if x["first"]["Outcome"] != "value":
                raise vlib.Inconclusive("the base document %s/%s of TextShapes.tla is not decoded: %s" % (o[1], o[2], x["first"]))
        else:
            rows.append((o[1], s, x))
    return rows, bases, r


def spec_docs(r):
    """the base documents as TLC sees them (printed once per run by an ASSUME)"""
    d = r.printed("DOCS")
    if not d:
        raise vlib.Inconclusive("TLC did not print the base documents\n" + r.out[-1500:])
    return d[0]


def judge_c02(ctx, rows):
    """panic-freedom, termination, input integrity and determinism of the text decoders and the HTTP handler"""
    n = 0
    for c, s, x in rows:
        n += 1
        where = "%s %s at %s (%s)" % (c["enc"], c["op"], c["node"]["n"], c["doc"])
        for k, label in (("first", "typed"), ("second", "typed-again"), ("generic", "untyped")):
            o = x[k]
            if o["Outcome"] in ("panic", "timeout"):
                ctx.violation("c02:text:%s:%s:%s:%s" % (c["enc"], label.split("-")[0], o["Outcome"], o["Detail"].split(":")[0][:60]),
                              "%s decoder, %s target, %s: %s; document: %s" % (c["enc"].upper(), label, where, o["Detail"][:200], s["doc"][:300]), {"case": c, "doc": s["doc"][:20000], "result": x})
        if not x["unchanged"]:
            ctx.violation("c02:text:%s:input-mutated" % c["enc"], "%s: the input buffer was modified" % where, {"case": c, "doc": s["doc"][:20000]})
        if x["first"]["Outcome"] != x["second"]["Outcome"] or x["first"].get("Bin") != x["second"].get("Bin") or x.get("again_differs"):
            ctx.violation("c02:text:%s:second-decode-differs" % c["enc"], "%s: decoding the same bytes again gives another result: %s vs %s (%s of 6 further decodes differ from the first)" % (
                where, x["first"], x["second"], x.get("again_differs")), {"case": c, "doc": s["doc"][:20000]})
        h = x.get("http")
        if h and "panic" in h:
            ctx.violation("c02:http:%s:panic:%s" % (c["enc"], h["panic"].split(":")[0][:60]), "HTTP handler, %s: ServeHTTP panics: %s" % (where, h["panic"][:200]), {"case": c, "doc": s["doc"][:20000]})
    return n


def judge_c20(ctx, rows):
    """the result of decoding a document is a function of the document: eight decodes of the same bytes in one process agree"""
    n = 0
    for c, s, x in rows:
        n += 1
        if x["first"]["Outcome"] != x["second"]["Outcome"] or x["first"].get("Bin") != x["second"].get("Bin") or x.get("again_differs"):
            ctx.violation("text:%s:decode-result-varies-between-calls:%s" % (c["enc"], c["op"]), "%s %s at %s: decoding the same bytes again gives another result: %s vs %s (%s of 6 further decodes differ from the first)" % (
                c["enc"], c["op"], c["node"]["n"], x["first"], x["second"], x.get("again_differs")), {"case": c, "doc": s["doc"][:20000]})
    return n


def judge_c04(ctx, rows, bases):
    """documents that are still conformant notations of the same message must decode to the same binary"""
    n = 0
    for c, s, x in rows:
        if c["keeps"] != "same":
            continue
        n += 1
        b = bases[(c["doc"], c["enc"])]["first"]["Bin"]
        if x["first"]["Outcome"] != "value" or x["first"].get("Bin") != b:
            ctx.violation("shape:%s:%s:%s" % (c["enc"], c["op"].split(":")[0], x["first"]["Outcome"]),
                          "%s document with %s at %s (%s) is a conformant notation of the same message but %s" % (
                              c["enc"].upper(), c["op"], c["node"]["n"], c["doc"], "decodes to another binary" if x["first"]["Outcome"] == "value" else "is not decoded: " + x["first"]["Detail"][:200]),
                          {"case": c, "doc": s["doc"][:20000], "result": x["first"], "base": b})
    return n


LENIENT_OPS = {"leaf-with-children", "text-content", "cdata-inside", "extra-attribute", "extra-key", "ns-prefix", "ns-default"}


def judge_c04_lenient(ctx, rows, bases):
    """decoration a decoder may ignore or refuse (child elements / text inside a value element, unknown attributes or members, a
    namespace): the document is rejected, or it is the message without the decoration - never another message"""
    n = 0
    for c, s, x in rows:
        if c["op"] not in LENIENT_OPS or c.get("op2", "none") != "none":
            continue
        n += 1
        b = bases[(c["doc"], c["enc"])]["first"]["Bin"]
        o = x["first"]
        if o["Outcome"] == "value" and o.get("Bin") != b:
            ctx.violation("shape:%s:%s:another-message" % (c["enc"], c["op"]), "%s document with %s at %s (%s) is accepted as a message that differs from the one without the decoration" % (
                c["enc"].upper(), c["op"], c["node"]["n"], c["doc"]), {"case": c, "doc": s["doc"][:20000], "result": o, "base": b})
    return n


def judge_value_missing(ctx, rows):
    """a leaf that has lost its value attribute (XML): the document is refused, or it is the document in which that leaf has an empty
    value - never another message (nothing else of the document may move)"""
    by = {}
    for c, s, x in rows:
        if c["enc"] == "xml" and c["op"] in ("value-missing", "value-empty") and c.get("op2", "none") == "none":
            by.setdefault((c["doc"], c["at"]), {})[c["op"]] = (c, s, x)
    n = 0
    for key, d in by.items():
        if len(d) != 2:
            continue
        n += 1
        (cm, sm, xm), (ce, se, xe) = d["value-missing"], d["value-empty"]
        om, oe = xm["first"], xe["first"]
        if om["Outcome"] == "value" and (oe["Outcome"] != "value" or om.get("Bin") != oe.get("Bin")):
            ctx.violation("shape:xml:value-missing:another-message", "XML leaf without value attribute at %s (%s) is accepted, but not as the document in which that leaf has an empty value (that one is %s)" % (
                cm["node"]["n"], cm["doc"], oe["Outcome"]), {"case": cm, "doc": sm["doc"][:20000], "result": om, "with_empty_value": oe})
    return n


def judge_c04_cross(ctx, rows):
    """the same restructured tree written in XML and in JSON is the same message: both decoders accept it with the same binary, or
    both reject it (tree mutations only: they mean the same in both encodings)"""
    by = {}
    for c, s, x in rows:
        if c["op"] in ("drop-node", "dup-node", "swap-with-next", "nest-under-previous") and c.get("op2", "none") == "none":
            by.setdefault((c["doc"], c["at"], c["op"]), {})[c["enc"]] = (c, s, x)
    n = 0
    for key, d in by.items():
        if "xml" not in d or "json" not in d:
            continue
        n += 1
        (cx, sx, xx), (cj, sj, xj) = d["xml"], d["json"]
        ox, oj = xx["first"], xj["first"]
        if ox["Outcome"] in ("value", "error") and oj["Outcome"] in ("value", "error") and (ox["Outcome"] != oj["Outcome"] or (ox["Outcome"] == "value" and ox.get("Bin") != oj.get("Bin"))):
            ctx.violation("shape:cross:%s:xml-%s-json-%s" % (cx["op"], ox["Outcome"], oj["Outcome"]),
                          "%s at %s (%s): the same tree is %s in XML and %s in JSON%s" % (cx["op"], cx["node"]["n"], cx["doc"], ox["Outcome"], oj["Outcome"],
                                                                                       " with different content" if ox["Outcome"] == oj["Outcome"] else ""),
                          {"case": cx, "xml": sx["doc"][:6000], "json": sj["doc"][:6000], "xml_result": ox, "json_result": oj})
    return n


def judge_c08(ctx, rows):
    """HTTP transport: a request that cannot be decoded is answered with a single failed item"""
    n = 0
    for c, s, x in rows:
        h = x.get("http")
        if not h or "skipped" in h:
            continue
        n += 1
        where = "%s %s at %s (%s)" % (c["enc"], c["op"], c["node"]["n"], c["doc"])
        if "panic" in h:
            ctx.violation("http:%s:panic:%s" % (c["enc"], h["panic"].split(":")[0][:60]), "HTTP handler, %s: ServeHTTP panics instead of answering: %s" % (where, h["panic"][:200]), {"case": c, "doc": s["doc"][:20000]})
        elif h.get("status") != 200 or h.get("body_decode") != "value" or h.get("items") != 1:
            ctx.violation("http:%s:no-single-response" % c["enc"], "HTTP handler, %s: expected status 200 with one response message of one item, got %s" % (where, {k: v for k, v in h.items()}), {"case": c, "doc": s["doc"][:20000]})
        elif x["first"]["Outcome"] == "error" and h.get("status0") != "OperationFailed":
            ctx.violation("http:%s:undecodable-not-failed" % c["enc"], "HTTP handler, %s: the request is not decodable (%s) but the answer is %s" % (where, x["first"]["Detail"][:100], h), {"case": c, "doc": s["doc"][:20000]})
    return n


def judge_c18(ctx, rows):
    """every text document the typed decoder accepts re-encodes and reaches a fixed point (binary and in its own encoding)"""
    n = 0
    for c, s, x in rows:
        o = x["first"]
        if o["Outcome"] != "value":
            continue
        n += 1
        where = "%s %s at %s (%s)" % (c["enc"], c["op"], c["node"]["n"], c["doc"])
        if str(o.get("Bin", "")).startswith("reencode-panic"):
            ctx.violation("text:%s:accepted-value-cannot-be-encoded:%s" % (c["enc"], o["Bin"].split(":")[1][:50]), "%s: the document is accepted but the accepted value makes the encoder panic: %s" % (where, o["Bin"][:200]),
                          {"case": c, "doc": s["doc"][:20000]})
        elif o.get("Fix") not in ("ok", None, ""):
            ctx.violation("text:%s:no-fixed-point:%s" % (c["enc"], o["Fix"].split(":")[0] + ":" + o["Fix"].split(":")[1][:40]), "%s: the document is accepted but re-encoding the accepted value does not reach a fixed point: %s" % (where, o["Fix"][:300]),
                          {"case": c, "doc": s["doc"][:20000]})
    # ... and what the untyped decoder (ttlv.Value) accepts: more documents than the typed one (any tag in any position)
    for c, s, x in rows:
        g = x.get("generic") or {}
        if g.get("Outcome") != "value":
            continue
        n += 1
        where = "%s %s at %s (%s)" % (c["enc"], c["op"], c["node"]["n"], c["doc"])
        if g.get("Fix") not in ("ok", None, ""):
            ctx.violation("text:%s:untyped:no-fixed-point:%s" % (c["enc"], g["Fix"].split(":")[0] + ":" + g["Fix"].split(":")[1][:40]), "%s: the untyped decoder accepts the document but re-encoding the accepted value does not reach a fixed point: %s" % (where, g["Fix"][:300]),
                          {"case": c, "doc": s["doc"][:20000]})
    return n
