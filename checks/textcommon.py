"""Shared by C04: concretisation of TextForms.tla cases, rendering of the specification's forms with python integers,
independent parsers (xml.etree / json / a small TTLV reader) into one normal form, tree comparison."""
import json, os, re, datetime
import xml.etree.ElementTree as ET
import vlib

REF = json.load(open(os.path.join(vlib.SPEC, "ref", "registry.ref.json")))
TAG_NAME = {t[0]: t[1] for t in REF["tags"]}
TAG_NUM = {t[1]: t[0] for t in REF["tags"]}
ENUMS = {e[0]: {v[1]: v[0] for v in e[2]} for e in REF["enums"]}
MASKS = {m[0]: {v[1]: v[0] for v in m[2]} for m in REF["masks"]}
TYPE_CODE = {1: "Structure", 2: "Integer", 3: "LongInteger", 4: "BigInteger", 5: "Enumeration", 6: "Boolean", 7: "TextString", 8: "ByteString", 9: "DateTime", 10: "Interval"}

TEXT = {
    "empty": "", "ascii": "Hello-World_123", "markup": '<a href="x">&amp;</a>', "quotes": "say \"hi\" 'there'", "spaces": "  two  leading and trailing  ",
    "tab-nl-cr": "a\tb\nc\rd\r\ne", "latin1": "caf\u00e9 \u00f1 \u00fc", "c1-controls": "a\u0085b\u009fc", "bmp": "\u65e5\u672c\u8a9e \u0395\u03bb\u03bb\u03b7\u03bd\u03b9\u03ba\u03ac",
    "non-bmp": "key-\U0001F511-\U0001D11E", "combining": "e\u0301 a\u030a", "line-separators": "a\u2028b\u2029c", "json-controls": "a\u0001b\u001fc\u0008\u000c",
    "del": "a\u007fb", "backslash": "C:\\path\\n \\u0041 \\", "long": "x" * 5000 + "\u00e9" * 100, "ampersand-entities": "&lt;&amp;&#65;&quot;",
    "cdata-like": "]]> <![CDATA[x]]> <!-- c --> <?pi?>", "surrogate-range-neighbours": "\ud7ff\ue000\ufffd", "nonchar-fffe": "a\ufffeb\uffffc",
}
BYTES = {"empty": "", "00": "00", "ff": "ff", "0001": "0001", "16": "000102030405060708090a0b0c0d0e0f", "255": "".join("%02x" % i for i in range(255)), "deadbeef": "deadbeef"}
INSTANT = {"epoch": 0, "one": 1, "minus-one": -1, "year1": -62135596800, "year9999-end": 253402300799, "2038-last": 2147483647, "2038-next": 2147483648,
           "2106": 4294967296, "1900": -2208988800, "now": 1790000000, "leap-day": 1709208000}


def limbs_signed(l):
    v = 0
    for x in l[1:]:
        assert 0 <= x <= 65535
    v = l[0]
    for x in l[1:]:
        v = v * 65536 + x
    return v


def to_limbs(v, n):
    """v as n 16-bit limbs, top limb carrying the sign (two's complement split)."""
    out = []
    for _ in range(n - 1):
        out.append(v & 0xFFFF)
        v >>= 16
    out.append(v)
    return list(reversed(out))


def big_value(b):
    mag = int.from_bytes(bytes(b["mag"]), "big") if b["mag"] else 0
    return -mag if b["neg"] else mag


def twos(v, pad=1):
    """minimal two's complement bytes of v, sign-extended to a multiple of pad bytes"""
    n = 1
    while not (-(1 << (8 * n - 1)) <= v < (1 << (8 * n - 1))):
        n += 1
    n = ((n + pad - 1) // pad) * pad
    return (v & ((1 << (8 * n)) - 1)).to_bytes(n, "big")


def from_twos(b):
    if not b:
        return 0
    v = int.from_bytes(b, "big")
    return v - (1 << (8 * len(b))) if b[0] & 0x80 else v


def rfc3339(epoch, zone):
    off = 0
    if zone != "Z":
        off = (1 if zone[0] == "+" else -1) * (int(zone[1:3]) * 3600 + int(zone[4:6]) * 60)
    d = datetime.datetime(1970, 1, 1) + datetime.timedelta(seconds=epoch + off)
    return d.strftime("%Y-%m-%dT%H:%M:%S").rjust(19, "0") + zone if d.year >= 1000 else "%04d" % d.year + d.strftime("-%m-%dT%H:%M:%S") + zone


RFC = re.compile(r"^(\d{4})-(\d\d)-(\d\d)[Tt](\d\d):(\d\d):(\d\d)(\.\d+)?([Zz]|[+-]\d\d:\d\d)$")


def parse_rfc3339(s):
    m = RFC.match(s)
    if not m:
        return None
    y, mo, d, h, mi, sec = (int(m.group(i)) for i in range(1, 7))
    try:
        days = (datetime.date(y, mo, d) - datetime.date(1970, 1, 1)).days
    except ValueError:
        return None
    z = m.group(8)
    off = 0 if z in "Zz" else (1 if z[0] == "+" else -1) * (int(z[1:3]) * 3600 + int(z[4:6]) * 60)
    return days * 86400 + h * 3600 + mi * 60 + sec - off


# ------------------------------------------------------------------ concretisation of TLC cases
def item_value(c):
    """concrete value of a leaf case -> fields of the driver's Item, python value"""
    k, v = c["kind"], c["value"]
    if k == "Integer":
        n = limbs_signed(v)
        return {"int": str(n)}, n
    if k == "LongInteger":
        n = limbs_signed(v)
        return {"int": str(n)}, n
    if k == "Interval":
        n = v[0] * 65536 + v[1]
        return {"int": str(n)}, n
    if k == "BigInteger":
        n = big_value(v)
        return {"big": str(n)}, n
    if k == "Enumeration":
        n = v["num"][0] * 65536 + v["num"][1]
        return {"int": str(n), "etag": v["etag"]}, n
    if k == "Boolean":
        return {"bool": v}, v
    if k == "TextString":
        return {"text": TEXT[v]}, TEXT[v]
    if k == "ByteString":
        return {"hex": BYTES[v]}, bytes.fromhex(BYTES[v])
    if k == "DateTime":
        return {"epoch": str(INSTANT[v["at"]]), "zone": v["zone"]}, INSTANT[v["at"]]
    if k == "Bitmask":
        u = sum(1 << b for b in v["bits"])
        n = u - (1 << 32) if u >= (1 << 31) else u
        return {"int": str(n), "etag": v["mtag"]}, n
    raise ValueError(k)


def xml_doc(tagform, typ, value):
    def esc(s):
        return s.replace("&", "&amp;").replace("<", "&lt;").replace('"', "&quot;").replace("\t", "&#x9;").replace("\n", "&#xA;").replace("\r", "&#xD;")
    if tagform["registered"]:
        return '<%s type="%s" value="%s"/>' % (tagform["name"], typ, esc(value))
    return '<TTLV tag="0x%06X" type="%s" value="%s"/>' % (tagform["tag"], typ, esc(value))


def json_doc(tagform, typ, value):
    return json.dumps({"tag": tagform["name"] if tagform["registered"] else "0x%06X" % tagform["tag"], "type": typ, "value": value})


def render_foreign(enc, c, f, pyval):
    """concrete attribute value (XML) / JSON value of a foreign form descriptor"""
    lex = f["lex"]
    if lex == "hex64":
        return "0x%016x" % (pyval & 0xFFFFFFFFFFFFFFFF)
    if lex == "dec-padded":
        return ("-" if pyval < 0 else "") + "0" * f["zeros"] + str(abs(pyval))
    if lex == "twos-complement-hex":
        h = twos(pyval, f.get("pad", 1)).hex().upper()
        return ("0x" + h) if f["prefix"] else h
    if lex == "hex32":
        return "0x%08X" % pyval
    if lex == "hex-bytes-lower":
        return pyval.hex()
    if lex == "rfc3339-zone":
        return rfc3339(pyval, f["zone"])
    if lex == "mask-hex":
        return "0x%08X" % (pyval & 0xFFFFFFFF)
    if lex == "mask-reversed":
        toks = [mask_token(t) for t in f["tokens"]]
        return f["sep"].join(reversed(toks))
    raise ValueError(lex)


def mask_token(t):
    return t["s"] if t["lex"] == "name" else "0x%08X" % (1 << t["b"])


# ------------------------------------------------------------------ judging a real attribute value against the specification's form
def check_form(enc, form, got, pyval, c):
    """got: attribute string (XML) or parsed JSON value. Returns '' or a description of the mismatch."""
    lex = form["lex"]
    if lex in ("dec",):
        return "" if isinstance(got, str) and re.fullmatch(r"-?\d+", got) and int(got) == pyval else "decimal form of %d expected, got %r" % (pyval, got)
    if lex == "number":
        return "" if isinstance(got, int) and not isinstance(got, bool) and got == pyval else "JSON number %d expected, got %r" % (pyval, got)
    if lex == "hex64":
        return "" if isinstance(got, str) and got.lower() == "0x%016x" % (pyval & 0xFFFFFFFFFFFFFFFF) else "hex string 0x%016x expected at or beyond 2^52, got %r" % (pyval & 0xFFFFFFFFFFFFFFFF, got)
    if lex == "twos-complement-hex":
        if not isinstance(got, str):
            return "hex string expected, got %r" % (got,)
        s = got
        if form["prefix"]:
            if not s.startswith("0x"):
                return "0x prefix expected, got %r" % got
            s = s[2:]
        if not re.fullmatch(r"([0-9A-Fa-f]{2})*", s):
            return "hex digits expected, got %r" % got
        return "" if from_twos(bytes.fromhex(s)) == pyval else "two's complement hex of %d expected, got %r (= %d)" % (pyval, got, from_twos(bytes.fromhex(s)))
    if lex == "name":
        return "" if got == form["s"] else "name %r expected, got %r" % (form["s"], got)
    if lex == "hex32":
        return "" if isinstance(got, str) and got.lower() == "0x%08x" % pyval else "0x%08X expected, got %r" % (pyval, got)
    if lex == "bool":
        return "" if got == ("true" if pyval else "false") else "true/false expected, got %r" % (got,)
    if lex == "json-bool":
        return "" if got is pyval else "JSON boolean expected, got %r" % (got,)
    if lex == "text":
        return "" if got == pyval else "text differs: got %r" % (got[:80] if isinstance(got, str) else got,)
    if lex == "hex-bytes":
        return "" if isinstance(got, str) and re.fullmatch(r"([0-9A-Fa-f]{2})*", got) and bytes.fromhex(got) == pyval else "hex of the bytes expected, got %r" % (got[:80] if isinstance(got, str) else got,)
    if lex == "rfc3339":
        e = parse_rfc3339(got) if isinstance(got, str) else None
        return "" if e == pyval else "RFC 3339 date of instant %d expected, got %r (= %r)" % (pyval, got, e)
    if lex == "mask":
        if not isinstance(got, str):
            return "mask string expected, got %r" % (got,)
        toks = got.split() if form["sep"] == " " else ([t for t in got.split("|")] if got != "" else [])
        exp = sorted(mask_token(t) for t in form["tokens"])
        return "" if sorted(toks) == exp else "mask tokens %s expected, got %r" % (exp[:6], got[:120])
    return "unknown form " + lex


# ------------------------------------------------------------------ independent parsers -> normal form
# node: {"tag": int, "type": str, "raw": lexical value (XML attr string / JSON value / binary python value), "kids": [...], "src": xml|json|ttlv}
class Malformed(Exception):
    pass


def tag_of(name_or_hex):
    if isinstance(name_or_hex, str) and name_or_hex.startswith("0x"):
        return int(name_or_hex, 16)
    if name_or_hex in TAG_NUM:
        return TAG_NUM[name_or_hex]
    raise Malformed("unknown tag name %r" % (name_or_hex,))


def norm_xml_elem(e):
    tag = tag_of(e.attrib["tag"]) if e.tag == "TTLV" else tag_of(e.tag)
    typ = e.attrib.get("type", "Structure")
    extra = set(e.attrib) - {"tag", "type", "value", "name"}
    if extra:
        raise Malformed("unexpected attributes %s on %s" % (sorted(extra), e.tag))
    if typ == "Structure":
        if "value" in e.attrib:
            raise Malformed("structure with a value attribute")
        return {"tag": tag, "type": typ, "kids": [norm_xml_elem(k) for k in e], "src": "xml"}
    if len(e):
        raise Malformed("leaf element %s with children" % e.tag)
    if "value" not in e.attrib:
        raise Malformed("leaf element %s without value" % e.tag)
    return {"tag": tag, "type": typ, "raw": e.attrib["value"], "src": "xml"}


def parse_xml(doc):
    try:
        root = ET.fromstring(doc)
    except ET.ParseError as ex:
        raise Malformed("not well-formed XML: %s" % ex)
    return norm_xml_elem(root)


def norm_json(o):
    if not isinstance(o, dict) or "tag" not in o or "value" not in o:
        raise Malformed("JSON item without tag/value: %r" % (str(o)[:80],))
    extra = set(o) - {"tag", "type", "value", "name"}
    if extra:
        raise Malformed("unexpected members %s" % sorted(extra))
    tag = tag_of(o["tag"])
    typ = o.get("type", "Structure")
    if typ == "Structure":
        if not isinstance(o["value"], list):
            raise Malformed("structure value is not an array")
        return {"tag": tag, "type": typ, "kids": [norm_json(k) for k in o["value"]], "src": "json"}
    return {"tag": tag, "type": typ, "raw": o["value"], "src": "json"}


def _no_dup(pairs):
    d = {}
    for k, v in pairs:
        if k in d:
            raise Malformed("duplicate member %r" % k)
        d[k] = v
    return d


def parse_json(doc):
    try:
        o = json.loads(doc, object_pairs_hook=_no_dup, parse_float=lambda s: (_ for _ in ()).throw(Malformed("non-integer number " + s)),
                       parse_constant=lambda s: (_ for _ in ()).throw(Malformed("constant " + s)))
    except json.JSONDecodeError as ex:
        raise Malformed("not well-formed JSON: %s" % ex)
    return norm_json(o)


def parse_ttlv(b, pos=0, end=None):
    """-> list of nodes"""
    end = len(b) if end is None else end
    res = []
    while pos < end:
        if end - pos < 8:
            raise Malformed("truncated header")
        tag = int.from_bytes(b[pos:pos + 3], "big")
        ty = b[pos + 3]
        ln = int.from_bytes(b[pos + 4:pos + 8], "big")
        pos += 8
        pad = (8 - ln % 8) % 8
        if pos + ln + pad > end:
            raise Malformed("truncated value")
        body = b[pos:pos + ln]
        typ = TYPE_CODE.get(ty)
        if typ is None:
            raise Malformed("unknown type %d" % ty)
        if typ == "Structure":
            res.append({"tag": tag, "type": typ, "kids": parse_ttlv(b, pos, pos + ln), "src": "ttlv"})
        else:
            if typ in ("Integer", "LongInteger", "BigInteger"):
                v = from_twos(body)
            elif typ in ("Enumeration", "Interval"):
                v = int.from_bytes(body, "big")
            elif typ == "Boolean":
                v = int.from_bytes(body, "big") != 0
            elif typ == "TextString":
                v = body.decode("utf-8", errors="surrogateescape")
            elif typ == "ByteString":
                v = bytes(body)
            else:
                v = from_twos(body)
            res.append({"tag": tag, "type": typ, "raw": v, "src": "ttlv"})
        pos += ln + pad
    return res


# ------------------------------------------------------------------ value tokens and tree comparison
def attr_enum_tag(name):
    """enumeration / mask tag governing an AttributeValue, from the attribute's name"""
    if not isinstance(name, str):
        return None
    key = re.sub(r"[^A-Za-z0-9]", "", name)
    for t, n in TAG_NAME.items():
        if n.lower() == key.lower():
            return t
    return None


def token(node, ctx_tag):
    """normalised token of a leaf value: ('int', n) | ('text', s) | ('bytes', b) | ('bool', b) | ('enum', etag, name|None, num|None) | ('mask', mtag, [names], bits) | ('bad', why)"""
    typ, raw, src = node["type"], node["raw"], node["src"]
    etag = ctx_tag or node["tag"]

    def num(s, signed_bits=None):
        if isinstance(s, bool):
            return None
        if isinstance(s, int):
            return s
        if isinstance(s, str):
            if re.fullmatch(r"-?\d+", s):
                return int(s)
            if re.fullmatch(r"0x[0-9A-Fa-f]+", s):
                v = int(s, 16)
                if signed_bits and v >= 1 << (signed_bits - 1):
                    v -= 1 << signed_bits
                return v
        return None
    if src == "ttlv":
        if typ == "Enumeration":
            return ("enum", etag, None, raw)
        if typ == "Integer" and etag in MASKS:
            return ("mask", etag, [], raw & 0xFFFFFFFF)
        if typ in ("Integer", "LongInteger", "BigInteger", "Interval", "DateTime"):
            return ("int", raw)
        if typ == "Boolean":
            return ("bool", raw)
        if typ == "TextString":
            return ("text", raw)
        return ("bytes", raw)
    if typ == "Integer":
        n = num(raw, 32)
        if n is not None and etag not in MASKS:
            return ("int", n)
        if isinstance(raw, str) or n is not None:
            names, bits = [], 0
            if n is not None:
                return ("mask", etag, [], n & 0xFFFFFFFF)
            parts = raw.split() if src == "xml" else ([] if raw == "" else [p.strip() for p in raw.split("|")])
            for p in parts:
                pn = num(p, 32)
                if pn is not None:
                    bits |= pn & 0xFFFFFFFF
                else:
                    names.append(p)
            return ("mask", etag, names, bits)
        return ("bad", "integer value %r" % (raw,))
    if typ in ("LongInteger", "Interval"):
        n = num(raw, 64)
        return ("int", n) if n is not None else ("bad", "%s value %r" % (typ, raw))
    if typ == "BigInteger":
        if isinstance(raw, int) and not isinstance(raw, bool):
            return ("int", raw)
        if isinstance(raw, str):
            s = raw[2:] if raw.startswith("0x") else raw
            if re.fullmatch(r"([0-9A-Fa-f]{2})*", s):
                return ("int", from_twos(bytes.fromhex(s)))
        return ("bad", "big integer value %r" % (raw,))
    if typ == "Enumeration":
        n = num(raw)
        if n is not None:
            return ("enum", etag, None, n)
        if isinstance(raw, str):
            return ("enum", etag, raw, None)
        return ("bad", "enumeration value %r" % (raw,))
    if typ == "Boolean":
        if isinstance(raw, bool):
            return ("bool", raw)
        if raw in ("true", "false"):
            return ("bool", raw == "true")
        return ("bad", "boolean value %r" % (raw,))
    if typ == "TextString":
        return ("text", raw) if isinstance(raw, str) else ("bad", "text value %r" % (raw,))
    if typ == "ByteString":
        if isinstance(raw, str) and re.fullmatch(r"([0-9A-Fa-f]{2})*", raw):
            return ("bytes", bytes.fromhex(raw))
        return ("bad", "byte string value %r" % (raw,))
    if typ == "DateTime":
        if isinstance(raw, str):
            e = parse_rfc3339(raw)
            if e is not None:
                return ("int", e)
            n = num(raw, 64)
            if n is not None:
                return ("int", n)
        return ("bad", "date value %r" % (raw,))
    return ("bad", "type %r" % typ)


class Judge:
    """collects pairs whose equality depends on registry names; TLC (TraceTextForms.tla) decides them"""
    def __init__(self):
        self.pairs = {}     # key -> (pair object, [where...])

    @staticmethod
    def _enum_tok(t):
        return {"lex": "name", "s": t[2], "etag": t[1]} if t[2] is not None else {"lex": "num", "num": [t[3] >> 16, t[3] & 0xFFFF] if 0 <= t[3] < (1 << 32) else [-1, 0], "etag": t[1]}

    @staticmethod
    def _mask_tok(t):
        toks = [{"lex": "name", "s": n} for n in t[2]]
        bits = [b for b in range(32) if t[3] >> b & 1]
        if bits or not toks:
            toks.append({"lex": "bits", "bits": bits})
        return {"mtag": t[1], "tokens": toks}

    def submit(self, a, b, where):
        if a[0] == "enum":
            obj = {"ty": "Enumeration", "a": self._enum_tok(a), "b": self._enum_tok(b)}
        else:
            obj = {"ty": "Bitmask", "a": self._mask_tok(a), "b": self._mask_tok(b)}
        key = json.dumps(obj, sort_keys=True)
        self.pairs.setdefault(key, (obj, []))[1].append(where)

    def decide(self, ctx):
        """-> list of (pair, wheres) that TLC rejected"""
        if not self.pairs:
            return [], 0
        items = list(self.pairs.values())
        path = os.path.join(ctx.work, "pairs.%d.ndjson" % len(ctx.tlc_cmds))
        vlib.write_ndjson(path, [p for p, _ in items])
        r = ctx.tlc("TraceTextForms", "TextForms_trace.cfg", workers=1, env={"REF_FILE": os.path.join(vlib.SPEC, "ref", "registry.ref.json"), "TRACE_FILE": path},
                    count=False, label="pairs")
        m = re.search(r'<<"JUDGED", (\d+)>>', r.out)
        if not m or int(m.group(1)) != len(items):
            raise vlib.Inconclusive("TLC judged %s of %d pairs\n%s" % (m and m.group(1), len(items), r.out[-1500:]))
        bad = [int(x) for x in re.findall(r'<<"NOTEQ", (\d+)>>', r.out)]
        return [items[i - 1] for i in bad], len(items)


def compare(a, b, judge, where, path="", ctx_tag=None, out=None):
    """structural comparison of two normal-form trees; returns list of differences"""
    out = [] if out is None else out
    here = path + "/" + TAG_NAME.get(a["tag"], "0x%06X" % a["tag"])
    if a["tag"] != b["tag"]:
        out.append("%s: tag differs: %s vs %s" % (here, TAG_NAME.get(a["tag"], hex(a["tag"])), TAG_NAME.get(b["tag"], hex(b["tag"]))))
        return out
    if a["type"] != b["type"]:
        out.append("%s: type differs: %s vs %s" % (here, a["type"], b["type"]))
        return out
    if a["type"] == "Structure":
        ka, kb = a["kids"], b["kids"]
        if len(ka) != len(kb):
            na = [TAG_NAME.get(k["tag"], hex(k["tag"])) for k in ka]
            nb = [TAG_NAME.get(k["tag"], hex(k["tag"])) for k in kb]
            out.append("%s: children differ: %s vs %s" % (here, na, nb))
            return out
        sub_ctx = None
        for x, y in zip(ka, kb):
            if x["tag"] == TAG_NUM["AttributeName"] and x["type"] == "TextString":
                sub_ctx = attr_enum_tag(x["raw"] if x["src"] != "ttlv" else x["raw"])
            compare(x, y, judge, where, here, sub_ctx if x["tag"] == TAG_NUM["AttributeValue"] else None, out)
        return out
    ta, tb = token(a, ctx_tag), token(b, ctx_tag)
    if ta[0] == "bad" or tb[0] == "bad":
        out.append("%s: unreadable value: %s / %s" % (here, ta, tb))
    elif ta[0] != tb[0]:
        out.append("%s: value classes differ: %s vs %s" % (here, ta, tb))
    elif ta[0] in ("enum", "mask"):
        if ta != tb:
            judge.submit(ta, tb, where + here)
    elif ta != tb:
        out.append("%s: value differs: %r vs %r" % (here, ta[1] if not isinstance(ta[1], (str, bytes)) else ta[1][:60], tb[1] if not isinstance(tb[1], (str, bytes)) else tb[1][:60]))
    return out
