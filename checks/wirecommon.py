"""Shared by C03, C02, C18 (binary part): spec/Wire.tla + MCWire.tla, harness/drivers/wire, harness/refwire."""
import json, os
import vlib


def tlc_modes(ctx, modes):
    cases = []
    deep = "" if ctx.quick else "_deep"      # thorough tier: more bases, byte-level corruptions, wider structures, more tags
    for m in modes:
        ctx.tlc("MCWire", "Wire_%s%s.cfg" % (m, deep))
        g = ctx.tlc("MCWire", "Wire_%s%s_gen.cfg" % (m, deep), workers=4, count=False)
        cs = g.printed("CASE")
        if not cs:
            raise vlib.Inconclusive("no cases for mode " + m)
        cases += cs
    return cases


def replay(ctx, cases, prefixes):
    """Run the wire driver; report problems whose kind starts with one of `prefixes`.
    A disagreement between refwire and the specification is a defect of the harness: inconclusive."""
    cpath = os.path.join(ctx.work, "wire_cases.ndjson")
    vlib.write_ndjson(cpath, cases)
    binary = ctx.build_driver("wire")
    opath = os.path.join(ctx.work, "wire_results.ndjson")
    rc, out = ctx.run_driver(binary, test_run="^TestReplay$", env={"VERIF_CASES": cpath, "VERIF_OUT": opath})
    if rc != 0 or not os.path.exists(opath):
        raise vlib.Inconclusive("wire driver failed rc=%s\n%s" % (rc, out[-3000:]))
    res = vlib.read_ndjson(opath)
    summ = [x for x in res if x.get("summary")]
    if not summ or summ[0]["cases"] != len(cases):
        raise vlib.Inconclusive("driver replayed %s, TLC generated %d" % (summ, len(cases)))
    for x in res:
        if x.get("summary"):
            continue
        for p in x["problems"]:
            if p["kind"].startswith("refwire:"):
                raise vlib.Inconclusive("the harness's independent parser disagrees with Wire.tla on %s: %s" % (x["bytes"], p))
    for x in res:
        if x.get("summary"):
            continue
        c = cases[x["case"]]
        for p in x["problems"]:
            if not any(p["kind"].startswith(pre) for pre in prefixes):
                continue
            sig = p["kind"] + ":" + classify(c, p)
            ctx.violation(sig, "input %s (%s): %s: %s" % (x["bytes"], describe(c), p["kind"], json.dumps(p["detail"])[:600]), {"case": c, "problem": p})
    return len(cases)


def describe(c):
    if c["kind"] == "nest":
        return "MCWire's Nest(%d): a text string under %d structures" % (c["depth"], c["depth"])
    if c["kind"] == "tree":
        return "tree type %d" % c["tree"]["ty"]
    if c["kind"] == "twins":
        return "twin inputs agreeing on the first %d bytes (declared extent of the top-level item)" % c["extent"]
    return "accepted by the format" if c.get("accept") else "rejected by the format: %s" % c.get("why")


def classify(c, p):
    d = p.get("detail")
    if isinstance(d, str) and d.startswith("panic@"):
        return d.split(":")[0]
    if c["kind"] == "nest":
        return "nested%d" % c["depth"]
    if c["kind"] == "tree":
        return "type%d" % c["tree"]["ty"]
    if c.get("accept"):
        return "type%d" % c["tree"]["ty"]
    return c.get("why", "?")
