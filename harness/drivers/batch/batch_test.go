// Driver for C09 (batch semantics) and C15 (ID placeholder scope).
//
// TestReplay (B1): every terminal history enumerated by TLC from spec/Batch.tla is turned into a real
// kmip.RequestMessage with scripted operation handlers, executed by the real
// kmipserver.BatchExecutor.HandleRequest, and the projection of what happened (handler calls,
// placeholder values read, response descriptor) is compared with the specification's expectation.
//
// TestTrace (B3): random longer batches, back-to-back requests sharing a parent context and
// concurrent requests sharing one executor are executed and recorded; TLC validates the record
// against TraceBatch.tla.
package batch

import (
	"context"
	"encoding/json"
	"errors"
	"fmt"
	"math/rand"
	"os"
	"reflect"
	"runtime"
	"slices"
	"strings"
	"sync"
	"sync/atomic"
	"testing"

	"github.com/ovh/kmip-go"
	"github.com/ovh/kmip-go/kmipserver"
	"github.com/ovh/kmip-go/payloads"
	"github.com/ovh/kmip-go/ttlv"

	"verifharness/vh"
)

type Item struct {
	Out   string `json:"out"`
	HasId bool   `json:"hasId"`
}
type Req struct {
	Opt   string `json:"opt"`
	Ver   string `json:"ver"`
	Count string `json:"count"`
	Items []Item `json:"items"`
}
type RespItem struct {
	Idx    int    `json:"idx"`
	Status string `json:"status"`
	Reason string `json:"reason"`
}
type Hdr struct {
	Ver   string `json:"ver"`
	Count int    `json:"count"`
}
type Case struct {
	Req    Req        `json:"req"`
	Called []int      `json:"called"`
	Resp   []RespItem `json:"resp"`
	Hdr    Hdr        `json:"hdr"`
	Reads  [][]any    `json:"reads"` // [[i, [] | [r,j]], ...]
}

// routed operations; item i uses routedOps[i % len]
var routedOps = []kmip.Operation{kmip.OperationGet, kmip.OperationActivate, kmip.OperationDestroy, kmip.OperationRevoke, kmip.OperationGetAttributeList}

const unroutedOp = kmip.OperationQuery

type stringer struct{}

func (stringer) String() string { return "stringer panic" }

// script is carried in the context of one HandleRequest call so that handlers know which request
// they run for without relying on anything the executor provides.
type scriptKey struct{}
type script struct {
	rid    int // slot in the trace (reused once the request is done)
	uid    int // unique serial of the request; placeholder tokens carry it
	items  []Item
	mu     sync.Mutex
	called []int
	reads  [][2]any
	trace  *vh.Writer
	yield  bool
	rnd    *rand.Rand
	// nested dispatch: while item nestAt is handled, another request message is handed to the executor with the
	// handler's own context (a gateway forwarding to a backend, deferred work): it is a request of its own
	nestAt int
	nest   func(ctx context.Context)
	// byType: the items omit their identifiers (they rely on the ID placeholder); the handler tells them apart by the type of the
	// payload (item i carries the request payload of routedOps[i-1]); seen: the identifiers the handlers found in the payloads
	byType bool
	seen   []string
	// attempts[i]: how often the handler of item i has run (an application's retrying item middleware)
	attempts map[int]int
	// running: handlers of this request inside HandleOperation right now; overlap: two were at the same time ("each item's handler
	// runs ... in order": the handler of item i has returned before the one of item i+1 starts)
	running atomic.Int32
	overlap atomic.Bool
}

func phToken(s string) []int {
	if s == "" {
		return []int{}
	}
	var r, i int
	if _, err := fmt.Sscanf(s, "r%d.i%d", &r, &i); err != nil {
		return []int{-1, -1}
	}
	return []int{r, i}
}

type handler struct{}

func (handler) HandleOperation(ctx context.Context, req kmip.OperationPayload) (kmip.OperationPayload, error) {
	sc := ctx.Value(scriptKey{}).(*script)
	var rid, i int
	pl := &payloads.GetRequestPayload{}
	if sc.byType {
		switch p := req.(type) {
		case *payloads.GetRequestPayload:
			i, pl.UniqueIdentifier = 1, p.UniqueIdentifier
		case *payloads.ActivateRequestPayload:
			i, pl.UniqueIdentifier = 2, p.UniqueIdentifier
		case *payloads.DestroyRequestPayload:
			i, pl.UniqueIdentifier = 3, p.UniqueIdentifier
		case *payloads.RevokeRequestPayload:
			i, pl.UniqueIdentifier = 4, p.UniqueIdentifier
		case *payloads.GetAttributeListRequestPayload:
			i, pl.UniqueIdentifier = 5, p.UniqueIdentifier
		default:
			panic(fmt.Sprintf("unexpected payload %T", req))
		}
		sc.mu.Lock()
		sc.seen = append(sc.seen, pl.UniqueIdentifier)
		sc.mu.Unlock()
	} else {
		pl = req.(*payloads.GetRequestPayload)
		if _, err := fmt.Sscanf(pl.UniqueIdentifier, "r%d.i%d", &rid, &i); err != nil {
			panic("bad script id " + pl.UniqueIdentifier)
		}
		if rid != sc.uid {
			panic("script mismatch")
		}
	}
	if sc.running.Add(1) > 1 {
		sc.overlap.Store(true)
	}
	defer sc.running.Add(-1)
	for k := 0; k < 3; k++ {
		runtime.Gosched() // give a handler that was started alongside this one the chance to show
	}
	ph := kmipserver.IdPlaceholder(ctx)
	// resolving the item's identifier is a read: it returns the item's own identifier, or the placeholder when the item omits it,
	// and leaves the placeholder as it is
	if got, err := kmipserver.GetIdOrPlaceholder(ctx, pl.UniqueIdentifier); pl.UniqueIdentifier != "" && (err != nil || got != pl.UniqueIdentifier) {
		panic(fmt.Sprintf("GetIdOrPlaceholder(%q) = %q, %v", pl.UniqueIdentifier, got, err))
	}
	// ... and without an identifier of its own the item gets the placeholder exactly as IdPlaceholder shows it (an error when it is empty)
	if got, err := kmipserver.GetIdOrPlaceholder(ctx, ""); (ph == "") != (err != nil) || got != ph {
		sc.mu.Lock()
		sc.reads = append(sc.reads, [2]any{i, []int{-2, -2}}) // shows as a wrong read
		sc.mu.Unlock()
	}
	sc.mu.Lock()
	sc.called = append(sc.called, i)
	sc.reads = append(sc.reads, [2]any{i, phToken(ph)})
	sc.mu.Unlock()
	if sc.trace != nil {
		sc.trace.Emit(map[string]any{"ev": "call", "r": sc.rid, "i": i, "ph": phToken(ph)})
	}
	if sc.yield {
		runtime.Gosched()
	}
	// what a successful handler answers with is its business - here, for two items in three, the payload of a Locate that found no, one
	// or two objects: the placeholder is what the handlers store, whatever their answers look like
	answer := func() kmip.OperationPayload {
		{
			switch (sc.uid + i) % 3 {
			case 1:
				return &payloads.LocateResponsePayload{UniqueIdentifier: []string{"found-1", "found-2"}[:(sc.uid/3+i)%3]}
			case 2:
				return &payloads.LocateResponsePayload{UniqueIdentifier: []string{"found-only"}}
			}
		}
		return &payloads.GetResponsePayload{UniqueIdentifier: pl.UniqueIdentifier}
	}
	switch sc.items[i-1].Out {
	case "success":
		if sc.nest != nil && i == sc.nestAt {
			sc.nest(ctx)
		}
		return answer(), nil
	case "successSetsId":
		kmipserver.SetIdPlaceholder(ctx, fmt.Sprintf("r%d.i%d", sc.uid, i))
		if sc.yield {
			runtime.Gosched()
		}
		if sc.nest != nil && i == sc.nestAt {
			sc.nest(ctx)
		}
		return answer(), nil
	case "retriedSuccess":
		sc.mu.Lock()
		sc.attempts[i]++
		first := sc.attempts[i] == 1
		sc.mu.Unlock()
		if first {
			return nil, errors.New("transient failure")
		}
		return &payloads.GetResponsePayload{UniqueIdentifier: pl.UniqueIdentifier}, nil
	case "successClearsId":
		kmipserver.SetIdPlaceholder(ctx, "") // storing the empty placeholder is a store like any other
		return &payloads.GetResponsePayload{UniqueIdentifier: pl.UniqueIdentifier}, nil
	case "typedError":
		// a typed error of the application: any reason of the enumeration (Item Not Found, Authentication Not Successful, ...); the
		// message names the reason so that the projection can tell that it arrived unchanged
		n := 1 + (sc.uid+i)%25
		if (sc.uid+i)%3 == 0 {
			return nil, kmipserver.ErrItemNotFound
		}
		return nil, kmipserver.Errorf(kmip.ResultReason(n), "typed:%d", n)
	case "plainError":
		return nil, errors.New("plain failure")
	case "panic":
		switch (sc.uid + i) % 4 {
		case 0:
			panic("string panic")
		case 1:
			panic(errors.New("error panic"))
		case 2:
			panic(stringer{})
		default:
			panic(42)
		}
	}
	panic("handler reached for outcome " + sc.items[i-1].Out)
}

func newExecutor() *kmipserver.BatchExecutor {
	ex := kmipserver.NewBatchExecutor()
	for _, op := range routedOps {
		ex.Route(op, handler{})
	}
	if os.Getenv("VERIF_RETRY") == "1" {
		// an application's item middleware that tries a failed item once more
		ex.BatchItemUse(func(next kmipserver.BatchItemNext, ctx context.Context, bi *kmip.RequestBatchItem) (*kmip.ResponseBatchItem, error) {
			// ... and that answers an item it denies itself: a failed item, no error, the continuation not called
			if sc, _ := ctx.Value(scriptKey{}).(*script); sc != nil {
				i := 0
				if sc.byType {
					switch bi.RequestPayload.(type) {
					case *payloads.GetRequestPayload:
						i = 1
					case *payloads.ActivateRequestPayload:
						i = 2
					case *payloads.DestroyRequestPayload:
						i = 3
					case *payloads.RevokeRequestPayload:
						i = 4
					case *payloads.GetAttributeListRequestPayload:
						i = 5
					}
				} else if pl, ok := bi.RequestPayload.(*payloads.GetRequestPayload); ok {
					var rid int
					_, _ = fmt.Sscanf(pl.UniqueIdentifier, "r%d.i%d", &rid, &i)
				}
				if i >= 1 && i <= len(sc.items) && sc.items[i-1].Out == "deniedByStage" {
					return &kmip.ResponseBatchItem{Operation: bi.Operation, UniqueBatchItemID: bi.UniqueBatchItemID, ResultStatus: kmip.ResultStatusOperationFailed,
						ResultReason: kmip.ResultReasonPermissionDenied, ResultMessage: "denied by policy"}, nil
				}
			}
			resp, err := next(ctx, bi)
			if err != nil {
				return next(ctx, bi)
			}
			return resp, err
		})
	}
	return ex
}

// gapConfig: the replay pass against an executor configured with a set of versions that has a gap (1.0 and 1.4)
var gapConfig bool

// orderOpt: the Batch Order Option the requests carry (nil: absent)
var orderOpt *bool

// withIgnorableExt: every item carries a non-critical message extension (set by the replay pass that uses it)
var withIgnorableExt bool

func buildRequest(rid int, q Req) *kmip.RequestMessage {
	msg := &kmip.RequestMessage{}
	msg.Header.ProtocolVersion = kmip.V1_2
	if q.Ver == "unsupported" {
		msg.Header.ProtocolVersion = kmip.ProtocolVersion{ProtocolVersionMajor: 2, ProtocolVersionMinor: 0}
	}
	if gapConfig {
		// the executor supports 1.0 and 1.4 only: 1.2 lies between two supported versions and is not one of them
		msg.Header.ProtocolVersion = kmip.V1_4
		if q.Ver == "unsupported" {
			msg.Header.ProtocolVersion = kmip.V1_2
		}
	}
	switch q.Opt {
	case "Continue":
		msg.Header.BatchErrorContinuationOption = kmip.BatchErrorContinuationOptionContinue
	case "Stop":
		msg.Header.BatchErrorContinuationOption = kmip.BatchErrorContinuationOptionStop
	case "Undo":
		msg.Header.BatchErrorContinuationOption = kmip.BatchErrorContinuationOptionUndo
	}
	msg.Header.BatchOrderOption = orderOpt
	msg.Header.BatchCount = int32(len(q.Items))
	if q.Count == "mismatch" {
		// any announced count other than the number of items is a mismatch: one more, none (with items), one less, a negative one
		n := int32(len(q.Items))
		msg.Header.BatchCount = n + 1
		switch rid % 4 {
		case 1:
			if n >= 1 {
				msg.Header.BatchCount = 0
			}
		case 2:
			if n >= 2 {
				msg.Header.BatchCount = n - 1
			}
		case 3:
			msg.Header.BatchCount = -1
		}
	}
	for k, it := range q.Items {
		i := k + 1
		bi := kmip.RequestBatchItem{Operation: routedOps[k%len(routedOps)]}
		bi.RequestPayload = &payloads.GetRequestPayload{UniqueIdentifier: fmt.Sprintf("r%d.i%d", rid, i)}
		if omitIds {
			bi.RequestPayload = payloadByType(k)
		}
		if it.Out == "unrouted" {
			bi.Operation = unroutedOp
		}
		if it.Out == "discover" {
			// the built-in Discover Versions operation (not routed): the client names one or two versions
			bi.Operation = kmip.OperationDiscoverVersions
			bi.RequestPayload = &payloads.DiscoverVersionsRequestPayload{ProtocolVersion: discoverOffer(rid + i)}
		}
		if it.Out == "critical" {
			bi.MessageExtension = &kmip.MessageExtension{VendorIdentification: "verif", CriticalityIndicator: true,
				VendorExtension: nil}
		}
		if it.HasId {
			bi.UniqueBatchItemID = []byte(fmt.Sprintf("id-%d-%d", rid, i))
		}
		if withIgnorableExt && it.Out != "critical" {
			// a message extension the server may ignore changes nothing
			bi.MessageExtension = &kmip.MessageExtension{VendorIdentification: "verif", CriticalityIndicator: false,
				VendorExtension: ttlv.Struct{{Tag: 0x540002, Value: "ignorable"}}}
		}
		msg.BatchItem = append(msg.BatchItem, bi)
	}
	return msg
}

var fiveVersions = []kmip.ProtocolVersion{kmip.V1_4, kmip.V1_3, kmip.V1_2, kmip.V1_1, kmip.V1_0}

// discoverOffer: the versions the client names in a Discover Versions item (one version, or two in ascending order)
func discoverOffer(k int) []kmip.ProtocolVersion {
	if k%3 == 0 {
		return []kmip.ProtocolVersion{fiveVersions[4-k%2], fiveVersions[k%3]}
	}
	return []kmip.ProtocolVersion{fiveVersions[k%5]}
}

// discoverAnswer: what the executor answers - the versions it supports that the client named, in the server's order of preference
func discoverAnswer(offer []kmip.ProtocolVersion) []kmip.ProtocolVersion {
	supported := fiveVersions
	if gapConfig {
		supported = []kmip.ProtocolVersion{kmip.V1_4, kmip.V1_0}
	}
	res := []kmip.ProtocolVersion{}
	for _, v := range supported {
		if slices.Contains(offer, v) {
			res = append(res, v)
		}
	}
	return res
}

// sameVersions: the same versions, in whatever order (the order of the answer is the executor's configuration, which is not part
// of the batch semantics)
func sameVersions(a, b []kmip.ProtocolVersion) bool {
	a, b = slices.Clone(a), slices.Clone(b)
	slices.SortFunc(a, ttlv.CompareVersions)
	slices.SortFunc(b, ttlv.CompareVersions)
	return slices.Equal(a, b)
}

// omitIds: the requests are built with items that omit their identifiers, item i carrying the request payload of routedOps[i-1]
var omitIds bool

func payloadByType(k int) kmip.OperationPayload {
	switch k % len(routedOps) {
	case 0:
		return &payloads.GetRequestPayload{}
	case 1:
		return &payloads.ActivateRequestPayload{}
	case 2:
		return &payloads.DestroyRequestPayload{}
	case 3:
		return &payloads.RevokeRequestPayload{RevocationReason: kmip.RevocationReason{RevocationReasonCode: kmip.RevocationReasonCodeUnspecified}}
	}
	return &payloads.GetAttributeListRequestPayload{}
}

var reasonNames = map[kmip.ResultReason]string{
	kmip.ResultReasonItemNotFound:                 "ItemNotFound",
	kmip.ResultReasonGeneralFailure:               "GeneralFailure",
	kmip.ResultReasonOperationNotSupported:        "OperationNotSupported",
	kmip.ResultReasonFeatureNotSupported:          "FeatureNotSupported",
	kmip.ResultReasonOperationCanceledByRequester: "OperationCanceledByRequester",
	kmip.ResultReasonInvalidMessage:               "InvalidMessage",
	kmip.ResultReasonPermissionDenied:             "PermissionDenied",
	0:                                             "none",
}

// project maps the real response onto the specification's descriptor. idx is the index of the request
// item whose operation AND unique batch item id the response item echoes (0 when it echoes neither;
// -1 when it echoes something else / inconsistently).
func project(req *kmip.RequestMessage, resp *kmip.ResponseMessage) ([]RespItem, Hdr) {
	var items []RespItem
	for k, bi := range resp.BatchItem {
		idx := -1
		if bi.Operation == 0 && len(bi.UniqueBatchItemID) == 0 {
			idx = 0
		} else if k < len(req.BatchItem) && bi.Operation == req.BatchItem[k].Operation &&
			string(bi.UniqueBatchItemID) == string(req.BatchItem[k].UniqueBatchItemID) {
			idx = k + 1
		}
		st := "Failed"
		if bi.ResultStatus == kmip.ResultStatusSuccess {
			st = "Success"
			if bi.ResponsePayload == nil {
				st = "SuccessNoPayload"
			}
			if k < len(req.BatchItem) {
				if dq, ok := req.BatchItem[k].RequestPayload.(*payloads.DiscoverVersionsRequestPayload); ok {
					dr, ok := bi.ResponsePayload.(*payloads.DiscoverVersionsRequestPayload)
					if !ok || !sameVersions(dr.ProtocolVersion, discoverAnswer(dq.ProtocolVersion)) {
						st = "SuccessWrongDiscoverAnswer"
					}
				}
			}
		}
		rs, ok := reasonNames[bi.ResultReason]
		if !ok {
			rs = fmt.Sprintf("reason-%d", bi.ResultReason)
		}
		var tn int
		if _, err := fmt.Sscanf(bi.ResultMessage, "typed:%d", &tn); err == nil && st == "Failed" {
			// the scripted handler's typed error: the specification calls its reason "ItemNotFound", whichever of the enumeration it is
			if int(bi.ResultReason) == tn {
				rs = "ItemNotFound"
			} else {
				rs = fmt.Sprintf("typed-reason-%d-arrived-as-%d", tn, bi.ResultReason)
			}
		}
		items = append(items, RespItem{Idx: idx, Status: st, Reason: rs})
	}
	h := Hdr{Count: int(resp.Header.BatchCount), Ver: "other"}
	if resp.Header.ProtocolVersion == req.Header.ProtocolVersion {
		h.Ver = "request"
	}
	return items, h
}

type outcome struct {
	Called []int
	Reads  [][2]any
	Resp   []RespItem
	Hdr    Hdr
	Panic  string
	Seen   []string
	// Overlap: two handlers of the request were running at the same time
	Overlap bool
}

// reuseMsg: when set, execute hands this message object to the executor instead of building one (an application may send the same
// message object again)
var reuseMsg *kmip.RequestMessage

func execute(ex *kmipserver.BatchExecutor, parent context.Context, rid, uid int, q Req, trace *vh.Writer, yield bool, nest ...func(ctx context.Context)) (out outcome) {
	sc := &script{rid: rid, uid: uid, items: q.Items, trace: trace, yield: yield, byType: omitIds, attempts: map[int]int{}}
	if len(nest) > 0 && len(q.Items) > 0 {
		sc.nest, sc.nestAt = nest[0], 1+uid%len(q.Items)
	}
	ctx := context.WithValue(parent, scriptKey{}, sc)
	msg := reuseMsg
	if msg == nil {
		msg = buildRequest(uid, q)
	}
	defer func() { out.Seen, out.Overlap = sc.seen, sc.overlap.Load() }()
	if trace != nil {
		trace.Emit(map[string]any{"ev": "start", "r": rid, "u": uid, "req": q})
	}
	func() {
		defer func() {
			if r := recover(); r != nil {
				out.Panic = vh.PanicSig(r)
			}
		}()
		resp := ex.HandleRequest(ctx, msg)
		if resp == nil {
			out.Panic = "nil response"
			return
		}
		out.Resp, out.Hdr = project(msg, resp)
	}()
	sc.mu.Lock()
	out.Called, out.Reads = sc.called, sc.reads
	sc.mu.Unlock()
	if trace != nil {
		if out.Panic != "" {
			trace.Emit(map[string]any{"ev": "obs", "r": rid, "kind": "panic", "sig": out.Panic})
		} else {
			items := out.Resp
			if items == nil {
				items = []RespItem{}
			}
			trace.Emit(map[string]any{"ev": "resp", "r": rid, "items": items, "hdr": out.Hdr})
		}
	}
	return out
}

func norm(v any) string { b, _ := json.Marshal(v); return string(b) }

// TestReplay: B1 case replay.
func TestReplay(t *testing.T) {
	casesPath := vh.Env("VERIF_CASES", "")
	if casesPath == "" {
		t.Skip("VERIF_CASES not set")
	}
	cases, err := vh.ReadNDJSON[Case](casesPath)
	if err != nil {
		t.Fatal(err)
	}
	out, err := vh.NewWriter(vh.Env("VERIF_OUT", "batch_results.ndjson"))
	if err != nil {
		t.Fatal(err)
	}
	defer out.Close()
	ex := newExecutor()
	exGap := newExecutor()
	exGap.SetSupportedProtocolVersions(kmip.V1_0, kmip.V1_4)
	exSplit := newExecutor()
	exSplit.Use(func(next kmipserver.Next, ctx context.Context, msg *kmip.RequestMessage) (*kmip.ResponseMessage, error) {
		if len(msg.BatchItem) < 2 {
			return next(ctx, msg)
		}
		part := func(items []kmip.RequestBatchItem) (*kmip.ResponseMessage, error) {
			m := *msg
			m.BatchItem = items
			m.Header.BatchCount = int32(len(items))
			return next(ctx, &m)
		}
		r1, err := part(msg.BatchItem[:1])
		if err != nil {
			return r1, err
		}
		r2, err := part(msg.BatchItem[1:])
		if err != nil {
			return r2, err
		}
		out := *r1
		out.BatchItem = append(append([]kmip.ResponseBatchItem{}, r1.BatchItem...), r2.BatchItem...)
		out.Header.BatchCount = int32(len(out.BatchItem))
		return &out, nil
	})
	mism := 0
	for n, c := range cases {
		// batch semantics are a function of the request message: the same case with a live context, with a context that is already
		// cancelled when the request arrives (the client has gone away) and with one cancelled by the first handler that runs
		for _, ctxMode := range []string{"live", "cancelled", "cancelled-by-handler", "live+ignorable-extensions", "live+versions-with-a-gap", "live+order-false", "live+order-true", "live+omitted-ids", "live+omitted-ids-message-sent-again", "live+split-by-a-message-middleware"} {
			// items that omit their identifiers (they rely on the placeholder), told apart by their payload types; and the same
			// message object handed to the executor a second time: a request is read, not written - the second execution is a
			// request of its own and sees nothing of the first
			omitIds = strings.HasPrefix(ctxMode, "live+omitted-ids")
			if omitIds && len(c.Req.Items) > len(routedOps) {
				omitIds = false
				continue
			}
			reuseMsg = nil
			if ctxMode == "live+omitted-ids-message-sent-again" {
				reuseMsg = buildRequest(n+1, c.Req)
				first := execute(ex, context.Background(), n+1, 5000000+n, c.Req, nil, false)
				_ = first
			}
			withIgnorableExt = ctxMode == "live+ignorable-extensions"
			gapConfig = ctxMode == "live+versions-with-a-gap"
			// the Batch Order Option of the header: the property orders the handlers of every batch, whatever the client asks for
			orderOpt = nil
			if ctxMode == "live+order-false" || ctxMode == "live+order-true" {
				b := ctxMode == "live+order-true"
				orderOpt = &b
			}
			ex := ex
			if gapConfig {
				ex = exGap
			}
			if ctxMode == "live+split-by-a-message-middleware" {
				// an application's message middleware hands the batch to the executor in two parts (the first item, then the others,
				// each with a header of its own count) and puts the answers together: still one request - one placeholder scope.
				// (Only for requests whose semantics do not depend on the split: no Stop, nothing rejected as a whole.)
				if len(c.Req.Items) < 2 || c.Req.Opt == "Stop" || c.Req.Opt == "Undo" || c.Req.Ver != "supported" || c.Req.Count != "match" {
					continue
				}
				ex = exSplit
			}
			rid := n + 1
			parent := context.Background()
			var cancelFn context.CancelFunc
			switch ctxMode {
			case "cancelled":
				var cf context.CancelFunc
				parent, cf = context.WithCancel(parent)
				cf()
			case "cancelled-by-handler":
				parent, cancelFn = context.WithCancel(parent)
			}
			var o outcome
			if cancelFn != nil {
				o = execute(ex, parent, rid, rid, c.Req, nil, false, func(context.Context) { cancelFn() })
				cancelFn()
			} else {
				o = execute(ex, parent, rid, rid, c.Req, nil, false)
			}
			// expectation from the specification; reads use request id 1 in the model
			expReads := [][2]any{}
			for _, rd := range c.Reads {
				i := int(rd[0].(float64))
				v := rd[1].([]any)
				tok := []int{}
				if len(v) == 2 {
					tok = []int{rid, int(v[1].(float64))}
				}
				expReads = append(expReads, [2]any{i, tok})
			}
			var diffs []string
			if o.Panic != "" {
				diffs = append(diffs, "panic:"+o.Panic)
			}
			if norm(nz(o.Called)) != norm(nz(c.Called)) {
				diffs = append(diffs, "called")
			} else if o.Overlap {
				diffs = append(diffs, "called:handlers-of-one-request-ran-at-the-same-time")
			}
			if norm(o.Resp) != norm(c.Resp) && !(len(o.Resp) == 0 && len(c.Resp) == 0) {
				diffs = append(diffs, "resp")
			}
			if o.Hdr != c.Hdr {
				diffs = append(diffs, "hdr")
			}
			if norm(nzr(o.Reads)) != norm(expReads) {
				diffs = append(diffs, "reads")
			}
			if reuseMsg != nil {
				for _, id := range o.Seen {
					if t := phToken(id); len(t) == 2 && t[0] >= 5000000 {
						diffs = append(diffs, "reads:the-payload-carries-a-placeholder-value-of-the-earlier-request:"+id)
						break
					}
				}
			}
			if len(diffs) > 0 {
				mism++
				out.Emit(map[string]any{"case": n, "req": c.Req, "diffs": diffs, "ctx": ctxMode,
					"expect": map[string]any{"called": c.Called, "resp": c.Resp, "hdr": c.Hdr, "reads": expReads},
					"got":    map[string]any{"called": o.Called, "resp": o.Resp, "hdr": o.Hdr, "reads": o.Reads, "panic": o.Panic}})
			}
		}
	}
	out.Emit(map[string]any{"summary": true, "cases": len(cases), "mismatches": mism})
}

func nz(a []int) []int {
	if a == nil {
		return []int{}
	}
	return a
}
func nzr(a [][2]any) [][2]any {
	if a == nil {
		return [][2]any{}
	}
	return a
}

var allOutcomes = []string{"success", "successSetsId", "successClearsId", "discover", "typedError", "plainError", "panic", "unrouted", "critical"}
var allOpts = []string{"unset", "Continue", "Stop", "Undo"}

func randReq(r *rand.Rand, maxItems int, rejectPct int) Req {
	q := Req{Opt: allOpts[r.Intn(3)], Ver: "supported", Count: "match"}
	if r.Intn(100) < rejectPct {
		switch r.Intn(3) {
		case 0:
			q.Opt = "Undo"
		case 1:
			q.Ver = "unsupported"
		default:
			q.Count = "mismatch"
		}
	}
	n := r.Intn(maxItems + 1)
	// bias towards placeholder activity
	for k := 0; k < n; k++ {
		o := allOutcomes[r.Intn(len(allOutcomes))]
		if r.Intn(3) == 0 {
			o = "successSetsId"
		} else if r.Intn(6) == 0 {
			o = "successClearsId"
		}
		q.Items = append(q.Items, Item{Out: o, HasId: r.Intn(2) == 0})
	}
	if q.Items == nil {
		q.Items = []Item{}
	}
	return q
}

// TestTrace: B3 recording. Three regimes in one log (request ids are unique across the log):
//  1. sequential random long batches on fresh parents,
//  2. back-to-back requests sharing one parent context ("one connection"),
//  3. G goroutines x K requests sharing one executor and (per goroutine) one parent context.
func TestTrace(t *testing.T) {
	path := vh.Env("VERIF_TRACE", "")
	if path == "" {
		t.Skip("VERIF_TRACE not set")
	}
	w, err := vh.NewWriter(path)
	if err != nil {
		t.Fatal(err)
	}
	defer w.Close()
	r := rand.New(rand.NewSource(vh.Seed()))
	nSeq := vh.EnvInt("VERIF_NSEQ", 60)
	nConn := vh.EnvInt("VERIF_NCONN", 60)
	G := vh.EnvInt("VERIF_G", 8)
	K := vh.EnvInt("VERIF_K", 12)
	maxItems := vh.EnvInt("VERIF_MAXITEMS", 12)
	ex := newExecutor()
	slots := 2*G + 2
	w.Emit(map[string]any{"ev": "meta", "slots": slots})
	var mu sync.Mutex
	uid := 0
	free := []int{}
	for k := slots; k >= 1; k-- {
		free = append(free, k)
	}
	acquire := func() (int, int) {
		mu.Lock()
		defer mu.Unlock()
		uid++
		s := free[len(free)-1]
		free = free[:len(free)-1]
		return s, uid
	}
	release := func(s int) { mu.Lock(); free = append(free, s); mu.Unlock() }
	run := func(parent context.Context, q Req, yield bool) {
		s, u := acquire()
		execute(ex, parent, s, u, q, w, yield)
		release(s)
	}
	for n := 0; n < nSeq; n++ {
		run(context.Background(), randReq(r, maxItems, 10), false)
	}
	type connKey struct{}
	parent := context.WithValue(context.Background(), connKey{}, "conn-1")
	for n := 0; n < nConn; n++ {
		run(parent, randReq(r, 5, 25), false)
	}
	// nested dispatch: the handler of one item hands another request message to the executor with its own context
	for n := 0; n < vh.EnvInt("VERIF_NNEST", nConn/4); n++ {
		outer := randReq(r, 4, 0)
		for i := range outer.Items {
			if i%2 == 0 {
				outer.Items[i].Out = "successSetsId"
			} else {
				outer.Items[i].Out = "success"
			}
		}
		inner := randReq(r, 3, 10)
		s, u := acquire()
		execute(ex, parent, s, u, outer, w, false, func(ctx context.Context) { run(ctx, inner, false) })
		release(s)
	}
	var wg sync.WaitGroup
	for g := 0; g < G; g++ {
		wg.Add(1)
		gr := rand.New(rand.NewSource(vh.Seed()*1000 + int64(g)))
		go func(g int) {
			defer wg.Done()
			p := context.WithValue(context.Background(), connKey{}, fmt.Sprintf("conn-g%d", g))
			for k := 0; k < K; k++ {
				run(p, randReq(gr, 6, 20), true)
			}
		}(g)
	}
	wg.Wait()
}

var _ = reflect.DeepEqual

func TestMain(m *testing.M) {
	vh.Quiet()
	os.Exit(m.Run())
}
