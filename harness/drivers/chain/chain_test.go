// Driver for C19 (middleware chains). Stage programs enumerated by TLC from spec/Chain.tla are
// realised as instrumented middlewares on the three real chains:
//
//	client  - kmipclient.Client.Roundtrip, core = the real connection to a scripted in-memory server
//	srvmsg  - kmipserver.BatchExecutor.Use / HandleRequest, core = the executor's own request handling
//	srvitem - kmipserver.BatchExecutor.BatchItemUse, core = executeItem (operation handler)
//
// TestReplay (B1) compares the recorded call trace of one request per (kind, chain) with the history
// the specification predicts; TestTrace (B3) records 16 concurrent requests sharing one chain for TLC.
package chain

import (
	"context"
	"errors"
	"fmt"
	"io"
	"net"
	"os"
	"strings"
	"sync"
	"testing"
	"time"

	"github.com/ovh/kmip-go"
	"github.com/ovh/kmip-go/kmipclient"
	"github.com/ovh/kmip-go/kmipserver"
	"github.com/ovh/kmip-go/payloads"
	"github.com/ovh/kmip-go/ttlv"

	"verifharness/vh"
)

func TestMain(m *testing.M) { vh.Quiet(); os.Exit(m.Run()) }

var progs = map[string][]string{
	"pass":    {"call", "ret"},
	"twice":   {"call", "call", "ret"},
	"short":   {"retOwn"},
	"err":     {"retErr"},
	"newmsg":  {"setMsg", "call", "ret"},
	"newctx":  {"setCtx", "call", "ret"},
	"callerr": {"call", "retErr"},
	"thrice":  {"call", "setMsg", "call", "setCtx", "call", "ret"},
	"hedge":   {"call", "keep", "setMsg", "call", "retKept"},
}

type Event struct {
	Ev string `json:"ev,omitempty"`
	E  string `json:"e,omitempty"`
	Q  int    `json:"q,omitempty"`
	S  int    `json:"s"`
	C  int    `json:"c"`
	M  int    `json:"m"`
	K  string `json:"k,omitempty"`
	F  int    `json:"f"`
}

type Case struct {
	Chain []string `json:"chain"`
	Hist  []Event  `json:"hist"`
	Final []any    `json:"final"`
}

// recorder: per-request histories + optional global trace
type recorder struct {
	mu    sync.Mutex
	hist  map[int][]Event // by unique request serial
	slot  map[int]int     // serial -> slot
	trace *vh.Writer
	// deadCtx: contexts derived by stages (setCtx) are cancelled ones (server chains only: the client's
	// transport legitimately refuses to send with a cancelled context)
	deadCtx bool
	// deadRoot: the context handed to HandleRequest is already cancelled (the peer has gone away) and stages that derive a
	// context detach it (context.WithoutCancel): the chain must run exactly as with a live context
	deadRoot bool
}

func (r *recorder) emit(u int, e Event) {
	r.mu.Lock()
	r.hist[u] = append(r.hist[u], e)
	slot := r.slot[u]
	r.mu.Unlock()
	if r.trace != nil {
		m := map[string]any{"ev": e.E, "q": slot}
		switch e.E {
		case "enter":
			m["s"], m["c"], m["m"] = e.S, e.C, e.M
		case "core":
			m["c"], m["m"] = e.C, e.M
		case "exit":
			m["s"], m["k"], m["f"] = e.S, e.K, e.F
		}
		r.trace.Emit(m)
	}
}

type ctxTok struct{}

func ctxToken(ctx context.Context) int {
	if v, ok := ctx.Value(ctxTok{}).(int); ok {
		return v
	}
	return 0
}

func msgID(u, m int) string { return fmt.Sprintf("q%d.m%d", u, m) }
func parseMsgID(s string) (u, m int) {
	if _, err := fmt.Sscanf(s, "q%d.m%d", &u, &m); err != nil {
		return -1, -1
	}
	return
}

// ----- message helpers --------------------------------------------------------------------------

func reqMsg(u, m int) *kmip.RequestMessage {
	msg := kmip.NewRequestMessage(kmip.V1_4, &payloads.ActivateRequestPayload{UniqueIdentifier: msgID(u, m)})
	return &msg
}
func reqTokens(msg *kmip.RequestMessage) (int, int) {
	if msg == nil || len(msg.BatchItem) == 0 {
		return -1, -1
	}
	return itemTokens(&msg.BatchItem[0])
}
func itemTokens(bi *kmip.RequestBatchItem) (int, int) {
	if pl, ok := bi.RequestPayload.(*payloads.ActivateRequestPayload); ok {
		return parseMsgID(pl.UniqueIdentifier)
	}
	if _, ok := bi.RequestPayload.(*payloads.DiscoverVersionsRequestPayload); ok { // "srvitem-discover": the tokens travel in the item's id
		return parseMsgID(string(bi.UniqueBatchItemID))
	}
	return -1, -1
}
func respMsg(marker string) *kmip.ResponseMessage {
	return &kmip.ResponseMessage{
		Header:    kmip.ResponseHeader{ProtocolVersion: kmip.V1_4, BatchCount: 1},
		BatchItem: []kmip.ResponseBatchItem{{Operation: kmip.OperationActivate, ResponsePayload: &payloads.ActivateResponsePayload{UniqueIdentifier: marker}}},
	}
}
func markerOf(pl kmip.OperationPayload) int {
	g, ok := pl.(*payloads.ActivateResponsePayload)
	if !ok {
		return -1
	}
	if g.UniqueIdentifier == "core" {
		return 0
	}
	// a result of the core names the message token it was computed from: 0 - m
	var cm int
	if _, err := fmt.Sscanf(g.UniqueIdentifier, "core.m%d", &cm); err == nil {
		return -cm
	}
	var s int
	if _, err := fmt.Sscanf(g.UniqueIdentifier, "from%d", &s); err == nil {
		return s
	}
	return -1
}
func errMarker(msg string) int {
	var s int
	if _, err := fmt.Sscanf(msg, "err%d", &s); err == nil {
		return s
	}
	return -1
}
func resOfMsg(resp *kmip.ResponseMessage, err error) (string, int) {
	if err != nil {
		return "err", errMarker(err.Error())
	}
	if resp == nil || len(resp.BatchItem) == 0 {
		return "ok", -1
	}
	return resOfItem(&resp.BatchItem[0], nil)
}
func resOfItem(bi *kmip.ResponseBatchItem, err error) (string, int) {
	if err != nil {
		// a failure of the core comes with the item the core built for it (status, reason, message): a stage receives what its
		// successor returned, the item included. (Errors made by a stage of the harness carry the stage's number and no item.)
		if m := errMarker(err.Error()); m == -1 && bi == nil {
			return "err-without-the-item", m
		}
		return "err", errMarker(err.Error())
	}
	if bi == nil {
		return "ok", -1
	}
	if bi.ResultStatus != kmip.ResultStatusSuccess {
		return "err", errMarker(bi.ResultMessage)
	}
	_, isDisc := bi.ResponsePayload.(*payloads.DiscoverVersionsResponsePayload)
	if _, ok := bi.ResponsePayload.(*payloads.DiscoverVersionsRequestPayload); ok || isDisc { // (the executor answers with the request type: same layout)
		// the answer of the executor's built-in Discover Versions: a result of the core, computed from the item whose id it echoes
		if _, m := parseMsgID(string(bi.UniqueBatchItemID)); m >= 0 {
			return "ok", -m
		}
		return "ok", -1
	}
	return "ok", markerOf(bi.ResponsePayload)
}

// ----- the generic stage interpreter --------------------------------------------------------------

// interp runs program prog of stage s. M is the message type, R the result type.
func interp[M any, R any](rec *recorder, s int, prog []string, ctx context.Context, msg M,
	tokens func(M) (int, int), replace func(M, int, int) M, own func(M, int) R, res func(R, error) (string, int),
	next func(context.Context, M) (R, error)) (R, error) {
	u, m := tokens(msg)
	rec.emit(u, Event{E: "enter", S: s, C: ctxToken(ctx), M: m})
	var last, kept R
	var lastErr, keptErr error
	var keptK string
	var keptF int
	for _, op := range prog {
		switch op {
		case "keep":
			// the result of this invocation is a value: it is looked at now and handed back later, after another invocation
			kept, keptErr = last, lastErr
			keptK, keptF = res(last, lastErr)
		case "retKept":
			k, f := res(kept, keptErr)
			if k != keptK || f != keptF {
				// what was kept is no longer what it was
				rec.emit(u, Event{E: "exit", S: s, K: k, F: f})
				return kept, keptErr
			}
			rec.emit(u, Event{E: "exit", S: s, K: k, F: f})
			return kept, keptErr
		case "call":
			last, lastErr = next(ctx, msg)
		case "setMsg":
			msg = replace(msg, u, s)
		case "setCtx":
			if rec.deadRoot {
				ctx = context.WithoutCancel(ctx)
			}
			ctx = context.WithValue(ctx, ctxTok{}, s)
			if rec.deadCtx { // variant: the derived context is already cancelled; the chain itself must not care
				c, cancel := context.WithCancel(ctx)
				cancel()
				ctx = c
			}
		case "ret":
			k, f := res(last, lastErr)
			rec.emit(u, Event{E: "exit", S: s, K: k, F: f})
			return last, lastErr
		case "retOwn":
			rec.emit(u, Event{E: "exit", S: s, K: "ok", F: s})
			return own(msg, s), nil
		case "retErr":
			rec.emit(u, Event{E: "exit", S: s, K: "err", F: s})
			return last, fmt.Errorf("err%d", s)
		}
	}
	panic("program without return")
}

func replaceReq(msg *kmip.RequestMessage, u, s int) *kmip.RequestMessage {
	n := *msg
	n.Header.BatchCount = 1
	if upgradeVersion {
		n.Header.ProtocolVersion = kmip.V1_4
	}
	n.BatchItem = []kmip.RequestBatchItem{{Operation: kmip.OperationActivate, RequestPayload: &payloads.ActivateRequestPayload{UniqueIdentifier: msgID(u, s)}}}
	return &n
}
func ownResp(_ *kmip.RequestMessage, s int) *kmip.ResponseMessage {
	return respMsg(fmt.Sprintf("from%d", s))
}
func replaceItem(bi *kmip.RequestBatchItem, u, s int) *kmip.RequestBatchItem {
	n := *bi
	if _, ok := bi.RequestPayload.(*payloads.DiscoverVersionsRequestPayload); ok {
		n.UniqueBatchItemID = []byte(msgID(u, s))
		return &n
	}
	n.RequestPayload = &payloads.ActivateRequestPayload{UniqueIdentifier: msgID(u, s)}
	return &n
}
func ownItem(bi *kmip.RequestBatchItem, s int) *kmip.ResponseBatchItem {
	return &kmip.ResponseBatchItem{Operation: bi.Operation, UniqueBatchItemID: bi.UniqueBatchItemID,
		ResponsePayload: &payloads.ActivateResponsePayload{UniqueIdentifier: fmt.Sprintf("from%d", s)}}
}

// ----- the three systems ---------------------------------------------------------------------------

type system interface {
	// run sends request u through the chain and returns the final (kind, from)
	run(u int) (string, int)
	close()
}

// client chain
type clientSys struct {
	cl   *kmipclient.Client
	done chan struct{}
}

// builtinMiddleware: the middlewares the library ships (debug log, correlation value, timeout with and without a duration). In the
// terms of Chain.tla each of them is a "pass" stage: it calls its continuation once and hands back what it returned.
func builtinMiddleware(k int) kmipclient.Middleware {
	switch k % 4 {
	case 0:
		return kmipclient.DebugMiddleware(io.Discard, nil)
	case 1:
		n := 0
		return kmipclient.CorrelationValueMiddleware(func() string { n++; return fmt.Sprintf("corr-%d", n) })
	case 2:
		return kmipclient.TimeoutMiddleware(time.Hour)
	}
	return kmipclient.TimeoutMiddleware(0)
}

func newClientSys(rec *recorder, chain []string, builtin ...bool) (system, error) {
	var mws []kmipclient.Middleware
	for i, p := range chain {
		s, prog := i+1, progs[p]
		if len(builtin) > 0 && builtin[0] && p == "pass" {
			// the "pass" stages of the chain are the library's own middlewares, observed from outside
			inner := builtinMiddleware(i + len(chain))
			mws = append(mws, func(next kmipclient.Next, ctx context.Context, msg *kmip.RequestMessage) (*kmip.ResponseMessage, error) {
				u, m := reqTokens(msg)
				rec.emit(u, Event{E: "enter", S: s, C: ctxToken(ctx), M: m})
				resp, err := inner(next, ctx, msg)
				k, f := resOfMsg(resp, err)
				rec.emit(u, Event{E: "exit", S: s, K: k, F: f})
				return resp, err
			})
			continue
		}
		mws = append(mws, func(next kmipclient.Next, ctx context.Context, msg *kmip.RequestMessage) (*kmip.ResponseMessage, error) {
			return interp(rec, s, prog, ctx, msg, reqTokens, replaceReq, ownResp, resOfMsg, next)
		})
	}
	sys := &clientSys{done: make(chan struct{})}
	dropFirst := len(builtin) > 1 && builtin[1]
	var dmu sync.Mutex
	dropped := map[[2]int]int{}
	dial := func(ctx context.Context) (net.Conn, error) {
		a, b := net.Pipe()
		go func() { // scripted server = the core of the client chain
			st := ttlv.NewStream(b, -1)
			defer b.Close()
			for {
				var req kmip.RequestMessage
				if err := st.Recv(&req); err != nil {
					return
				}
				u, m := reqTokens(&req)
				if dropFirst {
					// the server drops the connection after reading a request it sees for the first time and answers its retransmission:
					// the resend on a fresh connection is the business of the innermost continuation (one core event per invocation)
					dmu.Lock()
					cnt := dropped[[2]int{u, m}]
					dropped[[2]int{u, m}] = cnt + 1
					dmu.Unlock()
					if cnt%2 == 0 {
						rec.emit(u, Event{E: "core", C: -1, M: m})
						return
					}
				} else {
					rec.emit(u, Event{E: "core", C: -1, M: m})
				}
				if err := st.Send(respMsg(fmt.Sprintf("core.m%d", m))); err != nil {
					return
				}
			}
		}()
		return a, nil
	}
	list := append(make([]kmipclient.Middleware, 0, len(mws)+4), mws...)
	cl, err := kmipclient.Dial("mem", kmipclient.WithDialerUnsafe(dial), kmipclient.EnforceVersion(kmip.V1_4), kmipclient.WithMiddlewares(list...))
	if err != nil {
		return nil, err
	}
	// the application reuses the list it configured the client with
	list = list[:cap(list)]
	for i := range list {
		list[i] = func(next kmipclient.Next, ctx context.Context, msg *kmip.RequestMessage) (*kmip.ResponseMessage, error) {
			u, m := reqTokens(msg)
			rec.emit(u, Event{E: "enter", S: 99, C: ctxToken(ctx), M: m})
			return next(ctx, msg)
		}
	}
	sys.cl = cl
	return sys, nil
}
func (c *clientSys) run(u int) (string, int) {
	return resOfMsg(c.cl.Roundtrip(context.Background(), reqMsg(u, 0)))
}
func (c *clientSys) close() { _ = c.cl.Close() }

// server chains
type srvSys struct {
	ex       *kmipserver.BatchExecutor
	stop     bool
	critical bool
	upgrade  bool
	discover bool
}

// reqMsgStop: the request of the "srvmsg-stop" chain: the core of a message chain is the whole batch execution, and every
// invocation of the continuation is a fresh execution of the message it is given. Batch <Activate, unrouted operation, Activate>
// with option Stop: each execution runs the first item (one core event), fails the second, cancels the third - whatever an
// earlier execution of the same request did.
func reqMsgStop(u, m int) *kmip.RequestMessage {
	msg := kmip.NewRequestMessage(kmip.V1_4, &payloads.ActivateRequestPayload{UniqueIdentifier: msgID(u, m)},
		&payloads.QueryRequestPayload{}, &payloads.ActivateRequestPayload{UniqueIdentifier: msgID(u, m)})
	msg.Header.BatchErrorContinuationOption = kmip.BatchErrorContinuationOptionStop
	return &msg
}

type coreHandler struct{ rec *recorder }

func (h coreHandler) HandleOperation(ctx context.Context, req kmip.OperationPayload) (kmip.OperationPayload, error) {
	u, m := parseMsgID(req.(*payloads.ActivateRequestPayload).UniqueIdentifier)
	h.rec.emit(u, Event{E: "core", C: ctxToken(ctx), M: m})
	return &payloads.ActivateResponsePayload{UniqueIdentifier: fmt.Sprintf("core.m%d", m)}, nil
}

// late: the chain is registered while the executor is already serving: one request is handled before the first and after every
// registration (the chain a request runs through is the one registered at that moment, whatever was served before)
func newSrvSys(rec *recorder, chain []string, item bool, late ...bool) system {
	ex := kmipserver.NewBatchExecutor()
	ex.Route(kmip.OperationActivate, coreHandler{rec})
	warm := func() {
		if len(late) > 0 && late[0] {
			func() {
				defer func() { _ = recover() }()
				ex.HandleRequest(context.Background(), reqMsg(0, 0))
			}()
		}
	}
	warm()
	defer warm()
	isLate := len(late) > 0 && late[0]
	var items []kmipserver.BatchItemMiddleware
	var msgs []kmipserver.Middleware
	for i, p := range chain {
		if i > 0 {
			warm()
		}
		s, prog := i+1, progs[p]
		if item {
			f := func(next kmipserver.BatchItemNext, ctx context.Context, bi *kmip.RequestBatchItem) (*kmip.ResponseBatchItem, error) {
				return interp(rec, s, prog, ctx, bi, itemTokens, replaceItem, ownItem, resOfItem, next)
			}
			if isLate {
				ex.BatchItemUse(f)
			} else {
				items = append(items, f)
			}
		} else {
			f := func(next kmipserver.Next, ctx context.Context, msg *kmip.RequestMessage) (*kmip.ResponseMessage, error) {
				return interp(rec, s, prog, ctx, msg, reqTokens, replaceReq, ownResp, resOfMsg, next)
			}
			if isLate {
				ex.Use(f)
			} else {
				msgs = append(msgs, f)
			}
		}
	}
	if !isLate {
		// The chain is registered the way an application holding a list of middlewares does it: all stages but the last from one
		// list (with spare capacity) that also configures a second executor, then one more stage on each; afterwards the
		// application reuses its list. A registered chain consists of the stages registered on it, whatever happens to the
		// slices they were passed in.
		other := kmipserver.NewBatchExecutor()
		other.Route(kmip.OperationActivate, coreHandler{rec})
		decoyMsg := func(next kmipserver.Next, ctx context.Context, msg *kmip.RequestMessage) (*kmip.ResponseMessage, error) {
			u, m := reqTokens(msg)
			rec.emit(u, Event{E: "enter", S: 99, C: ctxToken(ctx), M: m})
			return next(ctx, msg)
		}
		decoyItem := func(next kmipserver.BatchItemNext, ctx context.Context, bi *kmip.RequestBatchItem) (*kmip.ResponseBatchItem, error) {
			u, m := itemTokens(bi)
			rec.emit(u, Event{E: "enter", S: 99, C: ctxToken(ctx), M: m})
			return next(ctx, bi)
		}
		if n := len(msgs); n > 0 {
			list := append(make([]kmipserver.Middleware, 0, n+4), msgs[:n-1]...)
			ex.Use(list...)
			other.Use(list...)
			ex.Use(msgs[n-1])
			other.Use(decoyMsg)
			list = list[:cap(list)]
			for i := range list {
				list[i] = decoyMsg
			}
		}
		if n := len(items); n > 0 {
			list := append(make([]kmipserver.BatchItemMiddleware, 0, n+4), items[:n-1]...)
			ex.BatchItemUse(list...)
			other.BatchItemUse(list...)
			ex.BatchItemUse(items[n-1])
			other.BatchItemUse(decoyItem)
			list = list[:cap(list)]
			for i := range list {
				list[i] = decoyItem
			}
		}
	}
	return &srvSys{ex: ex}
}

func (s *srvSys) run(u int) (k string, f int) {
	defer func() {
		if r := recover(); r != nil {
			k, f = "panic:"+vh.PanicSig(r), -1
		}
	}()
	msg := reqMsg(u, 0)
	if s.stop {
		msg = reqMsgStop(u, 0)
	}
	if s.discover {
		m := kmip.NewRequestMessage(kmip.V1_4, &payloads.DiscoverVersionsRequestPayload{})
		m.BatchItem[0].UniqueBatchItemID = []byte(msgID(u, 0))
		msg = &m
	}
	if s.upgrade {
		msg.Header.ProtocolVersion = kmip.V1_2
	}
	if s.critical {
		msg.BatchItem[0].MessageExtension = &kmip.MessageExtension{VendorIdentification: "verif", CriticalityIndicator: true}
	}
	root := context.Background()
	if deadRootCtx {
		c, cancel := context.WithCancel(root)
		cancel()
		root = c
	}
	resp := s.ex.HandleRequest(root, msg)
	return resOfMsg(resp, nil)
}
func (s *srvSys) close() {}

func build(rec *recorder, kind string, chain []string) (system, error) {
	switch kind {
	case "client":
		return newClientSys(rec, chain)
	case "client-builtin":
		return newClientSys(rec, chain, true)
	case "client-drop":
		return newClientSys(rec, chain, false, true)
	case "srvmsg":
		return newSrvSys(rec, chain, false), nil
	case "srvitem":
		return newSrvSys(rec, chain, true), nil
	case "srvmsg-late":
		return newSrvSys(rec, chain, false, true), nil
	case "srvmsg-upgrade":
		sys := newSrvSys(rec, chain, false).(*srvSys)
		sys.ex.SetSupportedProtocolVersions(kmip.V1_4)
		sys.upgrade = true
		return sys, nil
	case "srvitem-critical":
		sys := newSrvSys(rec, chain, true).(*srvSys)
		sys.critical = true
		return sys, nil
	case "srvitem-discover":
		sys := newSrvSys(rec, chain, true).(*srvSys)
		sys.discover = true
		return sys, nil
	case "srvmsg-stop":
		sys := newSrvSys(rec, chain, false).(*srvSys)
		sys.stop = true
		return sys, nil
	case "srvitem-late":
		return newSrvSys(rec, chain, true, true), nil
	}
	return nil, errors.New("unknown kind")
}

var kinds = []string{"client", "srvmsg", "srvitem"}

type kindVariant struct {
	kind string
	dead bool
	root bool
}

// deadRootCtx: the next server-chain run is handed a cancelled root context
var deadRootCtx bool

// every chain runs on the three real chains; chains that derive contexts additionally run on the two
// server chains with derived contexts that are already cancelled
func kindVariants(chain []string) []kindVariant {
	kv := []kindVariant{{kind: "client"}, {kind: "srvmsg"}, {kind: "srvitem"}, {kind: "srvmsg-late"}, {kind: "srvitem-late"}, {kind: "srvmsg-stop"}, {kind: "client-builtin"}, {kind: "srvitem-critical"}, {kind: "srvmsg-upgrade"}, {kind: "client-drop"}, {kind: "srvitem-discover"},
		{kind: "srvmsg", root: true}, {kind: "srvitem", root: true}, {kind: "srvmsg-stop", root: true}}
	for _, p := range chain {
		if p == "newctx" || p == "thrice" {
			return append(kv, kindVariant{kind: "srvmsg", dead: true}, kindVariant{kind: "srvitem", dead: true})
		}
	}
	return kv
}

// criticalView: what Chain.tla's history looks like when the core answers every invocation with an error (the item carries a critical
// message extension, which the executor's core rejects before any operation handler): the chain runs exactly as the specification
// says, the core handler of the harness is never reached, and every result that came from the core (f <= 0) is an error.
func criticalView(exp []Event) []Event {
	var res []Event
	for _, e := range exp {
		if e.E == "core" {
			continue
		}
		if e.E == "exit" && e.K == "ok" && e.F <= 0 {
			e.K, e.F = "err", -1
		}
		res = append(res, e)
	}
	return res
}

// discoverView: what Chain.tla's history looks like when the item is a Discover Versions the application has no route for. The
// executor answers it itself: that built-in answer is the core of the item chain like any routed handler - the stages run around it
// exactly as the specification says - only the harness's core handler is not what is invoked, so no "core" event is recorded.
func discoverView(exp []Event) []Event {
	var res []Event
	for _, e := range exp {
		if e.E != "core" {
			res = append(res, e)
		}
	}
	return res
}

// upgradeView: what Chain.tla's history looks like on an executor that supports protocol version 1.4 only, when the request arrives
// with version 1.2 and every message a stage substitutes carries 1.4: the core rejects the original message (token 0) before any
// handler runs and serves every substituted one - it looks at the message it is given, not at the one the chain was entered with.
func upgradeView(exp []Event) []Event {
	var res []Event
	for _, e := range exp {
		if e.E == "core" && e.M == 0 {
			continue
		}
		if e.E == "exit" && e.K == "ok" && e.F == 0 {
			e.K, e.F = "err", -1
		}
		res = append(res, e)
	}
	return res
}

// upgradeVersion: substituted messages carry version 1.4 (set while a srvmsg-upgrade chain is replayed)
var upgradeVersion bool

func eventsEqual(kind string, got, exp []Event) bool {
	if kind == "srvitem-critical" {
		exp = criticalView(exp)
	}
	if kind == "srvmsg-upgrade" {
		exp = upgradeView(exp)
	}
	if kind == "srvitem-discover" {
		exp = discoverView(exp)
	}
	if len(got) != len(exp) {
		return false
	}
	for i := range got {
		g, e := got[i], exp[i]
		if strings.HasPrefix(kind, "client") && e.E == "core" {
			e.C = -1 // the context is not observable at the client's transport
		}
		if g != e {
			return false
		}
	}
	return true
}

func TestReplay(t *testing.T) {
	casesPath := vh.Env("VERIF_CASES", "")
	if casesPath == "" {
		t.Skip("VERIF_CASES not set")
	}
	cases, err := vh.ReadNDJSON[Case](casesPath)
	if err != nil {
		t.Fatal(err)
	}
	out, err := vh.NewWriter(vh.Env("VERIF_OUT", "chain_results.ndjson"))
	if err != nil {
		t.Fatal(err)
	}
	defer out.Close()
	runs, mism := 0, 0
	u := 0
	for n, c := range cases {
		for _, kv := range kindVariants(c.Chain) {
			kind := kv.kind
			rec := &recorder{hist: map[int][]Event{}, slot: map[int]int{}, deadCtx: kv.dead, deadRoot: kv.root}
			sys, err := build(rec, kind, c.Chain)
			if err != nil {
				t.Fatal(err)
			}
			// the same chain instance serves three consecutive requests: the cursor must not be shared across them either
			for rep := 0; rep < 3; rep++ {
				u++
				runs++
				upgradeVersion = kind == "srvmsg-upgrade"
				deadRootCtx = kv.root
				k, f := sys.run(u)
				upgradeVersion, deadRootCtx = false, false
				rec.mu.Lock()
				got := rec.hist[u]
				rec.mu.Unlock()
				expK, expF := c.Final[0].(string), int(c.Final[1].(float64))
				if kind == "srvitem-critical" && expK == "ok" && expF <= 0 {
					expK, expF = "err", -1
				}
				if kind == "srvmsg-upgrade" && expK == "ok" && expF == 0 {
					expK, expF = "err", -1
				}
				if !eventsEqual(kind, got, c.Hist) || k != expK || f != expF {
					mism++
					out.Emit(map[string]any{"case": n, "kind": kind, "rep": rep, "chain": c.Chain, "deadctx": kv.dead, "deadroot": kv.root,
						"expect": map[string]any{"hist": c.Hist, "final": c.Final},
						"got":    map[string]any{"hist": got, "final": []any{k, f}}})
					break
				}
			}
			sys.close()
		}
	}
	out.Emit(map[string]any{"summary": true, "cases": len(cases), "runs": runs, "mismatches": mism})
}

// TestTrace records, for a seeded sample of chains and each kind, G concurrent requests sharing one chain.
func TestTrace(t *testing.T) {
	path := vh.Env("VERIF_TRACE", "")
	casesPath := vh.Env("VERIF_CASES", "")
	if path == "" || casesPath == "" {
		t.Skip("VERIF_TRACE/VERIF_CASES not set")
	}
	cases, err := vh.ReadNDJSON[Case](casesPath)
	if err != nil {
		t.Fatal(err)
	}
	w, err := vh.NewWriter(path)
	if err != nil {
		t.Fatal(err)
	}
	defer w.Close()
	G := vh.EnvInt("VERIF_G", 16)
	w.Emit(map[string]any{"ev": "meta", "slots": G})
	u := 0
	for _, c := range cases {
		for _, kind := range kinds {
			rec := &recorder{hist: map[int][]Event{}, slot: map[int]int{}, trace: w}
			sys, err := build(rec, kind, c.Chain)
			if err != nil {
				t.Fatal(err)
			}
			var wg sync.WaitGroup
			for g := 1; g <= G; g++ {
				u++
				uu := u
				rec.mu.Lock()
				rec.slot[uu] = g
				rec.mu.Unlock()
				chain := c.Chain
				if chain == nil {
					chain = []string{}
				}
				w.Emit(map[string]any{"ev": "begin", "q": g, "chain": chain, "kind": kind})
				wg.Add(1)
				go func(g int) {
					defer wg.Done()
					k, f := sys.run(uu)
					w.Emit(map[string]any{"ev": "final", "q": g, "k": k, "f": f})
				}(g)
			}
			wg.Wait()
			sys.close()
		}
	}
}
