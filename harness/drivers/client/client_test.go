// Driver for C10 / C11: the real kmipclient (doRountrip, conn send/recv, read and write loops, terminate,
// Close, reconnect) runs against controller-operated in-memory servers inside a testing/synctest bubble under the
// gate controller. Environment actions: a caller starts its call, a caller's context is cancelled, the server of a
// connection reads a request / answers one / closes / resets, Client.Close is called, the dialer fails.
// Every step is recorded; TLC validates the record against spec/TraceClient.tla.
package client

import (
	"context"
	"encoding/binary"
	"errors"
	"fmt"
	"io"
	"math/rand"
	"net"
	"os"
	"strings"
	"sync"
	"testing"
	"testing/synctest"
	"time"

	"github.com/ovh/kmip-go"
	"github.com/ovh/kmip-go/kmipclient"
	"github.com/ovh/kmip-go/payloads"
	"github.com/ovh/kmip-go/ttlv"

	"verifharness/memnet"
	"verifharness/sched"
	"verifharness/vh"
)

func TestMain(m *testing.M) { vh.Quiet(); os.Exit(m.Run()) }

type Cmd struct {
	Op   string `json:"op"` // rel | env
	C    int    `json:"c,omitempty"`
	Role string `json:"role,omitempty"` // K R W X
	Act  string `json:"act,omitempty"`  // StartCall Cancel SrvRead SrvReply SrvClose SrvReset StartClose
	ID   int    `json:"id,omitempty"`
	Out  string `json:"out,omitempty"` // dial outcome for rel of rt.dial: ok | fail
}
type Schedule struct {
	ID   string `json:"id"`
	Cmds []Cmd  `json:"cmds"`
}

const maxCallers = 3
const maxGens = 6

type world struct {
	ctl           *sched.Ctl
	w             *vh.Writer
	cl            *kmipclient.Client
	srv           map[int]*memnet.Conn // server end per generation
	srvbuf        map[int][]byte
	pending       map[int]map[int]bool
	srvDown       map[int]bool
	seen          map[int]map[int]int // requests received per generation per id (all bytes ever written by the client)
	ngen          int
	idle          bool
	dialOut       map[int]string // scripted dial outcome for the n-th dial (1-based; dial 1 is kmipclient.Dial itself)
	ndial         int
	pmu           sync.Mutex
	starveForeign bool
	ptrGen        map[string]int
	roleTaken     map[string]bool
	ngenSeen      int
	roleOf        map[uint64]string
	cancel        map[int]context.CancelFunc
	started       map[int]bool
	result        map[int][]any
	closeStarted  bool
	closeDone     bool
	lockHolder    int
	rnd           *rand.Rand
	diverged      int
}

func role(c int, r string) string { return fmt.Sprintf("%d.%s", c, r) }

// genOfPtr maps a connection object to its generation. The allocator may hand the address of a collected connection to
// a new one: a generation whose reader / writer role (suffix) is already taken by another goroutine cannot be this connection.
func (wd *world) genOfPtr(obj any, suffix string) int {
	k := fmt.Sprintf("%p", obj)
	wd.pmu.Lock()
	defer wd.pmu.Unlock()
	if g, ok := wd.ptrGen[k]; ok && !wd.roleTaken[role(g, suffix)] {
		wd.roleTaken[role(g, suffix)] = true
		return g
	}
	wd.ngenSeen++
	g := wd.ngenSeen
	wd.ptrGen[k] = g
	wd.roleTaken[role(g, suffix)] = true
	return g
}

func (wd *world) roleFor(gid uint64, point string, obj any) string {
	wd.pmu.Lock()
	r, ok := wd.roleOf[gid]
	wd.pmu.Unlock()
	if ok {
		return r
	}
	switch {
	case strings.HasPrefix(point, "rl."):
		r = role(wd.genOfPtr(obj, "R"), "R")
	case strings.HasPrefix(point, "wl."):
		r = role(wd.genOfPtr(obj, "W"), "W")
	default:
		r = fmt.Sprintf("g%d", gid)
	}
	wd.pmu.Lock()
	wd.roleOf[gid] = r
	wd.pmu.Unlock()
	return r
}

func (wd *world) setRole(r string) {
	wd.pmu.Lock()
	wd.roleOf[sched.Gid()] = r
	wd.pmu.Unlock()
}

func (wd *world) dial(ctx context.Context) (net.Conn, error) {
	wd.ndial++
	if wd.dialOut[wd.ndial] == "fail" {
		return nil, errors.New("memnet: dial refused")
	}
	wd.ngen++
	a, b := memnet.Pipe(wd.ngen)
	wd.srv[wd.ngen] = b
	wd.pending[wd.ngen] = map[int]bool{}
	wd.seen[wd.ngen] = map[int]int{}
	return a, nil
}

func reqMsg(k int) *kmip.RequestMessage {
	m := kmip.NewRequestMessage(kmip.V1_4, &payloads.ActivateRequestPayload{UniqueIdentifier: fmt.Sprintf("call-%d", k)})
	return &m
}
func respBytes(id int) []byte {
	return ttlv.MarshalTTLV(&kmip.ResponseMessage{Header: kmip.ResponseHeader{ProtocolVersion: kmip.V1_4, TimeStamp: time.Unix(1700000000, 0), BatchCount: 1},
		BatchItem: []kmip.ResponseBatchItem{{Operation: kmip.OperationActivate, ResponsePayload: &payloads.ActivateResponsePayload{UniqueIdentifier: fmt.Sprintf("call-%d", id)}}}})
}

func classify(err error) string {
	switch {
	case err == nil:
		return ""
	case errors.Is(err, context.Canceled), errors.Is(err, context.DeadlineExceeded):
		return "canceled"
	case errors.Is(err, memnet.ErrReset):
		return "reset"
	case errors.Is(err, memnet.ErrBrokenPipe):
		return "broken"
	case errors.Is(err, io.ErrClosedPipe):
		return "pipe"
	case errors.Is(err, io.EOF), errors.Is(err, io.ErrUnexpectedEOF):
		return "eof"
	case errors.Is(err, net.ErrClosed):
		return "closed"
	case strings.Contains(err.Error(), "dial refused"):
		return "dial"
	}
	return "other:" + err.Error()
}

func pjson(r string) []any {
	var c int
	var x string
	fmt.Sscanf(r, "%d.%s", &c, &x)
	return []any{c, x}
}

func (wd *world) positions() map[string]string {
	res := map[string]string{}
	for k := 1; k <= maxCallers; k++ {
		res[role(k, "K")] = wd.ctl.Where(role(k, "K"))
	}
	for g := 1; g <= maxGens; g++ {
		res[role(g, "R")] = wd.ctl.Where(role(g, "R"))
		res[role(g, "W")] = wd.ctl.Where(role(g, "W"))
	}
	res["0.X"] = wd.ctl.Where("0.X")
	return res
}

func (wd *world) logArrivals(before map[string]string, arrs [][2]string) {
	at := map[string]string{}
	for _, a := range arrs {
		at[a[0]] = a[1]
	}
	used := map[string]bool{}
	for k := 1; k <= maxCallers; k++ {
		kr := role(k, "K")
		for g := 1; g <= maxGens; g++ {
			r, w := role(g, "R"), role(g, "W")
			if before[kr] == "send.select!" && before[w] == "wl.select!" && at[kr] == "send.wait" && at[w] == "wl.send" {
				wd.w.Emit(map[string]any{"ev": "hand", "k": "tx", "g": g, "c": k, "m": at[kr], "o": at[w]})
				used[kr], used[w] = true, true
			}
			if before[kr] == "recv.select!" && before[r] == "rl.offer!" && at[kr] == "rt.exit" && (at[r] == "rl.recv" || at[r] == "rl.exit") && !used[kr] && !used[r] {
				wd.w.Emit(map[string]any{"ev": "hand", "k": "rx", "g": g, "c": k, "m": at[kr], "o": at[r]})
				used[kr], used[r] = true, true
			}
		}
	}
	for _, a := range arrs {
		if !used[a[0]] {
			wd.w.Emit(map[string]any{"ev": "arr", "p": pjson(a[0]), "g": a[1]})
		}
	}
	for _, a := range arrs {
		if a[1] == "rt.exit" {
			var k int
			fmt.Sscanf(a[0], "%d.K", &k)
			if wd.lockHolder == k {
				wd.lockHolder = 0
			}
		}
	}
}

func (wd *world) settle(before map[string]string, since int, released string) {
	synctest.Wait()
	arrs := wd.ctl.Arrivals(since)
	if released != "" {
		g := before[released]
		if g == "rl.exit" || g == "wl.exit" || g == "rt.exit" {
			arrs = append(arrs, [2]string{released, "done"})
		}
		if released == "0.X" && wd.closeDone && wd.ctl.Find("0.X") == nil {
			arrs = append(arrs, [2]string{released, "done"})
		}
	}
	b2 := map[string]string{}
	for k, v := range before {
		b2[k] = v
	}
	if released != "" {
		b2[released] = before[released] + "!"
	}
	wd.logArrivals(b2, arrs)
}

func (wd *world) releasable() []*sched.Gate {
	var res, foreign []*sched.Gate
	for _, g := range wd.ctl.Parked() {
		if g.Point == "rt.lock" && wd.lockHolder != 0 {
			continue // never release a caller into a held mutex
		}
		if strings.HasPrefix(g.Role, "g") {
			// a goroutine the specification does not know (work the library moved to a goroutine of its own): in half of the
			// runs it is starved - released only when nothing else can run - which is the schedule that exposes deferred cleanup
			foreign = append(foreign, g)
			continue
		}
		res = append(res, g)
	}
	if !wd.starveForeign || len(res) == 0 {
		res = append(res, foreign...)
	}
	return res
}

func (wd *world) release(g *sched.Gate) {
	before := wd.positions()
	since := wd.ctl.Snapshot()
	ev := map[string]any{"ev": "rel", "p": pjson(g.Role), "g": g.Point}
	if g.Point == "rt.dial" {
		out := wd.dialOut[wd.ndial+1]
		if out == "" {
			out = "ok"
		}
		if wd.ngen >= maxGens {
			out = "fail"
			wd.dialOut[wd.ndial+1] = "fail"
		}
		ev["out"] = out
	}
	if g.Point == "rt.lock" {
		var k int
		fmt.Sscanf(g.Role, "%d.K", &k)
		wd.lockHolder = k
	}
	wd.w.Emit(ev)
	wd.ctl.Release(g)
	wd.settle(before, since, g.Role)
}

// pull the bytes the client wrote so far into the per-generation buffer
func (wd *world) pull(g int) {
	if s := wd.srv[g]; s != nil {
		wd.srvbuf[g] = append(wd.srvbuf[g], s.TryRead()...)
	}
}

func (wd *world) env(act string, c int, id int) bool {
	before := wd.positions()
	since := wd.ctl.Snapshot()
	switch act {
	case "StartCall":
		if c < 1 || c > maxCallers || wd.started[c] {
			return false
		}
		wd.started[c] = true
		if wd.idle {
			// (virtual) time passes between calls: nothing in the specification depends on how long a connection has been idle
			time.Sleep(2 * time.Second)
		}
		ctx, cancel := context.WithCancel(context.Background())
		wd.cancel[c] = cancel
		wd.w.Emit(map[string]any{"ev": "env", "act": act, "c": c})
		k := c
		go func() {
			wd.setRole(role(k, "K"))
			defer func() {
				if r := recover(); r != nil {
					wd.result[k] = []any{"panic", vh.PanicSig(r)}
					panic(r)
				}
			}()
			resp, err := wd.cl.Roundtrip(ctx, reqMsg(k))
			if err != nil {
				wd.result[k] = []any{"err", classify(err)}
				return
			}
			if resp == nil {
				// neither a response nor an error: the property's "complete valid response or an error" is broken right here
				wd.result[k] = []any{"panic", "Roundtrip returned a nil response and a nil error"}
				return
			}
			rid := -1
			if len(resp.BatchItem) == 1 {
				if pl, ok := resp.BatchItem[0].ResponsePayload.(*payloads.ActivateResponsePayload); ok {
					fmt.Sscanf(pl.UniqueIdentifier, "call-%d", &rid)
				}
			}
			wd.result[k] = []any{"resp", rid}
		}()
	case "Cancel":
		if !wd.started[c] || wd.cancel[c] == nil || wd.result[c] != nil {
			return false
		}
		wd.w.Emit(map[string]any{"ev": "env", "act": act, "c": c})
		wd.cancel[c]()
		wd.cancel[c] = nil
	case "SrvRead":
		wd.pull(c)
		b := wd.srvbuf[c]
		if len(b) < 8 {
			return false
		}
		n := 8 + int(binary.BigEndian.Uint32(b[4:8]))
		if n%8 != 0 {
			n += 8 - n%8
		}
		if len(b) < n {
			return false
		}
		var req kmip.RequestMessage
		if err := ttlv.UnmarshalTTLV(b[:n], &req); err != nil {
			return false
		}
		wd.srvbuf[c] = b[n:]
		rid := -1
		fmt.Sscanf(req.BatchItem[0].RequestPayload.(*payloads.ActivateRequestPayload).UniqueIdentifier, "call-%d", &rid)
		wd.pending[c][rid] = true
		wd.seen[c][rid]++
		wd.w.Emit(map[string]any{"ev": "env", "act": act, "g": c, "id": rid})
	case "SrvReply":
		if wd.srv[c] == nil || !wd.pending[c][id] || wd.srvDown[c] {
			return false
		}
		delete(wd.pending[c], id)
		wd.w.Emit(map[string]any{"ev": "env", "act": act, "g": c, "id": id})
		wd.srv[c].Write(respBytes(id))
	case "SrvClose":
		if wd.srv[c] == nil || wd.srvDown[c] {
			return false
		}
		wd.pull(c)
		wd.srvDown[c] = true
		wd.w.Emit(map[string]any{"ev": "env", "act": act, "g": c})
		wd.srv[c].Close()
	case "SrvReset":
		if wd.srv[c] == nil || wd.srvDown[c] {
			return false
		}
		wd.pull(c)
		wd.srvDown[c] = true
		wd.w.Emit(map[string]any{"ev": "env", "act": act, "g": c})
		wd.srv[c].Reset()
	case "StartClose":
		if wd.closeStarted {
			return false
		}
		wd.closeStarted = true
		wd.w.Emit(map[string]any{"ev": "env", "act": act})
		go func() {
			wd.setRole("0.X")
			_ = wd.cl.Close()
			wd.closeDone = true
		}()
	default:
		return false
	}
	wd.settle(before, since, "")
	return true
}

func (wd *world) end() {
	results := [][]any{}
	tries := []int{}
	for k := 1; k <= maxCallers; k++ {
		r := wd.result[k]
		if r == nil {
			r = []any{"none", 0}
		}
		results = append(results, r)
		n := 0
		for g := 1; g <= wd.ngen; g++ {
			wd.pull(g)
			// count complete requests still in the buffer too
			b := wd.srvbuf[g]
			for len(b) >= 8 {
				l := 8 + int(binary.BigEndian.Uint32(b[4:8]))
				if l%8 != 0 {
					l += 8 - l%8
				}
				if len(b) < l {
					break
				}
				var req kmip.RequestMessage
				if ttlv.UnmarshalTTLV(b[:l], &req) == nil {
					rid := -1
					fmt.Sscanf(req.BatchItem[0].RequestPayload.(*payloads.ActivateRequestPayload).UniqueIdentifier, "call-%d", &rid)
					if rid == k {
						n++
					}
				}
				b = b[l:]
			}
			n += wd.seen[g][k]
		}
		tries = append(tries, n)
	}
	blocked := [][]string{}
	for r, at := range wd.positions() {
		if at == "" {
			continue
		}
		done := at == "rt.exit!" || at == "rl.exit!" || at == "wl.exit!"
		if r == "0.X" && wd.closeDone {
			done = true
		}
		if !done {
			blocked = append(blocked, []string{r, at})
		}
	}
	if len(blocked) > 0 {
		wd.w.Emit(map[string]any{"ev": "obs", "kind": "blocked", "blocked": blocked})
	}
	wd.w.Emit(map[string]any{"ev": "end", "results": results, "tries": tries, "gens": wd.ngen, "diverged": wd.diverged})
}

func newWorld(w *vh.Writer, seed int64) *world {
	wd := &world{ctl: sched.New(), w: w, srv: map[int]*memnet.Conn{}, srvbuf: map[int][]byte{}, pending: map[int]map[int]bool{}, srvDown: map[int]bool{},
		seen: map[int]map[int]int{}, dialOut: map[int]string{}, ptrGen: map[string]int{}, roleTaken: map[string]bool{}, roleOf: map[uint64]string{}, cancel: map[int]context.CancelFunc{},
		started: map[int]bool{}, result: map[int][]any{}, rnd: rand.New(rand.NewSource(seed))}
	wd.ctl.RoleFor = wd.roleFor
	return wd
}

func runOne(w *vh.Writer, sc Schedule, seed int64, randomSteps int, withClose bool) {
	w.Emit(map[string]any{"ev": "reset", "id": sc.ID})
	wd := newWorld(w, seed)
	wd.starveForeign = seed%2 == 0
	wd.idle = seed%3 != 0
	kmipclient.VerifHook = wd.ctl.Hook
	// kmipclient.Dial with an enforced version: the first generation exists before any call
	cl, err := kmipclient.Dial("mem", kmipclient.WithDialerUnsafe(wd.dial), kmipclient.EnforceVersion(kmip.V1_4))
	if err != nil {
		panic(err)
	}
	wd.cl = cl
	{
		before := wd.positions()
		wd.settle(before, 0, "")
	}
	for _, cmd := range sc.Cmds {
		if cmd.Op == "env" {
			c := cmd.C
			if !wd.env(cmd.Act, c, cmd.ID) {
				wd.diverged++
			}
			continue
		}
		if cmd.Out != "" {
			wd.dialOut[wd.ndial+1] = cmd.Out
		}
		g := wd.ctl.Find(role(cmd.C, cmd.Role))
		if g == nil || (g.Point == "rt.lock" && wd.lockHolder != 0) {
			wd.diverged++
			continue
		}
		wd.release(g)
	}
	// in half of the runs the last caller is kept for a probe after the walk: a call started once everything else has settled,
	// the servers then answering the oldest pending request first (the pattern that delivers a stale response to a later call)
	walkCallers, cancelledSome := maxCallers, false
	if seed%4 >= 2 || randomSteps == 0 {
		walkCallers = maxCallers - 1 // (runs that follow a TLC schedule always end with the probe call)
	}
	for step := 0; step < randomSteps; step++ {
		parked := wd.releasable()
		n := len(parked)
		pick := wd.rnd.Intn(n + 3)
		if pick < n {
			if parked[pick].Point == "rt.dial" && wd.rnd.Intn(5) == 0 {
				wd.dialOut[wd.ndial+1] = "fail"
			}
			wd.release(parked[pick])
			continue
		}
		g := 1 + wd.rnd.Intn(wd.ngen)
		switch wd.rnd.Intn(14) {
		case 0, 1, 2:
			wd.env("StartCall", 1+wd.rnd.Intn(walkCallers), 0)
		case 3, 4:
			if wd.env("Cancel", 1+wd.rnd.Intn(walkCallers), 0) {
				cancelledSome = true
			}
		case 5, 6, 7:
			wd.env("SrvRead", g, 0)
		case 8, 9, 10:
			for id := range wd.pending[g] {
				wd.env("SrvReply", g, id)
				break
			}
		case 11:
			wd.env("SrvClose", g, 0)
		case 12:
			wd.env("SrvReset", g, 0)
		case 13:
			if withClose {
				wd.env("StartClose", 0, 0)
			}
		}
	}
	// drain: the servers answer what they can, then go away; everything runs out
	w.Emit(map[string]any{"ev": "note", "what": "drain"})
	if walkCallers < maxCallers && (cancelledSome || seed%8 >= 6 || randomSteps == 0) {
		wd.env("StartCall", maxCallers, 0)
	}
	for guard := 0; guard < 3000; guard++ {
		parked := wd.releasable()
		if len(parked) > 0 {
			wd.release(parked[wd.rnd.Intn(len(parked))])
			continue
		}
		progressed := false
		for g := 1; g <= wd.ngen && !progressed; g++ {
			if wd.env("SrvRead", g, 0) {
				progressed = true
				break
			}
			oldest := -1
			for id := range wd.pending[g] {
				if oldest < 0 || id < oldest {
					oldest = id
				}
			}
			if oldest >= 0 && wd.env("SrvReply", g, oldest) {
				progressed = true
			}
		}
		if progressed {
			continue
		}
		for g := 1; g <= wd.ngen && !progressed; g++ {
			if wd.env("SrvClose", g, 0) {
				progressed = true
			}
		}
		if progressed {
			continue
		}
		if !wd.closeStarted && wd.env("StartClose", 0, 0) {
			continue
		}
		break
	}
	wd.end()
	kmipclient.VerifHook = nil
	for _, c := range wd.cancel {
		if c != nil {
			c()
		}
	}
	synctest.Wait()
}

func TestRuns(t *testing.T) {
	path := vh.Env("VERIF_TRACE", "")
	if path == "" {
		t.Skip("VERIF_TRACE not set")
	}
	w, err := vh.NewWriter(path)
	if err != nil {
		t.Fatal(err)
	}
	defer w.Close()
	prog, _ := os.Create(vh.Env("VERIF_PROGRESS", path+".progress"))
	defer prog.Close()
	skip := vh.EnvInt("VERIF_SKIP", 0)
	var scheds []Schedule
	if p := vh.Env("VERIF_SCHEDULES", ""); p != "" {
		scheds, err = vh.ReadNDJSON[Schedule](p)
		if err != nil {
			t.Fatal(err)
		}
	}
	withClose := vh.Env("VERIF_CLOSE", "0") == "1"
	n := 0
	run := func(sc Schedule, seed int64, steps int) {
		n++
		if n <= skip {
			return
		}
		fmt.Fprintf(prog, "%d %s\n", n, sc.ID)
		prog.Sync()
		w.Flush()
		runOne(w, sc, seed, steps, withClose)
	}
	defer func() {
		if r := recover(); r != nil {
			msg := fmt.Sprint(r)
			if !strings.Contains(msg, "deadlock") && !strings.Contains(msg, "blocked") {
				panic(r)
			}
		}
	}()
	synctest.Test(t, func(t *testing.T) {
		for i, sc := range scheds {
			run(sc, vh.Seed()*7919+int64(i), 0)
		}
		nrand := vh.EnvInt("VERIF_NRANDOM", 200)
		for i := 0; i < nrand; i++ {
			pre := Schedule{ID: fmt.Sprintf("rw-%d-%d", vh.Seed(), i), Cmds: []Cmd{{Op: "env", Act: "StartCall", C: 1}}}
			run(pre, vh.Seed()*104729+int64(i), 30+i%70)
		}
		fmt.Fprintf(prog, "done %d\n", n)
		prog.Sync()
		w.Flush()
	})
}
