// TestCluster: the plans of spec/ClusterDial.tla replayed on a real cluster client (kmipclient.DialCluster with its own dialer:
// crypto/tls over loopback TCP). Every server of the list is a listener of this harness that records each connection attempt; a
// server that is "down" accepts and closes at once (the TLS handshake fails), one that is "up" completes the handshake and serves
// KMIP. Before every `call` step the harness makes the server drop the client's connection, so that the call has to walk the list.
// A `tick` lets more than the retry timeout pass. Each plan's events (attempted servers in order, result, server that answered) are
// written as one block and validated by TLC against TraceClusterDial.tla. Real sockets and real time: a plan in which the steps
// between two ticks took longer than 60 % of the retry timeout is marked unreliable and not judged.
package client

import (
	"context"
	"crypto/tls"
	"fmt"
	"net"
	"sync"
	"testing"
	"time"

	"github.com/ovh/kmip-go"
	"github.com/ovh/kmip-go/kmipclient"
	"github.com/ovh/kmip-go/payloads"
	"github.com/ovh/kmip-go/ttlv"

	"verifharness/vh"
)

type clusterStep struct {
	Op string `json:"op"`
	S  int    `json:"s"`
}
type clusterPlan struct {
	Plan []clusterStep `json:"plan"`
}

type clusterServer struct {
	idx  int
	ln   net.Listener
	mu   *sync.Mutex
	up   bool
	live []net.Conn
}

type clusterRun struct {
	mu       sync.Mutex
	attempts []int
	served   int
	servers  []*clusterServer
}

func (r *clusterRun) serve(s *clusterServer, cert tls.Certificate) {
	for {
		c, err := s.ln.Accept()
		if err != nil {
			return
		}
		r.mu.Lock()
		r.attempts = append(r.attempts, s.idx)
		up := s.up
		r.mu.Unlock()
		if !up {
			c.Close()
			continue
		}
		tc := tls.Server(c, &tls.Config{Certificates: []tls.Certificate{cert}, MinVersion: tls.VersionTLS12})
		if err := tc.Handshake(); err != nil {
			tc.Close()
			continue
		}
		r.mu.Lock()
		s.live = append(s.live, tc)
		r.mu.Unlock()
		go func() {
			st := ttlv.NewStream(tc, -1)
			defer tc.Close()
			for {
				var req kmip.RequestMessage
				if err := st.Recv(&req); err != nil {
					return
				}
				resp := &kmip.ResponseMessage{Header: kmip.ResponseHeader{ProtocolVersion: req.Header.ProtocolVersion, TimeStamp: time.Unix(1700000000, 0), BatchCount: 1}}
				bi := kmip.ResponseBatchItem{Operation: req.BatchItem[0].Operation, UniqueBatchItemID: req.BatchItem[0].UniqueBatchItemID}
				if _, ok := req.BatchItem[0].RequestPayload.(*payloads.DiscoverVersionsRequestPayload); ok {
					bi.ResponsePayload = &payloads.DiscoverVersionsResponsePayload{ProtocolVersion: []kmip.ProtocolVersion{kmip.V1_4}}
				} else {
					bi.ResponsePayload = &payloads.ActivateResponsePayload{UniqueIdentifier: fmt.Sprintf("s%d", s.idx)}
				}
				r.mu.Lock()
				r.served = s.idx
				r.mu.Unlock()
				resp.BatchItem = []kmip.ResponseBatchItem{bi}
				if err := st.Send(resp); err != nil {
					return
				}
			}
		}()
	}
}

func (r *clusterRun) dropAll() {
	r.mu.Lock()
	for _, s := range r.servers {
		for _, c := range s.live {
			c.Close()
		}
		s.live = nil
	}
	r.mu.Unlock()
}

func runClusterPlan(plan clusterPlan, cert tls.Certificate, retry time.Duration, defaults bool) (events []map[string]any, problems []string) {
	const n = 2
	r := &clusterRun{}
	var addrs []string
	for i := 1; i <= n; i++ {
		ln, err := net.Listen("tcp", "127.0.0.1:0")
		if err != nil {
			return nil, []string{"harness: " + err.Error()}
		}
		s := &clusterServer{idx: i, ln: ln, up: true}
		r.servers = append(r.servers, s)
		addrs = append(addrs, ln.Addr().String())
		go r.serve(s, cert)
	}
	defer func() {
		for _, s := range r.servers {
			s.ln.Close()
		}
		r.dropAll()
	}()
	events = append(events, map[string]any{"ev": "reset"})
	var cl *kmipclient.Client
	defer func() {
		if cl != nil {
			cl.Close()
		}
	}()
	period := time.Now()
	unreliable := false
	walk := func(ev string, f func() error) {
		r.mu.Lock()
		r.attempts, r.served = nil, 0
		r.mu.Unlock()
		done := make(chan [2]string, 1)
		go func() {
			res, pan := "ok", ""
			func() {
				defer func() {
					if x := recover(); x != nil {
						res, pan = "panic", fmt.Sprint(x)
					}
				}()
				if err := f(); err != nil {
					res = "err"
				}
			}()
			done <- [2]string{res, pan}
		}()
		var out [2]string
		select {
		case out = <-done:
		case <-time.After(20 * time.Second):
			out = [2]string{"hang", ""}
		}
		time.Sleep(5 * time.Millisecond)
		r.mu.Lock()
		att := append([]int{}, r.attempts...)
		at := r.served
		r.mu.Unlock()
		if out[0] != "ok" {
			at = 0
		}
		if time.Since(period) > retry*6/10 {
			unreliable = true
		}
		events = append(events, map[string]any{"ev": ev, "attempts": att, "result": out[0], "at": at, "panic": out[1]})
	}
	for _, st := range plan.Plan {
		switch st.Op {
		case "flip":
			r.mu.Lock()
			r.servers[st.S-1].up = !r.servers[st.S-1].up
			r.mu.Unlock()
			events = append(events, map[string]any{"ev": "flip", "s": st.S})
		case "tick":
			time.Sleep(retry + retry/10)
			period = time.Now()
			events = append(events, map[string]any{"ev": "tick"})
		case "build":
			walk("build", func() error {
				opts := []kmipclient.Option{kmipclient.WithTlsConfig(&tls.Config{InsecureSkipVerify: true, MinVersion: tls.VersionTLS12})}
				if !defaults {
					opts = append(opts, kmipclient.WithRetryTimeout(retry))
				}
				c, err := kmipclient.DialCluster(addrs, opts...)
				if err == nil {
					cl = c
				}
				return err
			})
		case "call":
			if cl == nil {
				problems = append(problems, "harness: call without a client")
				return
			}
			r.dropAll()
			time.Sleep(20 * time.Millisecond)
			walk("call", func() error {
				ctx, cancel := context.WithTimeout(context.Background(), 15*time.Second)
				defer cancel()
				resp, err := cl.Request(ctx, &payloads.ActivateRequestPayload{UniqueIdentifier: "x"})
				if err != nil {
					return err
				}
				if pl, ok := resp.(*payloads.ActivateResponsePayload); !ok || len(pl.UniqueIdentifier) != 2 {
					return fmt.Errorf("unexpected response %#v", resp)
				}
				return nil
			})
		}
		if last := events[len(events)-1]; last["result"] == "panic" || last["result"] == "hang" {
			break // the client is in an unknown state: the rest of the plan is not replayed
		}
	}
	if unreliable {
		for _, e := range events {
			e["unreliable"] = true
		}
	}
	return
}

func TestCluster(t *testing.T) {
	path := vh.Env("VERIF_CLUSTER_CASES", "")
	if path == "" {
		t.Skip("VERIF_CLUSTER_CASES not set")
	}
	plans, err := vh.ReadNDJSON[clusterPlan](path)
	if err != nil {
		t.Fatal(err)
	}
	w, err := vh.NewWriter(vh.Env("VERIF_TRACE", "cluster_trace.ndjson"))
	if err != nil {
		t.Fatal(err)
	}
	defer w.Close()
	retry := time.Duration(vh.EnvInt("VERIF_CLUSTER_RETRY_MS", 2000)) * time.Millisecond
	defaults := vh.Env("VERIF_CLUSTER_DEFAULTS", "") == "1"
	cert := loopbackCert()
	var wmu sync.Mutex
	sem := make(chan struct{}, vh.EnvInt("VERIF_CLUSTER_PAR", 32))
	var wg sync.WaitGroup
	for i, p := range plans {
		wg.Add(1)
		sem <- struct{}{}
		go func(i int, p clusterPlan) {
			defer wg.Done()
			defer func() { <-sem }()
			evs, probs := runClusterPlan(p, cert, retry, defaults)
			wmu.Lock()
			for _, e := range evs {
				e["plan"] = i
				w.Emit(e)
			}
			for _, pr := range probs {
				w.Emit(map[string]any{"ev": "problem", "plan": i, "what": pr})
			}
			wmu.Unlock()
		}(i, p)
	}
	wg.Wait()
}
