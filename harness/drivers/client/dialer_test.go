// TestDefaultDialer: the fault plans of spec/ExchangeFaults.tla whose failures a server can cause (it closes or resets before
// replying, after half of the response, right after the complete response), replayed through the client's DEFAULT dialer: crypto/tls
// over loopback TCP, the client built with DialContext and a context that is cancelled as soon as DialContext has returned (the usual
// `defer cancel()`). The same event log as TestFaults is recorded (the server sees the connections: a `dial` event is an accepted
// connection) and validated by TLC against TraceExchangeFaults.tla. Real sockets: no synctest bubble; a call that does not return
// within 20 s is reported as a hang.
package client

import (
	"context"
	"crypto/ecdsa"
	"crypto/elliptic"
	"crypto/rand"
	"crypto/tls"
	"crypto/x509"
	"crypto/x509/pkix"
	"fmt"
	"math/big"
	"net"
	"sync"
	"sync/atomic"
	"testing"
	"time"

	"github.com/ovh/kmip-go"
	"github.com/ovh/kmip-go/kmipclient"
	"github.com/ovh/kmip-go/payloads"
	"github.com/ovh/kmip-go/ttlv"

	"verifharness/vh"
)

func loopbackCert() tls.Certificate {
	key, err := ecdsa.GenerateKey(elliptic.P256(), rand.Reader)
	if err != nil {
		panic(err)
	}
	tpl := &x509.Certificate{SerialNumber: big.NewInt(1), Subject: pkix.Name{CommonName: "verif"}, NotBefore: time.Now().Add(-time.Hour),
		NotAfter: time.Now().Add(24 * time.Hour), KeyUsage: x509.KeyUsageDigitalSignature, ExtKeyUsage: []x509.ExtKeyUsage{x509.ExtKeyUsageServerAuth},
		IPAddresses: []net.IP{net.ParseIP("127.0.0.1")}, DNSNames: []string{"localhost"}}
	der, err := x509.CreateCertificate(rand.Reader, tpl, tpl, &key.PublicKey, key)
	if err != nil {
		panic(err)
	}
	return tls.Certificate{Certificate: [][]byte{der}, PrivateKey: key}
}

func TestDefaultDialer(t *testing.T) {
	path := vh.Env("VERIF_FAULT_CASES", "")
	if path == "" {
		t.Skip("VERIF_FAULT_CASES not set")
	}
	plans, err := vh.ReadNDJSON[faultPlan](path)
	if err != nil {
		t.Fatal(err)
	}
	w, err := vh.NewWriter(vh.Env("VERIF_TRACE", "dialer_trace.ndjson"))
	if err != nil {
		t.Fatal(err)
	}
	defer w.Close()
	out, err := vh.NewWriter(vh.Env("VERIF_OUT", "dialer_results.ndjson"))
	if err != nil {
		t.Fatal(err)
	}
	defer out.Close()
	cert := loopbackCert()
	n := 0
	for _, plan := range plans {
		if plan.Pt == "write" || plan.Kind == "junk" || plan.Kind == "srvreq" || plan.Kind == "with-reply" {
			continue // failures of the client's own socket need the injecting dialer (TestFaults)
		}
		n++
		probs := runDialerCase(w, n, plan, cert)
		if len(probs) > 0 {
			out.Emit(map[string]any{"case": n, "plan": plan, "problems": probs})
		}
	}
	out.Emit(map[string]any{"summary": true, "cases": n})
}

func runDialerCase(w *vh.Writer, ci int, plan faultPlan, cert tls.Certificate) (problems []string) {
	bad := func(f string, a ...any) { problems = append(problems, fmt.Sprintf(f, a...)) }
	var mu sync.Mutex
	emit := func(m map[string]any) { w.Emit(m) }
	st := struct {
		gen, exch, fired int
		busy             bool
		hit              map[int]bool
		after            []func()
	}{hit: map[int]bool{}}
	applies := func(g int) bool {
		if plan.Pt == "none" || !st.busy || st.hit[g] {
			return false
		}
		if plan.Persist {
			return st.exch >= plan.Exch
		}
		return st.exch == plan.Exch && st.fired == 0
	}
	fire := func(g int) { st.fired++; st.hit[g] = true; emit(map[string]any{"ev": "fault", "g": g}) }
	ln, err := tls.Listen("tcp", "127.0.0.1:0", &tls.Config{Certificates: []tls.Certificate{cert}, MinVersion: tls.VersionTLS12})
	if err != nil {
		return []string{"harness: " + err.Error()}
	}
	defer ln.Close()
	var conns []net.Conn
	var openConns atomic.Int32 // connections whose server side has not seen the client go away
	go func() {
		for {
			c, err := ln.Accept()
			if err != nil {
				return
			}
			if err := c.(*tls.Conn).Handshake(); err != nil {
				c.Close()
				continue
			}
			mu.Lock()
			st.gen++
			g := st.gen
			conns = append(conns, c)
			emit(map[string]any{"ev": "dial", "g": g})
			mu.Unlock()
			openConns.Add(1)
			go func() {
				s := ttlv.NewStream(c, -1)
				defer openConns.Add(-1)
				defer c.Close()
				bye := func() {
					if plan.Kind == "reset" {
						if tc, ok := c.(*tls.Conn).NetConn().(*net.TCPConn); ok {
							tc.SetLinger(0)
						}
					}
					c.Close()
				}
				for {
					var req kmip.RequestMessage
					if err := s.Recv(&req); err != nil {
						return
					}
					mu.Lock()
					emit(map[string]any{"ev": "rx", "g": g})
					cut := applies(g)
					if cut && plan.Pt == "read-first" {
						fire(g)
					}
					mu.Unlock()
					if cut && plan.Pt == "read-first" {
						bye()
						return
					}
					resp := &kmip.ResponseMessage{Header: kmip.ResponseHeader{ProtocolVersion: req.Header.ProtocolVersion, TimeStamp: time.Unix(1700000000, 0), BatchCount: 1}}
					switch pl := req.BatchItem[0].RequestPayload.(type) {
					case *payloads.DiscoverVersionsRequestPayload:
						resp.BatchItem = []kmip.ResponseBatchItem{{Operation: kmip.OperationDiscoverVersions, ResponsePayload: &payloads.DiscoverVersionsResponsePayload{ProtocolVersion: []kmip.ProtocolVersion{kmip.V1_4}}}}
						mu.Lock()
						refuse := plan.Refuse && g == 2 && st.exch == 1
						mu.Unlock()
						if refuse {
							resp.BatchItem = []kmip.ResponseBatchItem{{Operation: kmip.OperationDiscoverVersions, ResultStatus: kmip.ResultStatusOperationFailed,
								ResultReason: kmip.ResultReasonPermissionDenied, ResultMessage: "negotiation refused"}}
						}
					case *payloads.ActivateRequestPayload:
						resp.BatchItem = []kmip.ResponseBatchItem{{Operation: kmip.OperationActivate, ResponsePayload: &payloads.ActivateResponsePayload{UniqueIdentifier: pl.UniqueIdentifier}}}
					default:
						return
					}
					b := ttlv.MarshalTTLV(resp)
					mu.Lock()
					emit(map[string]any{"ev": "reply", "g": g})
					if cut && plan.Pt == "read-mid" {
						c.Write(b[:len(b)/2])
						fire(g)
						mu.Unlock()
						bye()
						return
					}
					c.Write(b)
					if cut && plan.Pt == "after-reply" {
						gone := make(chan struct{})
						st.after = append(st.after, func() { mu.Lock(); fire(g); mu.Unlock(); bye(); close(gone) })
						mu.Unlock()
						<-gone
						return
					}
					mu.Unlock()
				}
			}()
		}
	}()
	emit(map[string]any{"ev": "case", "pt": plan.Pt, "kind": plan.Kind, "persist": plan.Persist, "exch": plan.Exch, "refuse": plan.Refuse, "n": ci, "dialer": "default"})
	var cl *kmipclient.Client
	for e := 1; e <= 4; e++ {
		mu.Lock()
		st.exch, st.busy = e, true
		emit(map[string]any{"ev": "begin", "e": e})
		mu.Unlock()
		type res struct {
			err  error
			resp string
		}
		done := make(chan res, 1)
		go func() {
			var r res
			defer func() {
				if p := recover(); p != nil {
					r.resp = "panic: " + vh.PanicSig(p)
				}
				done <- r
			}()
			if cl == nil {
				dctx, cancel := context.WithTimeout(context.Background(), 20*time.Second)
				c, err := kmipclient.DialContext(dctx, ln.Addr().String(), kmipclient.WithTlsConfig(&tls.Config{InsecureSkipVerify: true, MinVersion: tls.VersionTLS12}))
				cancel() // the context of DialContext ends here, like with `defer cancel()`: later reconnections are not its business
				if err != nil {
					r.err = err
					return
				}
				cl = c
				return
			}
			id := fmt.Sprintf("call-%d-%d", ci, e)
			ctx, cancel := context.WithTimeout(context.Background(), 20*time.Second)
			defer cancel()
			pl, err := cl.Request(ctx, &payloads.ActivateRequestPayload{UniqueIdentifier: id})
			if err != nil {
				r.err = err
				return
			}
			if ap, ok := pl.(*payloads.ActivateResponsePayload); !ok || ap.UniqueIdentifier != id {
				r.resp = fmt.Sprintf("a response that is not the one to %s: %#v", id, pl)
			}
		}()
		var r res
		select {
		case r = <-done:
		case <-time.After(30 * time.Second):
			bad("hang:exchange %d does not return within 30 s", e)
			emit(map[string]any{"ev": "ret", "outcome": "hang"})
			return
		}
		mu.Lock()
		st.busy = false
		switch {
		case r.resp != "":
			bad("wrong-response:exchange %d returned %s", e, r.resp)
			emit(map[string]any{"ev": "ret", "outcome": "wrong"})
		case r.err != nil:
			emit(map[string]any{"ev": "ret", "outcome": "err", "class": classify(r.err), "text": r.err.Error()})
		default:
			emit(map[string]any{"ev": "ret", "outcome": "resp"})
		}
		todo := st.after
		st.after = nil
		mu.Unlock()
		for _, f := range todo {
			f()
		}
		time.Sleep(30 * time.Millisecond) // let the client's read loop notice what the server did (real sockets)
	}
	if cl != nil {
		_ = cl.Close()
	}
	// every connection the client made is its own to close: once it is closed (or never came to exist because Dial failed), no server
	// is left waiting for it
	for k := 0; k < 100 && openConns.Load() > 0; k++ {
		time.Sleep(20 * time.Millisecond)
	}
	if n := openConns.Load(); n > 0 {
		bad("leak:%d connection(s) of the client are still open after Close (abandoned without being closed)", n)
	}
	mu.Lock()
	for _, c := range conns {
		c.Close()
	}
	mu.Unlock()
	return problems
}
