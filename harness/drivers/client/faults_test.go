// TestFaults replays the fault plans of spec/ExchangeFaults.tla against an unmodified kmipclient over the in-memory network and
// records what happens around it (dial, request received, fault, reply, return) for validation by TLC (TraceExchangeFaults.tla).
// One run: Dial with version negotiation (exchange 1), then calls, until four exchanges have been made; a Dial that fails is
// followed by another Dial. The fault of the plan hits the planned exchange at the planned point: a write fails at the client's
// socket; a read fails because the server closes or resets the connection before replying, after a part of the response, or
// right after the complete response. Everything runs in one synctest bubble: a call that cannot finish is a hang, goroutines
// running client code after Close are a leak.
package client

import (
	"context"
	"errors"
	"fmt"
	"io"
	"net"
	"runtime"
	"strings"
	"sync"
	"testing"
	"testing/synctest"
	"time"

	"github.com/ovh/kmip-go"
	"github.com/ovh/kmip-go/kmipclient"
	"github.com/ovh/kmip-go/payloads"
	"github.com/ovh/kmip-go/ttlv"

	"verifharness/memnet"
	"verifharness/vh"
)

type faultPlan struct {
	Pt      string `json:"pt"`
	Kind    string `json:"kind"`
	Persist bool   `json:"persist"`
	Exch    int    `json:"exch"`
	// Refuse: the server refuses the version negotiation it receives on the second connection, inside Dial
	Refuse bool `json:"refuse"`
}

type faultWorld struct {
	mu      sync.Mutex
	plan    faultPlan
	w       *vh.Writer
	gen     int
	exch    int  // number of the exchange in progress
	busy    bool // an exchange is in progress
	fired   int
	hitGen  map[int]bool // generations the fault has fired on
	servers []*memnet.Conn
	chunk   int
}

func (fw *faultWorld) emit(m map[string]any) {
	fw.w.Emit(m)
}

// applies: the fault of the plan hits generation g now (called with fw.mu held)
func (fw *faultWorld) applies(g int) bool {
	if fw.plan.Pt == "none" || !fw.busy || fw.hitGen[g] {
		return false
	}
	if fw.plan.Persist {
		return fw.exch >= fw.plan.Exch
	}
	return fw.exch == fw.plan.Exch && fw.fired == 0
}

func (fw *faultWorld) fire(g int) {
	fw.fired++
	fw.hitGen[g] = true
	fw.emit(map[string]any{"ev": "fault", "g": g})
}

func (fw *faultWorld) dial(ctx context.Context) (net.Conn, error) {
	fw.mu.Lock()
	fw.gen++
	g := fw.gen
	a, b := memnet.Pipe(1000 + g)
	a.MaxChunk = fw.chunk
	fw.servers = append(fw.servers, b)
	fw.emit(map[string]any{"ev": "dial", "g": g})
	fw.mu.Unlock()
	broken := error(nil)
	a.Fault = func(op string, index int, p []byte) (int, error, bool) {
		fw.mu.Lock()
		defer fw.mu.Unlock()
		if broken != nil {
			return 0, broken, true // a socket that has failed keeps failing
		}
		if op != "write" || fw.plan.Pt != "write" || !fw.applies(g) {
			return 0, nil, false
		}
		fw.fire(g)
		switch fw.plan.Kind {
		case "eof":
			broken = memnet.ErrBrokenPipe
		case "closed":
			broken = net.ErrClosed
		case "reset":
			broken = memnet.ErrReset
		case "short":
			broken = io.ErrShortWrite
			return len(p) / 2, broken, true
		}
		return 0, broken, true
	}
	a.EOFWithData = fw.chunk == 0 // in every second case the last bytes before a close arrive together with io.EOF
	go fw.serve(g, b)
	return a, nil
}

// serve is the scripted server of one connection
func (fw *faultWorld) serve(g int, b *memnet.Conn) {
	st := ttlv.NewStream(b, -1)
	defer b.Close()
	for {
		var req kmip.RequestMessage
		if err := st.Recv(&req); err != nil {
			return
		}
		fw.mu.Lock()
		fw.emit(map[string]any{"ev": "rx", "g": g})
		cut := fw.plan.Pt != "write" && fw.applies(g)
		pt, kind := fw.plan.Pt, fw.plan.Kind
		if cut && pt == "read-first" && kind == "srvreq" {
			fw.fired++ // not a failure: nothing is logged, the plan counts as carried out on this connection
			fw.hitGen[g] = true
		} else if cut && pt == "read-first" {
			fw.fire(g)
		}
		fw.mu.Unlock()
		bye := func() {
			if kind == "reset" {
				b.Reset()
			} else {
				b.Close()
			}
		}
		if cut && pt == "read-first" && kind == "junk" {
			// a well-framed message the client cannot decode (a structure with a vendor tag), then the reply as if nothing had happened
			b.Write(ttlv.MarshalTTLV(ttlv.Value{Tag: 0x540001, Value: ttlv.Struct{{Tag: 0x540002, Value: "unsolicited"}}}))
		} else if cut && pt == "read-first" && kind == "srvreq" {
			// a request of the server's own (well-formed, decodable), then the reply as if nothing had happened
			q := kmip.NewRequestMessage(kmip.V1_4, &payloads.QueryRequestPayload{})
			b.Write(ttlv.MarshalTTLV(&q))
		} else if cut && pt == "read-first" {
			bye()
			return
		}
		resp := &kmip.ResponseMessage{Header: kmip.ResponseHeader{ProtocolVersion: req.Header.ProtocolVersion, TimeStamp: time.Unix(1700000000, 0), BatchCount: 1}}
		switch pl := req.BatchItem[0].RequestPayload.(type) {
		case *payloads.DiscoverVersionsRequestPayload:
			resp.BatchItem = []kmip.ResponseBatchItem{{Operation: kmip.OperationDiscoverVersions, ResponsePayload: &payloads.DiscoverVersionsResponsePayload{ProtocolVersion: []kmip.ProtocolVersion{kmip.V1_4, kmip.V1_2}}}}
			fw.mu.Lock()
			refuse := fw.plan.Refuse && g == 2 && fw.exch == 1
			fw.mu.Unlock()
			if refuse {
				resp.BatchItem = []kmip.ResponseBatchItem{{Operation: kmip.OperationDiscoverVersions, ResultStatus: kmip.ResultStatusOperationFailed,
					ResultReason: kmip.ResultReasonPermissionDenied, ResultMessage: "negotiation refused"}}
			}
		case *payloads.ActivateRequestPayload:
			resp.BatchItem = []kmip.ResponseBatchItem{{Operation: kmip.OperationActivate, ResponsePayload: &payloads.ActivateResponsePayload{UniqueIdentifier: pl.UniqueIdentifier}}}
		default:
			return
		}
		out := ttlv.MarshalTTLV(resp)
		if cut && pt == "read-mid" {
			fw.mu.Lock()
			fw.emit(map[string]any{"ev": "reply", "g": g})
			b.Write(out[:len(out)/2]) // under the lock: the part is on its way before the fault is recorded
			fw.fire(g)
			fw.mu.Unlock()
			bye()
			return
		}
		fw.mu.Lock()
		fw.emit(map[string]any{"ev": "reply", "g": g})
		if cut && pt == "after-reply" && kind == "with-reply" {
			// the reply and the close in one go: the client finds the reply and the end of the stream together
			fw.fire(g)
			b.Write(out)
			fw.mu.Unlock()
			bye()
			return
		}
		b.Write(out)
		fw.mu.Unlock()
		if cut && pt == "after-reply" {
			// the failure comes once the exchange is over: the controller performs it when the call has returned
			gone := make(chan struct{})
			afterReply.mu.Lock()
			afterReply.todo = append(afterReply.todo, func() {
				fw.mu.Lock()
				fw.fire(g)
				fw.mu.Unlock()
				bye()
				close(gone)
			})
			afterReply.mu.Unlock()
			<-gone
			return
		}
	}
}

// afterReply: failures planned for after an exchange; the controller performs them when the exchange has returned
var afterReply = struct {
	mu   sync.Mutex
	todo []func()
}{}

func clientGoroutines() int {
	buf := make([]byte, 1<<20)
	n := runtime.Stack(buf, true)
	cnt := 0
	for _, g := range strings.Split(string(buf[:n]), "\n\n") {
		if strings.Contains(g, "github.com/ovh/kmip-go/kmipclient.") {
			cnt++
		}
	}
	return cnt
}

func runFaultCase(w *vh.Writer, ci int, plan faultPlan) (problems []string) {
	bad := func(f string, a ...any) { problems = append(problems, fmt.Sprintf(f, a...)) }
	base := clientGoroutines()
	fw := &faultWorld{plan: plan, w: w, hitGen: map[int]bool{}}
	if ci%2 == 1 {
		fw.chunk = 3 // the client reads the response three bytes at a time
	}
	w.Emit(map[string]any{"ev": "case", "pt": plan.Pt, "kind": plan.Kind, "persist": plan.Persist, "exch": plan.Exch, "refuse": plan.Refuse, "n": ci})
	var cl *kmipclient.Client
	for e := 1; e <= 4; e++ {
		fw.mu.Lock()
		fw.exch, fw.busy = e, true
		fw.emit(map[string]any{"ev": "begin", "e": e})
		fw.mu.Unlock()
		type res struct {
			err  error
			pan  string
			resp string
		}
		done := make(chan res, 1)
		ctx, cancel := context.WithCancel(context.Background())
		go func() {
			var r res
			defer func() {
				if p := recover(); p != nil {
					r.pan = vh.PanicSig(p)
				}
				done <- r
			}()
			if cl == nil {
				c, err := kmipclient.DialContext(ctx, "mem", kmipclient.WithDialerUnsafe(fw.dial))
				if err != nil {
					r.err = err
					return
				}
				cl = c
				if v := c.Version(); v != kmip.V1_4 {
					r.resp = fmt.Sprintf("negotiated %v", v)
				}
				return
			}
			id := fmt.Sprintf("call-%d-%d", ci, e)
			pl, err := cl.Request(ctx, &payloads.ActivateRequestPayload{UniqueIdentifier: id})
			if err != nil {
				r.err = err
				return
			}
			if ap, ok := pl.(*payloads.ActivateResponsePayload); !ok || ap.UniqueIdentifier != id {
				r.resp = fmt.Sprintf("a response that is not the one to %s: %#v", id, pl)
			}
		}()
		synctest.Wait()
		var r res
		select {
		case r = <-done:
		default:
			bad("hang:exchange %d does not return although nothing more can happen", e)
			cancel()
			fw.mu.Lock()
			for _, s := range fw.servers {
				s.Close()
			}
			fw.mu.Unlock()
			synctest.Wait()
			fw.mu.Lock()
			fw.busy = false
			fw.mu.Unlock()
			w.Emit(map[string]any{"ev": "ret", "outcome": "hang"})
			return
		}
		cancel()
		fw.mu.Lock()
		fw.busy = false
		switch {
		case r.pan != "":
			bad("panic:%s", r.pan)
			fw.emit(map[string]any{"ev": "ret", "outcome": "panic"})
		case r.resp != "":
			bad("wrong-response:exchange %d returned %s", e, r.resp)
			fw.emit(map[string]any{"ev": "ret", "outcome": "wrong"})
		case r.err != nil:
			fw.emit(map[string]any{"ev": "ret", "outcome": "err", "class": classify(r.err)})
		default:
			fw.emit(map[string]any{"ev": "ret", "outcome": "resp"})
		}
		fw.mu.Unlock()
		// failures planned for after the exchange happen now
		afterReply.mu.Lock()
		todo := afterReply.todo
		afterReply.todo = nil
		afterReply.mu.Unlock()
		for _, f := range todo {
			f()
		}
		synctest.Wait()
	}
	if cl != nil {
		if err := cl.Close(); err != nil && !errors.Is(err, net.ErrClosed) && !errors.Is(err, io.ErrClosedPipe) {
			_ = err // the result of Close on a connection that has failed is not part of the property
		}
		synctest.Wait()
		// once the client is closed, calls fail
		done := make(chan error, 1)
		go func() {
			_, err := cl.Request(context.Background(), &payloads.ActivateRequestPayload{UniqueIdentifier: "after-close"})
			done <- err
		}()
		synctest.Wait()
		select {
		case err := <-done:
			if err == nil {
				bad("closed:a call on a closed client succeeded")
			}
		default:
			bad("hang:a call on a closed client does not return")
		}
	}
	// every connection the client was given is its own to close: with the servers still there (they would wait for ever), nothing of
	// the client is left once it is closed - or never came to exist because Dial failed
	time.Sleep(time.Second)
	synctest.Wait()
	if n := clientGoroutines(); n > base {
		bad("leak:%d goroutine(s) running client code are left after Close while the servers are still connected (a connection was abandoned without being closed)", n-base)
	}
	fw.mu.Lock()
	for _, s := range fw.servers {
		s.Close()
	}
	fw.mu.Unlock()
	synctest.Wait()
	time.Sleep(time.Second)
	synctest.Wait()
	if n := clientGoroutines(); n > base {
		bad("leak:%d goroutine(s) running client code are left after Close", n-base)
	}
	return problems
}

func TestFaults(t *testing.T) {
	path := vh.Env("VERIF_FAULT_CASES", "")
	if path == "" {
		t.Skip("VERIF_FAULT_CASES not set")
	}
	plans, err := vh.ReadNDJSON[faultPlan](path)
	if err != nil {
		t.Fatal(err)
	}
	w, err := vh.NewWriter(vh.Env("VERIF_TRACE", "fault_trace.ndjson"))
	if err != nil {
		t.Fatal(err)
	}
	defer w.Close()
	out, err := vh.NewWriter(vh.Env("VERIF_OUT", "fault_results.ndjson"))
	if err != nil {
		t.Fatal(err)
	}
	defer out.Close()
	reps := vh.EnvInt("VERIF_FAULT_REPS", 2)
	n := 0
	synctest.Test(t, func(t *testing.T) {
		for rep := 0; rep < reps; rep++ {
			for _, p := range plans {
				n++
				probs := runFaultCase(w, n, p)
				if len(probs) > 0 {
					out.Emit(map[string]any{"case": n, "plan": p, "problems": probs})
				}
			}
		}
	})
	out.Emit(map[string]any{"summary": true, "cases": n})
}
