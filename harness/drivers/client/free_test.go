// TestFreeCallers: C10 under real parallelism. No gate controller, no synctest bubble: one kmipclient.Client shared by 4 x GOMAXPROCS
// goroutines that call it at the same time through its public entry points (Roundtrip, Request, Batch), against an in-memory
// server that answers every request it reads, in order, with the request's own id. The event log (call / ret with the id found in
// the response) is validated by TLC against spec/FreeCalls.tla; the check also runs the binary under the race detector.
package client

import (
	"context"
	"fmt"
	"net"
	"runtime"
	"sync"
	"sync/atomic"
	"testing"
	"time"

	"github.com/ovh/kmip-go"
	"github.com/ovh/kmip-go/kmipclient"
	"github.com/ovh/kmip-go/payloads"
	"github.com/ovh/kmip-go/ttlv"

	"verifharness/memnet"
	"verifharness/vh"
)

func TestFreeCallers(t *testing.T) {
	path := vh.Env("VERIF_FREE_TRACE", "")
	if path == "" {
		t.Skip("VERIF_FREE_TRACE not set")
	}
	w, err := vh.NewWriter(path)
	if err != nil {
		t.Fatal(err)
	}
	defer w.Close()
	rounds := vh.EnvInt("VERIF_FREE_ROUNDS", 200)
	var lmu sync.Mutex
	logev := func(m map[string]any) {
		lmu.Lock()
		w.Emit(m)
		lmu.Unlock()
	}
	var gen atomic.Int32
	dial := func(ctx context.Context) (net.Conn, error) {
		a, b := memnet.Pipe(5000 + int(gen.Add(1)))
		go func() {
			st := ttlv.NewStream(b, -1)
			defer b.Close()
			n := 0
			for {
				var req kmip.RequestMessage
				if err := st.Recv(&req); err != nil {
					return
				}
				n++
				if n%5 == 0 {
					time.Sleep(50 * time.Microsecond) // some answers take a little longer
				}
				if n%40 == 0 {
					return // the server drops the connection now and then (after a complete exchange): callers reconnect while others wait
				}
				resp := &kmip.ResponseMessage{Header: kmip.ResponseHeader{ProtocolVersion: req.Header.ProtocolVersion, TimeStamp: time.Unix(1700000000, 0), BatchCount: int32(len(req.BatchItem))}}
				for _, bi := range req.BatchItem {
					pl := bi.RequestPayload.(*payloads.ActivateRequestPayload)
					resp.BatchItem = append(resp.BatchItem, kmip.ResponseBatchItem{Operation: kmip.OperationActivate, UniqueBatchItemID: bi.UniqueBatchItemID,
						ResponsePayload: &payloads.ActivateResponsePayload{UniqueIdentifier: pl.UniqueIdentifier}})
				}
				if err := st.Send(resp); err != nil {
					return
				}
			}
		}()
		return a, nil
	}
	// the client carries the library's own middlewares (a timeout that never comes, a correlation value): they are per call, too
	cl, err := kmipclient.Dial("mem", kmipclient.WithDialerUnsafe(dial), kmipclient.EnforceVersion(kmip.V1_4),
		kmipclient.WithMiddlewares(kmipclient.TimeoutMiddleware(10*time.Minute), kmipclient.CorrelationValueMiddleware(func() string { return "corr" })))
	if err != nil {
		t.Fatal(err)
	}
	workers := 4 * runtime.GOMAXPROCS(0)
	if workers > 64 {
		workers = 64
	}
	idOf := func(pl kmip.OperationPayload) int {
		var id int
		if ap, ok := pl.(*payloads.ActivateResponsePayload); ok {
			fmt.Sscanf(ap.UniqueIdentifier, "id-%d", &id)
		}
		return id
	}
	var wg sync.WaitGroup
	for k := 1; k <= workers; k++ {
		wg.Add(1)
		go func(k int) {
			defer wg.Done()
			for r := 0; r < rounds; r++ {
				id := 1 + r*workers + (k - 1)
				req := &payloads.ActivateRequestPayload{UniqueIdentifier: fmt.Sprintf("id-%d", id)}
				logev(map[string]any{"ev": "call", "k": k, "id": id, "api": (k + r) % 3})
				got, ok := 0, false
				switch (k + r) % 3 {
				case 0:
					msg := kmip.NewRequestMessage(kmip.V1_4, req)
					if resp, err := cl.Roundtrip(context.Background(), &msg); err == nil && resp != nil && len(resp.BatchItem) == 1 {
						got, ok = idOf(resp.BatchItem[0].ResponsePayload), true
					}
				case 1:
					if pl, err := cl.Request(context.Background(), req); err == nil {
						got, ok = idOf(pl), true
					}
				default:
					if res, err := cl.Batch(context.Background(), req); err == nil && len(res) == 1 {
						got, ok = idOf(res[0].ResponsePayload), true
					}
				}
				if ok {
					logev(map[string]any{"ev": "ret", "k": k, "outcome": "resp", "id": got})
				} else {
					logev(map[string]any{"ev": "ret", "k": k, "outcome": "err", "id": 0})
				}
			}
		}(k)
	}
	wg.Wait()
	_ = cl.Close()
	out, err := vh.NewWriter(vh.Env("VERIF_OUT", "free_results.ndjson"))
	if err != nil {
		t.Fatal(err)
	}
	defer out.Close()
	out.Emit(map[string]any{"summary": true, "workers": workers, "rounds": rounds})
}
