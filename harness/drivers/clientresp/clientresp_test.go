// Driver for C12: every response shape enumerated by TLC from spec/ClientResp.tla is served by a
// scripted in-memory server to real client calls (Exec of fluent builders, Request, Batch, and the
// discovery exchange inside Dial); the outcome class is compared with the specification's.
package clientresp

import (
	"context"
	"fmt"
	"io"
	"net"
	"os"
	"reflect"
	"strings"
	"sync"
	"testing"
	"time"

	"github.com/ovh/kmip-go"
	"github.com/ovh/kmip-go/kmipclient"
	"github.com/ovh/kmip-go/payloads"
	"github.com/ovh/kmip-go/ttlv"

	"verifharness/vh"
)

func TestMain(m *testing.M) { vh.Quiet(); os.Exit(m.Run()) }

type Case struct {
	Api     string   `json:"api"`
	N       int      `json:"n"`
	Hdr     string   `json:"hdr"`
	Items   []string `json:"items"`
	Outcome string   `json:"outcome"`
	Carries bool     `json:"carries"`
	Lenient bool     `json:"lenient"`
	IdPat   string   `json:"idpat"`
	Opt     string   `json:"opt"`
}

// foreign: content of another operation, sent under the requested operation code
type foreign struct {
	op         kmip.Operation `ttlv:"-"`
	ObjectType kmip.ObjectType
	Digest     kmip.Digest
}

func (f *foreign) Operation() kmip.Operation { return f.op }

// opSpec: one requested operation: how to call it through the fluent API, its good response payload
type opSpec struct {
	name string
	op   kmip.Operation
	req  func() kmip.OperationPayload
	good func() kmip.OperationPayload
	exec func(cl *kmipclient.Client, ctx context.Context) (kmip.OperationPayload, error)
}

func symKey() kmip.Object {
	return &kmip.SymmetricKey{KeyBlock: kmip.KeyBlock{
		KeyFormatType:          kmip.KeyFormatTypeRaw,
		KeyValue:               &kmip.KeyValue{Plain: &kmip.PlainKeyValue{KeyMaterial: kmip.KeyMaterial{Bytes: &[]byte{1, 2, 3, 4, 5, 6, 7, 8, 9, 10, 11, 12, 13, 14, 15, 16}}}},
		CryptographicAlgorithm: kmip.CryptographicAlgorithmAES,
		CryptographicLength:    128,
	}}
}

func wrap[T kmip.OperationPayload](p T, err error) (kmip.OperationPayload, error) {
	if err != nil {
		return nil, err
	}
	var i kmip.OperationPayload = p
	if reflect.ValueOf(i).Kind() == reflect.Ptr && reflect.ValueOf(i).IsNil() {
		return nil, nil
	}
	return i, nil
}

var ops = []opSpec{
	{"Activate", kmip.OperationActivate,
		func() kmip.OperationPayload { return &payloads.ActivateRequestPayload{UniqueIdentifier: "id"} },
		func() kmip.OperationPayload { return &payloads.ActivateResponsePayload{UniqueIdentifier: "id"} },
		func(cl *kmipclient.Client, ctx context.Context) (kmip.OperationPayload, error) {
			return wrap(cl.Activate("id").ExecContext(ctx))
		}},
	{"Get", kmip.OperationGet,
		func() kmip.OperationPayload { return &payloads.GetRequestPayload{UniqueIdentifier: "id"} },
		func() kmip.OperationPayload {
			return &payloads.GetResponsePayload{ObjectType: kmip.ObjectTypeSymmetricKey, UniqueIdentifier: "id", Object: symKey()}
		},
		func(cl *kmipclient.Client, ctx context.Context) (kmip.OperationPayload, error) {
			return wrap(cl.Get("id").ExecContext(ctx))
		}},
	{"Locate", kmip.OperationLocate,
		func() kmip.OperationPayload { return &payloads.LocateRequestPayload{} },
		func() kmip.OperationPayload {
			return &payloads.LocateResponsePayload{UniqueIdentifier: []string{"a", "b"}}
		},
		func(cl *kmipclient.Client, ctx context.Context) (kmip.OperationPayload, error) {
			return wrap(cl.Locate().ExecContext(ctx))
		}},
	{"Destroy", kmip.OperationDestroy,
		func() kmip.OperationPayload { return &payloads.DestroyRequestPayload{UniqueIdentifier: "id"} },
		func() kmip.OperationPayload { return &payloads.DestroyResponsePayload{UniqueIdentifier: "id"} },
		func(cl *kmipclient.Client, ctx context.Context) (kmip.OperationPayload, error) {
			return wrap(cl.Destroy("id").ExecContext(ctx))
		}},
	{"Revoke", kmip.OperationRevoke,
		func() kmip.OperationPayload {
			return &payloads.RevokeRequestPayload{UniqueIdentifier: "id", RevocationReason: kmip.RevocationReason{RevocationReasonCode: kmip.RevocationReasonCodeCessationOfOperation}}
		},
		func() kmip.OperationPayload { return &payloads.RevokeResponsePayload{UniqueIdentifier: "id"} },
		func(cl *kmipclient.Client, ctx context.Context) (kmip.OperationPayload, error) {
			return wrap(cl.Revoke("id").ExecContext(ctx))
		}},
	{"Create", kmip.OperationCreate,
		func() kmip.OperationPayload {
			return &payloads.CreateRequestPayload{ObjectType: kmip.ObjectTypeSymmetricKey}
		},
		func() kmip.OperationPayload {
			return &payloads.CreateResponsePayload{ObjectType: kmip.ObjectTypeSymmetricKey, UniqueIdentifier: "id"}
		},
		func(cl *kmipclient.Client, ctx context.Context) (kmip.OperationPayload, error) {
			return wrap(cl.Create().AES(128, kmip.CryptographicUsageEncrypt).ExecContext(ctx))
		}},
	{"GetAttributes", kmip.OperationGetAttributes,
		func() kmip.OperationPayload { return &payloads.GetAttributesRequestPayload{UniqueIdentifier: "id"} },
		func() kmip.OperationPayload {
			return &payloads.GetAttributesResponsePayload{UniqueIdentifier: "id", Attribute: []kmip.Attribute{{AttributeName: kmip.AttributeNameState, AttributeValue: kmip.StateActive}}}
		},
		func(cl *kmipclient.Client, ctx context.Context) (kmip.OperationPayload, error) {
			return wrap(cl.GetAttributes("id").ExecContext(ctx))
		}},
	{"Query", kmip.OperationQuery,
		func() kmip.OperationPayload { return &payloads.QueryRequestPayload{} },
		func() kmip.OperationPayload { return &payloads.QueryResponsePayload{VendorIdentification: "verif"} },
		func(cl *kmipclient.Client, ctx context.Context) (kmip.OperationPayload, error) {
			return wrap(cl.Query().ExecContext(ctx))
		}},
	{"ObtainLease", kmip.OperationObtainLease,
		func() kmip.OperationPayload { return &payloads.ObtainLeaseRequestPayload{UniqueIdentifier: "id"} },
		func() kmip.OperationPayload {
			return &payloads.ObtainLeaseResponsePayload{UniqueIdentifier: "id", LeaseTime: time.Hour, LastChangeDate: time.Unix(1700000000, 0)}
		},
		func(cl *kmipclient.Client, ctx context.Context) (kmip.OperationPayload, error) {
			return wrap(cl.ObtainLease("id").ExecContext(ctx))
		}},
}

var discoverSpec = opSpec{"DiscoverVersions", kmip.OperationDiscoverVersions,
	func() kmip.OperationPayload { return &payloads.DiscoverVersionsRequestPayload{} },
	func() kmip.OperationPayload {
		return &payloads.DiscoverVersionsResponsePayload{ProtocolVersion: []kmip.ProtocolVersion{kmip.V1_4, kmip.V1_2}}
	}, nil}

// the "other" operation: always different from the requested one
func otherOf(op kmip.Operation) (kmip.Operation, kmip.OperationPayload) {
	if op == kmip.OperationArchive {
		return kmip.OperationRecover, &payloads.RecoverResponsePayload{UniqueIdentifier: "other"}
	}
	return kmip.OperationArchive, &payloads.ArchiveResponsePayload{UniqueIdentifier: "other"}
}

const unknownReason = kmip.ResultReason(0x7777)
const unknownStatus = kmip.ResultStatus(0x55)

func buildItem(class string, reqOp kmip.Operation, good kmip.OperationPayload, id []byte, msg string) kmip.ResponseBatchItem {
	bi := kmip.ResponseBatchItem{UniqueBatchItemID: id}
	parts := strings.Split(class, "_")
	switch parts[1] {
	case "same":
		bi.Operation = reqOp
	case "other":
		bi.Operation, _ = otherOf(reqOp)
	}
	switch parts[0] {
	case "S":
		bi.ResultStatus = kmip.ResultStatusSuccess
		switch parts[2] {
		case "pl":
			if parts[1] == "same" {
				bi.ResponsePayload = good
			} else {
				_, bi.ResponsePayload = otherOf(reqOp)
			}
		case "foreign":
			bi.ResponsePayload = &foreign{op: reqOp, ObjectType: kmip.ObjectTypeCertificate,
				Digest: kmip.Digest{HashingAlgorithm: kmip.HashingAlgorithmSHA_256, DigestValue: []byte{1, 2, 3}}}
		}
	case "F":
		bi.ResultStatus = kmip.ResultStatusOperationFailed
		bi.ResultMessage = msg
		switch parts[2] {
		case "known":
			bi.ResultReason = kmip.ResultReasonItemNotFound
		case "unknown":
			bi.ResultReason = unknownReason
		case "pl":
			bi.ResultReason = kmip.ResultReasonItemNotFound
		}
	case "P":
		bi.ResultStatus = kmip.ResultStatusOperationPending
		bi.AsynchronousCorrelationValue = []byte("async")
		bi.ResultMessage = msg
	case "U":
		bi.ResultStatus = unknownStatus
		bi.ResultMessage = msg
	}
	if parts[0] != "S" && len(parts) > 2 && parts[2] == "notsupp" {
		bi.ResultReason = kmip.ResultReasonOperationNotSupported
	}
	if parts[0] != "S" && len(parts) > 2 && parts[2] == "pl" {
		bi.ResponsePayload = good // a status that is not Success decides, whatever the item carries
	}
	return bi
}

type served struct {
	mu sync.Mutex
	n  int
}

// serve answers every request on the connection with the response shape of the case
func serve(conn net.Conn, c Case, spec opSpec, msg string, sv *served) {
	st := ttlv.NewStream(conn, -1)
	defer conn.Close()
	for {
		var req kmip.RequestMessage
		if err := st.Recv(&req); err != nil {
			return
		}
		sv.mu.Lock()
		sv.n++
		sv.mu.Unlock()
		resp := &kmip.ResponseMessage{Header: kmip.ResponseHeader{ProtocolVersion: req.Header.ProtocolVersion, TimeStamp: time.Unix(1700000000, 0)}}
		// "hdr" is relative to the number of items SENT BY THE CLIENT in the model: header count vs n
		switch c.Hdr {
		case "match":
			resp.Header.BatchCount = int32(c.N)
		case "less":
			resp.Header.BatchCount = int32(c.N) - 1
		case "more":
			resp.Header.BatchCount = int32(c.N) + 1
		}
		for k, class := range c.Items {
			var id []byte
			reqOp := spec.op
			if k < len(req.BatchItem) {
				id = req.BatchItem[k].UniqueBatchItemID
				reqOp = req.BatchItem[k].Operation
				switch c.IdPat {
				case "dup":
					id = req.BatchItem[0].UniqueBatchItemID
				case "none":
					id = nil
				case "swap":
					id = req.BatchItem[len(req.BatchItem)-1-k].UniqueBatchItemID
				case "short":
					id = []byte{byte(k + 1)}
				case "long":
					id = []byte{9, 8, 7, 6, 5, 4, 3, 2, byte(k + 1)}
				}
			}
			resp.BatchItem = append(resp.BatchItem, buildItem(class, reqOp, spec.good(), id, msg))
		}
		if err := st.Send(resp); err != nil {
			return
		}
	}
}

var caseSeq int

type result struct {
	Outcome string `json:"outcome"`
	Carries bool   `json:"carries"`
	Detail  string `json:"detail,omitempty"`
}

func carries(errText, class, msg string) bool {
	// status, reason and message of the failed item must be in the error text
	parts := strings.Split(class, "_")
	status := map[string]kmip.ResultStatus{"F": kmip.ResultStatusOperationFailed, "P": kmip.ResultStatusOperationPending, "U": unknownStatus}[parts[0]]
	if !strings.Contains(errText, ttlv.EnumStr(status)) || !strings.Contains(errText, msg) {
		return false
	}
	if len(parts) > 2 && parts[2] == "notsupp" && !strings.Contains(errText, ttlv.EnumStr(kmip.ResultReasonOperationNotSupported)) {
		return false // whatever the status, the server's reason is part of what the caller is told
	}
	if parts[0] == "F" {
		switch parts[2] {
		case "known", "pl":
			return strings.Contains(errText, ttlv.EnumStr(kmip.ResultReasonItemNotFound))
		case "unknown":
			return strings.Contains(strings.ToLower(errText), "7777")
		}
	}
	return true
}

func firstNonSucc(items []string) string {
	for _, c := range items {
		if c[0] != 'S' {
			return c
		}
	}
	return ""
}

func runCase(c Case, spec opSpec, msg string) (res result) {
	sv := &served{}
	dial := func(ctx context.Context) (net.Conn, error) {
		a, b := net.Pipe()
		go serve(b, c, spec, msg, sv)
		return a, nil
	}
	defer func() {
		if r := recover(); r != nil {
			res = result{Outcome: "panic", Detail: vh.PanicSig(r)}
		}
	}()
	ctx, cancel := context.WithTimeout(context.Background(), 5*time.Second)
	defer cancel()
	// every second case runs on a client configured with the middlewares the library ships (debug log, correlation value, timeout):
	// the decision on a response does not depend on them
	mw := kmipclient.WithMiddlewares()
	if caseSeq++; caseSeq%2 == 0 {
		mw = kmipclient.WithMiddlewares(kmipclient.DebugMiddleware(io.Discard, nil), kmipclient.CorrelationValueMiddleware(func() string { return "corr" }),
			kmipclient.TimeoutMiddleware(time.Minute))
	}
	if c.Api == "Dial" {
		cl, err := kmipclient.DialContext(ctx, "mem", kmipclient.WithDialerUnsafe(dial), mw)
		if err != nil {
			return result{Outcome: errOutcome(err), Carries: carries(err.Error(), firstNonSuccOr(c.Items), msg), Detail: err.Error()}
		}
		defer cl.Close()
		v := cl.Version()
		if v != kmip.V1_4 {
			return result{Outcome: "wrongpayload", Detail: fmt.Sprint("adopted ", v)}
		}
		return result{Outcome: "payload"}
	}
	cl, err := kmipclient.DialContext(ctx, "mem", kmipclient.WithDialerUnsafe(dial), kmipclient.EnforceVersion(kmip.V1_4), mw)
	if err != nil {
		return result{Outcome: "harness-error", Detail: err.Error()}
	}
	defer cl.Close()
	wantType := reflect.TypeOf(spec.good())
	classify := func(pl kmip.OperationPayload) string {
		if pl == nil || (reflect.ValueOf(pl).Kind() == reflect.Ptr && reflect.ValueOf(pl).IsNil()) {
			return "nilpayload"
		}
		if reflect.TypeOf(pl) != wantType || pl.Operation() != spec.op {
			return "wrongpayload:" + reflect.TypeOf(pl).String()
		}
		return "payload"
	}
	switch c.Api {
	case "Exec":
		pl, err := spec.exec(cl, ctx)
		if err != nil {
			return result{Outcome: errOutcome(err), Carries: carries(err.Error(), firstNonSuccOr(c.Items), msg), Detail: err.Error()}
		}
		return result{Outcome: classify(pl)}
	case "Request":
		pl, err := cl.Request(ctx, spec.req())
		if err != nil {
			return result{Outcome: errOutcome(err), Carries: carries(err.Error(), firstNonSuccOr(c.Items), msg), Detail: err.Error()}
		}
		return result{Outcome: classify(pl)}
	case "Batch":
		var reqs []kmip.OperationPayload
		for k := 0; k < c.N; k++ {
			reqs = append(reqs, spec.req())
		}
		var bopts []kmipclient.BatchOption
		switch c.Opt {
		case "Continue":
			bopts = append(bopts, kmipclient.OnBatchErr(kmip.BatchErrorContinuationOptionContinue))
		case "Stop":
			bopts = append(bopts, kmipclient.OnBatchErr(kmip.BatchErrorContinuationOptionStop))
		case "Undo":
			bopts = append(bopts, kmipclient.OnBatchErr(kmip.BatchErrorContinuationOptionUndo))
		}
		br, err := cl.BatchOpt(ctx, reqs, bopts...)
		if err != nil {
			return result{Outcome: errOutcome(err), Detail: err.Error()}
		}
		// what the caller gets: every item that reports success must hold the requested operation's payload;
		// every other item must yield an error carrying status, reason and message
		car := true
		for k, bi := range br {
			if e := bi.Err(); e == nil {
				if cls := classify(bi.ResponsePayload); cls != "payload" {
					return result{Outcome: "items-" + cls, Detail: fmt.Sprintf("item %d", k)}
				}
				if bi.Operation != spec.op {
					return result{Outcome: "items-wrongop", Detail: fmt.Sprintf("item %d", k)}
				}
			} else if k < len(c.Items) {
				car = car && carries(e.Error(), c.Items[k], msg)
			}
		}
		if _, err := br.Unwrap(); err != nil {
			_ = err
		}
		return result{Outcome: "items", Carries: car}
	}
	return result{Outcome: "harness-error", Detail: "api"}
}

func errOutcome(err error) string {
	if strings.Contains(err.Error(), "deadline exceeded") {
		return "timeout"
	}
	return "error"
}

func firstNonSuccOr(items []string) string {
	if c := firstNonSucc(items); c != "" {
		return c
	}
	return "S_same_pl"
}

func TestReplay(t *testing.T) {
	casesPath := vh.Env("VERIF_CASES", "")
	if casesPath == "" {
		t.Skip("VERIF_CASES not set")
	}
	cases, err := vh.ReadNDJSON[Case](casesPath)
	if err != nil {
		t.Fatal(err)
	}
	out, err := vh.NewWriter(vh.Env("VERIF_OUT", "clientresp_results.ndjson"))
	if err != nil {
		t.Fatal(err)
	}
	defer out.Close()
	allOps := vh.Env("VERIF_TIER", "quick") == "thorough"
	runs := 0
	for n, c := range cases {
		var specs []opSpec
		switch {
		case c.Api == "Dial":
			specs = []opSpec{discoverSpec}
		case allOps:
			specs = ops
		default:
			specs = []opSpec{ops[(n+int(vh.Seed()))%len(ops)]}
		}
		for _, spec := range specs {
			// what a server writes in a Result Message is free text: per cent signs, braces and line breaks are part of it
			msg := fmt.Sprintf("msg-%d", n)
			switch n % 4 {
			case 1:
				msg += ": quota 100% used, 5%d left (%s) %!"
			case 2:
				msg += ": {\"k\": \"v\"}\n second line %v %[3]q"
			}
			r := runCase(c, spec, msg)
			runs++
			out.Emit(map[string]any{"case": n, "op": spec.name, "got": r})
		}
	}
	out.Emit(map[string]any{"summary": true, "cases": len(cases), "runs": runs})
}
