// Driver for C20: codec results must not depend on call history or concurrency.
//
// Every job runs in a FRESH CHILD PROCESS (cold plan caches): the parent test re-executes its own binary.
//
//	reference  each distinct call alone in its own process -> digest (and the document, used as decode input)
//	history    one goroutine, a permutation of calls (every order of first use), fresh or reused+cleared encoder
//	gated      several goroutines under the gate controller (hooks at cache miss / store), released in an order
//	           compiled from a TLC behaviour of spec/CodecCache.tla; the cache events are recorded
//	free       many goroutines, real scheduler (the binary may be built with -race)
package codec

import (
	"crypto/sha256"
	"encoding/hex"
	"encoding/json"
	"fmt"
	"math/big"
	"os"
	"os/exec"
	"reflect"
	"strings"
	"sync"
	"testing"
	"testing/synctest"
	"time"

	"github.com/ovh/kmip-go"
	"github.com/ovh/kmip-go/payloads"
	"github.com/ovh/kmip-go/ttlv"

	"verifharness/sched"
	"verifharness/vh"
)

type Call struct {
	Msg   string `json:"msg"`
	Ver   int    `json:"ver"`
	Op    string `json:"op"`  // enc | dec
	Enc   string `json:"enc"` // ttlv | xml | json
	Reuse bool   `json:"reuse"`
	// NoClear: the reused encoder is not cleared: the message is appended to what the encoder already holds (binary only);
	// the header of every message sets the version register before anything gated is written
	NoClear bool   `json:"noclear"`
	Input   string `json:"input,omitempty"` // hex document for dec
}

func (c Call) Key() string {
	if c.Ver >= 1000 {
		return fmt.Sprintf("%s/%d.%d/%s/%s", c.Msg, c.Ver/1000-1, c.Ver%1000, c.Op, c.Enc)
	}
	return fmt.Sprintf("%s/1.%d/%s/%s", c.Msg, c.Ver, c.Op, c.Enc)
}

type Job struct {
	Mode  string   `json:"mode"` // seq | gated | free
	Procs [][]Call `json:"procs"`
	Order []int    `json:"order"`
	Reps  int      `json:"reps"`
	// Shared: every goroutine encodes the SAME message values (built once before the goroutines start): encoding reads its input
	Shared bool `json:"shared"`
}

// sharedMsgs: the message values shared by all goroutines of a job with Shared set (read-only after TestChild has filled it)
var sharedMsgs map[string]any

func msgFor(kind string, v int) any {
	if m, ok := sharedMsgs[fmt.Sprintf("%s/%d", kind, v)]; ok {
		return m
	}
	return buildMsg(kind, v)
}

type Result struct {
	Proc   int    `json:"proc"`
	Idx    int    `json:"idx"`
	Key    string `json:"key"`
	Digest string `json:"digest"`
	Doc    string `json:"doc,omitempty"`
	Err    string `json:"err,omitempty"`
}

var MsgKinds = []string{"ReqGet", "ReqLocate", "ReqCreate", "RespGet", "RespQuery", "RespLocate"}

// ver: 0..4 are KMIP 1.0 .. 1.4; values from 1000 on encode other (major, minor) pairs as (major+1)*1000 + minor - versions a
// peer may announce although no KMIP release carries them
func ver(i int) kmip.ProtocolVersion {
	if i >= 1000 {
		return kmip.ProtocolVersion{ProtocolVersionMajor: int32(i/1000 - 1), ProtocolVersionMinor: int32(i % 1000)}
	}
	return kmip.ProtocolVersion{ProtocolVersionMajor: 1, ProtocolVersionMinor: int32(i)}
}

var ts = time.Unix(1700000000, 0)

func ptr[T any](v T) *T { return &v }

// messages with members of every introduction version populated, so that the version in force shows in the bytes
func buildMsg(kind string, v int) any {
	rh := kmip.RequestHeader{ProtocolVersion: ver(v), ClientCorrelationValue: "corr", AttestationCapableIndicator: ptr(true), BatchCount: 1,
		AttestationType: []kmip.AttestationType{kmip.AttestationTypeTPMQuote}}
	sh := kmip.ResponseHeader{ProtocolVersion: ver(v), TimeStamp: ts, ClientCorrelationValue: "corr", ServerCorrelationValue: "srv", BatchCount: 1}
	attrs := []kmip.Attribute{{AttributeName: kmip.AttributeNameState, AttributeValue: kmip.StateActive},
		{AttributeName: kmip.AttributeNameCryptographicParameters, AttributeValue: kmip.CryptographicParameters{BlockCipherMode: kmip.BlockCipherModeGCM,
			TagLength: 16, RandomIV: ptr(true), SaltLength: ptr(int32(8)), MaskGenerator: kmip.MaskGeneratorMGF1}}}
	switch kind {
	case "ReqGet":
		return &kmip.RequestMessage{Header: rh, BatchItem: []kmip.RequestBatchItem{{Operation: kmip.OperationGet,
			RequestPayload: &payloads.GetRequestPayload{UniqueIdentifier: "id", KeyWrapType: kmip.KeyWrapType(1)}}}}
	case "ReqLocate":
		return &kmip.RequestMessage{Header: rh, BatchItem: []kmip.RequestBatchItem{{Operation: kmip.OperationLocate,
			RequestPayload: &payloads.LocateRequestPayload{MaximumItems: 5, OffsetItems: 2, ObjectGroupMember: kmip.ObjectGroupMember(1), Attribute: attrs}}}}
	case "ReqCreate":
		return &kmip.RequestMessage{Header: rh, BatchItem: []kmip.RequestBatchItem{{Operation: kmip.OperationCreate,
			RequestPayload: &payloads.CreateRequestPayload{ObjectType: kmip.ObjectTypeSymmetricKey, TemplateAttribute: kmip.TemplateAttribute{Attribute: attrs}}}}}
	case "RespGet":
		return &kmip.ResponseMessage{Header: sh, BatchItem: []kmip.ResponseBatchItem{{Operation: kmip.OperationGet,
			ResponsePayload: &payloads.GetResponsePayload{ObjectType: kmip.ObjectTypeSymmetricKey, UniqueIdentifier: "id",
				Object: &kmip.SymmetricKey{KeyBlock: kmip.KeyBlock{KeyFormatType: kmip.KeyFormatTypeRaw,
					KeyValue:               &kmip.KeyValue{Plain: &kmip.PlainKeyValue{KeyMaterial: kmip.KeyMaterial{Bytes: &[]byte{1, 2, 3, 4, 5, 6, 7, 8}}, Attribute: attrs}},
					CryptographicAlgorithm: kmip.CryptographicAlgorithmAES, CryptographicLength: 64}}}}}}
	case "RespGetBig":
		// big integers of both signs, as members of a structure and as the value of a custom attribute
		neg := new(big.Int).Neg(new(big.Int).Lsh(big.NewInt(0x1234567), 70))
		return &kmip.ResponseMessage{Header: sh, BatchItem: []kmip.ResponseBatchItem{{Operation: kmip.OperationGet,
			ResponsePayload: &payloads.GetResponsePayload{ObjectType: kmip.ObjectTypePublicKey, UniqueIdentifier: "id",
				Object: &kmip.PublicKey{KeyBlock: kmip.KeyBlock{KeyFormatType: kmip.KeyFormatTypeTransparentRSAPublicKey,
					KeyValue: &kmip.KeyValue{Plain: &kmip.PlainKeyValue{KeyMaterial: kmip.KeyMaterial{TransparentRSAPublicKey: &kmip.TransparentRSAPublicKey{
						Modulus: *new(big.Int).Neg(new(big.Int).Lsh(big.NewInt(0x7654321), 90)), PublicExponent: *big.NewInt(-65537)}},
						Attribute: []kmip.Attribute{{AttributeName: "x-big", AttributeValue: neg}, {AttributeName: "x-big2", AttributeValue: big.NewInt(-1)}}}},
					CryptographicAlgorithm: kmip.CryptographicAlgorithmRSA, CryptographicLength: 2048}}}}}}
	case "RespGetCarved":
		// byte strings carved out of one buffer, as an application that reads an identifier and a key from one record has them: the
		// item's id is buf[5:10], the key material buf[0:5] - neighbours in memory, and the key is written after the id. Encoding reads
		// its input: neither value is any different after the call
		buf := []byte{0xC0, 0xC1, 0xC2, 0xC3, 0xC4, 0xD0, 0xD1, 0xD2, 0xD3, 0xD4, 0xE0, 0xE1, 0xE2, 0xE3, 0xE4, 0xE5, 0xF0, 0xF1, 0xF2, 0xF3, 0xF4, 0xF5, 0xF6, 0xF7}
		key := buf[0:5]
		return &kmip.ResponseMessage{Header: sh, BatchItem: []kmip.ResponseBatchItem{{Operation: kmip.OperationGet, UniqueBatchItemID: buf[5:10],
			ResponsePayload: &payloads.GetResponsePayload{ObjectType: kmip.ObjectTypeSecretData, UniqueIdentifier: "id",
				Object: &kmip.SecretData{SecretDataType: kmip.SecretDataTypePassword, KeyBlock: kmip.KeyBlock{KeyFormatType: kmip.KeyFormatTypeOpaque,
					KeyValue: &kmip.KeyValue{Plain: &kmip.PlainKeyValue{KeyMaterial: kmip.KeyMaterial{Bytes: &key}}}}}}}}}
	case "BareParams":
		// a bare value with members of several introduction versions, written without a message header: every member is written,
		// whatever was written through this encoder before it was cleared
		return &kmip.CryptographicParameters{BlockCipherMode: kmip.BlockCipherModeGCM, TagLength: 16, RandomIV: ptr(true), SaltLength: ptr(int32(8)),
			MaskGenerator: kmip.MaskGeneratorMGF1, IVLength: 12, FixedFieldLength: 4}
	case "RespGetCustom":
		// custom and unknown attributes whose values depend on v: decoded by many goroutines at once, each gets its own values
		return &kmip.ResponseMessage{Header: sh, BatchItem: []kmip.ResponseBatchItem{{Operation: kmip.OperationGetAttributes,
			ResponsePayload: &payloads.GetAttributesResponsePayload{UniqueIdentifier: "id", Attribute: []kmip.Attribute{
				{AttributeName: "x-serial", AttributeValue: int32(1000 + v)}, {AttributeName: "y-label", AttributeValue: fmt.Sprintf("label-%d", v)},
				{AttributeName: "Vendor Thing", AttributeValue: int64(77000 + v)}, {AttributeName: kmip.AttributeNameCryptographicLength, AttributeValue: int32(128 + v)}}}}}}
	case "RespGetSecret":
		// the same payload structure as RespGet carrying another concrete object type: plans are per structure, the value varies
		return &kmip.ResponseMessage{Header: sh, BatchItem: []kmip.ResponseBatchItem{{Operation: kmip.OperationGet,
			ResponsePayload: &payloads.GetResponsePayload{ObjectType: kmip.ObjectTypeSecretData, UniqueIdentifier: "id",
				Object: &kmip.SecretData{SecretDataType: kmip.SecretDataTypePassword, KeyBlock: kmip.KeyBlock{KeyFormatType: kmip.KeyFormatTypeOpaque,
					KeyValue: &kmip.KeyValue{Plain: &kmip.PlainKeyValue{KeyMaterial: kmip.KeyMaterial{Bytes: &[]byte{9, 8, 7}}}}}}}}}}
	case "RespGetOpaque":
		return &kmip.ResponseMessage{Header: sh, BatchItem: []kmip.ResponseBatchItem{{Operation: kmip.OperationGet,
			ResponsePayload: &payloads.GetResponsePayload{ObjectType: kmip.ObjectTypeOpaqueObject, UniqueIdentifier: "id",
				Object: &kmip.OpaqueObject{OpaqueDataType: 1, OpaqueDataValue: []byte{1, 2, 3, 4}}}}}}
	case "ReqRegisterKey":
		return &kmip.RequestMessage{Header: rh, BatchItem: []kmip.RequestBatchItem{{Operation: kmip.OperationRegister,
			RequestPayload: &payloads.RegisterRequestPayload{ObjectType: kmip.ObjectTypeSymmetricKey, TemplateAttribute: kmip.TemplateAttribute{Attribute: attrs},
				Object: &kmip.SymmetricKey{KeyBlock: kmip.KeyBlock{KeyFormatType: kmip.KeyFormatTypeRaw, KeyValue: &kmip.KeyValue{Plain: &kmip.PlainKeyValue{KeyMaterial: kmip.KeyMaterial{Bytes: &[]byte{1, 2, 3, 4, 5, 6, 7, 8}}}},
					CryptographicAlgorithm: kmip.CryptographicAlgorithmAES, CryptographicLength: 64}}}}}}
	case "ReqRegisterCert":
		return &kmip.RequestMessage{Header: rh, BatchItem: []kmip.RequestBatchItem{{Operation: kmip.OperationRegister,
			RequestPayload: &payloads.RegisterRequestPayload{ObjectType: kmip.ObjectTypeCertificate, TemplateAttribute: kmip.TemplateAttribute{Attribute: attrs},
				Object: &kmip.Certificate{CertificateType: kmip.CertificateTypeX_509, CertificateValue: []byte{0x30, 0x03, 0x02, 0x01, 0x01}}}}}}
	case "RespQuery":
		return &kmip.ResponseMessage{Header: sh, BatchItem: []kmip.ResponseBatchItem{{Operation: kmip.OperationQuery,
			ResponsePayload: &payloads.QueryResponsePayload{Operations: []kmip.Operation{kmip.OperationGet}, VendorIdentification: "v",
				ExtensionInformation: []kmip.ExtensionInformation{{ExtensionName: "x"}}, AttestationType: []kmip.AttestationType{kmip.AttestationTypeTPMQuote},
				CapabilityInformation: []kmip.CapabilityInformation{{StreamingCapability: ptr(true), BatchUndoCapability: ptr(false)}}}}}}
	case "Poison":
		// an encoding that panics in the middle of a nested structure (negative interval); the caller recovers
		return &kmip.ResponseMessage{Header: sh, BatchItem: []kmip.ResponseBatchItem{{Operation: kmip.OperationObtainLease,
			ResponsePayload: &payloads.ObtainLeaseResponsePayload{UniqueIdentifier: "id", LeaseTime: -time.Second}}}}
	case "RespLocate":
		return &kmip.ResponseMessage{Header: sh, BatchItem: []kmip.ResponseBatchItem{{Operation: kmip.OperationLocate,
			ResponsePayload: &payloads.LocateResponsePayload{LocatedItems: ptr(int32(2)), UniqueIdentifier: []string{"a", "b"}}}}}
	}
	panic("unknown message kind " + kind)
}

func newTarget(kind string) any {
	if kind == "BareParams" {
		return new(kmip.CryptographicParameters)
	}
	if strings.HasPrefix(kind, "Req") {
		return new(kmip.RequestMessage)
	}
	return new(kmip.ResponseMessage)
}

func newEncoder(enc string) ttlv.Encoder {
	switch enc {
	case "xml":
		return ttlv.NewXMLEncoder()
	case "json":
		return ttlv.NewJSONEncoder()
	}
	return ttlv.NewTTLVEncoder()
}

func unmarshal(enc string, doc []byte, target any) error {
	switch enc {
	case "xml":
		return ttlv.UnmarshalXML(doc, target)
	case "json":
		return ttlv.UnmarshalJSON(doc, target)
	}
	return ttlv.UnmarshalTTLV(doc, target)
}

// exec one call; encoders: one reused (after Clear) per (goroutine, encoding) when Reuse, else fresh
var clears int

func execCall(c Call, reused map[string]*ttlv.Encoder) (digest string, doc []byte, err error) {
	defer func() {
		if r := recover(); r != nil {
			err = fmt.Errorf("panic: %s", vh.PanicSig(r))
		}
	}()
	switch c.Op {
	case "enc":
		var e ttlv.Encoder
		if c.Reuse {
			if pe := reused[c.Enc]; pe != nil {
				if !c.NoClear {
					// an Encoder is a small value that is copied around: Clear through any copy clears them all (every second time
					// it is called through a copy, the message is then written through the original)
					clears++
					if clears%2 == 1 {
						cp := *pe
						cp.Clear()
					} else {
						pe.Clear()
					}
				}
				e = *pe
			} else {
				e = newEncoder(c.Enc)
				reused[c.Enc] = &e
			}
		} else {
			e = newEncoder(c.Enc)
		}
		off := 0
		if c.Reuse && c.NoClear {
			off = len(e.Bytes())
		}
		e.Any(msgFor(c.Msg, c.Ver))
		doc = append([]byte(nil), e.Bytes()[off:]...)
		h := sha256.Sum256(doc)
		return hex.EncodeToString(h[:8]), doc, nil
	case "dec":
		in, _ := hex.DecodeString(c.Input)
		target := newTarget(c.Msg)
		if err := unmarshal(c.Enc, in, target); err != nil {
			return "", nil, err
		}
		// the decoded value, observed through a canonical dump (not through the binary encoder)
		h := sha256.Sum256([]byte(fmt.Sprintf("%#v", dump(reflect.ValueOf(target)))))
		return hex.EncodeToString(h[:8]), nil, nil
	}
	return "", nil, fmt.Errorf("bad op")
}

// dump renders a decoded value without pointers' addresses
func dump(v reflect.Value) any {
	switch v.Kind() {
	case reflect.Pointer, reflect.Interface:
		if v.IsNil() {
			return nil
		}
		return dump(v.Elem())
	case reflect.Struct:
		if t, ok := v.Interface().(time.Time); ok {
			return t.Unix()
		}
		m := []any{v.Type().String()}
		for i := 0; i < v.NumField(); i++ {
			if v.Type().Field(i).IsExported() {
				m = append(m, dump(v.Field(i)))
			}
		}
		return m
	case reflect.Slice:
		if v.Type().Elem().Kind() == reflect.Uint8 {
			return hex.EncodeToString(v.Bytes())
		}
		var a []any
		for i := 0; i < v.Len(); i++ {
			a = append(a, dump(v.Index(i)))
		}
		return a
	}
	return fmt.Sprint(v.Interface())
}

// ---- child ------------------------------------------------------------------------------------------------------

func TestChild(t *testing.T) {
	jobPath := os.Getenv("VERIF_CODEC_JOB")
	if jobPath == "" {
		t.Skip("not a child")
	}
	b, err := os.ReadFile(jobPath)
	if err != nil {
		t.Fatal(err)
	}
	var job Job
	if err := json.Unmarshal(b, &job); err != nil {
		t.Fatal(err)
	}
	if job.Shared {
		sharedMsgs = map[string]any{}
		for _, calls := range job.Procs {
			for _, c := range calls {
				if k := fmt.Sprintf("%s/%d", c.Msg, c.Ver); c.Op == "enc" && sharedMsgs[k] == nil {
					sharedMsgs[k] = buildMsg(c.Msg, c.Ver)
				}
			}
		}
	}
	var results []Result
	var events []map[string]any
	var mu sync.Mutex
	runProc := func(p int, calls []Call) {
		reused := map[string]*ttlv.Encoder{}
		for i, c := range calls {
			d, doc, err := execCall(c, reused)
			r := Result{Proc: p, Idx: i, Key: c.Key(), Digest: d, Doc: hex.EncodeToString(doc)}
			if err != nil {
				r.Err = err.Error()
			}
			mu.Lock()
			results = append(results, r)
			events = append(events, map[string]any{"ev": "call", "p": fmt.Sprint(p), "key": c.Key(), "digest": d, "err": r.Err})
			mu.Unlock()
		}
	}
	switch job.Mode {
	case "seq":
		for p, calls := range job.Procs {
			runProc(p+1, calls)
		}
	case "free":
		reps := job.Reps
		if reps == 0 {
			reps = 1
		}
		var wg sync.WaitGroup
		for r := 0; r < reps; r++ {
			for p, calls := range job.Procs {
				wg.Add(1)
				go func() { defer wg.Done(); runProc(p+1, calls) }()
			}
		}
		wg.Wait()
	case "gated":
		synctest.Test(t, func(t *testing.T) {
			ctl := sched.New()
			roles := map[uint64]string{}
			var rmu sync.Mutex
			ctl.RoleFor = func(gid uint64, point string, obj any) string {
				rmu.Lock()
				defer rmu.Unlock()
				return roles[gid]
			}
			// a miss is recorded when the goroutine reaches the gate (its Load has just failed); a store when it is
			// released from the store gate (the Store follows immediately)
			ctl.OnArrive = func(g *sched.Gate) {
				if strings.HasSuffix(g.Point, ".miss") {
					mu.Lock()
					events = append(events, map[string]any{"ev": "miss", "p": g.Role, "cache": strings.Split(g.Point, ".")[0], "t": fmt.Sprint(g.Obj)})
					mu.Unlock()
				}
			}
			ttlv.VerifHook = ctl.Hook
			var wg sync.WaitGroup
			for p, calls := range job.Procs {
				wg.Add(1)
				go func() {
					defer wg.Done()
					rmu.Lock()
					roles[sched.Gid()] = fmt.Sprint(p + 1)
					rmu.Unlock()
					runProc(p+1, calls)
				}()
			}
			release := func(g *sched.Gate) {
				if strings.HasSuffix(g.Point, ".store") {
					mu.Lock()
					events = append(events, map[string]any{"ev": "store", "p": g.Role, "cache": strings.Split(g.Point, ".")[0], "t": fmt.Sprint(g.Obj)})
					mu.Unlock()
				}
				ctl.Release(g)
				synctest.Wait()
			}
			synctest.Wait()
			for _, p := range job.Order {
				if g := ctl.Find(fmt.Sprint(p)); g != nil {
					release(g)
				}
			}
			for guard := 0; guard < 100000; guard++ {
				parked := ctl.Parked()
				if len(parked) == 0 {
					break
				}
				release(parked[0])
			}
			wg.Wait()
			ttlv.VerifHook = nil
		})
	}
	out, _ := json.Marshal(map[string]any{"results": results, "events": events})
	if err := os.WriteFile(os.Getenv("VERIF_CODEC_OUT"), out, 0o644); err != nil {
		t.Fatal(err)
	}
}

// ---- parent -----------------------------------------------------------------------------------------------------

type childOut struct {
	Results []Result         `json:"results"`
	Events  []map[string]any `json:"events"`
}

func spawn(dir string, n int, job Job) (childOut, string) {
	jp := fmt.Sprintf("%s/job%d.json", dir, n)
	op := fmt.Sprintf("%s/out%d.json", dir, n)
	b, _ := json.Marshal(job)
	os.WriteFile(jp, b, 0o644)
	cmd := exec.Command(os.Args[0], "-test.run", "^TestChild$", "-test.count=1")
	cmd.Env = append(os.Environ(), "VERIF_CODEC_JOB="+jp, "VERIF_CODEC_OUT="+op)
	outb, err := cmd.CombinedOutput()
	var co childOut
	if rb, rerr := os.ReadFile(op); rerr == nil {
		json.Unmarshal(rb, &co)
	}
	os.Remove(jp)
	os.Remove(op)
	msg := ""
	if err != nil || strings.Contains(string(outb), "DATA RACE") || strings.Contains(string(outb), "panic:") || strings.Contains(string(outb), "fatal error") {
		msg = string(outb)
		if len(msg) > 3000 {
			msg = msg[len(msg)-3000:]
		}
	}
	return co, msg
}

type ParentJob struct {
	ID  string `json:"id"`
	Job Job    `json:"job"`
}

// TestParent: VERIF_JOBS = ndjson of {id, job}; reference digests are computed first (one child per distinct call),
// decode inputs are filled in from the reference documents; every child's results are written to VERIF_OUT.
func TestParent(t *testing.T) {
	jobsPath := vh.Env("VERIF_JOBS", "")
	if jobsPath == "" {
		t.Skip("VERIF_JOBS not set")
	}
	jobs, err := vh.ReadNDJSON[ParentJob](jobsPath)
	if err != nil {
		t.Fatal(err)
	}
	out, err := vh.NewWriter(vh.Env("VERIF_OUT", "codec_results.ndjson"))
	if err != nil {
		t.Fatal(err)
	}
	defer out.Close()
	dir := t.TempDir()
	// 1. reference: every distinct call alone in a fresh process
	ref := map[string]Result{}
	n := 0
	var mu sync.Mutex
	var wg sync.WaitGroup
	sem := make(chan struct{}, 12)
	// every (message kind, version, encoding) that occurs in the jobs, and the six base kinds at 1.0 .. 1.4
	type triple struct {
		kind string
		v    int
		enc  string
	}
	seen := map[triple]bool{}
	var triples []triple
	addT := func(t triple) {
		if !seen[t] && t.kind != "Poison" {
			seen[t] = true
			triples = append(triples, t)
		}
	}
	for _, kind := range MsgKinds {
		for v := 0; v <= 4; v++ {
			for _, enc := range []string{"ttlv", "xml", "json"} {
				addT(triple{kind, v, enc})
			}
		}
	}
	for _, pj := range jobs {
		for _, p := range pj.Job.Procs {
			for _, c := range p {
				addT(triple{c.Msg, c.Ver, c.Enc})
			}
		}
	}
	for _, tr := range triples {
		{
			{
				kind, v, enc := tr.kind, tr.v, tr.enc
				wg.Add(1)
				n++
				go func(n int) {
					defer wg.Done()
					sem <- struct{}{}
					defer func() { <-sem }()
					c := Call{Msg: kind, Ver: v, Op: "enc", Enc: enc}
					co, msg := spawn(dir, n, Job{Mode: "seq", Procs: [][]Call{{c}}})
					if msg != "" || len(co.Results) != 1 || co.Results[0].Err != "" {
						mu.Lock()
						ref[c.Key()] = Result{Err: "reference child failed: " + msg + fmt.Sprint(co.Results)}
						mu.Unlock()
						return
					}
					r := co.Results[0]
					d := Call{Msg: kind, Ver: v, Op: "dec", Enc: enc, Input: r.Doc}
					co2, msg2 := spawn(dir, n+100000, Job{Mode: "seq", Procs: [][]Call{{d}}})
					mu.Lock()
					ref[c.Key()] = r
					if msg2 != "" || len(co2.Results) != 1 || co2.Results[0].Err != "" {
						ref[d.Key()] = Result{Err: "reference child failed: " + msg2 + fmt.Sprint(co2.Results)}
					} else {
						ref[d.Key()] = co2.Results[0]
					}
					mu.Unlock()
				}(n)
			}
		}
	}
	wg.Wait()
	refOut := map[string]string{}
	for k, r := range ref {
		if r.Err != "" {
			out.Emit(map[string]any{"id": "reference", "problem": "reference-failed", "key": k, "detail": r.Err})
			continue
		}
		refOut[k] = r.Digest
	}
	out.Emit(map[string]any{"reference": refOut})
	// 2. the jobs
	for i, pj := range jobs {
		for p := range pj.Job.Procs {
			for k := range pj.Job.Procs[p] {
				c := &pj.Job.Procs[p][k]
				if c.Op == "dec" {
					enc := *c
					enc.Op = "enc"
					c.Input = ref[enc.Key()].Doc
				}
			}
		}
		wg.Add(1)
		go func() {
			defer wg.Done()
			sem <- struct{}{}
			defer func() { <-sem }()
			co, msg := spawn(dir, 200000+i, pj.Job)
			var probs []map[string]any
			if msg != "" {
				kind := "child-crashed"
				if strings.Contains(msg, "DATA RACE") {
					kind = "data-race"
				}
				probs = append(probs, map[string]any{"kind": kind, "detail": msg})
			}
			for _, r := range co.Results {
				if strings.HasPrefix(r.Key, "Poison/") {
					continue // a call that is meant to fail in the middle of a message
				}
				if r.Err != "" {
					probs = append(probs, map[string]any{"kind": "call-failed", "key": r.Key, "detail": r.Err})
				} else if want, ok := refOut[r.Key]; ok && want != r.Digest {
					probs = append(probs, map[string]any{"kind": "result-differs-from-fresh-process", "key": r.Key, "proc": r.Proc, "idx": r.Idx})
				}
			}
			expected := 0
			for _, p := range pj.Job.Procs {
				expected += len(p)
			}
			if pj.Job.Mode == "free" && pj.Job.Reps > 0 {
				expected *= pj.Job.Reps
			}
			if msg == "" && len(co.Results) != expected {
				probs = append(probs, map[string]any{"kind": "calls-missing", "detail": fmt.Sprintf("%d of %d", len(co.Results), expected)})
			}
			mu.Lock()
			out.Emit(map[string]any{"id": pj.ID, "mode": pj.Job.Mode, "calls": len(co.Results), "problems": probs, "events": co.Events})
			mu.Unlock()
		}()
	}
	wg.Wait()
	out.Emit(map[string]any{"summary": true, "jobs": len(jobs)})
}
