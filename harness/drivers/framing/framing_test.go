// Driver for C07: ttlv.Stream.Recv over an instrumented transport that plays seeded chunk plans
// (1-byte reads, reads spanning message boundaries, everything-at-once, data together with EOF),
// every truncation offset and announced lengths around the configured maximum. Every Read call and
// every Recv result is recorded; TLC validates the record against spec/TraceFraming.tla.
package framing

import (
	"bytes"
	"encoding/binary"
	"errors"
	"io"
	"math/rand"
	"os"
	"runtime"
	"slices"
	"strings"
	"testing"
	"time"

	"github.com/ovh/kmip-go/ttlv"

	"verifharness/vh"
)

func TestMain(m *testing.M) { vh.Quiet(); os.Exit(m.Run()) }

const tagBase = 0x540000

// message k with announced total length total (multiple of 8, >= 8): a Byte String item whose tag carries k
func message(k, total int, fill byte) []byte { return messageOf(k, total, fill, false) }

// malformed: the item says it is a four-byte type (Integer, Enumeration, Interval) and announces another length: its extent on the
// wire is still what the header announces
func messageOf(k, total int, fill byte, malformed bool) []byte {
	if !malformed && total >= 8200 && total <= 4<<20 {
		// large messages are written by the library's own encoder, as a peer built on this library sends them (Stream.Send): a
		// structure holding one byte string, total bytes on the wire
		data := make([]byte, total-16)
		for i := range data {
			data[i] = fill
		}
		var buf bytes.Buffer
		st := ttlv.NewStream(nopConn{&buf}, -1)
		if err := st.Send(ttlv.Value{Tag: tagBase + k, Value: ttlv.Struct{{Tag: tagBase, Value: data}}}); err == nil {
			return buf.Bytes() // (if its length is not `total`, the receiver's behaviour will not match the stream's parameters)
		}
	}
	b := make([]byte, total)
	tag := tagBase + k
	b[0], b[1], b[2] = byte(tag>>16), byte(tag>>8), byte(tag)
	b[3] = 0x08 // Byte String
	vlen := total - 8
	if total >= 24 && k%2 == 1 {
		vlen -= 3 // exercise padding: value length not a multiple of 8
	}
	binary.BigEndian.PutUint32(b[4:8], uint32(vlen))
	for i := 8; i < 8+vlen; i++ {
		b[i] = fill
	}
	if malformed {
		b[3] = []byte{0x02, 0x05, 0x0A}[k%3]
	}
	return b
}

type nopConn struct{ w *bytes.Buffer }

func (c nopConn) Read(p []byte) (int, error)  { return 0, io.EOF }
func (c nopConn) Write(p []byte) (int, error) { return c.w.Write(p) }
func (c nopConn) Close() error                { return nil }

type plan struct {
	r      *rand.Rand
	mode   int // 0 random mix, 1 always 1 byte, 2 everything requested, 3 fixed size, 4 all available (coalesced)
	fixed  int
	eofMix bool
}

func (p *plan) next(limit int) int {
	n := limit
	switch p.mode {
	case 1:
		n = 1
	case 2:
		n = limit
	case 3:
		n = p.fixed
	default:
		switch p.r.Intn(8) {
		case 0:
			n = 1
		case 1:
			n = 2
		case 2:
			n = 7
		case 3:
			n = 8
		case 4:
			n = 9
		case 5:
			n = limit
		default:
			n = 1 + p.r.Intn(limit)
		}
	}
	if n > limit {
		n = limit
	}
	if n < 1 {
		n = 1
	}
	return n
}

// conn is the transport process of Framing.tla
type conn struct {
	data  []byte
	pos   int
	plan  *plan
	w     *vh.Writer
	eofed bool
}

func (c *conn) Read(p []byte) (int, error) {
	avail := len(c.data) - c.pos
	if avail == 0 || c.eofed {
		c.w.Emit(map[string]any{"ev": "read", "req": len(p), "n": 0, "eof": true})
		return 0, io.EOF
	}
	if len(p) == 0 {
		c.w.Emit(map[string]any{"ev": "read", "req": 0, "n": 0, "eof": false})
		return 0, nil
	}
	limit := len(p)
	if avail < limit {
		limit = avail
	}
	n := c.plan.next(limit)
	copy(p, c.data[c.pos:c.pos+n])
	c.pos += n
	with := false
	if c.pos == len(c.data) && c.plan.eofMix && c.plan.r.Intn(2) == 0 {
		with = true
		c.eofed = true
	}
	c.w.Emit(map[string]any{"ev": "read", "req": len(p), "n": n, "eof": with})
	if with {
		return n, io.EOF
	}
	return n, nil
}
func (c *conn) Write(p []byte) (int, error) { return len(p), nil }
func (c *conn) Close() error                { return nil }

type streamSpec struct {
	A     []int
	Trunc int
	Max   int
	Bad   []int // indices (from 1) of the malformed messages
}

// runStream with a watchdog: Recv cannot be interrupted, so a stream that does not finish within 20 s of wall time (they take
// milliseconds) ends the process with exit code 3 after a `hang` event has been written; the check reports it with the stream.
func runStream(w *vh.Writer, s streamSpec, p *plan) {
	done := make(chan struct{})
	go func() {
		defer close(done)
		runStream1(w, s, p)
	}()
	select {
	case <-done:
	case <-time.After(20 * time.Second):
		hw, err := vh.NewWriter(vh.Env("VERIF_TRACE", "") + ".hang")
		if err == nil {
			hw.Emit(map[string]any{"ev": "hang", "A": s.A, "trunc": s.Trunc, "max": s.Max, "bad": s.Bad, "mode": p.mode, "fixed": p.fixed})
			hw.Close()
		}
		os.Exit(3)
	}
}

func runStream1(w *vh.Writer, s streamSpec, p *plan) {
	var data []byte
	for k, a := range s.A {
		if a > 4<<20 { // huge announced length: header only (the bytes never arrive)
			m := message(k+1, 16, 0xAB)
			binary.BigEndian.PutUint32(m[4:8], uint32(a-8))
			data = append(data, m...)
			break
		}
		data = append(data, messageOf(k+1, a, byte(0xA0+k), slices.Contains(s.Bad, k+1))...)
	}
	total := 0
	for _, a := range s.A {
		total += a
	}
	if s.Trunc < len(data) {
		data = data[:s.Trunc]
	}
	A := s.A
	if A == nil {
		A = []int{}
	}
	badIdx := s.Bad
	if badIdx == nil {
		badIdx = []int{}
	}
	w.Emit(map[string]any{"ev": "reset", "A": A, "trunc": len(data), "max": s.Max, "bad": badIdx})
	frames := 0
	c := &conn{data: data, plan: p, w: w}
	maxArg := s.Max
	if maxArg == 0 {
		maxArg = -1
	}
	st := ttlv.NewStream(c, maxArg)
	for {
		w.Emit(map[string]any{"ev": "start"})
		var ms1, ms2 runtime.MemStats
		runtime.ReadMemStats(&ms1)
		var v ttlv.Value
		var err error
		var pan string
		func() {
			defer func() {
				if r := recover(); r != nil {
					pan = vh.PanicSig(r)
				}
			}()
			err = st.Recv(&v)
		}()
		runtime.ReadMemStats(&ms2)
		alloc := ms2.TotalAlloc - ms1.TotalAlloc
		limit := uint64(512)
		if s.Max > 0 {
			limit = uint64(s.Max)
		}
		big := alloc > 2*limit+(256<<10)
		if pan != "" {
			w.Emit(map[string]any{"ev": "recv", "res": "panic", "sig": pan, "consumed": c.pos})
			return
		}
		if err != nil {
			kind := "other:" + err.Error()
			switch {
			case errors.Is(err, io.EOF) || errors.Is(err, io.ErrUnexpectedEOF):
				kind = "eof"
			case ttlv.IsErrEncoding(err) && strings.Contains(err.Error(), "too big"):
				kind = "toobig"
			case ttlv.IsErrEncoding(err) && frames < len(s.A):
				// a message that was received and could not be decoded: not a failure of the stream, the caller reads on
				frames++
				w.Emit(map[string]any{"ev": "recv", "res": "bad", "id": frames, "consumed": c.pos, "err": err.Error()})
				continue
			}
			w.Emit(map[string]any{"ev": "recv", "res": "err", "kind": kind, "consumed": c.pos, "big": big, "alloc": alloc})
			return
		}
		frames++
		w.Emit(map[string]any{"ev": "recv", "res": "msg", "id": v.Tag - tagBase, "consumed": c.pos})
	}
}

func TestTrace(t *testing.T) {
	path := vh.Env("VERIF_TRACE", "")
	if path == "" {
		t.Skip("VERIF_TRACE not set")
	}
	w, err := vh.NewWriter(path)
	if err != nil {
		t.Fatal(err)
	}
	defer w.Close()
	r := rand.New(rand.NewSource(vh.Seed()))
	thorough := vh.Env("VERIF_TIER", "quick") == "thorough"
	lens := []int{8, 16, 24}
	// (1) every sequence of <= 3 small messages x every truncation offset x limit {none, 16} x plan families
	var seqs [][]int
	seqs = append(seqs, []int{})
	for _, a := range lens {
		seqs = append(seqs, []int{a})
		for _, b := range lens {
			seqs = append(seqs, []int{a, b})
			for _, c := range lens {
				seqs = append(seqs, []int{a, b, c})
			}
		}
	}
	plans := func() []*plan {
		ps := []*plan{{r: r, mode: 1}, {r: r, mode: 2}, {r: r, mode: 0, eofMix: true}, {r: r, mode: 0, eofMix: true}, {r: r, mode: 2, eofMix: true}}
		for _, f := range []int{2, 3, 5, 7, 9, 11, 15, 17, 23, 25} {
			ps = append(ps, &plan{r: r, mode: 3, fixed: f, eofMix: f%2 == 1})
		}
		return ps
	}
	for _, A := range seqs {
		total := 0
		for _, a := range A {
			total += a
		}
		for tr := 0; tr <= total; tr++ {
			if !thorough && tr != total && tr%3 != int(vh.Seed())%3 && tr > 9 {
				continue
			}
			for _, mx := range []int{0, 16} {
				for _, p := range plans() {
					if !thorough && p.mode == 3 && r.Intn(3) != 0 {
						continue
					}
					runStream(w, streamSpec{A: A, Trunc: tr, Max: mx}, p)
					// the same with the first or the second message malformed (complete on the wire, not decodable)
					if p.mode != 3 || p.fixed%5 == 0 {
						for b := 1; b <= 2 && b <= len(A); b++ {
							runStream(w, streamSpec{A: A, Trunc: tr, Max: mx, Bad: []int{b}}, p)
						}
					}
				}
			}
		}
	}
	// (2) messages around the 512-byte initial buffer and around the limit, announced lengths vs. limit
	// the last four: messages that make the receiver's buffer grow more than once on one stream
	bigA := [][]int{{520}, {504, 16}, {512, 8}, {520, 520}, {1048576}, {1048584}, {8, 1048568, 8}, {1073741824}, {2147483640}, {4294967288},
		{16, 600, 40, 1000}, {3000, 104, 9000, 24}, {520, 1048576}, {1000, 2000, 4000, 8000, 16000}}
	for _, A := range bigA {
		total := 0
		for _, a := range A {
			total += a
		}
		for _, mx := range []int{0, 512, 1048576} {
			if A[0] > 4<<20 && mx == 0 {
				continue // unlimited receiver + gigabyte announcement: allowed to buffer, not replayed
			}
			for _, tr := range []int{total, total - 1, total - 8, 8, 9, 511, 512, 513} {
				if tr < 0 || tr > total {
					continue
				}
				for _, p := range []*plan{{r: r, mode: 2}, {r: r, mode: 0, eofMix: true}, {r: r, mode: 3, fixed: 65536}, {r: r, mode: 3, fixed: 509, eofMix: true}} {
					runStream(w, streamSpec{A: A, Trunc: tr, Max: mx}, p)
				}
			}
		}
	}
	// (3) long random streams
	nlong := 30
	if thorough {
		nlong = 400
	}
	for n := 0; n < nlong; n++ {
		k := 3 + r.Intn(20)
		var A []int
		total := 0
		for j := 0; j < k; j++ {
			a := 8 * (1 + r.Intn(90))
			A = append(A, a)
			total += a
		}
		tr := total
		if r.Intn(2) == 0 {
			tr = r.Intn(total + 1)
		}
		var bad []int
		for j := 1; j <= k; j++ {
			if r.Intn(4) == 0 {
				bad = append(bad, j)
			}
		}
		runStream(w, streamSpec{A: A, Trunc: tr, Max: []int{0, 0, 256, 720}[r.Intn(4)], Bad: bad}, &plan{r: r, mode: 0, eofMix: true})
	}
}
