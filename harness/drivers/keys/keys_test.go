// Driver for C14: every case enumerated by TLC from spec/KeyFormats.tla is replayed through the real
// code: the client's Register builders (key kind x requested format set x negotiated version), the
// registered object is compared with the specification's decision table, transported (binary / XML /
// JSON documents, or the real client/server connection with further traffic before extraction) and
// read back with the accessors of payloads.GetResponsePayload; the extracted key must equal the
// original.  Presence cases build objects lacking optional parts; accessors must fail, not panic.
package keys

import (
	"bytes"
	"context"
	"crypto"
	"crypto/ecdsa"
	"crypto/elliptic"
	"crypto/rand"
	"crypto/rsa"
	"crypto/x509"
	"encoding/hex"
	"encoding/json"
	"encoding/pem"
	"fmt"
	"math/big"
	mrand "math/rand"
	"net"
	"os"
	"os/exec"
	"regexp"
	"sort"
	"strings"
	"sync"
	"testing"
	"time"

	"github.com/ovh/kmip-go"
	"github.com/ovh/kmip-go/kmipclient"
	"github.com/ovh/kmip-go/kmipserver"
	"github.com/ovh/kmip-go/payloads"
	"github.com/ovh/kmip-go/ttlv"

	"verifharness/vh"
)

func TestMain(m *testing.M) { vh.Quiet(); os.Exit(m.Run()) }

type Case struct {
	Part    string   `json:"part"`
	Kind    string   `json:"kind"`
	Format  []string `json:"format"`
	Ver     int      `json:"ver"`
	Enc     string   `json:"enc"`
	Curve   string   `json:"curve"`
	ObjType string   `json:"objtype"`
	Kft     string   `json:"kft"`
	Obj     string   `json:"obj"`
	Missing string   `json:"missing"`
	Comps   []string `json:"comps"`
	Expect  string   `json:"expect"`
}

var versions = []kmip.ProtocolVersion{kmip.V1_0, kmip.V1_1, kmip.V1_2, kmip.V1_3, kmip.V1_4}

var fmtBits = map[string]kmipclient.KeyFormat{"PKCS1": kmipclient.PKCS1, "PKCS8": kmipclient.PKCS8, "X509": kmipclient.X509,
	"SEC1": kmipclient.SEC1, "RAW": kmipclient.RAW, "Transparent": kmipclient.Transparent}

var kftByName = map[string]kmip.KeyFormatType{
	"Raw": kmip.KeyFormatTypeRaw, "Opaque": kmip.KeyFormatTypeOpaque, "PKCS_1": kmip.KeyFormatTypePKCS_1, "PKCS_8": kmip.KeyFormatTypePKCS_8,
	"X_509": kmip.KeyFormatTypeX_509, "ECPrivateKey": kmip.KeyFormatTypeECPrivateKey, "TransparentSymmetricKey": kmip.KeyFormatTypeTransparentSymmetricKey,
	"TransparentRSAPrivateKey": kmip.KeyFormatTypeTransparentRSAPrivateKey, "TransparentRSAPublicKey": kmip.KeyFormatTypeTransparentRSAPublicKey,
	"TransparentECDSAPrivateKey": kmip.KeyFormatTypeTransparentECDSAPrivateKey, "TransparentECDSAPublicKey": kmip.KeyFormatTypeTransparentECDSAPublicKey,
	"TransparentECPrivateKey": kmip.KeyFormatTypeTransparentECPrivateKey, "TransparentECPublicKey": kmip.KeyFormatTypeTransparentECPublicKey,
}
var objTypeByName = map[string]kmip.ObjectType{"SymmetricKey": kmip.ObjectTypeSymmetricKey, "PrivateKey": kmip.ObjectTypePrivateKey, "PublicKey": kmip.ObjectTypePublicKey,
	"SecretData": kmip.ObjectTypeSecretData, "Certificate": kmip.ObjectTypeCertificate, "OpaqueObject": kmip.ObjectTypeOpaqueObject, "Template": kmip.ObjectTypeTemplate,
	"SplitKey": kmip.ObjectTypeSplitKey, "PGPKey": kmip.ObjectTypePGPKey}

// ---------------------------------------------------------------- key pool

type poolKey struct {
	Class string
	RSA   *rsa.PrivateKey
	EC    *ecdsa.PrivateKey
	Sym   []byte
}

func (k poolKey) describe() map[string]any {
	m := map[string]any{"class": k.Class}
	switch {
	case k.RSA != nil:
		m["n"], m["e"], m["d"] = k.RSA.N.Text(16), k.RSA.E, k.RSA.D.Text(16)
		m["p"], m["q"] = k.RSA.Primes[0].Text(16), k.RSA.Primes[1].Text(16)
	case k.EC != nil:
		m["curve"], m["d"] = k.EC.Curve.Params().Name, k.EC.D.Text(16)
	default:
		m["bytes"] = hex.EncodeToString(k.Sym)
	}
	return m
}

func curveByName(n string) elliptic.Curve {
	switch n {
	case "P-224":
		return elliptic.P224()
	case "P-256":
		return elliptic.P256()
	case "P-384":
		return elliptic.P384()
	}
	return elliptic.P521()
}

// byte-pattern class of the minimal big-endian representation of a number expected to fill size bytes
func patClass(v *big.Int, size int) string {
	b := v.Bytes()
	switch {
	case len(b) < size-1:
		return "short2"
	case len(b) < size:
		return "lead00"
	case b[0] >= 0x80:
		return "top80"
	}
	return "plain"
}

func ecFromScalar(c elliptic.Curve, d *big.Int) *ecdsa.PrivateKey {
	k := &ecdsa.PrivateKey{PublicKey: ecdsa.PublicKey{Curve: c}, D: d}
	k.X, k.Y = c.ScalarBaseMult(d.Bytes())
	return k
}

// ecPool: scalars and points covering the byte-pattern classes (scalar / X / Y with a leading zero byte, top bit set, tiny, n-1)
func ecPool(c elliptic.Curve, rnd *mrand.Rand, extra int) []poolKey {
	n := c.Params().N
	size := (c.Params().BitSize + 7) / 8
	var res []poolKey
	want := map[string]bool{}
	add := func(class string, d *big.Int) {
		if want[class] {
			return
		}
		want[class] = true
		res = append(res, poolKey{Class: class, EC: ecFromScalar(c, d)})
	}
	add("d=1", big.NewInt(1))
	add("d=n-1", new(big.Int).Sub(n, big.NewInt(1)))
	add("d=2^k", new(big.Int).Lsh(big.NewInt(1), uint(8*(size-1)-1))) // minimal encoding starts with 0x80 after sign handling
	// scalars that are exactly 64 / 56 bits long with the top bit set: as big integers they need a sign byte in every encoding, and they
	// sit right at the width of a machine word
	add("d=2^64-1", new(big.Int).SetUint64(0xFFFFFFFFFFFFFFFF))
	add("d=2^63+5", new(big.Int).SetUint64(0x8000000000000005))
	add("d=2^56-3", new(big.Int).SetUint64(0x00FFFFFFFFFFFFFD))
	randScalar := func() *big.Int {
		for {
			d := new(big.Int).Rand(rnd, n)
			if d.Sign() > 0 {
				return d
			}
		}
	}
	for tries := 0; tries < 6000 && len(want) < 6+8; tries++ {
		d := randScalar()
		if tries%3 == 0 { // force scalars with leading zero bytes
			d.Rsh(d, uint(8*(1+tries%2)))
			if d.Sign() == 0 {
				continue
			}
		}
		k := ecFromScalar(c, d)
		dc, xc, yc := patClass(d, size), patClass(k.X, size), patClass(k.Y, size)
		switch {
		case dc == "lead00" || dc == "short2":
			add("d:"+dc, d)
		case xc == "lead00" || xc == "short2":
			add("x:lead00", d)
		case yc == "lead00" || yc == "short2":
			add("y:lead00", d)
		case dc == "top80":
			add("d:top80", d)
		case xc == "top80" && yc == "top80":
			add("xy:top80", d)
		default:
			add("plain", d)
		}
	}
	for i := 0; i < extra; i++ {
		res = append(res, poolKey{Class: "random", EC: ecFromScalar(c, randScalar())})
	}
	return res
}

// rsaPool: a few prime pairs (crypto/rand), and for each pair several public exponents chosen so that the
// private components (D, Dp, Dq) show the byte-pattern classes
func rsaPool(rnd *mrand.Rand, pairs, perPair int) []poolKey {
	var res []poolKey
	exps := []int64{3, 5, 17, 257, 65537, 65539, 7, 11, 13, 19, 23, 29, 31, 37, 41, 43, 47, 53, 59, 61, 67, 71, 73, 79, 83, 89, 97, 101, 103, 107, 109, 113, 127, 131, 137, 139, 149, 151, 157, 163, 167, 173}
	for pi := 0; pi < pairs; pi++ {
		base, err := rsa.GenerateKey(rand.Reader, 1024)
		if err != nil {
			panic(err)
		}
		p, q := base.Primes[0], base.Primes[1]
		phi := new(big.Int).Mul(new(big.Int).Sub(p, big.NewInt(1)), new(big.Int).Sub(q, big.NewInt(1)))
		seen := map[string]bool{}
		cnt := 0
		for _, e := range exps {
			E := big.NewInt(e)
			D := new(big.Int).ModInverse(E, phi)
			if D == nil {
				continue
			}
			k := &rsa.PrivateKey{PublicKey: rsa.PublicKey{N: new(big.Int).Set(base.N), E: int(e)}, D: D, Primes: []*big.Int{new(big.Int).Set(p), new(big.Int).Set(q)}}
			k.Precompute()
			if k.Validate() != nil {
				continue
			}
			class := fmt.Sprintf("e=%d d:%s dp:%s dq:%s qinv:%s p:%s q:%s", e, patClass(D, 128), patClass(k.Precomputed.Dp, 64), patClass(k.Precomputed.Dq, 64),
				patClass(k.Precomputed.Qinv, 64), patClass(p, 64), patClass(q, 64))
			key := strings.Join(strings.Fields(class)[1:], " ")
			if seen[key] && cnt >= 2 {
				continue
			}
			seen[key] = true
			res = append(res, poolKey{Class: class, RSA: k})
			if cnt == 0 {
				// the same key as an application may hold it: assembled from N, E, D and the primes, never passed through Precompute
				bare := &rsa.PrivateKey{PublicKey: rsa.PublicKey{N: new(big.Int).Set(k.N), E: k.E}, D: new(big.Int).Set(k.D),
					Primes: []*big.Int{new(big.Int).Set(k.Primes[0]), new(big.Int).Set(k.Primes[1])}}
				res = append(res, poolKey{Class: "no-precompute " + class, RSA: bare})
			}
			cnt++
			if cnt >= perPair {
				break
			}
		}
	}
	// a modulus whose bit length is not a multiple of 8 (and of a size nobody rounds to)
	for _, bits := range []int{1030, 1031} {
		k, err := rsa.GenerateKey(rand.Reader, bits)
		if err != nil {
			panic(err)
		}
		res = append(res, poolKey{Class: fmt.Sprintf("n-bits=%d", k.N.BitLen()), RSA: k})
	}
	return res
}

func symPool(rnd *mrand.Rand, extra int) []poolKey {
	mk := func(n int, first byte, fill func(i int) byte) []byte {
		b := make([]byte, n)
		for i := range b {
			b[i] = fill(i)
		}
		b[0] = first
		return b
	}
	rb := func(i int) byte { return byte(rnd.Intn(256)) }
	res := []poolKey{
		{Class: "16:lead00", Sym: mk(16, 0, rb)},
		{Class: "32:top80", Sym: mk(32, 0x80, rb)},
		{Class: "24:ff", Sym: mk(24, 0xff, func(int) byte { return 0xff })},
		{Class: "16:zero", Sym: mk(16, 0, func(int) byte { return 0 })},
		{Class: "7:odd", Sym: mk(7, 0x00, rb)},
		{Class: "20:hmac", Sym: mk(20, 0x13, rb)},
		{Class: "33:odd", Sym: mk(33, 0x21, rb)},
		{Class: "64:plain", Sym: mk(64, 0x41, rb)},
	}
	for i := 0; i < extra; i++ {
		res = append(res, poolKey{Class: "random", Sym: mk(8*(1+rnd.Intn(8)), byte(rnd.Intn(256)), rb)})
	}
	return res
}

// ---------------------------------------------------------------- the peer: the library's executor with a small object store

type store struct {
	mu   sync.Mutex
	objs map[string]kmip.Object
	seq  int
}

func newExecutor(st *store) *kmipserver.BatchExecutor {
	ex := kmipserver.NewBatchExecutor()
	ex.Route(kmip.OperationRegister, kmipserver.HandleFunc(func(ctx context.Context, req *payloads.RegisterRequestPayload) (*payloads.RegisterResponsePayload, error) {
		st.mu.Lock()
		defer st.mu.Unlock()
		st.seq++
		id := fmt.Sprintf("obj-%d", st.seq)
		st.objs[id] = req.Object
		return &payloads.RegisterResponsePayload{UniqueIdentifier: id}, nil
	}))
	ex.Route(kmip.OperationGet, kmipserver.HandleFunc(func(ctx context.Context, req *payloads.GetRequestPayload) (*payloads.GetResponsePayload, error) {
		st.mu.Lock()
		defer st.mu.Unlock()
		o, ok := st.objs[req.UniqueIdentifier]
		if !ok {
			return nil, kmipserver.ErrItemNotFound
		}
		return &payloads.GetResponsePayload{ObjectType: o.ObjectType(), UniqueIdentifier: req.UniqueIdentifier, Object: o}, nil
	}))
	return ex
}

func serve(conn net.Conn, ex *kmipserver.BatchExecutor) {
	st := ttlv.NewStream(conn, -1)
	defer conn.Close()
	for {
		var req kmip.RequestMessage
		if err := st.Recv(&req); err != nil {
			return
		}
		if err := st.Send(ex.HandleRequest(context.Background(), &req)); err != nil {
			return
		}
	}
}

func filler(n int, b byte) kmip.Object {
	v := bytes.Repeat([]byte{b}, n)
	return &kmip.SecretData{SecretDataType: kmip.SecretDataTypePassword, KeyBlock: kmip.KeyBlock{KeyFormatType: kmip.KeyFormatTypeOpaque,
		KeyValue: &kmip.KeyValue{Plain: &kmip.PlainKeyValue{KeyMaterial: kmip.KeyMaterial{Bytes: &v}}}}}
}

type world struct {
	st      *store
	clients [5]*kmipclient.Client
}

func newWorld() (*world, error) {
	w := &world{st: &store{objs: map[string]kmip.Object{}}}
	w.st.objs["filler-a"] = filler(5000, 0xA5)
	w.st.objs["filler-b"] = filler(300, 0x5A)
	ex := newExecutor(w.st)
	for i, v := range versions {
		dial := func(ctx context.Context) (net.Conn, error) {
			a, b := net.Pipe()
			go serve(b, ex)
			return a, nil
		}
		cl, err := kmipclient.Dial("mem", kmipclient.WithDialerUnsafe(dial), kmipclient.EnforceVersion(v))
		if err != nil {
			return nil, err
		}
		w.clients[i] = cl
	}
	return w, nil
}

// ---------------------------------------------------------------- transport

// carve returns the key as an application may hold it: a part of a larger buffer (the bytes after it belong to something else).
// Registering and transporting a key reads it: the bytes around it stay what they were (checked after the transport).
var carvedCheck func() string

func carve(key []byte) []byte {
	buf := make([]byte, len(key)+24)
	for i := range buf {
		buf[i] = 0xA5
	}
	copy(buf[8:], key)
	k := buf[8 : 8+len(key)]
	carvedCheck = func() string {
		for i, b := range buf {
			if (i < 8 || i >= 8+len(key)) && b != 0xA5 {
				return fmt.Sprintf("the byte at offset %d relative to the key (length %d) of the caller's buffer was overwritten with %#02x", i-8, len(key), b)
			}
		}
		if !bytes.Equal(k, key) {
			return "the caller's key bytes were modified"
		}
		return ""
	}
	return k
}

func transport(w *world, c Case, ex kmipclient.ExecRegister) (*payloads.GetResponsePayload, string) {
	g, p := transport0(w, c, ex)
	if chk := carvedCheck; chk != nil {
		carvedCheck = nil
		if m := chk(); m != "" && p == "" {
			return g, "callers-buffer-modified: " + m
		}
	}
	return g, p
}

func transport0(w *world, c Case, ex kmipclient.ExecRegister) (*payloads.GetResponsePayload, string) {
	ver := versions[c.Ver]
	req := ex.RequestPayload()
	switch c.Enc {
	case "stream":
		ctx, cancel := context.WithTimeout(context.Background(), 20*time.Second)
		defer cancel()
		cl := w.clients[c.Ver]
		resp, err := ex.ExecContext(ctx)
		if err != nil {
			return nil, "register: " + err.Error()
		}
		// traffic between registration and retrieval, and between retrieval and extraction
		if _, err := cl.Get("filler-b").ExecContext(ctx); err != nil {
			return nil, "filler: " + err.Error()
		}
		g, err := cl.Get(resp.UniqueIdentifier).ExecContext(ctx)
		if err != nil {
			return nil, "get: " + err.Error()
		}
		for _, id := range []string{"filler-a", "filler-b"} {
			if _, err := cl.Get(id).ExecContext(ctx); err != nil {
				return nil, "filler: " + err.Error()
			}
		}
		return g, ""
	}
	msg := &kmip.ResponseMessage{
		Header: kmip.ResponseHeader{ProtocolVersion: ver, TimeStamp: time.Unix(1700000000, 0).UTC(), BatchCount: 1},
		BatchItem: []kmip.ResponseBatchItem{{Operation: kmip.OperationGet, ResultStatus: kmip.ResultStatusSuccess,
			ResponsePayload: &payloads.GetResponsePayload{ObjectType: req.ObjectType, UniqueIdentifier: "id-1", Object: req.Object}}},
	}
	return hop(msg, c.Enc)
}

// hop encodes the message in the given encoding and decodes it into a fresh message
func hop(msg *kmip.ResponseMessage, enc string) (g *payloads.GetResponsePayload, problem string) {
	defer func() {
		if r := recover(); r != nil {
			g, problem = nil, "codec-"+vh.PanicSig(r)
		}
	}()
	var back kmip.ResponseMessage
	var err error
	switch enc {
	case "ttlv":
		err = ttlv.UnmarshalTTLV(ttlv.MarshalTTLV(msg), &back)
	case "xml":
		err = ttlv.UnmarshalXML(ttlv.MarshalXML(msg), &back)
	case "json":
		err = ttlv.UnmarshalJSON(ttlv.MarshalJSON(msg), &back)
	}
	if err != nil {
		return nil, "undecodable: " + err.Error()
	}
	if len(back.BatchItem) != 1 {
		return nil, "undecodable: no item"
	}
	g, ok := back.BatchItem[0].ResponsePayload.(*payloads.GetResponsePayload)
	if !ok {
		return nil, "undecodable: payload type"
	}
	return g, ""
}

// ---------------------------------------------------------------- accessors

type accResult struct {
	Val   any
	Err   error
	Panic string
}

var accessorNames = []string{"SecretString", "Secret", "SymmetricKey", "X509Certificate", "PemCertificate", "RsaPrivateKey", "EcdsaPrivateKey", "PrivateKey",
	"PemPrivateKey", "RsaPublicKey", "EcdsaPublicKey", "PublicKey", "PemPublicKey"}

func callAccessor(g *payloads.GetResponsePayload, name string) (res accResult) {
	defer func() {
		if r := recover(); r != nil {
			res = accResult{Panic: vh.PanicSig(r)}
		}
	}()
	switch name {
	case "SecretString":
		v, err := g.SecretString()
		return accResult{Val: v, Err: err}
	case "Secret":
		v, err := g.Secret()
		return accResult{Val: v, Err: err}
	case "SymmetricKey":
		v, err := g.SymmetricKey()
		return accResult{Val: v, Err: err}
	case "X509Certificate":
		v, err := g.X509Certificate()
		return accResult{Val: v, Err: err}
	case "PemCertificate":
		v, err := g.PemCertificate()
		return accResult{Val: v, Err: err}
	case "RsaPrivateKey":
		v, err := g.RsaPrivateKey()
		return accResult{Val: v, Err: err}
	case "EcdsaPrivateKey":
		v, err := g.EcdsaPrivateKey()
		return accResult{Val: v, Err: err}
	case "PrivateKey":
		v, err := g.PrivateKey()
		return accResult{Val: v, Err: err}
	case "PemPrivateKey":
		v, err := g.PemPrivateKey()
		return accResult{Val: v, Err: err}
	case "RsaPublicKey":
		v, err := g.RsaPublicKey()
		return accResult{Val: v, Err: err}
	case "EcdsaPublicKey":
		v, err := g.EcdsaPublicKey()
		return accResult{Val: v, Err: err}
	case "PublicKey":
		v, err := g.PublicKey()
		return accResult{Val: v, Err: err}
	case "PemPublicKey":
		v, err := g.PemPublicKey()
		return accResult{Val: v, Err: err}
	}
	panic("unknown accessor " + name)
}

// which accessors must return the key, per kind
var mustReturn = map[string][]string{
	"rsa-priv": {"RsaPrivateKey", "PrivateKey", "PemPrivateKey"},
	"ec-priv":  {"EcdsaPrivateKey", "PrivateKey", "PemPrivateKey"},
	"rsa-pub":  {"RsaPublicKey", "PublicKey", "PemPublicKey"},
	"ec-pub":   {"EcdsaPublicKey", "PublicKey", "PemPublicKey"},
	"sym":      {"SymmetricKey"},
	"secret":   {"Secret", "SecretString"},
}

func rsaPrivEqual(a, b *rsa.PrivateKey) string {
	if a == nil || b == nil || a.N == nil || a.D == nil {
		return "nil key"
	}
	if a.N.Cmp(b.N) != 0 {
		return "modulus differs"
	}
	if a.E != b.E {
		return "public exponent differs"
	}
	if a.D.Cmp(b.D) != 0 {
		return "private exponent differs"
	}
	if len(a.Primes) != len(b.Primes) {
		return "number of primes differs"
	}
	for i := range a.Primes {
		if a.Primes[i] == nil || a.Primes[i].Cmp(b.Primes[i]) != 0 {
			return "prime differs"
		}
	}
	if a.Validate() != nil {
		return "extracted key does not validate"
	}
	return ""
}

func ecPubEqual(a, b *ecdsa.PublicKey) string {
	if a == nil || a.X == nil || a.Y == nil || a.Curve == nil {
		return "nil key"
	}
	if a.Curve.Params().Name != b.Curve.Params().Name {
		return "curve differs"
	}
	if a.X.Cmp(b.X) != 0 || a.Y.Cmp(b.Y) != 0 {
		return "point differs"
	}
	return ""
}

func ecPrivEqual(a, b *ecdsa.PrivateKey) string {
	if a == nil || a.D == nil {
		return "nil key"
	}
	if a.D.Cmp(b.D) != 0 {
		return "scalar differs"
	}
	return ecPubEqual(&a.PublicKey, &b.PublicKey)
}

// compare the value returned by an accessor with the original key
func compare(kind, acc string, v any, k poolKey) string {
	if s, ok := v.(string); ok && strings.HasPrefix(acc, "Pem") {
		blk, rest := pem.Decode([]byte(s))
		if blk == nil || len(bytes.TrimSpace(rest)) != 0 {
			return "not a single PEM block"
		}
		var err error
		if acc == "PemPrivateKey" {
			if blk.Type != "PRIVATE KEY" {
				return "PEM type " + blk.Type
			}
			v, err = x509.ParsePKCS8PrivateKey(blk.Bytes)
		} else {
			if blk.Type != "PUBLIC KEY" {
				return "PEM type " + blk.Type
			}
			v, err = x509.ParsePKIXPublicKey(blk.Bytes)
		}
		if err != nil {
			return "PEM content: " + err.Error()
		}
	}
	switch kind {
	case "rsa-priv":
		got, ok := v.(*rsa.PrivateKey)
		if !ok {
			return fmt.Sprintf("type %T", v)
		}
		return rsaPrivEqual(got, k.RSA)
	case "rsa-pub":
		got, ok := v.(*rsa.PublicKey)
		if !ok {
			return fmt.Sprintf("type %T", v)
		}
		if got == nil || got.N == nil || got.N.Cmp(k.RSA.N) != 0 || got.E != k.RSA.E {
			return "public key differs"
		}
		return ""
	case "ec-priv":
		got, ok := v.(*ecdsa.PrivateKey)
		if !ok {
			return fmt.Sprintf("type %T", v)
		}
		return ecPrivEqual(got, k.EC)
	case "ec-pub":
		got, ok := v.(*ecdsa.PublicKey)
		if !ok {
			return fmt.Sprintf("type %T", v)
		}
		return ecPubEqual(got, &k.EC.PublicKey)
	case "sym", "secret":
		var got []byte
		switch x := v.(type) {
		case []byte:
			got = x
		case string:
			got = []byte(x)
		}
		if !bytes.Equal(got, k.Sym) {
			return fmt.Sprintf("bytes differ: got %x", got)
		}
		return ""
	}
	return "unknown kind"
}

func contains(l []string, s string) bool {
	for _, x := range l {
		if x == s {
			return true
		}
	}
	return false
}

// ---------------------------------------------------------------- register cases

func build(cl *kmipclient.Client, c Case, k poolKey) (ex kmipclient.ExecRegister, problem string) {
	defer func() {
		if r := recover(); r != nil {
			problem = "builder-" + vh.PanicSig(r)
		}
	}()
	var f kmipclient.KeyFormat
	for _, n := range c.Format {
		f |= fmtBits[n]
	}
	r := cl.Register()
	if len(c.Format) > 0 {
		r = r.WithKeyFormat(f)
	}
	usage := kmip.CryptographicUsageSign
	switch c.Kind {
	case "rsa-priv":
		return r.RsaPrivateKey(k.RSA, usage), ""
	case "rsa-pub":
		return r.RsaPublicKey(&k.RSA.PublicKey, kmip.CryptographicUsageVerify), ""
	case "ec-priv":
		return r.EcdsaPrivateKey(k.EC, usage), ""
	case "ec-pub":
		return r.EcdsaPublicKey(&k.EC.PublicKey, kmip.CryptographicUsageVerify), ""
	case "sym":
		return r.SymmetricKey(kmip.CryptographicAlgorithmAES, kmip.CryptographicUsageEncrypt, carve(k.Sym)), ""
	}
	return ex, "unknown kind"
}

func keyBlockOf(o kmip.Object) *kmip.KeyBlock {
	switch x := o.(type) {
	case *kmip.SymmetricKey:
		return &x.KeyBlock
	case *kmip.PrivateKey:
		return &x.KeyBlock
	case *kmip.PublicKey:
		return &x.KeyBlock
	case *kmip.SecretData:
		return &x.KeyBlock
	case *kmip.SplitKey:
		return &x.KeyBlock
	}
	return nil
}

func kftName(t kmip.KeyFormatType) string {
	for n, v := range kftByName {
		if v == t {
			return n
		}
	}
	return fmt.Sprintf("0x%X", uint32(t))
}

func objTypeName(t kmip.ObjectType) string {
	for n, v := range objTypeByName {
		if v == t {
			return n
		}
	}
	return fmt.Sprintf("0x%X", uint32(t))
}

func runRegister(w *world, c Case, k poolKey) []string {
	var problems []string
	if k.RSA != nil && strings.HasPrefix(k.Class, "no-precompute") {
		// a fresh copy every time: the standard library's marshallers call Precompute on the key they are given
		k.RSA = &rsa.PrivateKey{PublicKey: rsa.PublicKey{N: new(big.Int).Set(k.RSA.N), E: k.RSA.E}, D: new(big.Int).Set(k.RSA.D),
			Primes: []*big.Int{new(big.Int).Set(k.RSA.Primes[0]), new(big.Int).Set(k.RSA.Primes[1])}}
	}
	ex, p := build(w.clients[c.Ver], c, k)
	if p != "" {
		return []string{p}
	}
	req := ex.RequestPayload()
	if req == nil || req.Object == nil {
		_, err := ex.Build()
		return []string{fmt.Sprintf("builder-error: %v", err)}
	}
	kb := keyBlockOf(req.Object)
	if kb == nil {
		return []string{fmt.Sprintf("builder: object %T has no key block", req.Object)}
	}
	if got := objTypeName(req.ObjectType); got != c.ObjType || req.Object.ObjectType() != req.ObjectType {
		problems = append(problems, fmt.Sprintf("table: object type %s, specification %s", got, c.ObjType))
	}
	if got := kftName(kb.KeyFormatType); got != c.Kft {
		problems = append(problems, fmt.Sprintf("table: key format type %s, specification %s", got, c.Kft))
	}
	g, p := transport(w, c, ex)
	if p != "" {
		return append(problems, "transport: "+p)
	}
	for _, acc := range accessorNames {
		r := callAccessor(g, acc)
		must := contains(mustReturn[c.Kind], acc)
		switch {
		case r.Panic != "":
			problems = append(problems, "accessor "+acc+": "+r.Panic)
		case must && r.Err != nil:
			problems = append(problems, "accessor "+acc+": error: "+r.Err.Error())
		case must:
			if d := compare(c.Kind, acc, r.Val, k); d != "" {
				problems = append(problems, "accessor "+acc+": extracted key differs: "+d)
			}
		case r.Err == nil:
			problems = append(problems, fmt.Sprintf("accessor %s: returned %T for a %s key", acc, r.Val, c.Kind))
		}
	}
	return problems
}

// secrets go through the same path (Secret / SecretString builders)
func runSecret(w *world, c Case, k poolKey) []string {
	var problems []string
	ex := w.clients[c.Ver].Register().Secret(kmip.SecretDataTypePassword, carve(k.Sym))
	g, p := transport(w, c, ex)
	if p != "" {
		return []string{"transport: " + p}
	}
	for _, acc := range accessorNames {
		r := callAccessor(g, acc)
		must := contains(mustReturn["secret"], acc)
		switch {
		case r.Panic != "":
			problems = append(problems, "accessor "+acc+": "+r.Panic)
		case must && r.Err != nil:
			problems = append(problems, "accessor "+acc+": error: "+r.Err.Error())
		case must:
			if d := compare("secret", acc, r.Val, k); d != "" {
				problems = append(problems, "accessor "+acc+": extracted secret differs: "+d)
			}
		case r.Err == nil:
			problems = append(problems, fmt.Sprintf("accessor %s: returned %T for secret data", acc, r.Val))
		}
	}
	return problems
}

// ---------------------------------------------------------------- presence cases

var sampleRSA *rsa.PrivateKey
var sampleEC *ecdsa.PrivateKey

// fullMaterial returns well-formed material of the given format type
func fullMaterial(obj string, t kmip.KeyFormatType) kmip.KeyMaterial {
	bs := func(b []byte) kmip.KeyMaterial { return kmip.KeyMaterial{Bytes: &b} }
	switch t {
	case kmip.KeyFormatTypeRaw, kmip.KeyFormatTypeOpaque:
		return bs([]byte{1, 2, 3, 4, 5, 6, 7, 8, 9, 10, 11, 12, 13, 14, 15, 16})
	case kmip.KeyFormatTypePKCS_1:
		if obj == "PublicKey" {
			return bs(x509.MarshalPKCS1PublicKey(&sampleRSA.PublicKey))
		}
		return bs(x509.MarshalPKCS1PrivateKey(sampleRSA))
	case kmip.KeyFormatTypePKCS_8:
		b, _ := x509.MarshalPKCS8PrivateKey(sampleEC)
		return bs(b)
	case kmip.KeyFormatTypeX_509:
		b, _ := x509.MarshalPKIXPublicKey(&sampleEC.PublicKey)
		return bs(b)
	case kmip.KeyFormatTypeECPrivateKey:
		b, _ := x509.MarshalECPrivateKey(sampleEC)
		return bs(b)
	case kmip.KeyFormatTypeTransparentSymmetricKey:
		return kmip.KeyMaterial{TransparentSymmetricKey: &kmip.TransparentSymmetricKey{Key: []byte{1, 2, 3, 4, 5, 6, 7, 8}}}
	case kmip.KeyFormatTypeTransparentRSAPrivateKey:
		return kmip.KeyMaterial{TransparentRSAPrivateKey: rsaTransparent(sampleRSA, []string{"D", "E", "P", "Q", "DP", "DQ", "QINV"})}
	case kmip.KeyFormatTypeTransparentRSAPublicKey:
		return kmip.KeyMaterial{TransparentRSAPublicKey: &kmip.TransparentRSAPublicKey{Modulus: *sampleRSA.N, PublicExponent: *big.NewInt(int64(sampleRSA.E))}}
	case kmip.KeyFormatTypeTransparentECDSAPrivateKey:
		return kmip.KeyMaterial{TransparentECDSAPrivateKey: &kmip.TransparentECDSAPrivateKey{RecommendedCurve: kmip.RecommendedCurveP_256, D: *sampleEC.D}}
	case kmip.KeyFormatTypeTransparentECPrivateKey:
		return kmip.KeyMaterial{TransparentECPrivateKey: &kmip.TransparentECPrivateKey{RecommendedCurve: kmip.RecommendedCurveP_256, D: *sampleEC.D}}
	case kmip.KeyFormatTypeTransparentECDSAPublicKey:
		return kmip.KeyMaterial{TransparentECDSAPublicKey: &kmip.TransparentECDSAPublicKey{RecommendedCurve: kmip.RecommendedCurveP_256,
			QString: elliptic.Marshal(sampleEC.Curve, sampleEC.X, sampleEC.Y)}}
	case kmip.KeyFormatTypeTransparentECPublicKey:
		return kmip.KeyMaterial{TransparentECPublicKey: &kmip.TransparentECPublicKey{RecommendedCurve: kmip.RecommendedCurveP_256,
			QString: elliptic.Marshal(sampleEC.Curve, sampleEC.X, sampleEC.Y)}}
	}
	return kmip.KeyMaterial{}
}

func rsaTransparent(k *rsa.PrivateKey, comps []string) *kmip.TransparentRSAPrivateKey {
	t := &kmip.TransparentRSAPrivateKey{Modulus: *k.N}
	for _, c := range comps {
		switch c {
		case "D":
			t.PrivateExponent = k.D
		case "E":
			t.PublicExponent = big.NewInt(int64(k.E))
		case "P":
			t.P = k.Primes[0]
		case "Q":
			t.Q = k.Primes[1]
		case "DP":
			t.PrimeExponentP = k.Precomputed.Dp
		case "DQ":
			t.PrimeExponentQ = k.Precomputed.Dq
		case "QINV":
			t.CRTCoefficient = k.Precomputed.Qinv
		}
	}
	return t
}

// emptied: the transparent structure of the format with its components at their zero values
func emptied(t kmip.KeyFormatType) (kmip.KeyMaterial, bool) {
	switch t {
	case kmip.KeyFormatTypeTransparentSymmetricKey:
		return kmip.KeyMaterial{TransparentSymmetricKey: &kmip.TransparentSymmetricKey{}}, true
	case kmip.KeyFormatTypeTransparentRSAPrivateKey:
		return kmip.KeyMaterial{TransparentRSAPrivateKey: &kmip.TransparentRSAPrivateKey{Modulus: *sampleRSA.N}}, true
	case kmip.KeyFormatTypeTransparentRSAPublicKey:
		return kmip.KeyMaterial{TransparentRSAPublicKey: &kmip.TransparentRSAPublicKey{}}, true
	case kmip.KeyFormatTypeTransparentECDSAPrivateKey:
		return kmip.KeyMaterial{TransparentECDSAPrivateKey: &kmip.TransparentECDSAPrivateKey{}}, true
	case kmip.KeyFormatTypeTransparentECPrivateKey:
		return kmip.KeyMaterial{TransparentECPrivateKey: &kmip.TransparentECPrivateKey{}}, true
	case kmip.KeyFormatTypeTransparentECDSAPublicKey:
		return kmip.KeyMaterial{TransparentECDSAPublicKey: &kmip.TransparentECDSAPublicKey{}}, true
	case kmip.KeyFormatTypeTransparentECPublicKey:
		return kmip.KeyMaterial{TransparentECPublicKey: &kmip.TransparentECPublicKey{}}, true
	}
	b := []byte{}
	return kmip.KeyMaterial{Bytes: &b}, true
}

// valued: the material of the format with valid parameters (curve, modulus) and the given bytes as its value
func valued(t kmip.KeyFormatType, v []byte) kmip.KeyMaterial {
	n := new(big.Int).SetBytes(v)
	switch t {
	case kmip.KeyFormatTypeTransparentSymmetricKey:
		return kmip.KeyMaterial{TransparentSymmetricKey: &kmip.TransparentSymmetricKey{Key: v}}
	case kmip.KeyFormatTypeTransparentRSAPrivateKey:
		return kmip.KeyMaterial{TransparentRSAPrivateKey: &kmip.TransparentRSAPrivateKey{Modulus: *sampleRSA.N, PrivateExponent: n, PublicExponent: n}}
	case kmip.KeyFormatTypeTransparentRSAPublicKey:
		return kmip.KeyMaterial{TransparentRSAPublicKey: &kmip.TransparentRSAPublicKey{Modulus: *sampleRSA.N, PublicExponent: *n}}
	case kmip.KeyFormatTypeTransparentECDSAPrivateKey:
		return kmip.KeyMaterial{TransparentECDSAPrivateKey: &kmip.TransparentECDSAPrivateKey{RecommendedCurve: kmip.RecommendedCurveP_256, D: *n}}
	case kmip.KeyFormatTypeTransparentECPrivateKey:
		return kmip.KeyMaterial{TransparentECPrivateKey: &kmip.TransparentECPrivateKey{RecommendedCurve: kmip.RecommendedCurveP_256, D: *n}}
	case kmip.KeyFormatTypeTransparentECDSAPublicKey:
		return kmip.KeyMaterial{TransparentECDSAPublicKey: &kmip.TransparentECDSAPublicKey{RecommendedCurve: kmip.RecommendedCurveP_256, QString: v}}
	case kmip.KeyFormatTypeTransparentECPublicKey:
		return kmip.KeyMaterial{TransparentECPublicKey: &kmip.TransparentECPublicKey{RecommendedCurve: kmip.RecommendedCurveP_256, QString: v}}
	}
	return kmip.KeyMaterial{Bytes: &v}
}

func presenceObject(c Case) (kmip.Object, bool) {
	t := kftByName[c.Kft]
	kb := kmip.KeyBlock{KeyFormatType: t, CryptographicAlgorithm: kmip.CryptographicAlgorithmAES, CryptographicLength: 128}
	switch c.Missing {
	case "none":
		kb.KeyValue = &kmip.KeyValue{Plain: &kmip.PlainKeyValue{KeyMaterial: fullMaterial(c.Obj, t)}}
	case "keyvalue":
	case "plain":
		kb.KeyValue = &kmip.KeyValue{}
	case "material":
		kb.KeyValue = &kmip.KeyValue{Plain: &kmip.PlainKeyValue{Attribute: []kmip.Attribute{{AttributeName: kmip.AttributeNameCryptographicLength, AttributeValue: int32(128)}}}}
	case "wrong-variant":
		other := kmip.KeyFormatTypeTransparentSymmetricKey
		if t == other || t == kmip.KeyFormatTypeRaw {
			other = kmip.KeyFormatTypeTransparentRSAPublicKey
		}
		if strings.HasPrefix(c.Kft, "Transparent") {
			other = kmip.KeyFormatTypeRaw
		}
		kb.KeyValue = &kmip.KeyValue{Plain: &kmip.PlainKeyValue{KeyMaterial: fullMaterial(c.Obj, other)}}
	case "component":
		m, _ := emptied(t)
		kb.KeyValue = &kmip.KeyValue{Plain: &kmip.PlainKeyValue{KeyMaterial: m}}
	case "empty-value":
		kb.KeyValue = &kmip.KeyValue{Plain: &kmip.PlainKeyValue{KeyMaterial: valued(t, []byte{})}}
	case "short-value":
		kb.KeyValue = &kmip.KeyValue{Plain: &kmip.PlainKeyValue{KeyMaterial: valued(t, []byte{2})}} // also the prefix of a compressed point
	case "wrapped-bare":
		wb := []byte{9, 8, 7, 6, 5, 4, 3, 2, 1, 0, 1, 2, 3, 4, 5, 6}
		kb.KeyValue = &kmip.KeyValue{Wrapped: &wb}
	case "wrapped":
		wb := []byte{9, 8, 7, 6, 5, 4, 3, 2, 1, 0, 1, 2, 3, 4, 5, 6, 7, 8, 9, 0, 1, 2, 3, 4}
		kb.KeyValue = &kmip.KeyValue{Wrapped: &wb}
		kb.KeyWrappingData = &kmip.KeyWrappingData{WrappingMethod: kmip.WrappingMethodEncrypt,
			EncryptionKeyInformation: &kmip.EncryptionKeyInformation{UniqueIdentifier: "kek"}}
	}
	switch c.Obj {
	case "SymmetricKey":
		return &kmip.SymmetricKey{KeyBlock: kb}, true
	case "PrivateKey":
		return &kmip.PrivateKey{KeyBlock: kb}, true
	case "PublicKey":
		return &kmip.PublicKey{KeyBlock: kb}, true
	case "SecretData":
		return &kmip.SecretData{SecretDataType: kmip.SecretDataTypePassword, KeyBlock: kb}, true
	case "SplitKey":
		return &kmip.SplitKey{SplitKeyParts: 2, KeyPartIdentifier: 1, SplitKeyThreshold: 2, SplitKeyMethod: kmip.SplitKeyMethodXOR, KeyBlock: kb}, true
	case "Certificate":
		return &kmip.Certificate{CertificateType: kmip.CertificateTypeX_509, CertificateValue: []byte{0x30, 0x03, 0x02, 0x01, 0x01}}, true
	case "OpaqueObject":
		return &kmip.OpaqueObject{OpaqueDataType: 1, OpaqueDataValue: []byte{1, 2, 3}}, true
	case "Template":
		return &kmip.Template{Attribute: []kmip.Attribute{{AttributeName: kmip.AttributeNameCryptographicLength, AttributeValue: int32(128)}}}, true
	case "PGPKey":
		return &kmip.PGPKey{PGPKeyVersion: 4, KeyBlock: kb}, true
	}
	return nil, false
}

type presenceOut struct {
	Decoded, Undecodable int
	Problems             []string
	Accessed, Errors, OK int
}

func runPresence(c Case, obj kmip.Object, allowSuccess bool, o *presenceOut) {
	for vi := range versions {
		if vi != 0 && vi != 2 && vi != 4 {
			continue
		}
		for _, enc := range []string{"ttlv", "xml", "json"} {
			msg := &kmip.ResponseMessage{
				Header: kmip.ResponseHeader{ProtocolVersion: versions[vi], TimeStamp: time.Unix(1700000000, 0).UTC(), BatchCount: 1},
				BatchItem: []kmip.ResponseBatchItem{{Operation: kmip.OperationGet, ResultStatus: kmip.ResultStatusSuccess,
					ResponsePayload: &payloads.GetResponsePayload{ObjectType: obj.ObjectType(), UniqueIdentifier: "id-1", Object: obj}}},
			}
			g, p := hop(msg, enc)
			if p != "" {
				if strings.HasPrefix(p, "codec-panic") {
					o.Problems = append(o.Problems, fmt.Sprintf("%s v1.%d: %s", enc, vi, p))
				}
				o.Undecodable++
				continue
			}
			o.Decoded++
			for _, acc := range accessorNames {
				r := callAccessor(g, acc)
				o.Accessed++
				switch {
				case r.Panic != "":
					o.Problems = append(o.Problems, fmt.Sprintf("%s v1.%d accessor %s: %s", enc, vi, acc, r.Panic))
				case r.Err != nil:
					o.Errors++
				default:
					o.OK++
					if !allowSuccess {
						o.Problems = append(o.Problems, fmt.Sprintf("%s v1.%d accessor %s: returned %T although the material is missing", enc, vi, acc, r.Val))
					}
				}
			}
		}
	}
}

func runComponents(c Case, o *presenceOut) {
	obj := &kmip.PrivateKey{KeyBlock: kmip.KeyBlock{KeyFormatType: kmip.KeyFormatTypeTransparentRSAPrivateKey, CryptographicAlgorithm: kmip.CryptographicAlgorithmRSA,
		CryptographicLength: 1024, KeyValue: &kmip.KeyValue{Plain: &kmip.PlainKeyValue{KeyMaterial: kmip.KeyMaterial{TransparentRSAPrivateKey: rsaTransparent(sampleRSA, c.Comps)}}}}}
	for vi := range versions {
		for _, enc := range []string{"ttlv", "xml", "json"} {
			msg := &kmip.ResponseMessage{
				Header: kmip.ResponseHeader{ProtocolVersion: versions[vi], TimeStamp: time.Unix(1700000000, 0).UTC(), BatchCount: 1},
				BatchItem: []kmip.ResponseBatchItem{{Operation: kmip.OperationGet, ResultStatus: kmip.ResultStatusSuccess,
					ResponsePayload: &payloads.GetResponsePayload{ObjectType: kmip.ObjectTypePrivateKey, UniqueIdentifier: "id-1", Object: obj}}},
			}
			g, p := hop(msg, enc)
			if p != "" {
				o.Problems = append(o.Problems, fmt.Sprintf("%s v1.%d: %s", enc, vi, p))
				o.Undecodable++
				continue
			}
			o.Decoded++
			for _, acc := range accessorNames {
				r := callAccessor(g, acc)
				o.Accessed++
				must := contains(mustReturn["rsa-priv"], acc)
				switch {
				case r.Panic != "":
					o.Problems = append(o.Problems, fmt.Sprintf("%s v1.%d accessor %s: %s", enc, vi, acc, r.Panic))
				case r.Err != nil:
					o.Errors++
					if must && c.Expect == "key" {
						o.Problems = append(o.Problems, fmt.Sprintf("%s v1.%d accessor %s: error although D, E, P and Q are present: %v", enc, vi, acc, r.Err))
					}
				case !must:
					o.Problems = append(o.Problems, fmt.Sprintf("%s v1.%d accessor %s: returned %T for an RSA private key", enc, vi, acc, r.Val))
				case c.Expect == "error":
					o.Problems = append(o.Problems, fmt.Sprintf("%s v1.%d accessor %s: returned a key although the exponents are missing", enc, vi, acc))
				default:
					o.OK++
					if d := compare("rsa-priv", acc, r.Val, poolKey{RSA: sampleRSA}); d != "" && !(c.Expect == "key-or-error" && strings.Contains(d, "prime")) {
						o.Problems = append(o.Problems, fmt.Sprintf("%s v1.%d accessor %s: extracted key differs: %s", enc, vi, acc, d))
					}
				}
			}
		}
	}
}

// ---------------------------------------------------------------- main

type setup struct {
	pools map[string][]poolKey
}

func makePools() map[string][]poolKey {
	rnd := mrand.New(mrand.NewSource(vh.Seed()))
	extra := vh.EnvInt("VERIF_EXTRA_KEYS", 0)
	pools := map[string][]poolKey{}
	if pf := os.Getenv("VERIF_RSA_POOL"); pf != "" {
		// the child process reuses the parent's RSA keys
		var ks []struct {
			Class      string
			N, D, P, Q string
			E          int
		}
		b, err := os.ReadFile(pf)
		if err == nil && json.Unmarshal(b, &ks) == nil {
			for _, x := range ks {
				bi := func(h string) *big.Int { v, _ := new(big.Int).SetString(h, 16); return v }
				k := &rsa.PrivateKey{PublicKey: rsa.PublicKey{N: bi(x.N), E: x.E}, D: bi(x.D), Primes: []*big.Int{bi(x.P), bi(x.Q)}}
				if !strings.HasPrefix(x.Class, "no-precompute") {
					k.Precompute()
				}
				pools["rsa"] = append(pools["rsa"], poolKey{Class: x.Class, RSA: k})
			}
		}
	}
	if len(pools["rsa"]) == 0 {
		pools["rsa"] = rsaPool(rnd, vh.EnvInt("VERIF_RSA_PAIRS", 1), vh.EnvInt("VERIF_RSA_PER_PAIR", 3))
	}
	for _, cn := range []string{"P-224", "P-256", "P-384", "P-521"} {
		pools[cn] = ecPool(curveByName(cn), rnd, extra)
	}
	pools["sym"] = symPool(rnd, extra)
	sampleRSA = pools["rsa"][0].RSA
	sampleEC = ecFromScalar(elliptic.P256(), big.NewInt(0x1234567))
	return pools
}

func saveRSAPool(path string, pool []poolKey) {
	var ks []map[string]any
	for _, k := range pool {
		ks = append(ks, map[string]any{"Class": k.Class, "N": k.RSA.N.Text(16), "D": k.RSA.D.Text(16), "P": k.RSA.Primes[0].Text(16), "Q": k.RSA.Primes[1].Text(16), "E": k.RSA.E})
	}
	b, _ := json.Marshal(ks)
	os.WriteFile(path, b, 0o644)
}

func poolFor(pools map[string][]poolKey, c Case) []poolKey {
	switch c.Kind {
	case "rsa-priv", "rsa-pub":
		return pools["rsa"]
	case "ec-priv", "ec-pub":
		return pools[c.Curve]
	}
	return pools["sym"]
}

type counters struct {
	classes map[string]int
	stats   map[string]int
	runs    int
}

// registerCase replays one register case with every key of its pool
func registerCase(w *world, pools map[string][]poolKey, ci int, c Case, out *vh.Writer, n *counters) {
	for _, k := range poolFor(pools, c) {
		n.runs++
		n.classes[c.Kind+"/"+strings.Join(strings.Fields(k.Class)[:1], "")]++
		if ps := runRegister(w, c, k); len(ps) > 0 {
			out.Emit(map[string]any{"case": ci, "c": c, "key": k.describe(), "problems": ps})
		}
		if c.Kind == "sym" && len(c.Format) == 0 {
			n.runs++
			if ps := runSecret(w, c, k); len(ps) > 0 {
				cc := c
				cc.Kind = "secret"
				out.Emit(map[string]any{"case": ci, "c": cc, "key": k.describe(), "problems": ps})
			}
		}
	}
	n.stats["register"]++
}

// TestStreamChild runs the cases that use the real client/server connection, from index VERIF_CHILD_FROM on. A panic on a
// library goroutine kills the process: the parent attributes it to the case announced last on the progress file.
func TestStreamChild(t *testing.T) {
	cp := os.Getenv("VERIF_CHILD_CASES")
	if cp == "" {
		t.Skip("child only")
	}
	type idxCase struct {
		I int  `json:"i"`
		C Case `json:"c"`
	}
	cases, err := vh.ReadNDJSON[idxCase](cp)
	if err != nil {
		t.Fatal(err)
	}
	from := vh.EnvInt("VERIF_CHILD_FROM", 0)
	out, err := vh.NewWriter(os.Getenv("VERIF_CHILD_OUT"))
	if err != nil {
		t.Fatal(err)
	}
	defer out.Close()
	prog, err := os.Create(os.Getenv("VERIF_CHILD_PROGRESS"))
	if err != nil {
		t.Fatal(err)
	}
	defer prog.Close()
	pools := makePools()
	w, err := newWorld()
	if err != nil {
		t.Fatal(err)
	}
	n := &counters{classes: map[string]int{}, stats: map[string]int{}}
	for k := from; k < len(cases); k++ {
		fmt.Fprintf(prog, "%d\n", k)
		registerCase(w, pools, cases[k].I, cases[k].C, out, n)
		out.Flush()
	}
	fmt.Fprintf(prog, "done %d\n", n.runs)
	out.Emit(map[string]any{"child_summary": true, "runs": n.runs, "classes": n.classes})
}

var panicRe = regexp.MustCompile(`(?m)^(panic: .*|fatal error: .*)$`)
var frameRe = regexp.MustCompile(`(?m)^(github\.com/ovh/kmip-go[^\s(]*(\([^)]*\))?[^\s(]*)\(`)

func TestReplay(t *testing.T) {
	cases, err := vh.ReadNDJSON[Case](vh.Env("VERIF_CASES", "cases.ndjson"))
	if err != nil {
		t.Fatal(err)
	}
	out, err := vh.NewWriter(vh.Env("VERIF_OUT", "results.ndjson"))
	if err != nil {
		t.Fatal(err)
	}
	defer out.Close()
	pools := makePools()
	w, err := newWorld()
	if err != nil {
		t.Fatal(err)
	}
	n := &counters{classes: map[string]int{}, stats: map[string]int{}}
	dir := t.TempDir()
	sw, _ := vh.NewWriter(dir + "/stream.ndjson")
	nstream := 0
	for ci, c := range cases {
		switch c.Part {
		case "register":
			if c.Enc == "stream" {
				sw.Emit(map[string]any{"i": ci, "c": c})
				nstream++
				continue
			}
			registerCase(w, pools, ci, c, out, n)
		case "presence":
			obj, ok := presenceObject(c)
			if !ok {
				t.Fatalf("unknown presence object %v", c)
			}
			var o presenceOut
			runPresence(c, obj, c.Missing == "none" || c.Missing == "component" || c.Missing == "empty-value" || c.Missing == "short-value", &o) // zero-valued material is material: accessors may return it
			n.runs += o.Decoded
			n.stats["presence"]++
			n.stats["presence-decoded"] += o.Decoded
			n.stats["presence-undecodable"] += o.Undecodable
			n.stats["presence-accessor-calls"] += o.Accessed
			n.stats["presence-accessor-errors"] += o.Errors
			if len(o.Problems) > 0 {
				out.Emit(map[string]any{"case": ci, "c": c, "problems": o.Problems})
			}
		case "rsa-components":
			var o presenceOut
			runComponents(c, &o)
			n.runs += o.Decoded
			n.stats["components"]++
			n.stats["components-keys-returned"] += o.OK
			n.stats["components-errors"] += o.Errors
			if len(o.Problems) > 0 {
				out.Emit(map[string]any{"case": ci, "c": c, "problems": o.Problems})
			}
		default:
			t.Fatalf("unknown part %q", c.Part)
		}
	}
	sw.Close()
	// the connection cases, in child processes
	saveRSAPool(dir+"/rsa.json", pools["rsa"])
	from, crashes, unexplained := 0, 0, ""
	for from < nstream && crashes < 4 {
		cmd := exec.Command(os.Args[0], "-test.run", "^TestStreamChild$", "-test.count=1", "-test.timeout=20m")
		cmd.Env = append(os.Environ(), "VERIF_CHILD_CASES="+dir+"/stream.ndjson", fmt.Sprintf("VERIF_CHILD_FROM=%d", from), "VERIF_CHILD_OUT="+dir+"/child.ndjson",
			"VERIF_CHILD_PROGRESS="+dir+"/progress", "VERIF_RSA_POOL="+dir+"/rsa.json")
		outb, cerr := cmd.CombinedOutput()
		res, _ := vh.ReadNDJSON[map[string]any](dir + "/child.ndjson")
		for _, r := range res {
			if r["child_summary"] == true {
				n.runs += int(r["runs"].(float64))
				for k, v := range r["classes"].(map[string]any) {
					n.classes[k] += int(v.(float64))
				}
				continue
			}
			delete(r, "seq")
			out.Emit(r)
		}
		pb, _ := os.ReadFile(dir + "/progress")
		lines := strings.Fields(strings.ReplaceAll(string(pb), "done ", "done:"))
		if cerr == nil && len(lines) > 0 && strings.HasPrefix(lines[len(lines)-1], "done:") {
			n.stats["register"] += nstream - from
			from = nstream
			break
		}
		// the child died
		crashes++
		at := from
		if len(lines) > 0 {
			fmt.Sscanf(lines[len(lines)-1], "%d", &at)
		}
		txt := string(outb)
		pm := panicRe.FindString(txt)
		fm := frameRe.FindStringSubmatch(txt)
		if pm == "" || fm == nil {
			unexplained = txt
			if len(unexplained) > 3000 {
				unexplained = unexplained[len(unexplained)-3000:]
			}
			break
		}
		sc, _ := vh.ReadNDJSON[struct {
			I int  `json:"i"`
			C Case `json:"c"`
		}](dir + "/stream.ndjson")
		if len(pm) > 100 {
			pm = pm[:100]
		}
		out.Emit(map[string]any{"case": sc[at].I, "c": sc[at].C, "key": map[string]any{"class": "?"},
			"problems": []string{"transport: process killed by " + pm + " in " + strings.TrimPrefix(fm[1], "github.com/ovh/kmip-go/")}, "crash": true})
		n.stats["register"] += at - from
		from = at + 1
	}
	if unexplained != "" {
		t.Fatalf("connection child died without a library panic:\n%s", unexplained)
	}
	var cl []string
	for k, c := range n.classes {
		cl = append(cl, fmt.Sprintf("%s=%d", k, c))
	}
	sort.Strings(cl)
	out.Emit(map[string]any{"summary": true, "cases": len(cases), "runs": n.runs, "stats": n.stats, "classes": cl, "stream_cases": nstream, "stream_done": from, "child_crashes": crashes,
		"pool": map[string]int{"rsa": len(pools["rsa"]), "P-224": len(pools["P-224"]), "P-256": len(pools["P-256"]), "P-384": len(pools["P-384"]), "P-521": len(pools["P-521"]), "sym": len(pools["sym"])}})
	_ = crypto.SHA256
}
