// Driver for C13 (version negotiation). Every configuration enumerated by TLC from spec/Negotiate.tla
// (client set x enforced x server answer) is replayed with the real kmipclient.Dial against a scripted
// in-memory server; the conformant behaviour is additionally played by the library's own
// kmipserver.BatchExecutor configured with every server set S.
package negotiate

import (
	"context"
	"fmt"
	"net"
	"os"
	"sync"
	"testing"
	"time"

	"github.com/ovh/kmip-go"
	"github.com/ovh/kmip-go/kmipclient"
	"github.com/ovh/kmip-go/kmipserver"
	"github.com/ovh/kmip-go/payloads"
	"github.com/ovh/kmip-go/ttlv"

	"verifharness/vh"
)

func TestMain(m *testing.M) { vh.Quiet(); os.Exit(m.Run()) }

const none = 99
const otherErr = 98

type Case struct {
	C        []int  `json:"C"`
	Enforced int    `json:"enforced"`
	Offered  []int  `json:"offered"`
	Reply    []int  `json:"reply"`
	Outcome  string `json:"outcome"`
	Adopted  int    `json:"adopted"`
	Sent     []int  `json:"sent"`
}

// versions are numbered as in Negotiate.tla: 0..4 = 1.0 .. 1.4; 10 * major + minor for another major release (21 = 2.1)
func ver(i int) kmip.ProtocolVersion {
	if i >= 10 {
		return kmip.ProtocolVersion{ProtocolVersionMajor: int32(i / 10), ProtocolVersionMinor: int32(i % 10)}
	}
	// the library's exported version values, read when they are used - as an application writes them (kmip.V1_1, ...)
	return *[]*kmip.ProtocolVersion{&kmip.V1_0, &kmip.V1_1, &kmip.V1_2, &kmip.V1_3, &kmip.V1_4}[i]
}
func idx(v kmip.ProtocolVersion) int {
	if v.ProtocolVersionMajor != 1 {
		return 10*int(v.ProtocolVersionMajor) + int(v.ProtocolVersionMinor)
	}
	return int(v.ProtocolVersionMinor)
}

// observation of one Dial + follow-up requests
type obs struct {
	mu      sync.Mutex
	Offered []int  `json:"offered"`
	Reply   []int  `json:"reply"`
	Outcome string `json:"outcome"`
	Adopted int    `json:"adopted"`
	Sent    []int  `json:"sent"`
	DiscVer int    `json:"discVer"`
	// Drop: the peer closes the first connection after answering the first request that follows the dial; the client reconnects for
	// the next one. Discoveries counts the Discover Versions requests the peer saw over all connections.
	Drop        bool   `json:"drop"`
	Dropped     bool   `json:"dropped"`
	Discoveries int    `json:"discoveries"`
	Err         string `json:"err,omitempty"`
	Panic       string `json:"panic,omitempty"`
}

// scripted server: answers the discovery request with `reply`, everything else with success
func serveScripted(conn net.Conn, reply []int, o *obs) {
	st := ttlv.NewStream(conn, -1)
	defer conn.Close()
	for {
		var req kmip.RequestMessage
		if err := st.Recv(&req); err != nil {
			return
		}
		resp := &kmip.ResponseMessage{Header: kmip.ResponseHeader{ProtocolVersion: req.Header.ProtocolVersion, TimeStamp: time.Unix(1700000000, 0), BatchCount: 1}}
		bi := kmip.ResponseBatchItem{Operation: req.BatchItem[0].Operation, UniqueBatchItemID: req.BatchItem[0].UniqueBatchItemID}
		if d, ok := req.BatchItem[0].RequestPayload.(*payloads.DiscoverVersionsRequestPayload); ok {
			o.mu.Lock()
			o.Discoveries++
			o.DiscVer = idx(req.Header.ProtocolVersion)
			for _, v := range d.ProtocolVersion {
				o.Offered = append(o.Offered, idx(v))
			}
			o.Reply = reply
			o.mu.Unlock()
			switch {
			case len(reply) == 1 && reply[0] == none:
				bi.ResultStatus = kmip.ResultStatusOperationFailed
				bi.ResultReason = kmip.ResultReasonOperationNotSupported
				bi.ResultMessage = "Operation not supported"
			case len(reply) == 1 && (reply[0] == 97 || reply[0] == 96):
				// the reason of a server without the operation, under a status that is not Failed
				bi.ResultStatus = map[int]kmip.ResultStatus{97: kmip.ResultStatusOperationPending, 96: kmip.ResultStatusOperationUndone}[reply[0]]
				bi.ResultReason = kmip.ResultReasonOperationNotSupported
				bi.ResultMessage = "not now"
			case len(reply) == 1 && reply[0] == otherErr:
				bi.ResultStatus = kmip.ResultStatusOperationFailed
				bi.ResultReason = kmip.ResultReasonPermissionDenied
				bi.ResultMessage = "denied"
			default:
				pl := &payloads.DiscoverVersionsResponsePayload{}
				for _, v := range reply {
					pl.ProtocolVersion = append(pl.ProtocolVersion, ver(v))
				}
				bi.ResponsePayload = pl
			}
		} else {
			o.mu.Lock()
			o.Sent = append(o.Sent, idx(req.Header.ProtocolVersion))
			o.mu.Unlock()
			bi.ResponsePayload = &payloads.ActivateResponsePayload{UniqueIdentifier: "x"}
		}
		resp.BatchItem = []kmip.ResponseBatchItem{bi}
		if err := st.Send(resp); err != nil {
			return
		}
		if _, ok := req.BatchItem[0].RequestPayload.(*payloads.DiscoverVersionsRequestPayload); !ok && o.dropNow() {
			return
		}
	}
}

func (o *obs) dropNow() bool {
	o.mu.Lock()
	defer o.mu.Unlock()
	if o.Drop && !o.Dropped {
		o.Dropped = true
		return true
	}
	return false
}

// the library's own executor as the peer
func serveOwn(conn net.Conn, ex *kmipserver.BatchExecutor, o *obs) {
	st := ttlv.NewStream(conn, -1)
	defer conn.Close()
	for {
		var req kmip.RequestMessage
		if err := st.Recv(&req); err != nil {
			return
		}
		_, isDisc := req.BatchItem[0].RequestPayload.(*payloads.DiscoverVersionsRequestPayload)
		resp := ex.HandleRequest(context.Background(), &req)
		o.mu.Lock()
		if isDisc {
			o.Discoveries++
			o.DiscVer = idx(req.Header.ProtocolVersion)
			for _, v := range req.BatchItem[0].RequestPayload.(*payloads.DiscoverVersionsRequestPayload).ProtocolVersion {
				o.Offered = append(o.Offered, idx(v))
			}
			bi := resp.BatchItem[0]
			switch pl := bi.ResponsePayload.(type) {
			case *payloads.DiscoverVersionsResponsePayload:
				o.Reply = []int{}
				for _, v := range pl.ProtocolVersion {
					o.Reply = append(o.Reply, idx(v))
				}
			case *payloads.DiscoverVersionsRequestPayload: // the executor answers with the request type (same layout)
				o.Reply = []int{}
				for _, v := range pl.ProtocolVersion {
					o.Reply = append(o.Reply, idx(v))
				}
			default:
				if bi.ResultReason == kmip.ResultReasonOperationNotSupported {
					o.Reply = []int{none}
				} else {
					o.Reply = []int{otherErr}
				}
			}
		} else {
			o.Sent = append(o.Sent, idx(req.Header.ProtocolVersion))
		}
		o.mu.Unlock()
		if err := st.Send(resp); err != nil {
			return
		}
		if !isDisc && o.dropNow() {
			return
		}
	}
}

// sharedOptions: see runOne
var sharedOptions bool
var optCache = map[string]kmipclient.Option{}

func cachedVersions(list []kmip.ProtocolVersion) kmipclient.Option {
	k := fmt.Sprint(list)
	if o, ok := optCache[k]; ok {
		return o
	}
	backing := make([]kmip.ProtocolVersion, 0, len(list)+9)
	backing = append(backing, list...)
	backing = append(backing, list[0])
	o := kmipclient.WithKmipVersions(backing...)
	optCache[k] = o
	return o
}

var dropFirstConn bool
var builds int

func runOne(C []int, enforced int, nreq int, serve func(net.Conn, *obs)) *obs {
	o := &obs{Adopted: none, Offered: []int{}, Sent: []int{}, Reply: []int{}, Drop: dropFirstConn}
	dial := func(ctx context.Context) (net.Conn, error) {
		a, b := net.Pipe()
		go serve(b, o)
		return a, nil
	}
	opts := []kmipclient.Option{kmipclient.WithDialerUnsafe(dial)}
	var vs []kmip.ProtocolVersion
	// hand the versions over in a scrambled order: the option is documented to sort them
	for k := range C {
		vs = append(vs, ver(C[(k*2+1)%len(C)]))
	}
	seen := map[int]bool{}
	for _, v := range vs {
		seen[idx(v)] = true
	}
	for _, c := range C {
		if !seen[c] {
			vs = append(vs, ver(c))
		}
	}
	if sharedOptions && len(C) == 5 {
		// the full set is the library's default: no version option at all (the default list belongs to the package, every
		// default-configured client of the process uses it)
	} else if sharedOptions {
		// configuration is a value: the options are built once per distinct list (with a duplicate and spare capacity, as a caller
		// slicing a larger array would), reused by every later dial, and the set is given by two options
		h := len(vs)/2 + 1
		if h > len(vs) {
			h = len(vs)
		}
		opts = append(opts, cachedVersions(vs[:h]))
		if h < len(vs) {
			opts = append(opts, cachedVersions(vs[h:]))
		}
	} else {
		opts = append(opts, kmipclient.WithKmipVersions(vs...))
	}
	if enforced != none {
		opts = append(opts, kmipclient.EnforceVersion(ver(enforced)))
	}
	func() {
		defer func() {
			if r := recover(); r != nil {
				o.Panic = vh.PanicSig(r)
				o.Outcome = "panic"
			}
		}()
		// every third client is built by DialCluster (a list of one server): the same negotiation, another constructor
		builds++
		var cl *kmipclient.Client
		var err error
		if builds%3 == 0 {
			cl, err = kmipclient.DialCluster([]string{"mem"}, opts...)
		} else {
			cl, err = kmipclient.Dial("mem", opts...)
		}
		if err != nil {
			o.Outcome = "failed"
			o.Err = err.Error()
			return
		}
		defer cl.Close()
		o.Outcome = "connected"
		o.Adopted = idx(cl.Version())
		for k := 0; k < nreq; k++ {
			c := cl
			if k == nreq-1 { // the last request goes through a clone
				cc, err := cl.Clone()
				if err != nil {
					o.Err = "clone: " + err.Error()
					return
				}
				defer cc.Close()
				c = cc
			}
			if _, err := c.Request(context.Background(), &payloads.ActivateRequestPayload{UniqueIdentifier: "x"}); err != nil {
				o.Err = "request: " + err.Error()
				return
			}
		}
	}()
	return o
}

func eq(a, b []int) bool {
	if len(a) != len(b) {
		return false
	}
	for i := range a {
		if a[i] != b[i] {
			return false
		}
	}
	return true
}

func key(C []int, enforced int, reply []int) string { return fmt.Sprint(C, enforced, reply) }

func TestReplay(t *testing.T) {
	casesPath := vh.Env("VERIF_CASES", "")
	if casesPath == "" {
		t.Skip("VERIF_CASES not set")
	}
	cases, err := vh.ReadNDJSON[Case](casesPath)
	if err != nil {
		t.Fatal(err)
	}
	out, err := vh.NewWriter(vh.Env("VERIF_OUT", "negotiate_results.ndjson"))
	if err != nil {
		t.Fatal(err)
	}
	defer out.Close()
	trace, _ := vh.NewWriter(vh.Env("VERIF_TRACE", "negotiate_trace.ndjson"))
	defer trace.Close()
	byKey := map[string]Case{}
	mism := 0
	emitTrace := func(peer string, C []int, enforced int, o *obs) {
		trace.Emit(map[string]any{"ev": "conf", "C": C, "enforced": enforced, "peer": peer})
		if enforced == none {
			trace.Emit(map[string]any{"ev": "offer", "list": o.Offered})
			trace.Emit(map[string]any{"ev": "reply", "list": o.Reply})
		}
		trace.Emit(map[string]any{"ev": "result", "outcome": o.Outcome, "adopted": o.Adopted})
		for k, v := range o.Sent {
			trace.Emit(map[string]any{"ev": "req", "v": v})
			if k == 0 && o.Dropped {
				trace.Emit(map[string]any{"ev": "reconnect", "discoveries": o.Discoveries})
			}
		}
	}
	for n, c := range cases {
		byKey[key(c.C, c.Enforced, c.Reply)] = c
		reply := c.Reply
		dropFirstConn = n%2 == 1
		o := runOne(c.C, c.Enforced, 3, func(conn net.Conn, o *obs) { serveScripted(conn, reply, o) })
		dropFirstConn = false
		emitTrace("scripted", c.C, c.Enforced, o)
		var diffs []string
		if want := boolInt(c.Enforced == none); o.Discoveries != want {
			diffs = append(diffs, fmt.Sprintf("discoveries=%d-instead-of-%d", o.Discoveries, want))
		}
		if o.Err != "" && o.Outcome == "connected" {
			diffs = append(diffs, "request-error")
		}
		if o.Outcome != c.Outcome {
			diffs = append(diffs, "outcome")
		}
		if o.Adopted != c.Adopted {
			diffs = append(diffs, "adopted")
		}
		if c.Enforced == none && !eq(o.Offered, c.Offered) {
			diffs = append(diffs, "offered")
		}
		if o.Outcome == "connected" && !eq(o.Sent, c.Sent) {
			diffs = append(diffs, "sent")
		}
		if len(diffs) > 0 {
			mism++
			out.Emit(map[string]any{"case": n, "peer": "scripted", "diffs": diffs, "expect": c, "got": o})
		}
	}
	// the library's own executor as a conformant peer, for every client set x server set; in this pass the option values are shared
	sharedOptions = true
	defer func() { sharedOptions = false }()
	own := 0
	nreq := 3
	for _, c := range cases {
		if c.Enforced != none || !(len(c.Reply) == 0) { // one pass per distinct C: pick the cases with the empty reply
			continue
		}
		for mask := 0; mask < 32; mask++ {
			var S []kmip.ProtocolVersion
			for b := 4; b >= 0; b-- {
				if mask&(1<<b) != 0 {
					S = append(S, ver(b))
				}
			}
			if len(S) == 0 {
				continue // SetSupportedProtocolVersions() with no argument means "default", not "none"
			}
			ex := kmipserver.NewBatchExecutor()
			ex.SetSupportedProtocolVersions(S...)
			ex.Route(kmip.OperationActivate, kmipserver.HandleFunc(func(ctx context.Context, req *payloads.ActivateRequestPayload) (*payloads.ActivateResponsePayload, error) {
				return &payloads.ActivateResponsePayload{UniqueIdentifier: req.UniqueIdentifier}, nil
			}))
			dropFirstConn = mask%2 == 1
			o := runOne(c.C, none, nreq, func(conn net.Conn, o *obs) { serveOwn(conn, ex, o) })
			dropFirstConn = false
			own++
			emitTrace("own", c.C, none, o)
			exp, ok := byKey[key(c.C, none, o.Reply)]
			var diffs []string
			if !ok {
				diffs = append(diffs, "reply-not-in-model")
			} else {
				if o.Outcome != exp.Outcome {
					diffs = append(diffs, "outcome")
				}
				if o.Adopted != exp.Adopted {
					diffs = append(diffs, "adopted")
				}
				// follow-up requests may legitimately be refused by a server that does not support the adopted
				// version; what was sent must carry the adopted version
				for _, v := range o.Sent {
					if v != o.Adopted {
						diffs = append(diffs, "sent")
						break
					}
				}
			}
			if len(diffs) > 0 {
				mism++
				out.Emit(map[string]any{"peer": "own", "S": mask, "diffs": diffs, "expect": exp, "got": o, "C": c.C})
			}
		}
	}
	out.Emit(map[string]any{"summary": true, "cases": len(cases), "own": own, "mismatches": mism})
}

func boolInt(b bool) int {
	if b {
		return 1
	}
	return 0
}
