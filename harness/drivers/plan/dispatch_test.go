package plan

// TestDispatch (C06): the cases enumerated by TLC from spec/Dispatch.tla. Messages are assembled with the
// independent encoder (refwire) so that dispatch is exercised through an actual decode; the expected Go
// type comes from the harness's own constructor tables, not from the library's registries.

import (
	"bytes"
	"encoding/json"
	"fmt"
	"math/big"
	"os"
	"reflect"
	"strings"
	"sync"
	"testing"
	"time"

	"github.com/ovh/kmip-go"
	"github.com/ovh/kmip-go/payloads"
	"github.com/ovh/kmip-go/ttlv"

	"verifharness/refwire"
	"verifharness/vh"
)

type DispatchCase struct {
	Kind   string `json:"kind"`
	Code   int    `json:"code"`
	Name   string `json:"name"`
	Dir    int    `json:"dir"`
	Enc    string `json:"enc"`
	Expect string `json:"expect"`
	Status int    `json:"status"` // op cases, responses: result status of the item
	Ver    int    `json:"ver"`    // op cases: minor version of the message header
	// objsrc cases
	Carrier string `json:"carrier"`
	Field   int    `json:"field"`
	Attr    int    `json:"attr"`
	Content int    `json:"content"`
}

func bigOf(n int64) *big.Int { return big.NewInt(n) }

func u32(n uint32) []byte { return []byte{byte(n >> 24), byte(n >> 16), byte(n >> 8), byte(n)} }

func enumItem(tag int, v uint32) *refwire.Item { return &refwire.Item{Tag: tag, Type: 5, Raw: u32(v)} }

// opaqueText: text carried in positions the library keeps opaque. A peer need not write UTF-8 (ISO 8859-1 here): in the binary encoding
// the bytes of such a value are kept as they are; XML and JSON documents can only carry valid text.
var curEnc string

func opaqueText(s string) string {
	if curEnc == "ttlv" {
		return s + " caf\xe9 \xff\xfe"
	}
	return s
}

func textItem(tag int, s string) *refwire.Item {
	return &refwire.Item{Tag: tag, Type: 7, Raw: []byte(s)}
}
func structItem(tag int, kids ...*refwire.Item) *refwire.Item {
	return &refwire.Item{Tag: tag, Type: 1, Kids: kids}
}

func libItem(tag int, v any) (*refwire.Item, error) {
	enc := ttlv.NewTTLVEncoder()
	enc.TagAny(tag, v)
	return refwire.Parse(enc.Bytes(), true)
}

func sampleOfType(t int, k int) *refwire.Item {
	const tagV = 0x42000B // AttributeValue
	switch t {
	case 1:
		return structItem(tagV, textItem(0x540005, opaqueText("inner")))
	case 2:
		return &refwire.Item{Tag: tagV, Type: 2, Raw: u32(uint32(7 + k))}
	case 3:
		return &refwire.Item{Tag: tagV, Type: 3, Raw: append(u32(0), u32(9)...)}
	case 4:
		return &refwire.Item{Tag: tagV, Type: 4, Big: bigOf(-12345)}
	case 5:
		return &refwire.Item{Tag: tagV, Type: 5, Raw: u32(3)}
	case 6:
		return &refwire.Item{Tag: tagV, Type: 6, Raw: []byte{0, 0, 0, 0, 0, 0, 0, 1}}
	case 7:
		return &refwire.Item{Tag: tagV, Type: 7, Raw: []byte(opaqueText("text"))}
	case 8:
		return &refwire.Item{Tag: tagV, Type: 8, Raw: []byte{1, 2, 3, 4, 5}}
	case 9:
		return &refwire.Item{Tag: tagV, Type: 9, Raw: append(u32(0), u32(1700000000)...)}
	case 10:
		return &refwire.Item{Tag: tagV, Type: 10, Raw: u32(3600)}
	default:
		// a type the library does not know, 8 bytes of value
		return &refwire.Item{Tag: tagV, Type: t, Raw: []byte{0, 6, 0x3d, 0x2a, 0x1b, 0x3c, 0x4d, 0x5e}}
	}
}

// the harness's own tables: which Go type belongs to which code
var objectTable = map[kmip.ObjectType]kmip.Object{
	kmip.ObjectTypeCertificate: &kmip.Certificate{}, kmip.ObjectTypeSymmetricKey: &kmip.SymmetricKey{}, kmip.ObjectTypePublicKey: &kmip.PublicKey{},
	kmip.ObjectTypePrivateKey: &kmip.PrivateKey{}, kmip.ObjectTypeSplitKey: &kmip.SplitKey{}, kmip.ObjectTypeTemplate: &kmip.Template{},
	kmip.ObjectTypeSecretData: &kmip.SecretData{}, kmip.ObjectTypeOpaqueObject: &kmip.OpaqueObject{}, kmip.ObjectTypePGPKey: &kmip.PGPKey{},
}

// every type reachable from the messages, by name: used to build a sample of a pinned attribute value type
func typesByName() map[string]reflect.Type {
	res := map[string]reflect.Type{}
	seen := map[reflect.Type]bool{}
	var walk func(t reflect.Type)
	walk = func(t reflect.Type) {
		if seen[t] {
			return
		}
		seen[t] = true
		res[t.String()] = t
		switch t.Kind() {
		case reflect.Pointer, reflect.Slice, reflect.Array:
			walk(t.Elem())
		case reflect.Struct:
			if t == timeType || t == bigType {
				return
			}
			for i := 0; i < t.NumField(); i++ {
				if t.Field(i).IsExported() {
					walk(t.Field(i).Type)
				}
			}
		}
	}
	for _, t := range rootTypes() {
		walk(t)
	}
	for _, t := range []reflect.Type{reflect.TypeFor[string](), reflect.TypeFor[int32](), reflect.TypeFor[int64](), reflect.TypeFor[bool](), reflect.TypeFor[[]byte](),
		timeType, durType, reflect.TypeFor[kmip.CryptographicUsageMask](), reflect.TypeFor[kmip.State](), reflect.TypeFor[kmip.Digest](), reflect.TypeFor[kmip.Link](),
		reflect.TypeFor[kmip.UsageLimits](), reflect.TypeFor[kmip.RevocationReason](), reflect.TypeFor[kmip.ApplicationSpecificInformation](),
		reflect.TypeFor[kmip.CryptographicDomainParameters](), reflect.TypeFor[kmip.X_509CertificateIdentifier](), reflect.TypeFor[kmip.X_509CertificateSubject](),
		reflect.TypeFor[kmip.X_509CertificateIssuer](), reflect.TypeFor[kmip.CertificateIdentifier](), reflect.TypeFor[kmip.CertificateSubject](), reflect.TypeFor[kmip.CertificateIssuer](),
		reflect.TypeFor[kmip.AlternativeName](), reflect.TypeFor[kmip.KeyValueLocation](), reflect.TypeFor[kmip.RNGParameters](), reflect.TypeFor[kmip.CertificateType](), reflect.TypeFor[kmip.DigitalSignatureAlgorithm](), reflect.TypeFor[kmip.CryptographicAlgorithm](), reflect.TypeFor[kmip.ObjectType](), reflect.TypeFor[kmip.Name]()} {
		walk(t)
	}
	return res
}

// libItemAt: the item as the library writes it under a message header of version 1.minor (members introduced later are left out)
func libItemAt(tag int, minor int, v any) (*refwire.Item, error) {
	enc := ttlv.NewTTLVEncoder()
	enc.Struct(kmip.TagRequestMessage, func(x *ttlv.Encoder) {
		x.Any(kmip.RequestHeader{ProtocolVersion: kmip.ProtocolVersion{ProtocolVersionMajor: 1, ProtocolVersionMinor: int32(minor)}, BatchCount: 1})
		x.TagAny(tag, v)
	})
	root, err := refwire.Parse(enc.Bytes(), true)
	if err != nil {
		return nil, err
	}
	return root.Kids[1], nil
}

func header(dir int, minor ...int) *refwire.Item {
	var it *refwire.Item
	var err error
	pv := kmip.V1_4
	if len(minor) > 0 {
		pv = kmip.ProtocolVersion{ProtocolVersionMajor: 1, ProtocolVersionMinor: int32(minor[0])}
	}
	if dir == 1 {
		it, err = libItem(kmip.TagRequestHeader, kmip.RequestHeader{ProtocolVersion: pv, BatchCount: 1})
	} else {
		it, err = libItem(kmip.TagResponseHeader, kmip.ResponseHeader{ProtocolVersion: pv, TimeStamp: sampleTime, BatchCount: 1})
	}
	if err != nil {
		panic(err)
	}
	return it
}

func message(dir int, item *refwire.Item, minor ...int) []byte {
	tag := kmip.TagRequestMessage
	if dir != 1 {
		tag = kmip.TagResponseMessage
	}
	return refwire.Encode(structItem(tag, header(dir, minor...), item))
}

// viaEncoding converts the binary message generically (ttlv.Value, no typed dispatch) and decodes it with the
// typed target; returns the decoded message and its binary re-encoding
var docCache = map[string][]byte{}

// extendRegistry: what an application with vendor extensions does at any time: more values of standard enumerations get names.
// What a standard item decodes to does not depend on it.
func extendRegistry() {
	ttlv.RegisterEnum(kmip.TagOperation, map[kmip.Operation]string{kmip.Operation(0x80000321): "VendorOperation"})
	ttlv.RegisterEnum(kmip.TagObjectType, map[kmip.ObjectType]string{kmip.ObjectType(0x80000322): "VendorObject"})
	ttlv.RegisterEnum(kmip.TagResultStatus, map[kmip.ResultStatus]string{kmip.ResultStatus(0x80000323): "VendorStatus"})
	ttlv.RegisterEnum(kmip.TagResultReason, map[kmip.ResultReason]string{kmip.ResultReason(0x80000324): "VendorReason"})
	ttlv.RegisterEnum(kmip.TagState, map[kmip.State]string{kmip.State(0x80000325): "VendorState"})
	ttlv.RegisterEnum(kmip.TagCryptographicAlgorithm, map[kmip.CryptographicAlgorithm]string{kmip.CryptographicAlgorithm(0x80000326): "VendorAlgorithm"})
}

func viaEncoding(enc string, bin []byte, dir int) (any, []byte, error) {
	var target any = new(kmip.RequestMessage)
	if dir != 1 {
		target = new(kmip.ResponseMessage)
	}
	var err error
	func() {
		defer func() {
			if r := recover(); r != nil {
				err = fmt.Errorf("panic: %s", vh.PanicSig(r))
			}
		}()
		switch enc {
		case "ttlv":
			err = ttlv.UnmarshalTTLV(bin, target)
		default:
			// the document is written once (first pass) and kept: a peer's document does not change when this process extends
			// its registry afterwards
			key := enc + ":" + string(bin)
			doc, ok := docCache[key]
			if !ok {
				var generic ttlv.Value
				if err = ttlv.UnmarshalTTLV(bin, &generic); err != nil {
					err = fmt.Errorf("harness: generic decode: %w", err)
					return
				}
				if enc == "xml" {
					doc = ttlv.MarshalXML(generic)
				} else {
					doc = ttlv.MarshalJSON(generic)
				}
				docCache[key] = append([]byte(nil), doc...)
			}
			if enc == "xml" {
				err = ttlv.UnmarshalXML(doc, target)
			} else {
				err = ttlv.UnmarshalJSON(doc, target)
			}
		}
	}()
	if err != nil {
		return nil, nil, err
	}
	var re []byte
	func() {
		defer func() {
			if r := recover(); r != nil {
				err = fmt.Errorf("panic on re-encoding: %s", vh.PanicSig(r))
			}
		}()
		re = ttlv.MarshalTTLV(target)
	}()
	return target, re, err
}

// registeredOps: operations this application registers payload types for (the types of Activate, for want of others)
var registeredOps = []kmip.Operation{0x80000451, 0x00000765, 0xFFFFFFF0}

func TestDispatch(t *testing.T) {
	casesPath := vh.Env("VERIF_CASES", "")
	if casesPath == "" {
		t.Skip("VERIF_CASES not set")
	}
	for _, op := range registeredOps {
		kmip.RegisterOperationPayload[payloads.ActivateRequestPayload, payloads.ActivateResponsePayload](op)
	}
	cases, err := vh.ReadNDJSON[DispatchCase](casesPath)
	if err != nil {
		t.Fatal(err)
	}
	out, err := vh.NewWriter(vh.Env("VERIF_OUT", "dispatch_results.ndjson"))
	if err != nil {
		t.Fatal(err)
	}
	defer out.Close()
	byOp := map[kmip.Operation]opEntry{}
	for _, e := range opTable {
		byOp[e.Op] = e
	}
	tbn := typesByName()
	pinnedAttr := map[string]string{}
	{
		var ref struct {
			Attributes [][]string `json:"attributes"`
		}
		b, err := os.ReadFile(vh.Env("VERIF_DISPATCH", ""))
		if err != nil {
			t.Fatal(err)
		}
		if err := json.Unmarshal(b, &ref); err != nil {
			t.Fatal(err)
		}
		for _, a := range ref.Attributes {
			pinnedAttr[a[0]] = a[1]
		}
	}
	skipped := 0
	type opTuple struct {
		bin      []byte
		dir      int
		wantType string
		op       kmip.Operation
	}
	var tuples []opTuple
	// every case is replayed twice in this process, the second time in reverse order: the outcome of a case is a function of the
	// case, not of what the process did before (memos, pools and lazily built tables keyed by too little would show here)
	n0 := len(cases)
	for k := n0 - 1; k >= 0; k-- {
		cases = append(cases, cases[k])
	}
	for i, c := range cases {
		curEnc = c.Enc
		if i == n0 {
			extendRegistry() // between the two passes
		}
		var probs []string
		codes := []int{c.Code}
		if c.Kind == "op" && c.Name == "" && c.Code == 2147483647 {
			codes = append(codes, 0x80000000, 0xFFFFFFFF) // beyond TLC's integer range
		}
		if c.Kind == "obj" && c.Expect == "error" && c.Code == 2147483647 {
			codes = append(codes, 0x80000000, 0x80000001, 0x80000041, 0xFFFFFFFF) // the extension range: unknown there, too
		}
		for _, code := range codes {
			switch c.Kind {
			case "op":
				op := kmip.Operation(uint32(code))
				ptag := kmip.TagRequestPayload
				if c.Dir != 1 {
					ptag = kmip.TagResponsePayload
				}
				var payload *refwire.Item
				var wantType string
				if e, ok := byOp[op]; ok && c.Expect == "typed" {
					pl := e.Req
					if c.Dir != 1 {
						pl = e.Resp
					}
					sample := buildPayload(pl, full, i)
					fixupPayload(sample)
					payload, err = libItemAt(ptag, c.Ver, sample)
					if err != nil {
						probs = append(probs, "harness:cannot-build-payload:"+err.Error())
						continue
					}
					wantType = reflect.TypeOf(pl).String()
				} else if c.Expect == "typed" {
					probs = append(probs, "drift:operation-not-in-the-harness-table")
					continue
				} else {
					payload = structItem(ptag, textItem(0x540010, opaqueText("opaque")), &refwire.Item{Tag: 0x42000F, Type: 2, Raw: u32(5)})
					wantType = "*kmip.UnknownPayload"
				}
				kids := []*refwire.Item{enumItem(kmip.TagOperation, uint32(code))}
				if c.Dir != 1 {
					kids = append(kids, enumItem(kmip.TagResultStatus, uint32(c.Status)))
					if c.Status == 1 {
						kids = append(kids, enumItem(kmip.TagResultReason, uint32(kmip.ResultReasonGeneralFailure)))
					}
				}
				kids = append(kids, payload)
				bin := message(c.Dir, structItem(kmip.TagBatchItem, kids...), c.Ver)
				msg, re, err := viaEncoding(c.Enc, bin, c.Dir)
				if err != nil {
					probs = append(probs, fmt.Sprintf("decode-error:0x%08X:%v", uint32(code), err))
					continue
				}
				var pl kmip.OperationPayload
				if c.Dir == 1 {
					pl = msg.(*kmip.RequestMessage).BatchItem[0].RequestPayload
				} else {
					pl = msg.(*kmip.ResponseMessage).BatchItem[0].ResponsePayload
				}
				if pl == nil {
					probs = append(probs, fmt.Sprintf("payload-missing:0x%08X", uint32(code)))
					continue
				}
				if got := reflect.TypeOf(pl).String(); got != wantType {
					probs = append(probs, fmt.Sprintf("wrong-type:0x%08X:got=%s:want=%s", uint32(code), got, wantType))
				} else if c.Enc == "ttlv" && c.Expect == "typed" {
					tuples = append(tuples, opTuple{bin: bin, dir: c.Dir, wantType: wantType, op: op})
				}
				if pl.Operation() != op {
					probs = append(probs, fmt.Sprintf("payload-reports-operation:0x%08X:instead-of:0x%08X", uint32(pl.Operation()), uint32(code)))
				}
				if c.Expect == "opaque" && !bytes.Equal(re, bin) {
					probs = append(probs, fmt.Sprintf("opaque-payload-not-preserved:0x%08X", uint32(code)))
				}
			case "opreg":
				op := registeredOps[code-1]
				var msg any
				wantType := "*payloads.ActivateRequestPayload"
				if c.Dir == 1 {
					m := kmip.NewRequestMessage(kmip.V1_4, &payloads.ActivateRequestPayload{UniqueIdentifier: "id"})
					m.BatchItem[0].Operation = op
					msg = &m
				} else {
					wantType = "*payloads.ActivateResponsePayload"
					msg = &kmip.ResponseMessage{Header: kmip.ResponseHeader{ProtocolVersion: kmip.V1_4, TimeStamp: time.Unix(1700000000, 0), BatchCount: 1},
						BatchItem: []kmip.ResponseBatchItem{{Operation: op, ResponsePayload: &payloads.ActivateResponsePayload{UniqueIdentifier: "id"}}}}
				}
				bin := ttlv.MarshalTTLV(msg)
				dec, _, err := viaEncoding(c.Enc, bin, c.Dir)
				if err != nil {
					probs = append(probs, fmt.Sprintf("decode-error:0x%08X:%v", uint32(op), err))
					continue
				}
				var pl kmip.OperationPayload
				if c.Dir == 1 {
					pl = dec.(*kmip.RequestMessage).BatchItem[0].RequestPayload
				} else {
					pl = dec.(*kmip.ResponseMessage).BatchItem[0].ResponsePayload
				}
				if got := fmt.Sprintf("%T", pl); got != wantType {
					probs = append(probs, fmt.Sprintf("wrong-type:0x%08X:got=%s:want=%s", uint32(op), got, wantType))
				}
			case "obj":
				ot := kmip.ObjectType(uint32(code))
				want, known := objectTable[ot]
				var objItem *refwire.Item
				if known {
					ov := build(reflect.TypeOf(want).Elem(), minimal, i, 3)
					p := reflect.New(reflect.TypeOf(want).Elem())
					p.Elem().Set(ov)
					objItem, err = libItem(nameToTag[reflect.TypeOf(want).Elem().Name()], p.Interface())
				} else {
					objItem, err = libItem(kmip.TagSymmetricKey, &kmip.SymmetricKey{KeyBlock: sampleKeyBlock()})
				}
				if err != nil {
					probs = append(probs, "harness:cannot-build-object:"+err.Error())
					continue
				}
				payload := structItem(kmip.TagResponsePayload, enumItem(kmip.TagObjectType, uint32(code)), textItem(kmip.TagUniqueIdentifier, "id"), objItem)
				bin := message(2, structItem(kmip.TagBatchItem, enumItem(kmip.TagOperation, uint32(kmip.OperationGet)), enumItem(kmip.TagResultStatus, 0), payload))
				msg, _, err := viaEncoding(c.Enc, bin, 2)
				if c.Expect == "error" {
					if err == nil {
						rp := msg.(*kmip.ResponseMessage).BatchItem[0].ResponsePayload
						if pl, ok := rp.(*payloads.GetResponsePayload); ok {
							probs = append(probs, fmt.Sprintf("unknown-object-type-accepted:0x%08X:as:%T", uint32(code), pl.Object))
						} else {
							probs = append(probs, fmt.Sprintf("unknown-object-type-accepted:0x%08X:payload-decoded-as:%T", uint32(code), rp))
						}
					} else if strings.HasPrefix(err.Error(), "panic") {
						probs = append(probs, "panic:"+err.Error())
					}
					continue
				}
				if err != nil {
					probs = append(probs, fmt.Sprintf("decode-error:%v", err))
					continue
				}
				pl, ok := msg.(*kmip.ResponseMessage).BatchItem[0].ResponsePayload.(*payloads.GetResponsePayload)
				if !ok || pl.Object == nil {
					probs = append(probs, "object-missing")
					continue
				}
				if reflect.TypeOf(pl.Object) != reflect.TypeOf(want) {
					probs = append(probs, fmt.Sprintf("wrong-type:got=%T:want=%T", pl.Object, want))
				}
				if pl.Object.ObjectType() != ot {
					probs = append(probs, fmt.Sprintf("object-reports-type:0x%08X", uint32(pl.Object.ObjectType())))
				}
			case "objsrc":
				// the object actually present
				cw, ok := objectTable[kmip.ObjectType(uint32(c.Content))]
				if !ok {
					probs = append(probs, "drift:content-type-not-in-the-harness-table")
					continue
				}
				ov := build(reflect.TypeOf(cw).Elem(), minimal, i, 3)
				op := reflect.New(reflect.TypeOf(cw).Elem())
				op.Elem().Set(ov)
				objItem, err := libItem(nameToTag[reflect.TypeOf(cw).Elem().Name()], op.Interface())
				if err != nil {
					probs = append(probs, "harness:cannot-build-object:"+err.Error())
					continue
				}
				var attrs []*refwire.Item
				if c.Attr != 0 {
					attrs = append(attrs, structItem(kmip.TagAttribute, textItem(kmip.TagAttributeName, "Object Type"), enumItem(kmip.TagAttributeValue, uint32(c.Attr))))
				}
				attrs = append(attrs, structItem(kmip.TagAttribute, textItem(kmip.TagAttributeName, "Cryptographic Length"), &refwire.Item{Tag: kmip.TagAttributeValue, Type: 2, Raw: u32(128)}))
				dir, opc := 2, kmip.OperationGet
				var kids []*refwire.Item
				switch c.Carrier {
				case "get-response":
					kids = []*refwire.Item{enumItem(kmip.TagObjectType, uint32(c.Field)), textItem(kmip.TagUniqueIdentifier, "id"), objItem}
				case "export-response":
					opc = kmip.OperationExport
					kids = append([]*refwire.Item{enumItem(kmip.TagObjectType, uint32(c.Field)), textItem(kmip.TagUniqueIdentifier, "id")}, attrs...)
					kids = append(kids, objItem)
				case "register-request":
					dir, opc = 1, kmip.OperationRegister
					kids = []*refwire.Item{enumItem(kmip.TagObjectType, uint32(c.Field)), structItem(kmip.TagTemplateAttribute, attrs...), objItem}
				case "import-request":
					dir, opc = 1, kmip.OperationImport
					kids = append([]*refwire.Item{textItem(kmip.TagUniqueIdentifier, "id")}, attrs...)
					kids = append(kids, objItem)
				}
				ptag := kmip.TagResponsePayload
				bkids := []*refwire.Item{enumItem(kmip.TagOperation, uint32(opc))}
				if dir == 1 {
					ptag = kmip.TagRequestPayload
				} else {
					bkids = append(bkids, enumItem(kmip.TagResultStatus, 0))
				}
				bkids = append(bkids, structItem(ptag, kids...))
				bin := message(dir, structItem(kmip.TagBatchItem, bkids...))
				msg, _, err := viaEncoding(c.Enc, bin, dir)
				if err != nil && strings.HasPrefix(err.Error(), "panic") {
					probs = append(probs, "panic:"+err.Error())
					continue
				}
				var got kmip.Object
				var declared kmip.ObjectType
				if err == nil {
					var pl kmip.OperationPayload
					if dir == 1 {
						pl = msg.(*kmip.RequestMessage).BatchItem[0].RequestPayload
					} else {
						pl = msg.(*kmip.ResponseMessage).BatchItem[0].ResponsePayload
					}
					switch x := pl.(type) {
					case *payloads.GetResponsePayload:
						got, declared = x.Object, x.ObjectType
					case *payloads.ExportResponsePayload:
						got, declared = x.Object, x.ObjectType
					case *payloads.RegisterRequestPayload:
						got, declared = x.Object, x.ObjectType
					case *payloads.ImportRequestPayload:
						got, declared = x.Object, kmip.ObjectType(uint32(c.Attr))
					default:
						probs = append(probs, fmt.Sprintf("wrong-payload-type:%T", pl))
						continue
					}
				}
				if c.Expect == "error" {
					if err == nil {
						probs = append(probs, fmt.Sprintf("objsrc:accepted:%s:field=%d:attr=%d:content=%d:as:%T", c.Carrier, c.Field, c.Attr, c.Content, got))
					}
					continue
				}
				if err != nil {
					probs = append(probs, fmt.Sprintf("objsrc:decode-error:%s:field=%d:attr=%d:content=%d:%v", c.Carrier, c.Field, c.Attr, c.Content, err))
					continue
				}
				want := objectTable[kmip.ObjectType(uint32(c.Code))]
				if got == nil || reflect.TypeOf(got) != reflect.TypeOf(want) {
					probs = append(probs, fmt.Sprintf("objsrc:wrong-type:%s:field=%d:attr=%d:got=%T:want=%T", c.Carrier, c.Field, c.Attr, got, want))
				} else if uint32(got.ObjectType()) != uint32(c.Code) || uint32(declared) != uint32(c.Code) {
					probs = append(probs, fmt.Sprintf("objsrc:type-fields-disagree:%s:object=%d:declared=%d:governing=%d", c.Carrier, uint32(got.ObjectType()), uint32(declared), c.Code))
				}
			case "attr":
				name := c.Name
				var valItem *refwire.Item
				wantType := "ttlv.Value"
				if c.Expect == "typed" {
					// the pinned table of the specification names the Go type; find it among the reachable types
					pinned := pinnedAttr[c.Name]
					if pinned == "" {
						probs = append(probs, "harness:pinned-type-not-passed")
						continue
					}
					rt, ok := tbn[pinned]
					if !ok {
						skipped++
						continue
					}
					sample := build(rt, full, i, 3)
					valItem, err = libItem(kmip.TagAttributeValue, sample.Interface())
					if err != nil {
						probs = append(probs, "harness:cannot-build-value:"+err.Error())
						continue
					}
					wantType = pinned
				} else {
					if c.Dir == 1 { // a standard name in another letter case is not that attribute
						if i%2 == 0 {
							name = strings.ToLower(c.Name)
						} else {
							name = strings.ToUpper(c.Name)
						}
						if name == c.Name {
							continue
						}
					}
					valItem = sampleOfType(c.Code, i)
				}
				attr := structItem(kmip.TagAttribute, textItem(kmip.TagAttributeName, name), valItem)
				payload := structItem(kmip.TagResponsePayload, textItem(kmip.TagUniqueIdentifier, "id"), attr)
				bin := message(2, structItem(kmip.TagBatchItem, enumItem(kmip.TagOperation, uint32(kmip.OperationGetAttributes)), enumItem(kmip.TagResultStatus, 0), payload))
				msg, re, err := viaEncoding(c.Enc, bin, 2)
				if c.Expect == "opaque-or-error" {
					if err == nil && !bytes.Equal(re, bin) {
						probs = append(probs, fmt.Sprintf("unknown-item-type-accepted-but-not-preserved:type%d", c.Code))
					} else if err != nil && strings.HasPrefix(err.Error(), "panic") {
						probs = append(probs, "panic:"+err.Error())
					}
					continue
				}
				if c.Expect == "error" {
					if err == nil {
						got := "?"
						if pl, ok := msg.(*kmip.ResponseMessage).BatchItem[0].ResponsePayload.(*payloads.GetAttributesResponsePayload); ok && len(pl.Attribute) == 1 {
							got = fmt.Sprintf("%T", pl.Attribute[0].AttributeValue)
						}
						probs = append(probs, fmt.Sprintf("value-of-another-type-accepted:%q:type%d:as=%s", name, c.Code, got))
					} else if strings.HasPrefix(err.Error(), "panic") {
						probs = append(probs, "panic:"+err.Error())
					}
					continue
				}
				if err != nil {
					probs = append(probs, fmt.Sprintf("decode-error:%q:%v", name, err))
					continue
				}
				pl, ok := msg.(*kmip.ResponseMessage).BatchItem[0].ResponsePayload.(*payloads.GetAttributesResponsePayload)
				if !ok || len(pl.Attribute) != 1 {
					probs = append(probs, "attribute-missing")
					continue
				}
				got := reflect.TypeOf(pl.Attribute[0].AttributeValue)
				gs := "nil"
				if got != nil {
					gs = got.String()
				}
				if gs != wantType {
					probs = append(probs, fmt.Sprintf("wrong-type:%q:got=%s:want=%s", name, gs, wantType))
				}
				if c.Expect == "opaque" && !bytes.Equal(re, bin) {
					probs = append(probs, fmt.Sprintf("opaque-attribute-not-preserved:%q:type%d", name, c.Code))
				}
			}
		}
		if len(probs) > 0 {
			out.Emit(map[string]any{"case": i, "c": c, "problems": probs})
		}
	}
	// dispatch is a function of the message alone: the same messages decoded by many goroutines at once, each in another order,
	// must give the payload types the sequential pass gave
	conc := 0
	if len(tuples) > 1 {
		var wg sync.WaitGroup
		var mu sync.Mutex
		seen := map[string]bool{}
		const G, rounds = 16, 60
		for g := 0; g < G; g++ {
			wg.Add(1)
			go func(g int) {
				defer wg.Done()
				for r := 0; r < rounds; r++ {
					for k := range tuples {
						t := tuples[(k*(g+1)+g+r)%len(tuples)]
						var target any = new(kmip.RequestMessage)
						if t.dir != 1 {
							target = new(kmip.ResponseMessage)
						}
						problem := ""
						func() {
							defer func() {
								if rr := recover(); rr != nil {
									problem = "panic:" + vh.PanicSig(rr)
								}
							}()
							if err := ttlv.UnmarshalTTLV(t.bin, target); err != nil {
								problem = fmt.Sprintf("concurrent-decode-error:0x%08X:%v", uint32(t.op), err)
								return
							}
							var pl kmip.OperationPayload
							if t.dir == 1 {
								pl = target.(*kmip.RequestMessage).BatchItem[0].RequestPayload
							} else {
								pl = target.(*kmip.ResponseMessage).BatchItem[0].ResponsePayload
							}
							if pl == nil || reflect.TypeOf(pl).String() != t.wantType || pl.Operation() != t.op {
								problem = fmt.Sprintf("concurrent-wrong-type:0x%08X:got=%T:want=%s", uint32(t.op), pl, t.wantType)
							}
						}()
						if problem != "" {
							mu.Lock()
							if !seen[problem] {
								seen[problem] = true
								out.Emit(map[string]any{"case": -1, "c": DispatchCase{Kind: "op", Code: int(t.op), Dir: t.dir, Enc: "ttlv", Expect: "typed"}, "problems": []string{problem}})
							}
							mu.Unlock()
						}
					}
				}
			}(g)
		}
		wg.Wait()
		conc = G * rounds * len(tuples)
	}
	out.Emit(map[string]any{"summary": true, "cases": n0, "skipped": skipped, "concurrent_decodes": conc})
}
