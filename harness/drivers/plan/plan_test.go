// Driver for C01 / C05 (and the dispatch part of C06): the reflective struct codec.
//
// TestExtract (B4) dumps the PLAN - every structure reachable from the KMIP messages with its exported
// fields, resolved tags and ttlv annotations - for spec/Plan.tla.
// TestStructCases (B1) replays every (structure, population, version) case enumerated by TLC: the structure is
// materialised by reflection, encoded by the real encoder under a request header of that version in binary,
// XML and JSON, the emitted element tags (read with the independent parser refwire / encoding/json /
// encoding/xml) are compared with Plan.tla's EncTags, the decoded value is re-encoded and must give
// identical bytes.
// TestMessages: whole request / response messages for every operation, fully and minimally populated, at
// every protocol version: encode, independent parse, decode, re-encode identical; XML and JSON hops.
package plan

import (
	"bytes"
	"encoding/json"
	"encoding/xml"
	"fmt"
	"math/big"
	"os"
	"reflect"
	"sort"
	"strconv"
	"strings"
	"testing"
	"time"

	"github.com/ovh/kmip-go"
	"github.com/ovh/kmip-go/payloads"
	"github.com/ovh/kmip-go/ttlv"

	"verifharness/refwire"
	"verifharness/vh"
)

func TestMain(m *testing.M) { vh.Quiet(); os.Exit(m.Run()) }

// ---- the independent constructor table: operation -> (request, response) payload --------------------------

type opEntry struct {
	Op        kmip.Operation
	Req, Resp kmip.OperationPayload
}

var opTable = []opEntry{
	{kmip.OperationActivate, &payloads.ActivateRequestPayload{}, &payloads.ActivateResponsePayload{}},
	{kmip.OperationAddAttribute, &payloads.AddAttributeRequestPayload{}, &payloads.AddAttributeResponsePayload{}},
	{kmip.OperationArchive, &payloads.ArchiveRequestPayload{}, &payloads.ArchiveResponsePayload{}},
	{kmip.OperationRecover, &payloads.RecoverRequestPayload{}, &payloads.RecoverResponsePayload{}},
	{kmip.OperationCreate, &payloads.CreateRequestPayload{}, &payloads.CreateResponsePayload{}},
	{kmip.OperationCreateKeyPair, &payloads.CreateKeyPairRequestPayload{}, &payloads.CreateKeyPairResponsePayload{}},
	{kmip.OperationDeleteAttribute, &payloads.DeleteAttributeRequestPayload{}, &payloads.DeleteAttributeResponsePayload{}},
	{kmip.OperationDestroy, &payloads.DestroyRequestPayload{}, &payloads.DestroyResponsePayload{}},
	{kmip.OperationDiscoverVersions, &payloads.DiscoverVersionsRequestPayload{}, &payloads.DiscoverVersionsResponsePayload{}},
	{kmip.OperationEncrypt, &payloads.EncryptRequestPayload{}, &payloads.EncryptResponsePayload{}},
	{kmip.OperationDecrypt, &payloads.DecryptRequestPayload{}, &payloads.DecryptResponsePayload{}},
	{kmip.OperationGet, &payloads.GetRequestPayload{}, &payloads.GetResponsePayload{}},
	{kmip.OperationGetAttributeList, &payloads.GetAttributeListRequestPayload{}, &payloads.GetAttributeListResponsePayload{}},
	{kmip.OperationGetAttributes, &payloads.GetAttributesRequestPayload{}, &payloads.GetAttributesResponsePayload{}},
	{kmip.OperationGetUsageAllocation, &payloads.GetUsageAllocationRequestPayload{}, &payloads.GetUsageAllocationResponsePayload{}},
	{kmip.OperationImport, &payloads.ImportRequestPayload{}, &payloads.ImportResponsePayload{}},
	{kmip.OperationExport, &payloads.ExportRequestPayload{}, &payloads.ExportResponsePayload{}},
	{kmip.OperationLocate, &payloads.LocateRequestPayload{}, &payloads.LocateResponsePayload{}},
	{kmip.OperationModifyAttribute, &payloads.ModifyAttributeRequestPayload{}, &payloads.ModifyAttributeResponsePayload{}},
	{kmip.OperationObtainLease, &payloads.ObtainLeaseRequestPayload{}, &payloads.ObtainLeaseResponsePayload{}},
	{kmip.OperationQuery, &payloads.QueryRequestPayload{}, &payloads.QueryResponsePayload{}},
	{kmip.OperationRegister, &payloads.RegisterRequestPayload{}, &payloads.RegisterResponsePayload{}},
	{kmip.OperationReKey, &payloads.RekeyRequestPayload{}, &payloads.RekeyResponsePayload{}},
	{kmip.OperationReKeyKeyPair, &payloads.RekeyKeyPairRequestPayload{}, &payloads.RekeyKeyPairResponsePayload{}},
	{kmip.OperationRevoke, &payloads.RevokeRequestPayload{}, &payloads.RevokeResponsePayload{}},
	{kmip.OperationSign, &payloads.SignRequestPayload{}, &payloads.SignResponsePayload{}},
	{kmip.OperationSignatureVerify, &payloads.SignatureVerifyRequestPayload{}, &payloads.SignatureVerifyResponsePayload{}},
}

var (
	tagEncodable = reflect.TypeFor[ttlv.TagEncodable]()
	tagDecodable = reflect.TypeFor[ttlv.TagDecodable]()
	timeType     = reflect.TypeFor[time.Time]()
	bigType      = reflect.TypeFor[big.Int]()
	durType      = reflect.TypeFor[time.Duration]()
	nameToTag    = map[string]int{}
)

func init() {
	for tag := 0x420000; tag <= 0x420400; tag++ {
		if n := ttlv.TagString(tag); !strings.HasPrefix(n, "0x") {
			nameToTag[n] = tag
		}
	}
}

func hasCustomEncoder(t reflect.Type) bool {
	return t.Implements(tagEncodable) || reflect.PointerTo(t).Implements(tagEncodable)
}

func hasCustomDecoder(t reflect.Type) bool {
	return t.Implements(tagDecodable) || reflect.PointerTo(t).Implements(tagDecodable)
}

// casePlans: the structures Plan.tla's per-structure cases apply to - encoded AND decoded by the reflective
// codec, all of whose members can be populated independently of their siblings. Structures with hand-written
// decoders (their members depend on one another: key format / object type / credential type select the
// alternative) and their direct users are exercised through whole messages instead.
func casePlans() (res []StructPlan, excluded []string) {
	for _, sp := range allPlans() {
		ok := !hasCustomDecoder(sp.typ)
		for i := 0; ok && i < sp.typ.NumField(); i++ {
			ft := deref(sp.typ.Field(i).Type)
			if ft.Kind() == reflect.Slice && ft.Elem().Kind() != reflect.Uint8 {
				ft = deref(ft.Elem())
			}
			if ft.Kind() == reflect.Struct && ft != timeType && ft != bigType && hasCustomEncoder(ft) {
				if ft != reflect.TypeFor[ttlv.Struct]() && ft != reflect.TypeFor[ttlv.Value]() {
					ok = false
				}
			}
		}
		if ok {
			res = append(res, sp)
		} else {
			excluded = append(excluded, sp.Name)
		}
	}
	return
}

func isPlainStruct(t reflect.Type) bool {
	return t.Kind() == reflect.Struct && t != timeType && t != bigType && !hasCustomEncoder(t)
}

// ---- plan extraction ---------------------------------------------------------------------------------------

type FieldPlan struct {
	Name   string `json:"name"`
	Tag    int    `json:"tag"`
	Kind   string `json:"kind"`
	VMin   int    `json:"vmin"`
	SetVer bool   `json:"setver"`
	idx    int
}
type StructPlan struct {
	Name   string      `json:"name"`
	Fields []FieldPlan `json:"fields"`
	typ    reflect.Type
}

func deref(t reflect.Type) reflect.Type {
	for t.Kind() == reflect.Pointer {
		t = t.Elem()
	}
	return t
}

func fieldTag(f reflect.StructField, tagVal string) int {
	if tagVal != "" {
		if strings.HasPrefix(tagVal, "0x") {
			n, _ := strconv.ParseInt(tagVal[2:], 16, 0)
			return int(n)
		}
		return nameToTag[tagVal]
	}
	if t, ok := nameToTag[f.Name]; ok {
		return t
	}
	ft := deref(f.Type)
	if (ft.Kind() == reflect.Slice || ft.Kind() == reflect.Array) && ft.Elem().Kind() != reflect.Uint8 {
		ft = deref(ft.Elem())
	}
	return nameToTag[ft.Name()]
}

func planOf(t reflect.Type) StructPlan {
	sp := StructPlan{Name: t.String(), typ: t, Fields: []FieldPlan{}}
	for i := 0; i < t.NumField(); i++ {
		f := t.Field(i)
		if !f.IsExported() {
			continue
		}
		tagVal, _ := f.Tag.Lookup("ttlv")
		parts := strings.Split(tagVal, ",")
		if parts[0] == "-" {
			continue
		}
		fp := FieldPlan{Name: f.Name, idx: i, Tag: fieldTag(f, parts[0])}
		omit := false
		for _, p := range parts[1:] {
			switch {
			case p == "omitempty":
				omit = true
			case p == "set-version":
				fp.SetVer = true
			case strings.HasPrefix(p, "version="):
				r := strings.TrimPrefix(p, "version=")
				lo := strings.Split(r, "..")[0]
				lo = strings.TrimPrefix(lo, "v")
				if mm := strings.Split(lo, "."); len(mm) == 2 {
					fp.VMin, _ = strconv.Atoi(mm[1])
				}
				if hi := strings.Split(r, ".."); len(hi) == 2 && hi[1] != "" {
					fp.VMin = -100 // an upper bound: not expected anywhere (drift guard)
				}
			}
		}
		ft := f.Type
		switch {
		case ft.Kind() == reflect.Slice && ft.Elem().Kind() != reflect.Uint8 && !hasCustomEncoder(ft):
			fp.Kind = "rep"
		case ft.Kind() == reflect.Pointer || omit:
			fp.Kind = "opt"
		case ft.Kind() == reflect.Interface:
			fp.Kind = "req" // interface members are never nil in a well-formed message
			if fp.Tag == 0 && ft == objType {
				fp.Tag = nameToTag["SymmetricKey"] // untagged managed object member: the tag is the concrete type's (the populator uses a symmetric key)
			}
		default:
			fp.Kind = "req"
		}
		sp.Fields = append(sp.Fields, fp)
	}
	return sp
}

func rootTypes() []reflect.Type {
	ts := []reflect.Type{reflect.TypeFor[kmip.RequestHeader](), reflect.TypeFor[kmip.ResponseHeader]()}
	for _, e := range opTable {
		ts = append(ts, reflect.TypeOf(e.Req).Elem(), reflect.TypeOf(e.Resp).Elem())
	}
	for _, o := range []kmip.Object{&kmip.SecretData{}, &kmip.Certificate{}, &kmip.SymmetricKey{}, &kmip.PublicKey{}, &kmip.PrivateKey{}, &kmip.SplitKey{}, &kmip.OpaqueObject{}, &kmip.Template{}, &kmip.PGPKey{}} {
		ts = append(ts, reflect.TypeOf(o).Elem())
	}
	ts = append(ts, reflect.TypeFor[kmip.KeyBlock](), reflect.TypeFor[kmip.KeyWrappingData](), reflect.TypeFor[kmip.TransparentRSAPrivateKey](),
		reflect.TypeFor[kmip.TransparentECPrivateKey](), reflect.TypeFor[kmip.TransparentECPublicKey](), reflect.TypeFor[kmip.TransparentRSAPublicKey](),
		reflect.TypeFor[kmip.TransparentSymmetricKey](), reflect.TypeFor[kmip.Credential](), reflect.TypeFor[kmip.Attribute](), reflect.TypeFor[kmip.PlainKeyValue]())
	return ts
}

func allPlans() []StructPlan {
	seen := map[reflect.Type]bool{}
	var order []reflect.Type
	var walk func(t reflect.Type)
	walk = func(t reflect.Type) {
		t = deref(t)
		if t.Kind() == reflect.Slice || t.Kind() == reflect.Array {
			walk(t.Elem())
			return
		}
		if t.Kind() != reflect.Struct || t == timeType || t == bigType || seen[t] {
			return
		}
		seen[t] = true
		if !hasCustomEncoder(t) {
			order = append(order, t)
		}
		for i := 0; i < t.NumField(); i++ {
			if t.Field(i).IsExported() {
				walk(t.Field(i).Type)
			}
		}
	}
	for _, t := range rootTypes() {
		walk(t)
	}
	var res []StructPlan
	for _, t := range order {
		res = append(res, planOf(t))
	}
	sort.Slice(res, func(i, j int) bool { return res[i].Name < res[j].Name })
	return res
}

func TestExtract(t *testing.T) {
	path := vh.Env("VERIF_OUT", "")
	if path == "" {
		t.Skip("VERIF_OUT not set")
	}
	plans, excluded := casePlans()
	ops := map[string][2]string{}
	for op, ts := range kmip.VerifOperationTypes() {
		ops[ttlv.EnumStr(op)] = ts
	}
	objs := map[string]string{}
	for ot, n := range kmip.VerifObjectTypes() {
		objs[ttlv.EnumStr(ot)] = n
	}
	attrs := map[string]string{}
	for an, n := range kmip.VerifAttributeTypes() {
		attrs[string(an)] = n
	}
	b, _ := json.Marshal(map[string]any{"structs": plans, "excluded": excluded, "operations": ops, "objects": objs, "attributes": attrs})
	if err := os.WriteFile(path, b, 0o644); err != nil {
		t.Fatal(err)
	}
}

// ---- population ------------------------------------------------------------------------------------------------

type popMode int

const (
	minimal popMode = iota // required members only
	full                   // every optional member present, slices with two elements
)

var sampleTime = time.Unix(1700000000, 0)

func sampleAttribute(k int) kmip.Attribute {
	switch k % 4 {
	case 0:
		if k%8 == 0 {
			zero := int32(0) // an explicit index 0 is an element of the message like any other
			return kmip.Attribute{AttributeName: kmip.AttributeNameState, AttributeIndex: &zero, AttributeValue: kmip.StateActive}
		}
		return kmip.Attribute{AttributeName: kmip.AttributeNameState, AttributeValue: kmip.StateActive}
	case 1:
		idx := int32(1)
		return kmip.Attribute{AttributeName: kmip.AttributeNameName, AttributeIndex: &idx, AttributeValue: kmip.Name{NameValue: "n", NameType: kmip.NameTypeUninterpretedTextString}}
	case 3:
		return kmip.Attribute{AttributeName: kmip.AttributeNameCryptographicUsageMask, AttributeValue: kmip.CryptographicUsageEncrypt | kmip.CryptographicUsageDecrypt}
	}
	return kmip.Attribute{AttributeName: "x-custom", AttributeValue: "v"}
}

func sampleKeyBlock() kmip.KeyBlock {
	return kmip.KeyBlock{KeyFormatType: kmip.KeyFormatTypeRaw,
		KeyValue:               &kmip.KeyValue{Plain: &kmip.PlainKeyValue{KeyMaterial: kmip.KeyMaterial{Bytes: &[]byte{1, 2, 3, 4, 5, 6, 7, 8}}}},
		CryptographicAlgorithm: kmip.CryptographicAlgorithmAES, CryptographicLength: 64}
}

// custom-coded types get hand-made well-formed samples
func customSample(t reflect.Type, k int) (reflect.Value, bool) {
	switch t {
	case reflect.TypeFor[kmip.Attribute]():
		return reflect.ValueOf(sampleAttribute(k)), true
	case reflect.TypeFor[kmip.KeyBlock]():
		return reflect.ValueOf(sampleKeyBlock()), true
	case reflect.TypeFor[kmip.Credential]():
		return reflect.ValueOf(kmip.Credential{CredentialType: kmip.CredentialTypeUsernameAndPassword,
			CredentialValue: kmip.CredentialValue{UserPassword: &kmip.CredentialValueUserPassword{Username: "u", Password: "p"}}}), true
	case reflect.TypeFor[kmip.KeyValue]():
		return reflect.ValueOf(kmip.KeyValue{Plain: &kmip.PlainKeyValue{KeyMaterial: kmip.KeyMaterial{Bytes: &[]byte{9, 9}}}}), true
	case reflect.TypeFor[kmip.KeyMaterial]():
		return reflect.ValueOf(kmip.KeyMaterial{Bytes: &[]byte{7}}), true
	case reflect.TypeFor[ttlv.Struct]():
		if k%3 == 2 {
			// vendor-defined content nests as deep as the vendor likes
			v := ttlv.Value{Tag: 0x540002, Value: "deep"}
			for d := 0; d < 40+k%7; d++ {
				v = ttlv.Value{Tag: 0x540003 + d%2, Value: ttlv.Struct{v}}
			}
			return reflect.ValueOf(ttlv.Struct{v}), true
		}
		return reflect.ValueOf(ttlv.Struct{{Tag: 0x540002, Value: "ext"}}), true
	case reflect.TypeFor[ttlv.Value]():
		return reflect.ValueOf(ttlv.Value{Tag: 0x540003, Value: int32(5)}), true
	}
	return reflect.Value{}, false
}

func sampleScalar(t reflect.Type, k int) reflect.Value {
	v := reflect.New(t).Elem()
	switch {
	case t == timeType:
		switch k % 5 {
		case 3:
			v.Set(reflect.ValueOf(time.Unix(-62135596800, 0))) // 0001-01-01T00:00:00Z: an instant like any other (Go's zero time)
		case 4:
			v.Set(reflect.ValueOf(time.Unix(-1, 0))) // one second before 1970
		default:
			v.Set(reflect.ValueOf(sampleTime.Add(time.Duration(k) * time.Hour)))
		}
	case t == durType:
		// intervals are unsigned 32-bit seconds: the boundaries of the signed range are ordinary values
		secs := []int64{int64(3600 + k), 1 << 31, 1<<32 - 1, 1<<31 - 1}[k%4]
		v.SetInt(secs * int64(time.Second))
	case t == bigType:
		v.Set(reflect.ValueOf(*sampleBig(k)))
	case t.Kind() == reflect.String:
		// (only in the binary round trip of C01: XML 1.0 cannot carry U+0000 at all)
		kk := k % 6
		if !nulSamples {
			kk = 0
		}
		switch kk {
		case 4:
			v.SetString(fmt.Sprintf("s%06d\x00", k%1000000)) // eight bytes, the last one U+0000: a character like any other
		case 5:
			v.SetString(fmt.Sprintf("pad-%04d\x00\x00\x00\x00\x00\x00\x00\x00", k%10000)) // sixteen bytes ending with eight U+0000
		default:
			v.SetString(fmt.Sprintf("s%d", k))
		}
	case t.Kind() == reflect.Bool:
		v.SetBool(true)
	case t.Kind() == reflect.Uint32: // enumerations: a registered value when there is one
		val := uint64(1 + k%2)
		v.SetUint(val)
	case t.Kind() >= reflect.Int && t.Kind() <= reflect.Int64:
		v.SetInt(int64(3 + k))
	case t.Kind() >= reflect.Uint && t.Kind() <= reflect.Uint64:
		v.SetUint(uint64(3 + k))
	case t.Kind() == reflect.Slice && t.Elem().Kind() == reflect.Uint8:
		v.SetBytes([]byte{byte(1 + k), 2, 3})
	}
	return v
}

// sampleBig: big integers around the widths at which the sign byte / padding rules change
func sampleBig(k int) *big.Int {
	one := big.NewInt(1)
	pow := func(n uint) *big.Int { return new(big.Int).Lsh(one, n) }
	switch k % 8 {
	case 1:
		return new(big.Int).Neg(new(big.Int).Sub(pow(64), big.NewInt(59))) // -(2^64-59): 64-bit magnitude, needs a sign byte
	case 2:
		return new(big.Int).Sub(pow(64), one) // 2^64-1
	case 3:
		return new(big.Int).Neg(new(big.Int).Add(pow(63), one)) // -(2^63+1)
	case 4:
		return big.NewInt(-1)
	case 5:
		return new(big.Int).Neg(new(big.Int).Sub(pow(128), big.NewInt(3))) // 128-bit magnitude
	case 6:
		return pow(63) // 2^63: top bit set, positive
	}
	return big.NewInt(int64(1000 + k))
}

// vendorExt: vendor-defined content of a message extension; for odd versions nested 40 structures deep (the format sets no bound)
func vendorExt(v int) ttlv.Struct {
	x := ttlv.Value{Tag: 0x540002, Value: "x"}
	if v%2 == 1 {
		for d := 0; d < 40; d++ {
			x = ttlv.Value{Tag: 0x540003 + d%2, Value: ttlv.Struct{x}}
		}
	}
	return ttlv.Struct{x}
}

var nulSamples = os.Getenv("VERIF_NUL") == "1"

var objType = reflect.TypeFor[kmip.Object]()

// build returns a populated value of type t. depth limits recursion.
func build(t reflect.Type, mode popMode, k int, depth int) reflect.Value {
	if cs, ok := customSample(t, k); ok {
		return cs
	}
	switch t.Kind() {
	case reflect.Pointer:
		p := reflect.New(t.Elem())
		p.Elem().Set(build(t.Elem(), mode, k, depth))
		if t.Elem().Kind() == reflect.Bool && !hasCustomEncoder(t.Elem()) {
			p.Elem().SetBool(k%2 == 0) // an optional boolean that is present is true or false: neighbours in a list differ
		}
		return p
	case reflect.Interface:
		if t == objType {
			return reflect.ValueOf(&kmip.SymmetricKey{KeyBlock: sampleKeyBlock()})
		}
		if t.NumMethod() == 0 { // any
			return reflect.ValueOf("any")
		}
		return reflect.Zero(t)
	case reflect.Slice:
		if t.Elem().Kind() == reflect.Uint8 {
			return sampleScalar(t, k)
		}
		n := 1
		if mode == full {
			n = 2
		}
		s := reflect.MakeSlice(t, 0, n)
		for i := 0; i < n; i++ {
			s = reflect.Append(s, build(t.Elem(), mode, k+i, depth))
		}
		return s
	case reflect.Struct:
		if t == timeType || t == bigType {
			return sampleScalar(t, k)
		}
		if hasCustomEncoder(t) {
			return reflect.New(t).Elem()
		}
		v := reflect.New(t).Elem()
		sp := planOf(t)
		for _, f := range sp.Fields {
			fv := v.Field(f.idx)
			if f.Kind != "req" && (mode == minimal || depth <= 0) {
				continue
			}
			fv.Set(build(fv.Type(), mode, k+f.idx, depth-1))
		}
		return v
	}
	return sampleScalar(t, k)
}

// buildWithPop materialises struct type t with the given per-field counts (children minimal or full by childMode)
// zeroSamples: a member that is present may well hold the zero of its type - a pointer to 0, to false or to "", a required number
// that is 0. It is present all the same: what is written depends on presence and on the version, not on the value.
var zeroSamples bool

func plainKind(t reflect.Type) bool {
	if hasCustomEncoder(t) || hasCustomEncoder(reflect.PointerTo(t)) {
		return false
	}
	switch t.Kind() {
	case reflect.Int, reflect.Int8, reflect.Int16, reflect.Int32, reflect.Int64, reflect.Uint32, reflect.Bool, reflect.String:
		return true
	}
	return false
}

func buildWithPop(sp StructPlan, pop []int, childMode popMode) reflect.Value {
	v := reflect.New(sp.typ).Elem()
	for i, f := range sp.Fields {
		fv := v.Field(f.idx)
		n := pop[i]
		if n == 0 {
			continue
		}
		if zeroSamples && !f.SetVer {
			if ft := fv.Type(); ft.Kind() == reflect.Pointer && plainKind(ft.Elem()) {
				fv.Set(reflect.New(ft.Elem()))
				continue
			} else if f.Kind == "req" && plainKind(ft) && ft.Kind() != reflect.String {
				continue
			}
		}
		if f.Kind == "rep" {
			s := reflect.MakeSlice(fv.Type(), 0, n)
			for j := 0; j < n; j++ {
				s = reflect.Append(s, build(fv.Type().Elem(), childMode, i+j, 2))
			}
			fv.Set(s)
			continue
		}
		fv.Set(build(fv.Type(), childMode, i, 2))
	}
	return v
}

// ---- encoding under a version, in the three encodings ------------------------------------------------------------

func ver(i int) kmip.ProtocolVersion {
	return kmip.ProtocolVersion{ProtocolVersionMajor: 1, ProtocolVersionMinor: int32(i)}
}

type encoding struct {
	name   string
	newEnc func() ttlv.Encoder
	newDec func([]byte) (ttlv.Decoder, error)
}

var encodings = []encoding{
	{"ttlv", ttlv.NewTTLVEncoder, ttlv.NewTTLVDecoder},
	{"xml", ttlv.NewXMLEncoder, ttlv.NewXMLDecoder},
	{"json", ttlv.NewJSONEncoder, ttlv.NewJSONDecoder},
}

func encodeUnder(e encoding, v int, val any) (out []byte, pan string) {
	defer func() {
		if r := recover(); r != nil {
			pan = vh.PanicSig(r)
		}
	}()
	enc := e.newEnc()
	enc.Struct(kmip.TagRequestMessage, func(x *ttlv.Encoder) {
		if v >= 0 {
			x.Any(kmip.RequestHeader{ProtocolVersion: ver(v), BatchCount: 1})
		}
		x.TagAny(kmip.TagRequestPayload, val)
	})
	return append([]byte(nil), enc.Bytes()...), ""
}

func decodeUnder(e encoding, v int, data []byte, ptr any) (err error) {
	defer func() {
		if r := recover(); r != nil {
			err = fmt.Errorf("panic: %s", vh.PanicSig(r))
		}
	}()
	dec, err := e.newDec(data)
	if err != nil {
		return err
	}
	return dec.Struct(kmip.TagRequestMessage, func(d *ttlv.Decoder) error {
		if v >= 0 {
			var h kmip.RequestHeader
			if err := d.Any(&h); err != nil {
				return err
			}
		}
		return d.TagAny(kmip.TagRequestPayload, ptr)
	})
}

// payloadChildTags returns the tags of the children of the RequestPayload element, read by parsers that share
// nothing with the library: refwire (binary), encoding/json, encoding/xml
func payloadChildTags(encName string, doc []byte) ([]int, error) {
	switch encName {
	case "ttlv":
		root, err := refwire.Parse(doc, true)
		if err != nil {
			return nil, fmt.Errorf("independent parser rejects the encoding: %w", err)
		}
		pl := root.Find(kmip.TagRequestPayload)
		if len(pl) != 1 {
			return nil, fmt.Errorf("no payload element")
		}
		var tags []int
		for _, k := range pl[0].Kids {
			tags = append(tags, k.Tag)
		}
		return tags, nil
	case "json":
		var root struct {
			Tag   string            `json:"tag"`
			Value []json.RawMessage `json:"value"`
		}
		if err := json.Unmarshal(doc, &root); err != nil {
			return nil, err
		}
		for _, raw := range root.Value {
			var el struct {
				Tag   string `json:"tag"`
				Value []struct {
					Tag string `json:"tag"`
				} `json:"value"`
			}
			if err := json.Unmarshal(raw, &el); err != nil {
				continue
			}
			if el.Tag == "RequestPayload" {
				var tags []int
				for _, c := range el.Value {
					tags = append(tags, tagOfName(c.Tag))
				}
				return tags, nil
			}
		}
		return nil, fmt.Errorf("no payload element")
	case "xml":
		type node struct {
			XMLName xml.Name
			TagAttr string `xml:"tag,attr"`
			Kids    []node `xml:",any"`
		}
		var root node
		if err := xml.Unmarshal(doc, &root); err != nil {
			return nil, err
		}
		for _, el := range root.Kids {
			if el.XMLName.Local == "RequestPayload" {
				var tags []int
				for _, c := range el.Kids {
					if c.XMLName.Local == "TTLV" {
						tags = append(tags, tagOfName(c.TagAttr))
					} else {
						tags = append(tags, tagOfName(c.XMLName.Local))
					}
				}
				return tags, nil
			}
		}
		return nil, fmt.Errorf("no payload element")
	}
	return nil, fmt.Errorf("unknown encoding")
}

func tagOfName(n string) int {
	if strings.HasPrefix(n, "0x") {
		x, _ := strconv.ParseInt(n[2:], 16, 0)
		return int(x)
	}
	return nameToTag[n]
}

type StructCase struct {
	Struct  string `json:"struct"`
	Pop     []int  `json:"pop"`
	Ver     int    `json:"ver"`
	Tags    []int  `json:"tags"`
	Visible []int  `json:"visible"`
}

func eqInts(a, b []int) bool {
	if len(a) != len(b) {
		return false
	}
	for i := range a {
		if a[i] != b[i] {
			return false
		}
	}
	return true
}

func TestStructCases(t *testing.T) {
	casesPath := vh.Env("VERIF_CASES", "")
	if casesPath == "" {
		t.Skip("VERIF_CASES not set")
	}
	cases, err := vh.ReadNDJSON[StructCase](casesPath)
	if err != nil {
		t.Fatal(err)
	}
	out, err := vh.NewWriter(vh.Env("VERIF_OUT", "plan_results.ndjson"))
	if err != nil {
		t.Fatal(err)
	}
	defer out.Close()
	plans := map[string]StructPlan{}
	for _, p := range allPlans() {
		plans[p.Name] = p
	}
	evals := 0
	// every case is replayed twice in this process, the second time in reverse order: the outcome of a case is a function of the
	// case, not of what the process did before (memos, pools and lazily built tables keyed by too little would show here)
	n0 := len(cases)
	for k := n0 - 1; k >= 0; k-- {
		cases = append(cases, cases[k])
	}
	for i, c := range cases {
		sp, ok := plans[c.Struct]
		if !ok {
			out.Emit(map[string]any{"case": i, "c": c, "problems": []string{"drift:unknown-struct"}})
			continue
		}
		childMode := minimal
		if (i+int(vh.Seed()))%2 == 0 {
			childMode = full
		}
		zeroSamples = i%3 == 2
		val := buildWithPop(sp, c.Pop, childMode)
		zeroSamples = false
		for _, f := range sp.Fields {
			if f.SetVer && c.Ver >= 0 { // the structure carries the protocol version itself (message headers)
				val.Field(f.idx).Set(reflect.ValueOf(ver(c.Ver)))
			}
		}
		ptr := reflect.New(sp.typ)
		ptr.Elem().Set(val)
		var probs []string
		// a structure that carries the protocol version itself is encoded and decoded on a fresh encoder / decoder, with nothing before
		// it: its own first member is what sets the version that gates its other members
		encVer := c.Ver
		for _, f := range sp.Fields {
			if f.SetVer && c.Ver >= 0 {
				encVer = -1
			}
		}
		for _, e := range encodings {
			evals++
			doc, pan := encodeUnder(e, encVer, ptr.Interface())
			if pan != "" {
				probs = append(probs, e.name+":encode-panic:"+pan)
				continue
			}
			tags, err := payloadChildTags(e.name, doc)
			if err != nil {
				probs = append(probs, fmt.Sprintf("%s:not-well-formed:%v", e.name, err))
				continue
			}
			if !eqInts(tags, c.Tags) {
				probs = append(probs, fmt.Sprintf("%s:elements-differ:emitted=%v:expected=%v", e.name, names(tags), names(c.Tags)))
			}
			// decode at the same version, re-encode: identical document
			back := reflect.New(sp.typ)
			if err := decodeUnder(e, encVer, doc, back.Interface()); err != nil {
				probs = append(probs, fmt.Sprintf("%s:decode-error:%v", e.name, err))
				continue
			}
			doc2, pan := encodeUnder(e, encVer, back.Interface())
			if pan != "" || !bytes.Equal(doc, doc2) {
				probs = append(probs, fmt.Sprintf("%s:reencoding-differs:%s", e.name, pan))
			}
			// the values survive the hop: the decoded structure and the original render to the same document in the OTHER
			// encodings (an encoder that writes a value its own decoder reads back wrong is stable under re-encoding)
			for _, o := range encodings {
				if o.name == e.name {
					continue
				}
				d1, p1 := encodeUnder(o, encVer, ptr.Interface())
				d2, p2 := encodeUnder(o, encVer, back.Interface())
				if p1 == "" && p2 == "" && !bytes.Equal(d1, d2) {
					probs = append(probs, fmt.Sprintf("%s:value-changed-by-roundtrip:seen-in-%s:first-difference-at-%d", e.name, o.name, firstDiff(d1, d2)))
					break
				}
			}
			// C05 second clause: decoding at version 1.0 still returns later-version elements present on the wire
			if e.name == "ttlv" && c.Ver == 4 {
				low := reflect.New(sp.typ)
				if err := decodeUnder(e, 4, doc, low.Interface()); err == nil {
					// same bytes but announced as 1.0: patch the header's minor version
					patched := patchMinorVersion(doc, 0)
					if patched != nil {
						l0 := reflect.New(sp.typ)
						if err := decodeUnder(e, 0, patched, l0.Interface()); err != nil {
							probs = append(probs, fmt.Sprintf("%s:later-elements-rejected-at-1.0:%v", e.name, err))
						} else {
							d0, _ := encodeUnder(e, -1, l0.Interface())
							d4, _ := encodeUnder(e, -1, low.Interface())
							if !bytes.Equal(d0, d4) {
								probs = append(probs, e.name+":later-elements-dropped-at-1.0")
							}
						}
					}
				}
			}
		}
		if len(probs) > 0 {
			out.Emit(map[string]any{"case": i, "c": c, "problems": probs})
		}
	}
	out.Emit(map[string]any{"summary": true, "cases": n0, "evaluations": evals})
}

func names(tags []int) []string {
	var r []string
	for _, t := range tags {
		r = append(r, ttlv.TagString(t))
	}
	return r
}

// patchMinorVersion rewrites the ProtocolVersionMinor integer of a binary message (first occurrence)
func patchMinorVersion(doc []byte, minor byte) []byte {
	d := append([]byte(nil), doc...)
	for i := 0; i+16 <= len(d); i += 8 {
		if d[i] == 0x42 && d[i+1] == 0x00 && d[i+2] == 0x6B && d[i+3] == 0x02 { // ProtocolVersionMinor, Integer
			d[i+11] = minor
			return d
		}
	}
	return nil
}

// ---- whole messages -------------------------------------------------------------------------------------------------

func buildPayload(p kmip.OperationPayload, mode popMode, k int) kmip.OperationPayload {
	t := reflect.TypeOf(p).Elem()
	v := reflect.New(t)
	v.Elem().Set(build(t, mode, k, 3))
	return v.Interface().(kmip.OperationPayload)
}

func fixupPayload(pl kmip.OperationPayload) {
	// members whose types are tied together by the KMIP message layout
	switch x := pl.(type) {
	case *payloads.GetResponsePayload:
		x.ObjectType = kmip.ObjectTypeSymmetricKey
	case *payloads.RegisterRequestPayload:
		x.ObjectType = kmip.ObjectTypeSymmetricKey
	case *payloads.ImportRequestPayload:
		// the object type of an Import request travels as an attribute
		x.Attribute = append([]kmip.Attribute{{AttributeName: kmip.AttributeNameObjectType, AttributeValue: kmip.ObjectTypeSymmetricKey}}, x.Attribute...)
	case *payloads.ExportResponsePayload:
		x.ObjectType = kmip.ObjectTypeSymmetricKey
	}
}

func TestMessages(t *testing.T) {
	outPath := vh.Env("VERIF_OUT", "")
	if outPath == "" {
		t.Skip("VERIF_OUT not set")
	}
	out, err := vh.NewWriter(outPath)
	if err != nil {
		t.Fatal(err)
	}
	defer out.Close()
	n := 0
	// C04: the three documents of every message are handed to the orchestrator, which parses them with independent parsers
	var docs *vh.Writer
	if dp := vh.Env("VERIF_DOCS", ""); dp != "" {
		if docs, err = vh.NewWriter(dp); err != nil {
			t.Fatal(err)
		}
		defer docs.Close()
	}
	var wantItems [][]int // the members populated in each item of the message being checked (response messages)
	check := func(id string, msg any, newPtr func() any) {
		n++
		var probs []string
		if n%3 == 0 {
			provokeEncodePanic() // an encoding that failed (and was recovered by the caller) must not affect the next one
		}
		b1 := ttlv.MarshalTTLV(msg)
		if docs != nil && len(b1) < 60000 {
			docs.Emit(map[string]any{"msg": id, "ttlv": fmt.Sprintf("%x", b1), "xml": string(ttlv.MarshalXML(msg)), "json": string(ttlv.MarshalJSON(msg))})
		}
		root, err := refwire.Parse(b1, true)
		if err != nil {
			probs = append(probs, fmt.Sprintf("ttlv:not-well-formed:%v", err))
		}
		if root != nil && wantItems != nil {
			var got [][]int
			for _, it := range root.Kids {
				if it.Tag == int(kmip.TagBatchItem) {
					var ts []int
					for _, k := range it.Kids {
						ts = append(ts, k.Tag)
					}
					got = append(got, ts)
				}
			}
			if fmt.Sprint(got) != fmt.Sprint(wantItems) {
				probs = append(probs, fmt.Sprintf("ttlv:item-elements-differ:emitted=%v:populated=%v", got, wantItems))
			}
		}
		back := newPtr()
		if err := ttlv.UnmarshalTTLV(b1, back); err != nil {
			probs = append(probs, fmt.Sprintf("ttlv:decode-error:%v", err))
		} else if b2 := ttlv.MarshalTTLV(back); !bytes.Equal(b1, b2) {
			probs = append(probs, fmt.Sprintf("ttlv:reencoding-differs:first-difference-at-%d", firstDiff(b1, b2)))
		} else if x1, x2 := ttlv.MarshalXML(msg), ttlv.MarshalXML(back); !bytes.Equal(x1, x2) {
			probs = append(probs, fmt.Sprintf("ttlv:value-changed-by-roundtrip:seen-in-xml:first-difference-at-%d", firstDiff(x1, x2)))
		}
		// C04 hop: XML and JSON carry the same information
		for _, e := range []struct {
			name string
			m    func(any) []byte
			u    func([]byte, any) error
		}{{"xml", ttlv.MarshalXML, ttlv.UnmarshalXML}, {"json", ttlv.MarshalJSON, ttlv.UnmarshalJSON}} {
			doc := e.m(msg)
			p := newPtr()
			if err := e.u(doc, p); err != nil {
				probs = append(probs, fmt.Sprintf("%s:decode-error:%v", e.name, err))
				continue
			}
			if b3 := ttlv.MarshalTTLV(p); !bytes.Equal(b1, b3) {
				probs = append(probs, fmt.Sprintf("%s:binary-differs-after-hop:first-difference-at-%d", e.name, firstDiff(b1, b3)))
			}
		}
		if len(probs) > 0 {
			out.Emit(map[string]any{"msg": id, "problems": probs})
		}
	}
	for _, e := range opTable {
		for v := 0; v <= 4; v++ {
			for _, mode := range []popMode{minimal, full} {
				for dir, pl := range []kmip.OperationPayload{e.Req, e.Resp} {
					p := buildPayload(pl, mode, v)
					fixupPayload(p)
					id := fmt.Sprintf("%s/%d/1.%d/%d", ttlv.EnumStr(e.Op), dir, v, mode)
					func() {
						defer func() {
							if r := recover(); r != nil {
								n++
								out.Emit(map[string]any{"msg": id, "problems": []string{"panic:" + vh.PanicSig(r)}})
							}
						}()
						if dir == 0 {
							hdr := build(reflect.TypeFor[kmip.RequestHeader](), mode, v, 3).Interface().(kmip.RequestHeader)
							hdr.ProtocolVersion = ver(v)
							hdr.BatchCount = 2
							ext := &kmip.MessageExtension{VendorIdentification: "vendor", CriticalityIndicator: false, VendorExtension: vendorExt(v)}
							items := []kmip.RequestBatchItem{{Operation: e.Op, UniqueBatchItemID: []byte("a"), RequestPayload: p},
								{Operation: e.Op, UniqueBatchItemID: []byte("b"), RequestPayload: p}}
							if mode == full {
								items[1].MessageExtension = ext
							}
							msg := &kmip.RequestMessage{Header: hdr, BatchItem: items}
							check(id, msg, func() any { return new(kmip.RequestMessage) })
						} else {
							hdr := build(reflect.TypeFor[kmip.ResponseHeader](), mode, v, 3).Interface().(kmip.ResponseHeader)
							hdr.ProtocolVersion = ver(v)
							hdr.BatchCount = 2
							ext := &kmip.MessageExtension{VendorIdentification: "vendor", CriticalityIndicator: true, VendorExtension: vendorExt(v)}
							items := []kmip.ResponseBatchItem{{Operation: e.Op, UniqueBatchItemID: []byte("a"), ResponsePayload: p},
								{Operation: e.Op, UniqueBatchItemID: []byte("b"), ResultStatus: kmip.ResultStatusOperationFailed, ResultReason: kmip.ResultReasonItemNotFound, ResultMessage: "m"}}
							// an item carries what it is populated with, whatever its status says: a payload next to a status that is not
							// Success (failed, pending, undone) is on the wire like any other member
							want := [][]int{{int(kmip.TagOperation), int(kmip.TagUniqueBatchItemID), int(kmip.TagResultStatus), int(kmip.TagResponsePayload)},
								{int(kmip.TagOperation), int(kmip.TagUniqueBatchItemID), int(kmip.TagResultStatus), int(kmip.TagResultReason), int(kmip.TagResultMessage)}}
							if mode == full {
								items[0].MessageExtension = ext
								want[0] = append(want[0], int(kmip.TagMessageExtension))
								for k, st := range []kmip.ResultStatus{kmip.ResultStatusOperationFailed, kmip.ResultStatusOperationPending, kmip.ResultStatusOperationUndone} {
									it := kmip.ResponseBatchItem{Operation: e.Op, UniqueBatchItemID: []byte{byte('c' + k)}, ResultStatus: st, ResponsePayload: p}
									w := []int{int(kmip.TagOperation), int(kmip.TagUniqueBatchItemID), int(kmip.TagResultStatus)}
									if st == kmip.ResultStatusOperationFailed {
										it.ResultReason, it.ResultMessage = kmip.ResultReasonGeneralFailure, "partial"
										w = append(w, int(kmip.TagResultReason), int(kmip.TagResultMessage))
									}
									if st == kmip.ResultStatusOperationPending {
										it.AsynchronousCorrelationValue = []byte{1, 2, 3}
										w = append(w, int(kmip.TagAsynchronousCorrelationValue))
									}
									items = append(items, it)
									want = append(want, append(w, int(kmip.TagResponsePayload)))
								}
								hdr.BatchCount = int32(len(items))
							}
							msg := &kmip.ResponseMessage{Header: hdr, BatchItem: items}
							wantItems = want
							check(id, msg, func() any { return new(kmip.ResponseMessage) })
							wantItems = nil
						}
					}()
				}
			}
		}
	}
	// key blocks (hand-written decoder: not among the structure cases): every combination of the optional members - compression type,
	// key value (plain; wrapped when wrapping data is present), algorithm, length, wrapping data - inside a Get response
	for mask := 0; mask < 32; mask++ {
		kb := kmip.KeyBlock{KeyFormatType: kmip.KeyFormatTypeRaw}
		if mask&1 != 0 {
			kb.KeyCompressionType = kmip.KeyCompressionTypeECPublicKeyTypeUncompressed
		}
		if mask&2 != 0 {
			if mask&16 != 0 {
				kb.KeyValue = &kmip.KeyValue{Wrapped: &[]byte{0xA1, 0xA2, 0xA3, 0xA4, 0xA5}}
			} else {
				kb.KeyValue = &kmip.KeyValue{Plain: &kmip.PlainKeyValue{KeyMaterial: kmip.KeyMaterial{Bytes: &[]byte{1, 2, 3, 4, 5, 6, 7, 8}}}}
			}
		}
		if mask&4 != 0 {
			kb.CryptographicAlgorithm = kmip.CryptographicAlgorithmAES
		}
		if mask&8 != 0 {
			kb.CryptographicLength = 64
		}
		if mask&16 != 0 {
			kb.KeyWrappingData = &kmip.KeyWrappingData{WrappingMethod: kmip.WrappingMethodEncrypt,
				EncryptionKeyInformation: &kmip.EncryptionKeyInformation{UniqueIdentifier: "kek"}, IVCounterNonce: []byte{1, 2, 3}}
		}
		for v := 0; v <= 4; v += 2 {
			var obj kmip.Object = &kmip.SymmetricKey{KeyBlock: kb}
			ot := kmip.ObjectTypeSymmetricKey
			if mask%2 == 1 {
				obj, ot = &kmip.SecretData{SecretDataType: kmip.SecretDataTypePassword, KeyBlock: kb}, kmip.ObjectTypeSecretData
			}
			msg := &kmip.ResponseMessage{Header: kmip.ResponseHeader{ProtocolVersion: ver(v), TimeStamp: sampleTime, BatchCount: 1},
				BatchItem: []kmip.ResponseBatchItem{{Operation: kmip.OperationGet, ResponsePayload: &payloads.GetResponsePayload{ObjectType: ot, UniqueIdentifier: "id", Object: obj}}}}
			check(fmt.Sprintf("KeyBlock/%d/1.%d", mask, v), msg, func() any { return new(kmip.ResponseMessage) })
		}
	}
	// C05: the elements of an item depend on the header version only, not on what precedes it in the batch: every payload is
	// encoded as the only item and after a Discover Versions item listing other versions; the payload subtrees must be identical
	{
		payloadOf := func(b []byte, which int) ([]byte, error) {
			root, err := refwire.Parse(b, true)
			if err != nil {
				return nil, err
			}
			k := 0
			for _, it := range root.Kids {
				if it.Tag != int(kmip.TagBatchItem) {
					continue
				}
				if k == which {
					for _, m := range it.Kids {
						if m.Tag == int(kmip.TagRequestPayload) || m.Tag == int(kmip.TagResponsePayload) {
							return refwire.Encode(m), nil
						}
					}
					return nil, fmt.Errorf("no payload in item %d", which)
				}
				k++
			}
			return nil, fmt.Errorf("no item %d", which)
		}
		for _, e := range opTable {
			if e.Op == kmip.OperationDiscoverVersions {
				continue
			}
			for v := 0; v <= 4; v++ {
				for dir, pl := range []kmip.OperationPayload{e.Req, e.Resp} {
					id := fmt.Sprintf("after-discover/%s/%d/1.%d", ttlv.EnumStr(e.Op), dir, v)
					n++
					func() {
						defer func() {
							if r := recover(); r != nil {
								out.Emit(map[string]any{"msg": id, "problems": []string{"panic:" + vh.PanicSig(r)}})
							}
						}()
						p := buildPayload(pl, full, v)
						fixupPayload(p)
						others := []kmip.ProtocolVersion{ver((v + 1) % 5), ver((v + 3) % 5), ver(4 - v)}
						if 4-v == v {
							others[2] = ver((v + 2) % 5)
						}
						var alone, after any
						if dir == 0 {
							hdr := kmip.RequestHeader{ProtocolVersion: ver(v), BatchCount: 1}
							alone = &kmip.RequestMessage{Header: hdr, BatchItem: []kmip.RequestBatchItem{{Operation: e.Op, RequestPayload: p}}}
							hdr.BatchCount = 2
							after = &kmip.RequestMessage{Header: hdr, BatchItem: []kmip.RequestBatchItem{
								{Operation: kmip.OperationDiscoverVersions, RequestPayload: &payloads.DiscoverVersionsRequestPayload{ProtocolVersion: others}},
								{Operation: e.Op, RequestPayload: p}}}
						} else {
							hdr := kmip.ResponseHeader{ProtocolVersion: ver(v), TimeStamp: sampleTime, BatchCount: 1}
							alone = &kmip.ResponseMessage{Header: hdr, BatchItem: []kmip.ResponseBatchItem{{Operation: e.Op, ResponsePayload: p}}}
							hdr.BatchCount = 2
							after = &kmip.ResponseMessage{Header: hdr, BatchItem: []kmip.ResponseBatchItem{
								{Operation: kmip.OperationDiscoverVersions, ResponsePayload: &payloads.DiscoverVersionsResponsePayload{ProtocolVersion: others}},
								{Operation: e.Op, ResponsePayload: p}}}
						}
						var probs []string
						for _, enc := range []struct {
							name string
							m    func(any) []byte
						}{{"ttlv", ttlv.MarshalTTLV}} {
							pa, err1 := payloadOf(enc.m(alone), 0)
							pb, err2 := payloadOf(enc.m(after), 1)
							if err1 != nil || err2 != nil {
								probs = append(probs, fmt.Sprintf("%s:not-well-formed:%v %v", enc.name, err1, err2))
							} else if !bytes.Equal(pa, pb) {
								probs = append(probs, fmt.Sprintf("gating:payload-depends-on-preceding-item:first-difference-at-%d (alone %d bytes, after a Discover Versions item %d bytes)", firstDiff(pa, pb), len(pa), len(pb)))
							}
						}
						// the same through XML and JSON: decode the batch document and compare the binary of the second payload
						for _, h := range []struct {
							name string
							m    func(any) []byte
							u    func([]byte, any) error
						}{{"xml", ttlv.MarshalXML, ttlv.UnmarshalXML}, {"json", ttlv.MarshalJSON, ttlv.UnmarshalJSON}} {
							var back any = new(kmip.RequestMessage)
							if dir == 1 {
								back = new(kmip.ResponseMessage)
							}
							if err := h.u(h.m(after), back); err != nil {
								probs = append(probs, fmt.Sprintf("gating:%s-batch-not-decoded:%v", h.name, err))
								continue
							}
							pa, _ := payloadOf(ttlv.MarshalTTLV(alone), 0)
							pb, err := payloadOf(ttlv.MarshalTTLV(back), 1)
							if err != nil || !bytes.Equal(pa, pb) {
								probs = append(probs, fmt.Sprintf("gating:payload-depends-on-preceding-item-%s:%v", h.name, err))
							}
						}
						if len(probs) > 0 {
							out.Emit(map[string]any{"msg": id, "problems": probs})
						}
					}()
				}
			}
		}
	}
	// C05: one encoder writing several messages one after the other (no Clear in between): every message is gated by its own
	// header, not by the version the previous message left in the encoder
	for _, e := range opTable {
		for dir, pl := range []kmip.OperationPayload{e.Req, e.Resp} {
			for v1 := 0; v1 <= 4; v1++ {
				for v2 := 0; v2 <= 4; v2++ {
					if v1 == v2 {
						continue
					}
					id := fmt.Sprintf("after-message/%s/%d/1.%d-then-1.%d", ttlv.EnumStr(e.Op), dir, v1, v2)
					n++
					func() {
						defer func() {
							if r := recover(); r != nil {
								out.Emit(map[string]any{"msg": id, "problems": []string{"panic:" + vh.PanicSig(r)}})
							}
						}()
						mk := func(v int) any {
							p := buildPayload(pl, full, v)
							fixupPayload(p)
							if dir == 0 {
								return &kmip.RequestMessage{Header: kmip.RequestHeader{ProtocolVersion: ver(v), BatchCount: 1}, BatchItem: []kmip.RequestBatchItem{{Operation: e.Op, RequestPayload: p}}}
							}
							return &kmip.ResponseMessage{Header: kmip.ResponseHeader{ProtocolVersion: ver(v), TimeStamp: sampleTime, BatchCount: 1}, BatchItem: []kmip.ResponseBatchItem{{Operation: e.Op, ResponsePayload: p}}}
						}
						first, second := mk(v1), mk(v2)
						enc := ttlv.NewTTLVEncoder()
						enc.Any(first)
						off := len(enc.Bytes())
						enc.Any(second)
						got := enc.Bytes()[off:]
						want := ttlv.MarshalTTLV(second)
						if !bytes.Equal(got, want) {
							out.Emit(map[string]any{"msg": id, "problems": []string{fmt.Sprintf("gating:message-depends-on-previous-message:first-difference-at-%d (%d bytes after a 1.%d message, %d bytes alone)", firstDiff(got, want), len(got), v1, len(want))}})
						}
						// the same encoder recycled with Clear() between the two messages (a pooled encoder)
						pooled := ttlv.NewTTLVEncoder()
						pooled.Any(first)
						pooled.Clear()
						pooled.Any(second)
						if got := pooled.Bytes(); !bytes.Equal(got, want) {
							out.Emit(map[string]any{"msg": id, "problems": []string{fmt.Sprintf("gating:message-depends-on-message-before-clear:first-difference-at-%d (%d bytes after a cleared 1.%d message, %d bytes alone)", firstDiff(got, want), len(got), v1, len(want))}})
						}
						// and a third message of the first version after another Clear()
						pooled.Clear()
						pooled.Any(first)
						if got, want := pooled.Bytes(), ttlv.MarshalTTLV(first); !bytes.Equal(got, want) {
							out.Emit(map[string]any{"msg": id, "problems": []string{fmt.Sprintf("gating:message-depends-on-message-before-clear:third-message:first-difference-at-%d", firstDiff(got, want))}})
						}
					}()
				}
			}
		}
	}
	// messages larger than any initial buffer: many batch items, a large managed object, many identifiers
	{
		var items []kmip.RequestBatchItem
		for i := 0; i < 300; i++ {
			items = append(items, kmip.RequestBatchItem{Operation: kmip.OperationGet, UniqueBatchItemID: []byte(fmt.Sprintf("item-%d", i)),
				RequestPayload: &payloads.GetRequestPayload{UniqueIdentifier: fmt.Sprintf("id-%d", i)}})
		}
		check("large/300-get-items", &kmip.RequestMessage{Header: kmip.RequestHeader{ProtocolVersion: kmip.V1_4, BatchCount: 300}, BatchItem: items},
			func() any { return new(kmip.RequestMessage) })
		blob := bytes.Repeat([]byte{0xA5, 0x5A, 1, 2, 3}, 5000)
		check("large/register-opaque-25kB", &kmip.RequestMessage{Header: kmip.RequestHeader{ProtocolVersion: kmip.V1_2, BatchCount: 1},
			BatchItem: []kmip.RequestBatchItem{{Operation: kmip.OperationRegister, RequestPayload: &payloads.RegisterRequestPayload{ObjectType: kmip.ObjectTypeOpaqueObject,
				Object: &kmip.OpaqueObject{OpaqueDataType: kmip.OpaqueDataType(1), OpaqueDataValue: blob}}}}}, func() any { return new(kmip.RequestMessage) })
		var ids []string
		for i := 0; i < 700; i++ {
			ids = append(ids, fmt.Sprintf("0123456789abcdef-%d", i))
		}
		check("large/locate-700-ids", &kmip.ResponseMessage{Header: kmip.ResponseHeader{ProtocolVersion: kmip.V1_0, TimeStamp: sampleTime, BatchCount: 1},
			BatchItem: []kmip.ResponseBatchItem{{Operation: kmip.OperationLocate, ResponsePayload: &payloads.LocateResponsePayload{UniqueIdentifier: ids}}}},
			func() any { return new(kmip.ResponseMessage) })
	}
	out.Emit(map[string]any{"summary": true, "messages": n})
}

// provokeEncodePanic makes each Marshal function panic in the middle of a message (a negative interval) and recovers, as
// net/http does around the HTTP handler
func provokeEncodePanic() {
	bad := &kmip.ResponseMessage{Header: kmip.ResponseHeader{ProtocolVersion: kmip.V1_4, TimeStamp: sampleTime, BatchCount: 1},
		BatchItem: []kmip.ResponseBatchItem{{Operation: kmip.OperationObtainLease, ResponsePayload: &payloads.ObtainLeaseResponsePayload{UniqueIdentifier: "x", LeaseTime: -time.Second}}}}
	for _, m := range []func(any) []byte{ttlv.MarshalTTLV, ttlv.MarshalXML, ttlv.MarshalJSON} {
		func() {
			defer func() { _ = recover() }()
			m(bad)
		}()
	}
}

func firstDiff(a, b []byte) int {
	for i := 0; i < len(a) && i < len(b); i++ {
		if a[i] != b[i] {
			return i
		}
	}
	if len(a) != len(b) {
		if len(a) < len(b) {
			return len(a)
		}
		return len(b)
	}
	return -1
}

// ---- C18 (typed targets): accepted non-canonical inputs reach a fixed point ---------------------------------------
//
// Every whole message (27 operations x 2 directions, full population) is encoded, parsed with the independent parser
// and perturbed at every node: a leaf's value replaced by its zero value (an element that omitempty would not have
// written), an unknown element appended to a structure, the last child duplicated, the first two children swapped.
// Whatever the typed decoder accepts must re-encode to something it accepts again, and a second re-encoding must be
// identical to the first; the same through XML and JSON.

func zeroLeaf(it *refwire.Item) bool {
	switch it.Type {
	case 2, 5, 10:
		it.Raw = []byte{0, 0, 0, 0}
	case 3, 9:
		it.Raw = make([]byte, 8)
	case 6:
		it.Raw = make([]byte, 8)
	case 4:
		it.Big = big.NewInt(0)
	case 7, 8:
		it.Raw = []byte{}
	default:
		return false
	}
	return true
}

func cloneItem(it *refwire.Item) *refwire.Item {
	c := *it
	c.Raw = append([]byte(nil), it.Raw...)
	if it.Big != nil {
		c.Big = new(big.Int).Set(it.Big)
	}
	c.Kids = nil
	for _, k := range it.Kids {
		c.Kids = append(c.Kids, cloneItem(k))
	}
	return &c
}

// variants returns perturbed copies of root, one perturbation each, with a label
func variants(root *refwire.Item) (res []*refwire.Item, labels []string) {
	var paths [][]int
	var walk func(it *refwire.Item, path []int)
	walk = func(it *refwire.Item, path []int) {
		paths = append(paths, append([]int(nil), path...))
		for i, k := range it.Kids {
			walk(k, append(path, i))
		}
	}
	walk(root, nil)
	at := func(r *refwire.Item, path []int) *refwire.Item {
		for _, i := range path {
			r = r.Kids[i]
		}
		return r
	}
	for _, p := range paths {
		n := at(root, p)
		if n.Type == 7 && n.Tag == int(kmip.TagAttributeName) && bytes.Contains(n.Raw, []byte(" ")) {
			// attribute names that differ from a standard one by their spacing: whatever they are taken for, it is the same thing twice
			for _, sp := range []struct{ label, with string }{{"spaces-doubled", "  "}, {"spaces-tripled", "   "}, {"spaces-times-five", "     "}} {
				c := cloneItem(root)
				x := at(c, p)
				x.Raw = bytes.ReplaceAll(x.Raw, []byte(" "), []byte(sp.with))
				res, labels = append(res, c), append(labels, fmt.Sprintf("%s:%s", sp.label, string(n.Raw)))
			}
			c := cloneItem(root)
			x := at(c, p)
			x.Raw = append(append([]byte("  "), x.Raw...), ' ')
			res, labels = append(res, c), append(labels, "spaces-around:"+string(n.Raw))
		}
		if n.Type != 1 {
			c := cloneItem(root)
			if zeroLeaf(at(c, p)) {
				res, labels = append(res, c), append(labels, fmt.Sprintf("zero-leaf:%s", ttlv.TagString(n.Tag)))
			}
			continue
		}
		c := cloneItem(root)
		x := at(c, p)
		x.Kids = append(x.Kids, &refwire.Item{Tag: 0x540099, Type: 7, Raw: []byte("unknown")})
		res, labels = append(res, c), append(labels, fmt.Sprintf("unknown-element-in:%s", ttlv.TagString(n.Tag)))
		if len(n.Kids) >= 1 {
			c := cloneItem(root)
			x := at(c, p)
			x.Kids = append(x.Kids, cloneItem(x.Kids[len(x.Kids)-1]))
			res, labels = append(res, c), append(labels, fmt.Sprintf("duplicate-last-in:%s", ttlv.TagString(n.Tag)))
		}
		if len(n.Kids) >= 1 {
			// the structure without any member (an empty vendor extension, an empty template ...)
			c := cloneItem(root)
			x := at(c, p)
			x.Kids = nil
			res, labels = append(res, c), append(labels, fmt.Sprintf("emptied:%s", ttlv.TagString(n.Tag)))
		}
		// members in another order than the library writes them (every adjacent pair exchanged): accepted or not, what is accepted
		// must come back in a form that is accepted again
		for i := 0; i+1 < len(n.Kids); i++ {
			c := cloneItem(root)
			x := at(c, p)
			x.Kids[i], x.Kids[i+1] = x.Kids[i+1], x.Kids[i]
			res, labels = append(res, c), append(labels, fmt.Sprintf("swap-%d-and-next-in:%s", i, ttlv.TagString(n.Tag)))
		}
	}
	res, labels = append(res, cloneItem(root)), append(labels, "as-written")
	return
}

// fpExt: the message extension the items of the typed fixed point carry (the variants empty it, reorder it, add to it)
func fpExt() *kmip.MessageExtension {
	return &kmip.MessageExtension{VendorIdentification: "vendor", VendorExtension: ttlv.Struct{{Tag: 0x540002, Value: "x"}}}
}

func TestTypedFixedPoint(t *testing.T) {
	outPath := vh.Env("VERIF_OUT", "")
	if outPath == "" {
		t.Skip("VERIF_OUT not set")
	}
	out, err := vh.NewWriter(outPath)
	if err != nil {
		t.Fatal(err)
	}
	defer out.Close()
	type hop struct {
		name string
		m    func(any) []byte
		u    func([]byte, any) error
	}
	hops := []hop{{"ttlv", ttlv.MarshalTTLV, ttlv.UnmarshalTTLV}, {"xml", ttlv.MarshalXML, ttlv.UnmarshalXML}, {"json", ttlv.MarshalJSON, ttlv.UnmarshalJSON}}
	inputs, accepted := 0, 0
	safe := func(f func()) (pan string) {
		defer func() {
			if r := recover(); r != nil {
				pan = vh.PanicSig(r)
			}
		}()
		f()
		return ""
	}
	for _, e := range opTable {
		for dir, pl := range []kmip.OperationPayload{e.Req, e.Resp} {
			p := buildPayload(pl, full, 1)
			fixupPayload(p)
			var msg any
			newPtr := func() any { return new(kmip.RequestMessage) }
			if dir == 0 {
				msg = &kmip.RequestMessage{Header: kmip.RequestHeader{ProtocolVersion: kmip.V1_4, BatchCount: 1}, BatchItem: []kmip.RequestBatchItem{{Operation: e.Op, RequestPayload: p, MessageExtension: fpExt()}}}
			} else {
				msg = &kmip.ResponseMessage{Header: kmip.ResponseHeader{ProtocolVersion: kmip.V1_4, TimeStamp: sampleTime, BatchCount: 1}, BatchItem: []kmip.ResponseBatchItem{{Operation: e.Op, ResponsePayload: p, MessageExtension: fpExt()}}}
				newPtr = func() any { return new(kmip.ResponseMessage) }
			}
			root, err := refwire.Parse(ttlv.MarshalTTLV(msg), true)
			if err != nil {
				continue
			}
			vs, labels := variants(root)
			for vi, v := range vs {
				bin := refwire.Encode(v)
				inputs++
				id := fmt.Sprintf("%s/%d/%s", ttlv.EnumStr(e.Op), dir, labels[vi])
				var probs []string
				// the input in each encoding (XML / JSON through the generic untyped value)
				var generic ttlv.Value
				if ttlv.UnmarshalTTLV(bin, &generic) != nil {
					continue
				}
				for _, h := range hops {
					doc := bin
					if h.name != "ttlv" {
						doc = h.m(generic)
					}
					first := newPtr()
					var derr error
					if pan := safe(func() { derr = h.u(doc, first) }); pan != "" {
						probs = append(probs, h.name+":decode-panic:"+pan)
						continue
					}
					if derr != nil {
						continue // rejected inputs are outside the property
					}
					if h.name == "ttlv" {
						accepted++
					}
					var re1 []byte
					if pan := safe(func() { re1 = h.m(first) }); pan != "" {
						probs = append(probs, h.name+":reencode-panic:"+pan)
						continue
					}
					second := newPtr()
					if pan := safe(func() { derr = h.u(re1, second) }); pan != "" {
						probs = append(probs, h.name+":decode-panic-on-reencoding:"+pan)
						continue
					}
					if derr != nil {
						probs = append(probs, fmt.Sprintf("%s:reencoding-not-accepted:%v", h.name, derr))
						continue
					}
					re2 := h.m(second)
					if !bytes.Equal(re1, re2) {
						probs = append(probs, h.name+":second-reencoding-differs")
					}
				}
				if len(probs) > 0 {
					out.Emit(map[string]any{"input": id, "hex": fmt.Sprintf("%x", bin), "problems": probs})
				}
			}
		}
	}
	out.Emit(map[string]any{"summary": true, "inputs": inputs, "accepted": accepted})
}
