// Driver for C17: extracts the live tag / enumeration / bit-mask registries through the public API
// (TestExtract) and replays every entry and the unregistered probes enumerated by TLC from
// spec/Registry.tla through TagString, EnumByName / EnumName, BitmaskByStr and single-item XML, JSON
// and text round trips (TestReplay).
package registry

import (
	"encoding/json"
	"fmt"
	"os"
	"sort"
	"strconv"
	"strings"
	"sync"
	"testing"

	"github.com/ovh/kmip-go"
	"github.com/ovh/kmip-go/ttlv"

	"verifharness/vh"
)

func TestMain(m *testing.M) { vh.Quiet(); os.Exit(m.Run()) }

type Reg struct {
	Tags  [][]any `json:"tags"`  // [number, name]
	Enums [][]any `json:"enums"` // [tag number, tag name, [[value, name], ...]]
	Masks [][]any `json:"masks"` // [tag number, tag name, [[bit value, name], ...]]
}

var maskTags = []int{kmip.TagCryptographicUsageMask, kmip.TagStorageStatusMask}

func extract() Reg {
	var r Reg
	r.Tags, r.Enums, r.Masks = [][]any{}, [][]any{}, [][]any{}
	for tag := 0x420000; tag <= 0x420400; tag++ {
		name := ttlv.TagString(tag)
		if strings.HasPrefix(name, "0x") {
			continue
		}
		r.Tags = append(r.Tags, []any{tag, name})
		vals := [][]any{}
		for v, n := range ttlv.EnumValuesByTag(tag) {
			vals = append(vals, []any{int(v), n})
		}
		if len(vals) > 0 {
			sort.Slice(vals, func(i, j int) bool { return vals[i][0].(int) < vals[j][0].(int) })
			r.Enums = append(r.Enums, []any{tag, name, vals})
		}
	}
	for _, tag := range maskTags {
		bits := [][]any{}
		for b := 0; b < 31; b++ {
			s := string(ttlv.AppendBitmaskString(nil, tag, int32(1)<<b, "|"))
			if s != "" && !strings.HasPrefix(s, "0x") {
				bits = append(bits, []any{1 << b, s})
			}
		}
		r.Masks = append(r.Masks, []any{tag, ttlv.TagString(tag), bits})
	}
	return r
}

func TestExtract(t *testing.T) {
	path := vh.Env("VERIF_OUT", "")
	if path == "" {
		t.Skip("VERIF_OUT not set")
	}
	b, _ := json.Marshal(extract())
	if err := os.WriteFile(path, b, 0o644); err != nil {
		t.Fatal(err)
	}
}

type Case struct {
	Kind  string `json:"kind"` // tag | enum | mask
	Tag   int    `json:"tag"`
	Name  string `json:"name"`  // registered name, "" when unregistered
	Value int    `json:"value"` // enum value / mask bit
	VName string `json:"vname"` // registered value name, "" when unregistered
}

func decodeAll(v ttlv.Value) (probs []string) {
	type enc struct {
		name string
		m    func(any) []byte
		u    func([]byte, any) error
	}
	for _, e := range []enc{{"xml", ttlv.MarshalXML, ttlv.UnmarshalXML}, {"json", ttlv.MarshalJSON, ttlv.UnmarshalJSON}, {"ttlv", ttlv.MarshalTTLV, ttlv.UnmarshalTTLV}} {
		if e.name == "ttlv" && (v.Tag < 0 || v.Tag > 0xFFFFFF) {
			continue // the binary format has three tag bytes: a wider number only exists in the text forms
		}
		func() {
			defer func() {
				if r := recover(); r != nil {
					probs = append(probs, e.name+":panic:"+vh.PanicSig(r))
				}
			}()
			doc := e.m(v)
			var out ttlv.Value
			if err := e.u(doc, &out); err != nil {
				probs = append(probs, fmt.Sprintf("%s:decode-error:%v:%s", e.name, err, doc))
				return
			}
			if out.Tag != v.Tag {
				probs = append(probs, fmt.Sprintf("%s:tag-read-back-as-0x%06X:%s", e.name, out.Tag, doc))
			}
			if fmt.Sprint(out.Value) != fmt.Sprint(v.Value) {
				probs = append(probs, fmt.Sprintf("%s:value-read-back-as-%v:%s", e.name, out.Value, doc))
			}
		}()
	}
	return
}

func TestReplay(t *testing.T) {
	casesPath := vh.Env("VERIF_CASES", "")
	if casesPath == "" {
		t.Skip("VERIF_CASES not set")
	}
	cases, err := vh.ReadNDJSON[Case](casesPath)
	if err != nil {
		t.Fatal(err)
	}
	out, err := vh.NewWriter(vh.Env("VERIF_OUT", "registry_results.ndjson"))
	if err != nil {
		t.Fatal(err)
	}
	defer out.Close()
	// every case is replayed twice in this process, the second time in reverse order: the outcome of a case is a function of the
	// case, not of what the process did before (memos, pools and lazily built tables keyed by too little would show here)
	n0 := len(cases)
	for k := n0 - 1; k >= 0; k-- {
		cases = append(cases, cases[k])
	}
	for i, c := range cases {
		var probs []string
		switch c.Kind {
		case "tag":
			want := c.Name
			if want == "" {
				want = fmt.Sprintf("0x%06X", c.Tag)
			}
			if got := ttlv.TagString(c.Tag); got != want {
				probs = append(probs, fmt.Sprintf("TagString=%q want %q", got, want))
			}
			v := ttlv.Value{Tag: c.Tag, Value: int32(7)}
			probs = append(probs, decodeAll(v)...)
			xml := string(ttlv.MarshalXML(v))
			if c.Name != "" && !strings.HasPrefix(xml, "<"+c.Name+" ") {
				probs = append(probs, "xml-not-written-by-name:"+xml)
			}
			if c.Name == "" && !strings.Contains(xml, fmt.Sprintf(`tag="0x%06X"`, c.Tag)) {
				probs = append(probs, "xml-unregistered-tag-not-written-in-hex:"+xml)
			}
			if c.Name != "" {
				// the name written by somebody else is read as this number
				var o ttlv.Value
				if err := ttlv.UnmarshalXML([]byte(fmt.Sprintf(`<%s type="Integer" value="7"/>`, c.Name)), &o); err != nil || o.Tag != c.Tag {
					probs = append(probs, fmt.Sprintf("xml-name-read-as-0x%06X-err-%v", o.Tag, err))
				}
				if err := ttlv.UnmarshalJSON([]byte(fmt.Sprintf(`{"tag":"%s","type":"Integer","value":7}`, c.Name)), &o); err != nil || o.Tag != c.Tag {
					probs = append(probs, fmt.Sprintf("json-name-read-as-0x%06X-err-%v", o.Tag, err))
				}
			}
			txt := string(ttlv.MarshalText(v))
			if c.Name != "" && !strings.HasPrefix(txt, c.Name+" ") {
				probs = append(probs, "text-not-written-by-name:"+txt)
			}
		case "enum":
			v := ttlv.Value{Tag: c.Tag, Value: ttlv.Enum(uint32(c.Value))}
			probs = append(probs, decodeAll(v)...)
			xml := string(ttlv.MarshalXML(v))
			if c.VName != "" {
				if !strings.Contains(xml, `value="`+c.VName+`"`) {
					probs = append(probs, "xml-value-not-written-by-name:"+xml)
				}
				if n, err := ttlv.EnumByName(c.Tag, c.VName); err != nil || int(n) != c.Value {
					probs = append(probs, fmt.Sprintf("EnumByName=%d,%v", n, err))
				}
				if n := ttlv.EnumName(c.Tag, uint32(c.Value)); n != c.VName {
					probs = append(probs, fmt.Sprintf("EnumName=%q", n))
				}
				var o ttlv.Value
				if err := ttlv.UnmarshalXML([]byte(fmt.Sprintf(`<%s type="Enumeration" value="%s"/>`, c.Name, c.VName)), &o); err != nil || fmt.Sprint(o.Value) != fmt.Sprint(c.Value) {
					probs = append(probs, fmt.Sprintf("xml-value-name-read-as-%v-err-%v", o.Value, err))
				}
				if err := ttlv.UnmarshalJSON([]byte(fmt.Sprintf(`{"tag":"%s","type":"Enumeration","value":"%s"}`, c.Name, c.VName)), &o); err != nil || fmt.Sprint(o.Value) != fmt.Sprint(c.Value) {
					probs = append(probs, fmt.Sprintf("json-value-name-read-as-%v-err-%v", o.Value, err))
				}
			} else {
				if n := ttlv.EnumName(c.Tag, uint32(c.Value)); n != "" {
					probs = append(probs, fmt.Sprintf("unregistered-value-has-name-%q", n))
				}
				if !strings.Contains(xml, fmt.Sprintf(`value="0x%08X"`, uint32(c.Value))) {
					probs = append(probs, "xml-unregistered-value-not-in-hex:"+xml)
				}
			}
		case "crossenum":
			// holders whose member is of one enumeration type and is written under another enumeration's tag
			type h1 struct {
				V kmip.CertificateType `ttlv:"KeyFormatType"`
			}
			type h2 struct {
				V kmip.DRBGAlgorithm `ttlv:"BlockCipherMode"`
			}
			type h3 struct {
				V kmip.KeyFormatType `ttlv:"CertificateType"`
			}
			check := func(name string, in any, out any, get func() uint32, want uint32, vname string) {
				for _, e := range []struct {
					n string
					m func(any) []byte
					u func([]byte, any) error
				}{{"xml", func(v any) []byte { e := ttlv.NewXMLEncoder(); e.TagAny(0x540031, v); return e.Bytes() },
					func(doc []byte, v any) error {
						d, err := ttlv.NewXMLDecoder(doc)
						if err != nil {
							return err
						}
						return d.TagAny(0x540031, v)
					}},
					{"json", func(v any) []byte { e := ttlv.NewJSONEncoder(); e.TagAny(0x540031, v); return e.Bytes() },
						func(doc []byte, v any) error {
							d, err := ttlv.NewJSONDecoder(doc)
							if err != nil {
								return err
							}
							return d.TagAny(0x540031, v)
						}}} {
					doc := e.m(in)
					if !strings.Contains(string(doc), vname) {
						probs = append(probs, fmt.Sprintf("%s:%s:value-not-written-by-its-name:%s", name, e.n, doc))
					}
					if err := e.u(doc, out); err != nil {
						probs = append(probs, fmt.Sprintf("%s:%s:not-read-back:%v", name, e.n, err))
					} else if get() != want {
						probs = append(probs, fmt.Sprintf("%s:%s:read-back-as-%d-instead-of-%d", name, e.n, get(), want))
					}
				}
			}
			{
				var o1 h1
				var o2 h2
				var o3 h3
				switch c.Value {
				case 1:
					check("CertificateType-under-KeyFormatType", &h1{V: kmip.CertificateTypeX_509}, &o1, func() uint32 { return uint32(o1.V) }, uint32(kmip.CertificateTypeX_509), "X_509")
				case 2:
					check("DRBGAlgorithm-under-BlockCipherMode", &h2{V: kmip.DRBGAlgorithmCTR}, &o2, func() uint32 { return uint32(o2.V) }, uint32(kmip.DRBGAlgorithmCTR), "CTR")
				case 3:
					check("KeyFormatType-under-CertificateType", &h3{V: kmip.KeyFormatTypeX_509}, &o3, func() uint32 { return uint32(o3.V) }, uint32(kmip.KeyFormatTypeX_509), "X_509")
				}
			}
		case "vendortype":
			registerVendorTypes()
			var forms []string
			var back []uint32
			var err error
			switch c.Name {
			case "State":
				forms, back, err = vendorTypeForms[State](c.Tag, uint32(c.Value))
			case "ObjectType":
				forms, back, err = vendorTypeForms[ObjectType](c.Tag, uint32(c.Value))
			default:
				forms, back, err = vendorTypeForms[VendorKind](c.Tag, uint32(c.Value))
			}
			if err != nil {
				probs = append(probs, fmt.Sprintf("vendor-type-written-form-not-read-back:%v:%v", err, forms))
			}
			for _, b := range back {
				if err == nil && int(b) != c.Value {
					probs = append(probs, fmt.Sprintf("vendor-type-read-back-as-%d:%v", b, forms))
					break
				}
			}
			for _, f := range forms {
				if c.VName != "" && !strings.Contains(f, c.VName) {
					probs = append(probs, fmt.Sprintf("vendor-type-not-written-by-its-name:%s", f))
					break
				}
				if c.VName == "" && (strings.Contains(f, "Locked") || strings.Contains(f, "Unlocked") || strings.Contains(f, "Active") || strings.Contains(f, "Key")) {
					probs = append(probs, fmt.Sprintf("vendor-type-unregistered-value-written-by-a-name:%s", f))
					break
				}
			}
			if c.VName != "" {
				// the name read as written by somebody else, in the type's own scope
				var n uint32
				var e error
				if n, e = ttlv.EnumByName(c.Tag, c.VName); e != nil || int(n) != c.Value {
					probs = append(probs, fmt.Sprintf("vendor-type-EnumByName=%d,%v", n, e))
				}
			}
		case "name-in-scope", "name-out-of-scope":
			// a value name denotes a value only in the enumeration it is registered in (decimal and 0x-prefixed numbers are the
			// only other forms): the programmatic lookup and the XML / JSON readers agree with the registry
			n, err := ttlv.EnumByName(c.Tag, c.VName)
			var ox, oj ttlv.Value
			errX := ttlv.UnmarshalXML([]byte(fmt.Sprintf(`<%s type="Enumeration" value="%s"/>`, c.Name, c.VName)), &ox)
			errJ := ttlv.UnmarshalJSON([]byte(fmt.Sprintf(`{"tag":"%s","type":"Enumeration","value":"%s"}`, c.Name, c.VName)), &oj)
			if c.Kind == "name-in-scope" {
				if err != nil || int(n) != c.Value {
					probs = append(probs, fmt.Sprintf("EnumByName=%d,%v", n, err))
				}
				if errX != nil || fmt.Sprint(ox.Value) != fmt.Sprint(c.Value) {
					probs = append(probs, fmt.Sprintf("xml-value-name-read-as-%v-err-%v", ox.Value, errX))
				}
				if errJ != nil || fmt.Sprint(oj.Value) != fmt.Sprint(c.Value) {
					probs = append(probs, fmt.Sprintf("json-value-name-read-as-%v-err-%v", oj.Value, errJ))
				}
			} else {
				if err == nil {
					probs = append(probs, fmt.Sprintf("EnumByName-resolves-a-name-of-another-scope-to-%d", n))
				}
				if errX == nil {
					probs = append(probs, fmt.Sprintf("xml-reader-resolves-a-name-of-another-scope-to-%v", ox.Value))
				}
				if errJ == nil {
					probs = append(probs, fmt.Sprintf("json-reader-resolves-a-name-of-another-scope-to-%v", oj.Value))
				}
			}
		case "mask":
			{
				// (a value of several tokens is the union of what each token denotes)
				var n int32
				var err error
				for _, tok := range strings.Split(c.VName, "|") {
					var b int32
					if strings.HasPrefix(tok, "0x") { // a position without a name: BitmaskByStr is the lookup of names
						u, _ := strconv.ParseUint(tok[2:], 16, 32)
						n |= int32(uint32(u))
						continue
					}
					if b, err = ttlv.BitmaskByStr(c.Tag, tok); err != nil {
						break
					}
					n |= b
				}
				if err != nil || int(n) != c.Value {
					probs = append(probs, fmt.Sprintf("BitmaskByStr=%d,%v", n, err))
				}
			}
			if s := string(ttlv.AppendBitmaskString(nil, c.Tag, int32(c.Value), "|")); s != c.VName {
				probs = append(probs, fmt.Sprintf("bit-written-as-%q", s))
			}
			// typed single item round trips, by name
			var typed any
			switch c.Tag {
			case kmip.TagCryptographicUsageMask:
				typed = kmip.CryptographicUsageMask(c.Value)
			case kmip.TagStorageStatusMask:
				typed = kmip.StorageStatusMask(c.Value)
			}
			if typed != nil {
				xml := string(ttlv.MarshalXML(typed))
				if !strings.Contains(xml, strings.ReplaceAll(c.VName, "|", " ")) {
					probs = append(probs, "xml-mask-not-written-by-name:"+xml)
				}
				switch c.Tag {
				case kmip.TagCryptographicUsageMask:
					var o kmip.CryptographicUsageMask
					if err := ttlv.UnmarshalXML([]byte(xml), &o); err != nil || int(o) != c.Value {
						probs = append(probs, fmt.Sprintf("xml-mask-read-as-%d-err-%v", o, err))
					}
					js := ttlv.MarshalJSON(typed)
					if err := ttlv.UnmarshalJSON(js, &o); err != nil || int(o) != c.Value {
						probs = append(probs, fmt.Sprintf("json-mask-read-as-%d-err-%v:%s", o, err, js))
					}
				case kmip.TagStorageStatusMask:
					var o kmip.StorageStatusMask
					if err := ttlv.UnmarshalXML([]byte(xml), &o); err != nil || int(o) != c.Value {
						probs = append(probs, fmt.Sprintf("xml-mask-read-as-%d-err-%v", o, err))
					}
				}
			}
		case "mask2":
			names := strings.Split(c.VName, "|")
			// the text form read into a variable that already holds another value (a reused struct, encoding/json): the result
			// is the value the text denotes
			switch c.Tag {
			case kmip.TagCryptographicUsageMask:
				o := kmip.CryptographicUsageMask(1 << 19)
				if err := o.UnmarshalText([]byte(c.VName)); err != nil || int(o) != c.Value {
					probs = append(probs, fmt.Sprintf("text-read-into-used-variable-gives-%#x-err-%v", int(o), err))
				}
			case kmip.TagStorageStatusMask:
				o := kmip.StorageStatusMask(1 << 1)
				if err := o.UnmarshalText([]byte(c.VName)); err != nil || int(o) != c.Value {
					probs = append(probs, fmt.Sprintf("text-read-into-used-variable-gives-%#x-err-%v", int(o), err))
				}
			}
			// the forms, one right after the other, twice: text with "|", XML (space), JSON ("|"), text with " | ", text with " "
			for round := 0; round < 2; round++ {
				if s := string(ttlv.AppendBitmaskString(nil, c.Tag, int32(c.Value), "|")); s != c.VName {
					probs = append(probs, fmt.Sprintf("mask-written-as-%q-with-separator-bar", s))
				}
				var xml, js string
				var backX, backJ int
				var errX, errJ error
				switch c.Tag {
				case kmip.TagCryptographicUsageMask:
					typed := kmip.CryptographicUsageMask(c.Value)
					_ = ttlv.BitmaskStr(typed, " | ")
					xml, js = string(ttlv.MarshalXML(typed)), string(ttlv.MarshalJSON(typed))
					var ox, oj kmip.CryptographicUsageMask
					errX, errJ = ttlv.UnmarshalXML([]byte(xml), &ox), ttlv.UnmarshalJSON([]byte(js), &oj)
					backX, backJ = int(ox), int(oj)
					if s := ttlv.BitmaskStr(typed, " | "); s != strings.Join(names, " | ") {
						probs = append(probs, fmt.Sprintf("BitmaskStr-gives-%q", s))
					}
				case kmip.TagStorageStatusMask:
					typed := kmip.StorageStatusMask(c.Value)
					_ = ttlv.BitmaskStr(typed, " | ")
					xml, js = string(ttlv.MarshalXML(typed)), string(ttlv.MarshalJSON(typed))
					var ox, oj kmip.StorageStatusMask
					errX, errJ = ttlv.UnmarshalXML([]byte(xml), &ox), ttlv.UnmarshalJSON([]byte(js), &oj)
					backX, backJ = int(ox), int(oj)
					if s := ttlv.BitmaskStr(typed, " | "); s != strings.Join(names, " | ") {
						probs = append(probs, fmt.Sprintf("BitmaskStr-gives-%q", s))
					}
				default:
					continue
				}
				if !strings.Contains(xml, `value="`+strings.Join(names, " ")+`"`) {
					probs = append(probs, "xml-mask-form:"+xml)
				}
				if !strings.Contains(js, `"`+c.VName+`"`) {
					probs = append(probs, "json-mask-form:"+js)
				}
				if errX != nil || backX != c.Value {
					probs = append(probs, fmt.Sprintf("xml-mask-read-as-%d-err-%v:%s", backX, errX, xml))
				}
				if errJ != nil || backJ != c.Value {
					probs = append(probs, fmt.Sprintf("json-mask-read-as-%d-err-%v:%s", backJ, errJ, js))
				}
			}
		}
		if len(probs) > 0 {
			out.Emit(map[string]any{"case": i, "c": c, "problems": probs})
		}
	}
	out.Emit(map[string]any{"summary": true, "cases": n0})
}

// ---------------------------------------------------------------- TestDynamic (spec/RegistryDyn.tla)

type dynStep struct {
	Op   string `json:"op"`
	Slot int    `json:"slot"`
	Obs  string `json:"obs"`
}

type dynCase struct {
	H []dynStep `json:"h"`
}

type dynTarget struct {
	tag         int
	baseName    string
	baseVal     uint32
	register    func(val uint32, name string)
	registerTwo func(v1 uint32, n1 string, v2 uint32, n2 string)
	write       func(val uint32) (xml, json string, xmlBack, jsonBack uint32, err error)
}

func dynTargetFor[T ~uint32](tag int, baseName string, baseVal uint32) dynTarget {
	return dynTarget{tag: tag, baseName: baseName, baseVal: baseVal,
		register: func(val uint32, name string) { ttlv.RegisterEnum[T](tag, map[T]string{T(val): name}) },
		registerTwo: func(v1 uint32, n1 string, v2 uint32, n2 string) {
			ttlv.RegisterEnum[T](tag, map[T]string{T(v1): n1, T(v2): n2})
		},
		write: func(val uint32) (string, string, uint32, uint32, error) {
			x := ttlv.MarshalXML(T(val))
			j := ttlv.MarshalJSON(T(val))
			var bx, bj T
			if err := ttlv.UnmarshalXML(x, &bx); err != nil {
				return string(x), string(j), 0, 0, fmt.Errorf("xml: %w", err)
			}
			if err := ttlv.UnmarshalJSON(j, &bj); err != nil {
				return string(x), string(j), 0, 0, fmt.Errorf("json: %w", err)
			}
			return string(x), string(j), uint32(bx), uint32(bj), nil
		}}
}

// enumeration types of an application, two of them called like standard tags (see Registry.tla, VendorTypeCases)
type State uint32
type ObjectType uint32
type VendorKind uint32

var vendorTypesOnce sync.Once

func registerVendorTypes() {
	vendorTypesOnce.Do(func() {
		ttlv.RegisterEnum(0x540011, map[State]string{1: "Unlocked", 2: "Locked"})
		ttlv.RegisterEnum(0x540012, map[ObjectType]string{1: "Unlocked", 2: "Locked"})
		ttlv.RegisterEnum(0x540013, map[VendorKind]string{1: "Unlocked", 2: "Locked"})
	})
}

// vendorTypeForms: the value written as a single item and as a member of a structure, in XML and JSON, read back into the same type
func vendorTypeForms[T ~uint32](tag int, v uint32) (forms []string, back []uint32, err error) {
	type holder struct {
		Kind T
	}
	const holderTag = 0x540020
	x, j := ttlv.MarshalXML(T(v)), ttlv.MarshalJSON(T(v))
	ex, ej := ttlv.NewXMLEncoder(), ttlv.NewJSONEncoder()
	ex.TagAny(holderTag, holder{Kind: T(v)})
	ej.TagAny(holderTag, holder{Kind: T(v)})
	hx, hj := append([]byte(nil), ex.Bytes()...), append([]byte(nil), ej.Bytes()...)
	forms = []string{string(x), string(j), string(hx), string(hj), ttlv.EnumStr(T(v))}
	var bx, bj T
	var bhx, bhj holder
	decH := func(mk func([]byte) (ttlv.Decoder, error), doc []byte, h *holder) error {
		d, e := mk(doc)
		if e != nil {
			return e
		}
		return d.TagAny(holderTag, h)
	}
	for _, e := range []error{ttlv.UnmarshalXML(x, &bx), ttlv.UnmarshalJSON(j, &bj), decH(ttlv.NewXMLDecoder, hx, &bhx), decH(ttlv.NewJSONDecoder, hj, &bhj)} {
		if e != nil && err == nil {
			err = e
		}
	}
	return forms, []uint32{uint32(bx), uint32(bj), uint32(bhx.Kind), uint32(bhj.Kind)}, err
}

// payload types of a vendor operation, named the way an application may name them: like those of a standard operation
type EncryptRequestPayload struct{ Data []byte }
type EncryptResponsePayload struct{ Data []byte }

func (*EncryptRequestPayload) Operation() kmip.Operation  { return kmip.Operation(0x90000000) }
func (*EncryptResponsePayload) Operation() kmip.Operation { return kmip.Operation(0x90000000) }

var maskExtendOnce sync.Once
var stdUsageNames []string

// extendMaskAndCheck registers the usage mask again, with its 20 standard flags followed by two vendor flags (once per process), and
// checks the bijection between bits 0..21 and their names through the lookups and the XML / JSON forms
func extendMaskAndCheck(at string) (probs []string) {
	maskExtendOnce.Do(func() {
		for b := 0; b < 32; b++ {
			n := string(ttlv.AppendBitmaskString(nil, kmip.TagCryptographicUsageMask, int32(1)<<b, "|"))
			if strings.HasPrefix(n, "0x") {
				break
			}
			stdUsageNames = append(stdUsageNames, n)
		}
		ttlv.RegisterBitmask[kmip.CryptographicUsageMask](kmip.TagCryptographicUsageMask, append(append([]string{}, stdUsageNames...), "VendorEscrow", "VendorAudit")...)
	})
	names := append(append([]string{}, stdUsageNames...), "VendorEscrow", "VendorAudit")
	for b, n := range names {
		if v, err := ttlv.BitmaskByStr(kmip.TagCryptographicUsageMask, n); err != nil || v != int32(1)<<b {
			probs = append(probs, fmt.Sprintf("mask-name-denotes-another-bit:%s: %q is bit %d, BitmaskByStr gives %#x %v", at, n, b, v, err))
			break
		}
		if s := string(ttlv.AppendBitmaskString(nil, kmip.TagCryptographicUsageMask, int32(1)<<b, "|")); s != n {
			probs = append(probs, fmt.Sprintf("mask-bit-written-by-another-name:%s: bit %d is %q, written %q", at, b, n, s))
			break
		}
	}
	v := kmip.CryptographicUsageMask(1 | 1<<2 | 1<<len(stdUsageNames))
	var bx, bj kmip.CryptographicUsageMask
	x, j := ttlv.MarshalXML(v), ttlv.MarshalJSON(v)
	if err := ttlv.UnmarshalXML(x, &bx); err != nil || bx != v {
		probs = append(probs, fmt.Sprintf("mask-with-vendor-flag-read-back-differs:%s: xml %s -> %#x %v", at, x, int32(bx), err))
	}
	if err := ttlv.UnmarshalJSON(j, &bj); err != nil || bj != v {
		probs = append(probs, fmt.Sprintf("mask-with-vendor-flag-read-back-differs:%s: json %s -> %#x %v", at, j, int32(bj), err))
	}
	return
}

// TestDynamic replays every history of RegistryDyn.tla against the real (process-global) registry; every history
// gets fresh extension values and names, so histories do not disturb each other. Run after the static cases.
func TestDynamic(t *testing.T) {
	path := vh.Env("VERIF_DYN_CASES", "")
	if path == "" {
		t.Skip("VERIF_DYN_CASES not set")
	}
	cases, err := vh.ReadNDJSON[dynCase](path)
	if err != nil {
		t.Fatal(err)
	}
	out, err := vh.NewWriter(vh.Env("VERIF_OUT", "registry_dyn_results.ndjson"))
	if err != nil {
		t.Fatal(err)
	}
	defer out.Close()
	targets := []dynTarget{
		dynTargetFor[kmip.State](kmip.TagState, "Active", uint32(kmip.StateActive)),
		dynTargetFor[kmip.CryptographicAlgorithm](kmip.TagCryptographicAlgorithm, "AES", uint32(kmip.CryptographicAlgorithmAES)),
		dynTargetFor[kmip.ObjectType](kmip.TagObjectType, "SecretData", uint32(kmip.ObjectTypeSecretData)),
		dynTargetFor[kmip.Operation](kmip.TagOperation, "Encrypt", uint32(kmip.OperationEncrypt)),
	}
	steps := 0
	for h, c := range cases {
		tg := targets[h%len(targets)]
		val := func(slot int) uint32 { return 0x80000000 + uint32(h)*4 + uint32(slot) }
		name := func(id int) string { return fmt.Sprintf("VendorExt%d_%d", h, id) }
		nm := map[int]int{1: 1, 2: 2} // the name id each slot carries (exchanged by swap)
		var probs []string
		func() {
			defer func() {
				if r := recover(); r != nil {
					probs = append(probs, "panic:"+vh.PanicSig(r))
				}
			}()
			for k, s := range c.H {
				steps++
				at := fmt.Sprintf("step %d %s(%d)", k+1, s.Op, s.Slot)
				switch s.Op {
				case "register":
					tg.register(val(s.Slot), name(nm[s.Slot]))
				case "mask-extend":
					probs = append(probs, extendMaskAndCheck(at)...)
				case "payloads":
					kmip.RegisterOperationPayload[EncryptRequestPayload, EncryptResponsePayload](kmip.Operation(0x90000000 + uint32(h)))
				case "swap":
					nm[1], nm[2] = nm[2], nm[1]
					tg.registerTwo(val(1), name(nm[1]), val(2), name(nm[2]))
				case "by-name":
					v, err := ttlv.EnumByName(tg.tag, name(s.Slot))
					var want int
					if n, _ := fmt.Sscanf(s.Obs, "value:%d", &want); n == 1 {
						if err != nil || v != val(want) {
							probs = append(probs, fmt.Sprintf("registered-name-not-resolved:%s: %v %#x (want %#x)", at, err, v, val(want)))
						}
					} else if err == nil {
						probs = append(probs, fmt.Sprintf("unregistered-name-resolved:%s: %#x", at, v))
					}
				case "by-value":
					n := ttlv.EnumName(tg.tag, val(s.Slot))
					var want int
					if k, _ := fmt.Sscanf(s.Obs, "name:%d", &want); k == 1 {
						if n != name(want) {
							probs = append(probs, fmt.Sprintf("registered-value-without-its-name:%s: %q (want %q)", at, n, name(want)))
						}
					} else if n != "" {
						probs = append(probs, fmt.Sprintf("unregistered-value-named:%s: %q", at, n))
					}
				case "base-by-name":
					if v, err := ttlv.EnumByName(tg.tag, tg.baseName); err != nil || v != tg.baseVal {
						probs = append(probs, fmt.Sprintf("pinned-name-lost:%s: %v %#x", at, err, v))
					}
				case "base-by-value":
					if n := ttlv.EnumName(tg.tag, tg.baseVal); n != tg.baseName {
						probs = append(probs, fmt.Sprintf("pinned-value-lost:%s: %q", at, n))
					}
				case "write":
					x, j, bx, bj, err := tg.write(val(s.Slot))
					var want int
					k, _ := fmt.Sscanf(s.Obs, "name:%d", &want)
					byName := k == 1 && strings.Contains(x, name(want)) && strings.Contains(j, name(want))
					anyName := strings.Contains(x, "VendorExt") || strings.Contains(j, "VendorExt")
					switch {
					case err != nil:
						probs = append(probs, fmt.Sprintf("written-form-not-read-back:%s: %v (xml %s)", at, err, x))
					case bx != val(s.Slot) || bj != val(s.Slot):
						probs = append(probs, fmt.Sprintf("read-back-differs:%s: %#x %#x", at, bx, bj))
					case k == 1 && !byName:
						probs = append(probs, fmt.Sprintf("registered-value-not-written-by-its-name:%s: %s", at, x))
					case s.Obs == "hex" && anyName:
						probs = append(probs, fmt.Sprintf("unregistered-value-written-by-name:%s", at))
					}
				}
			}
		}()
		if len(probs) > 0 {
			out.Emit(map[string]any{"history": h, "tag": ttlv.TagString(tg.tag), "h": c.H, "problems": probs})
		}
	}
	out.Emit(map[string]any{"summary": true, "histories": len(cases), "steps": steps})
}
