// TestChurn: C08 under real parallelism. No gate controller, no synctest bubble: a real kmipserver over the in-memory listener,
// and 4 x GOMAXPROCS client goroutines that connect, send one to three requests, read the responses and disconnect (some abruptly)
// as fast as they can. The event log (connect / send / recv / close per connection slot, written under one lock) is validated by TLC
// against spec/Churn.tla; the check also observes that this process survives (a Go process dies of an unsynchronised map write) and
// runs the same binary under the race detector.
package server

import (
	"context"
	"fmt"
	"runtime"
	"strings"
	"sync"
	"sync/atomic"
	"testing"
	"time"

	"github.com/ovh/kmip-go"
	"github.com/ovh/kmip-go/kmipserver"
	"github.com/ovh/kmip-go/payloads"
	"github.com/ovh/kmip-go/ttlv"

	"verifharness/memnet"
	"verifharness/vh"
)

func TestChurn(t *testing.T) {
	path := vh.Env("VERIF_CHURN_TRACE", "")
	if path == "" {
		t.Skip("VERIF_CHURN_TRACE not set")
	}
	w, err := vh.NewWriter(path)
	if err != nil {
		t.Fatal(err)
	}
	defer w.Close()
	rounds := vh.EnvInt("VERIF_CHURN_ROUNDS", 20)
	const slots = 64
	workers := 4 * runtime.GOMAXPROCS(0)
	if workers > slots {
		workers = slots
	}
	var problems []string
	var pmu sync.Mutex
	bad := func(f string, a ...any) {
		pmu.Lock()
		problems = append(problems, fmt.Sprintf(f, a...))
		pmu.Unlock()
	}
	var lmu sync.Mutex // the log lock: an event is logged under it at the moment the client observes it
	logev := func(m map[string]any) {
		lmu.Lock()
		w.Emit(m)
		lmu.Unlock()
	}
	for round := 0; round < rounds; round++ {
		logev(map[string]any{"ev": "reset", "round": round})
		ln := memnet.NewListener()
		var connects, terminates atomic.Int32
		ex := kmipserver.NewBatchExecutor()
		ex.Route(kmip.OperationActivate, kmipserver.HandleFunc(func(ctx context.Context, req *payloads.ActivateRequestPayload) (*payloads.ActivateResponsePayload, error) {
			if strings.HasSuffix(req.UniqueIdentifier, ".panic") {
				panic("handler panic")
			}
			return &payloads.ActivateResponsePayload{UniqueIdentifier: req.UniqueIdentifier}, nil
		}))
		srv := kmipserver.NewServer(ln, ex).
			WithConnectHook(func(ctx context.Context) (context.Context, error) { connects.Add(1); return ctx, nil }).
			WithTerminateHook(func(ctx context.Context) { terminates.Add(1) })
		served := make(chan error, 1)
		go func() { served <- srv.Serve() }()
		var wg sync.WaitGroup
		for wk := 1; wk <= workers; wk++ {
			wg.Add(1)
			go func(c int) {
				defer wg.Done()
				conn, err := ln.Dial()
				if err != nil {
					bad("dial refused for slot %d", c)
					return
				}
				logev(map[string]any{"ev": "connect", "c": c})
				st := ttlv.NewStream(conn, -1)
				n := 1 + (c+round)%3
				abrupt := (c+round)%5 == 0
				for k := 1; k <= n; k++ {
					id := fmt.Sprintf("r%d.c%d.k%d", round, c, k)
					if (c+k+round)%7 == 0 {
						id += ".panic"
					}
					msg := kmip.NewRequestMessage(kmip.V1_4, &payloads.ActivateRequestPayload{UniqueIdentifier: id})
					lmu.Lock()
					w.Emit(map[string]any{"ev": "send", "c": c})
					err := st.Send(&msg)
					lmu.Unlock()
					if err != nil {
						bad("send failed on slot %d: %v", c, err)
						break
					}
					if abrupt && k == n {
						break // the client goes away without reading its last response
					}
					var resp kmip.ResponseMessage
					done := make(chan error, 1)
					go func() { done <- st.Recv(&resp) }()
					select {
					case err := <-done:
						if err != nil {
							bad("no-response: slot %d request %d: %v", c, k, err)
							k = n
							continue
						}
					case <-time.After(20 * time.Second):
						bad("no-response: slot %d request %d: nothing within 20 s", c, k)
						k = n
						continue
					}
					if len(resp.BatchItem) != 1 {
						bad("wrong-response: slot %d request %d: %d items", c, k, len(resp.BatchItem))
						continue
					}
					bi := resp.BatchItem[0]
					if strings.HasSuffix(id, ".panic") {
						if bi.ResultStatus != kmip.ResultStatusOperationFailed {
							bad("wrong-response: slot %d request %d: a panicking handler reported success", c, k)
						}
					} else if pl, ok := bi.ResponsePayload.(*payloads.ActivateResponsePayload); !ok || pl.UniqueIdentifier != id {
						bad("wrong-response: slot %d request %d got %#v", c, k, bi.ResponsePayload)
					}
					logev(map[string]any{"ev": "recv", "c": c, "k": k})
				}
				logev(map[string]any{"ev": "close", "c": c})
				conn.Close()
			}(wk)
		}
		wg.Wait()
		sd := make(chan error, 1)
		go func() { sd <- srv.Shutdown() }()
		select {
		case <-sd:
		case <-time.After(20 * time.Second):
			bad("shutdown-blocked: Shutdown has not returned after 20 s")
		}
		select {
		case <-served:
		case <-time.After(5 * time.Second):
			bad("serve-not-returned")
		}
		if connects.Load() != terminates.Load() {
			bad("hooks-unpaired: %d connect hooks, %d terminate hooks", connects.Load(), terminates.Load())
		}
	}
	time.Sleep(200 * time.Millisecond)
	if n := libGoroutines(); n > 0 {
		bad("goroutines-left: %d goroutine(s) running server code after the last Shutdown", n)
	}
	logev(map[string]any{"ev": "reset", "round": rounds})
	out, err := vh.NewWriter(vh.Env("VERIF_OUT", "churn_results.ndjson"))
	if err != nil {
		t.Fatal(err)
	}
	defer out.Close()
	out.Emit(map[string]any{"summary": true, "rounds": rounds, "workers": workers, "problems": problems})
}
