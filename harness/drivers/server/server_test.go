// Driver for C08 / C16: the real kmipserver (Serve, handleConn, conn read/write loops, terminate,
// Shutdown) runs over in-memory connections inside a testing/synctest bubble under the gate
// controller (package sched). One goroutine is released at a time; environment actions (client
// connects / sends / half-closes / closes, Shutdown is called, the grace timer fires) are performed by
// the controller. Every step is recorded; TLC validates the record against spec/TraceServer.tla.
//
// Schedules come from VERIF_SCHEDULES (compiled from TLC behaviours: trap counterexamples and
// simulations) and from seeded random walks of the controller itself.
package server

import (
	"bytes"
	"context"
	"errors"
	"fmt"
	"math/rand"
	"os"
	"strings"
	"sync"
	"sync/atomic"
	"testing"
	"testing/synctest"
	"time"

	"github.com/ovh/kmip-go"
	"github.com/ovh/kmip-go/kmipserver"
	"github.com/ovh/kmip-go/payloads"
	"github.com/ovh/kmip-go/ttlv"

	"verifharness/memnet"
	"verifharness/sched"
	"verifharness/vh"
)

func TestMain(m *testing.M) { vh.Quiet(); os.Exit(m.Run()) }

// Cmd is one command of a schedule: release a role, or an environment action.
type Cmd struct {
	Op   string `json:"op"`             // "rel" | "env"
	C    int    `json:"c,omitempty"`    // connection (0 for S, D, T)
	Role string `json:"role,omitempty"` // M R W S D T
	Act  string `json:"act,omitempty"`  // CliConnect CliSend CliHalfClose CliClose StartShutdown TimerFire OwnerClose
	Kind string `json:"kind,omitempty"`
	Out  string `json:"out,omitempty"` // connect hook outcome for rel of u.connect
}

type Schedule struct {
	ID   string `json:"id"`
	Cmds []Cmd  `json:"cmds"`
}

type world struct {
	ctl               *sched.Ctl
	w                 *vh.Writer
	ln                *memnet.Listener
	srv               *kmipserver.Server
	cli               map[int]*memnet.Conn
	sentk             map[int]int
	cliWr             map[int]bool
	cliCl             map[int]bool
	connOf            map[uint64]int // goroutine -> connection
	roleOf            map[uint64]string
	ptrConn           map[string]int // *conn pointer -> connection
	handled           map[int][]int
	termhk            map[int]int
	hookOut           map[int]string // scripted connect hook outcome per connection
	serveRes          string
	sdStarted, sdDone bool
	ownerClosed       bool
	checkedAfterSd    bool
	timerFired        bool
	rnd               *rand.Rand
	nconn             int
	curConn           int // connection of the goroutine released last
	pmu               sync.Mutex
	maxReq            int
	diverged          int
}

func roleName(c int, r string) string { return fmt.Sprintf("%d.%s", c, r) }

func (wd *world) roleFor(gid uint64, point string, obj any) string {
	if r, ok := wd.roleOf[gid]; ok {
		return r
	}
	var r string
	switch {
	case strings.HasPrefix(point, "serve."):
		r = "0.S"
	case point == "sd.timer":
		r = "0.T"
	case strings.HasPrefix(point, "sd."):
		r = "0.D"
	case point == "hc.start":
		c := obj.(*memnet.Conn).ID
		wd.connOf[gid] = c
		r = roleName(c, "M")
	case strings.HasPrefix(point, "rl."):
		r = roleName(wd.connOfPtr(obj), "R")
	case strings.HasPrefix(point, "wl."):
		r = roleName(wd.connOfPtr(obj), "W")
	default:
		r = fmt.Sprintf("g%d", gid)
	}
	wd.roleOf[gid] = r
	return r
}

// connOfPtr maps a *conn to its connection id. The read and write loops are spawned by newConn while the
// handleConn goroutine released last (from hc.start) is running, before it reaches hc.newconn.
func (wd *world) connOfPtr(obj any) int {
	k := fmt.Sprintf("%p", obj)
	wd.pmu.Lock()
	defer wd.pmu.Unlock()
	if c, ok := wd.ptrConn[k]; ok {
		return c
	}
	wd.ptrConn[k] = wd.curConn
	return wd.curConn
}

func (wd *world) hook(point string, obj any) {
	if point == "hc.newconn" {
		// binds the *conn pointer to the connection of the calling handleConn goroutine
		_ = wd.connOfPtr(obj)
	}
	wd.ctl.Hook(point, obj)
}

type connCtxKey struct{}

type opHandler struct{ wd *world }

type stringer struct{}

func (stringer) String() string { return "stringer" }

// sliceErr is an error whose dynamic type is not hashable (a validation-error list): a plain error like any other.
type sliceErr []string

func (e sliceErr) Error() string { return "slice error: " + fmt.Sprint([]string(e)) }

// fieldErr is an unhashable error of struct kind, returned by value.
type fieldErr struct{ fields []string }

func (e fieldErr) Error() string { return "field error: " + fmt.Sprint(e.fields) }

func (h opHandler) HandleOperation(ctx context.Context, req kmip.OperationPayload) (kmip.OperationPayload, error) {
	pl := req.(*payloads.ActivateRequestPayload)
	var c, k int
	var out string
	fmt.Sscanf(pl.UniqueIdentifier, "c%d.k%d.%s", &c, &k, &out)
	h.wd.ctl.Hook("u.handler", nil)
	h.wd.handled[c] = append(h.wd.handled[c], k)
	switch out {
	case "typed":
		return nil, kmipserver.ErrItemNotFound
	case "plain":
		return nil, errors.New("plain failure")
	case "plainU":
		return nil, sliceErr{"first", "second"}
	case "plainF":
		return nil, fmt.Errorf("wrapped: %w", fieldErr{fields: []string{"x"}})
	case "panicU":
		panic(fieldErr{fields: []string{"y"}})
	case "panics":
		panic("handler panic (string)")
	case "panice":
		panic(errors.New("handler panic (error)"))
	case "panici":
		panic(42)
	case "panicn":
		var m map[string]int
		m["x"] = 1 // runtime error
	case "panicS":
		panic(stringer{})
	}
	return &payloads.ActivateResponsePayload{UniqueIdentifier: pl.UniqueIdentifier}, nil
}

var outcomes = []string{"ok", "ok", "typed", "plain", "plainU", "plainF", "panics", "panice", "panici", "panicn", "panicS", "panicU"}

func newWorld(w *vh.Writer, seed int64) *world {
	wd := &world{ctl: sched.New(), w: w, ln: memnet.NewListener(), cli: map[int]*memnet.Conn{}, sentk: map[int]int{},
		cliWr: map[int]bool{}, cliCl: map[int]bool{}, connOf: map[uint64]int{}, roleOf: map[uint64]string{}, ptrConn: map[string]int{},
		handled: map[int][]int{}, termhk: map[int]int{}, hookOut: map[int]string{}, rnd: rand.New(rand.NewSource(seed)), serveRes: "-", maxReq: 3}
	wd.ctl.RoleFor = wd.roleFor
	ex := kmipserver.NewBatchExecutor()
	ex.Route(kmip.OperationActivate, opHandler{wd})
	wd.srv = kmipserver.NewServer(wd.ln, ex).
		WithConnectHook(func(ctx context.Context) (context.Context, error) {
			wd.ctl.Hook("u.connect", nil)
			c := wd.connOf[sched.Gid()]
			if wd.hookOut[c] == "fail" {
				return ctx, errors.New("connect hook refuses")
			}
			// the connection's number travels in the context the hook returns: the terminate hook knows its connection whatever
			// goroutine it is called on
			return context.WithValue(ctx, connCtxKey{}, c), nil
		}).
		WithTerminateHook(func(ctx context.Context) {
			c, ok := ctx.Value(connCtxKey{}).(int)
			if !ok {
				c = wd.connOf[sched.Gid()]
			}
			wd.w.Emit(map[string]any{"ev": "obs", "kind": "terminate-hook-entered", "c": c})
			wd.ctl.Hook("u.terminate", nil)
			wd.termhk[c]++
		})
	kmipserver.VerifHook = wd.hook
	return wd
}

// ---- messages the scripted clients send --------------------------------------------------------------

func reqBytes(c, k int, out string) []byte {
	msg := kmip.NewRequestMessage(kmip.V1_2, &payloads.ActivateRequestPayload{UniqueIdentifier: fmt.Sprintf("c%d.k%d.%s", c, k, out)})
	return ttlv.MarshalTTLV(&msg)
}

// framed, but the decoder fails with an encoding error: the classes of decoding failure (unexpected root tag, structure ending
// before a required member at three depths, wrong type of a member, wrong type of the root)
func encBytes(variant int) []byte {
	pv := ttlv.Value{Tag: kmip.TagProtocolVersion, Value: ttlv.Struct{{Tag: kmip.TagProtocolVersionMajor, Value: int32(1)}, {Tag: kmip.TagProtocolVersionMinor, Value: int32(2)}}}
	hdr := ttlv.Value{Tag: kmip.TagRequestHeader, Value: ttlv.Struct{pv, {Tag: kmip.TagBatchCount, Value: int32(1)}}}
	var v any
	switch variant % 6 {
	case 0:
		v = &kmip.Attribute{AttributeName: "x-bad", AttributeValue: "v"}
	case 1:
		v = ttlv.Value{Tag: kmip.TagRequestMessage, Value: ttlv.Struct{}}
	case 2:
		v = ttlv.Value{Tag: kmip.TagRequestMessage, Value: ttlv.Struct{{Tag: kmip.TagRequestHeader, Value: ttlv.Struct{pv}}}}
	case 3:
		v = ttlv.Value{Tag: kmip.TagRequestMessage, Value: ttlv.Struct{hdr, {Tag: kmip.TagBatchItem, Value: ttlv.Struct{{Tag: kmip.TagOperation, Value: ttlv.Enum(kmip.OperationActivate)}}}}}
	case 4:
		v = ttlv.Value{Tag: kmip.TagRequestMessage, Value: ttlv.Struct{{Tag: kmip.TagRequestHeader, Value: ttlv.Struct{pv, {Tag: kmip.TagBatchCount, Value: "1"}}}}}
	default:
		v = ttlv.Value{Tag: kmip.TagRequestMessage, Value: int32(7)}
	}
	return ttlv.MarshalTTLV(v)
}

// framed request whose decoding fails with a plain (non encoding) error: unsupported credential type
func plainBytes(c, k int) []byte {
	msg := kmip.NewRequestMessage(kmip.V1_2, &payloads.ActivateRequestPayload{UniqueIdentifier: fmt.Sprintf("c%d.k%d.ok", c, k)})
	msg.Header.Authentication = &kmip.Authentication{Credential: kmip.Credential{CredentialType: kmip.CredentialTypeUsernameAndPassword,
		CredentialValue: kmip.CredentialValue{UserPassword: &kmip.CredentialValueUserPassword{Username: "u", Password: "p"}}}}
	b := ttlv.MarshalTTLV(&msg)
	for i := 0; i+16 <= len(b); i += 8 {
		if b[i] == 0x42 && b[i+1] == 0x00 && b[i+2] == 0x24 && b[i+3] == 0x05 {
			b[i+11] = 0x99
		}
	}
	return b
}

func respBytes() []byte {
	return ttlv.MarshalTTLV(&kmip.ResponseMessage{Header: kmip.ResponseHeader{ProtocolVersion: kmip.V1_2, TimeStamp: time.Unix(1700000000, 0), BatchCount: 1},
		BatchItem: []kmip.ResponseBatchItem{{Operation: kmip.OperationActivate, ResponsePayload: &payloads.ActivateResponsePayload{UniqueIdentifier: "from-client"}}}})
}

// ---- recording ------------------------------------------------------------------------------------------

func pjson(role string) []any {
	var c int
	var r string
	fmt.Sscanf(role, "%d.%s", &c, &r)
	return []any{c, r}
}

// pickable: the parked goroutines the random walk may release. A goroutine the specification does not know (role "g<id>": work
// the library moved to a goroutine of its own) is starved in half of the runs - released only when nothing else is parked -
// which is the schedule that exposes deferred cleanup.
func (wd *world) pickable(starve bool) []*sched.Gate {
	var res, foreign []*sched.Gate
	for _, g := range wd.ctl.Parked() {
		if strings.HasPrefix(g.Role, "g") {
			foreign = append(foreign, g)
		} else {
			res = append(res, g)
		}
	}
	if !starve || len(res) == 0 {
		res = append(res, foreign...)
	}
	return res
}

// logArrivals writes the consequences of a step: rendezvous as one "hand" event, the rest as "arr" events
func (wd *world) logArrivals(before map[string]string, arrs [][2]string) {
	at := map[string]string{}
	for _, a := range arrs {
		at[a[0]] = a[1]
	}
	used := map[string]bool{}
	for c := 1; c <= wd.nconn; c++ {
		m, r, w := roleName(c, "M"), roleName(c, "R"), roleName(c, "W")
		if before[m] == "recv.select!" && before[r] == "rl.offer!" && at[m] != "" && at[r] != "" &&
			(at[m] == "u.handler" || at[m] == "send.avail") && (at[r] == "rl.recv" || at[r] == "rl.exit") {
			wd.w.Emit(map[string]any{"ev": "hand", "c": c, "k": "rx", "m": at[m], "o": at[r]})
			used[m], used[r] = true, true
		}
		if before[m] == "send.select!" && before[w] == "wl.select!" && at[m] == "send.wait" && at[w] == "wl.send" {
			wd.w.Emit(map[string]any{"ev": "hand", "c": c, "k": "tx", "m": at[m], "o": at[w]})
			used[m], used[w] = true, true
		}
		// (the per-message error channel is buffered: the write loop's report and the sender's wake-up are
		// independent arrivals, W first because M's wake-up depends on the value W deposited)
	}
	for _, a := range arrs {
		if !used[a[0]] {
			wd.w.Emit(map[string]any{"ev": "arr", "p": pjson(a[0]), "g": a[1]})
		}
	}
}

func (wd *world) positions() map[string]string {
	res := map[string]string{}
	for c := 1; c <= wd.nconn; c++ {
		for _, r := range []string{"M", "R", "W"} {
			res[roleName(c, r)] = wd.ctl.Where(roleName(c, r))
		}
	}
	for _, r := range []string{"0.S", "0.D", "0.T"} {
		res[r] = wd.ctl.Where(r)
	}
	return res
}

// settle waits for quiescence and logs what the last action caused. Exited goroutines (released from an
// exit gate) are logged as arrivals at "done".
func (wd *world) settle(before map[string]string, since int, released string) {
	synctest.Wait()
	arrs := wd.ctl.Arrivals(since)
	if released != "" {
		g := before[released]
		if g == "rl.exit" || g == "wl.exit" || g == "hc.exit" || g == "sd.return" || g == "sd.timer" || g == "serve.exit" {
			arrs = append(arrs, [2]string{released, "done"})
		}
	}
	b2 := map[string]string{}
	for k, v := range before {
		b2[k] = v
	}
	if released != "" {
		b2[released] = before[released] + "!"
	}
	wd.logArrivals(b2, arrs)
}

func (wd *world) release(g *sched.Gate) {
	before := wd.positions()
	since := wd.ctl.Snapshot()
	ev := map[string]any{"ev": "rel", "p": pjson(g.Role), "g": g.Point}
	if g.Point == "u.connect" {
		c := pjson(g.Role)[0].(int)
		if wd.hookOut[c] == "" {
			wd.hookOut[c] = "ok"
		}
		ev["out"] = wd.hookOut[c]
	}
	wd.w.Emit(ev)
	wd.curConn = pjson(g.Role)[0].(int)
	wd.ctl.Release(g)
	wd.settle(before, since, g.Role)
}

// env performs an environment action; returns false if it is not applicable in the current state
func (wd *world) env(act string, c int, kind string) bool {
	before := wd.positions()
	since := wd.ctl.Snapshot()
	switch act {
	case "CliConnect":
		if c != wd.nconn+1 || c > 2 {
			return false
		}
		cl, err := wd.ln.Dial()
		if err != nil {
			return false
		}
		wd.nconn++
		wd.cli[c] = cl
		wd.w.Emit(map[string]any{"ev": "env", "act": act, "c": c})
	case "CliSend":
		cl := wd.cli[c]
		if cl == nil || wd.cliWr[c] || wd.sentk[c] >= wd.maxReq {
			return false
		}
		wd.sentk[c]++
		k := wd.sentk[c]
		var b []byte
		switch kind {
		case "req":
			b = reqBytes(c, k, outcomes[wd.rnd.Intn(len(outcomes))])
		case "enc":
			b = encBytes(wd.rnd.Intn(6))
		case "plain":
			b = plainBytes(c, k)
		case "resp":
			b = respBytes()
		case "part":
			b = reqBytes(c, k, "ok")
			b = b[:len(b)/2]
			wd.maxReq = wd.sentk[c] // nothing follows an incomplete message
		default:
			return false
		}
		wd.w.Emit(map[string]any{"ev": "env", "act": act, "c": c, "kind": kind})
		cl.Write(b)
		if kind == "part" {
			wd.cliWr[c] = wd.cliWr[c] // unchanged; sends are blocked through maxReq
		}
	case "CliHalfClose":
		cl := wd.cli[c]
		if cl == nil || wd.cliWr[c] {
			return false
		}
		wd.cliWr[c] = true
		wd.w.Emit(map[string]any{"ev": "env", "act": act, "c": c})
		cl.CloseWrite()
	case "CliClose":
		cl := wd.cli[c]
		if cl == nil || wd.cliCl[c] {
			return false
		}
		wd.cliWr[c], wd.cliCl[c] = true, true
		wd.w.Emit(map[string]any{"ev": "env", "act": act, "c": c})
		cl.Close()
	case "StartShutdown":
		if wd.sdStarted {
			return false
		}
		wd.sdStarted = true
		wd.w.Emit(map[string]any{"ev": "env", "act": act})
		go func() {
			_ = wd.srv.Shutdown()
			wd.sdDone = true
			// observed from outside the library: the call has returned (whatever gates it passed)
			wd.w.Emit(map[string]any{"ev": "obs", "kind": "shutdown-returned"})
		}()
	case "OwnerClose":
		// the application closes its listener itself before it calls Shutdown
		if wd.sdStarted || wd.ownerClosed {
			return false
		}
		wd.ownerClosed = true
		wd.w.Emit(map[string]any{"ev": "env", "act": act})
		wd.ln.Close()
	case "TimerFire":
		// virtual time: the 3 s grace timer fires only if it is armed and was not stopped
		if !wd.sdStarted || wd.timerFired {
			return false
		}
		d := wd.ctl.Where("0.D")
		if d != "sd.wait" && d != "sd.wait!" {
			return false
		}
		wd.timerFired = true
		wd.w.Emit(map[string]any{"ev": "env", "act": act})
		time.Sleep(3*time.Second + time.Millisecond)
	default:
		return false
	}
	wd.settle(before, since, "")
	return true
}

// decode what the client received
func (wd *world) clientView(c int) [][]any {
	res := [][]any{}
	cl := wd.cli[c]
	if cl == nil {
		return res
	}
	data := cl.TryRead()
	st := ttlv.NewStream(nopCloser{bytes.NewReader(data)}, -1)
	for {
		var resp kmip.ResponseMessage
		if err := st.Recv(&resp); err != nil {
			break
		}
		for _, bi := range resp.BatchItem {
			if pl, ok := bi.ResponsePayload.(*payloads.ActivateResponsePayload); ok && bi.ResultStatus == kmip.ResultStatusSuccess {
				var cc, k int
				fmt.Sscanf(pl.UniqueIdentifier, "c%d.k%d.", &cc, &k)
				res = append(res, []any{"ok", k})
			} else if bi.ResultReason == kmip.ResultReasonInvalidMessage && bi.Operation == 0 {
				res = append(res, []any{"inv", 0})
			} else {
				// a failed item of a handled request: find k in the message (handler errors echo nothing): match by order
				res = append(res, []any{"ok", -1})
			}
		}
	}
	return res
}

type nopCloser struct{ *bytes.Reader }

func (nopCloser) Write(p []byte) (int, error) { return len(p), nil }
func (nopCloser) Close() error                { return nil }

func (wd *world) end() {
	out := [][][]any{}
	handled := [][]int{}
	hooks := []int{}
	for c := 1; c <= 2; c++ {
		view := wd.clientView(c)
		// failed items of handled requests carry no id: fill in by position (responses are in request order)
		h := wd.handled[c]
		j := 0
		for i := range view {
			if view[i][0] == "ok" {
				if view[i][1] == -1 && j < len(h) {
					view[i][1] = h[j]
				}
				j++
			}
		}
		out = append(out, view)
		hh := wd.handled[c]
		if hh == nil {
			hh = []int{}
		}
		handled = append(handled, hh)
		hooks = append(hooks, wd.termhk[c])
	}
	blocked := [][]string{}
	for role, at := range wd.positions() {
		if at == "" {
			continue
		}
		done := at == "hc.exit!" || at == "rl.exit!" || at == "wl.exit!" || at == "sd.return!" || at == "sd.timer!" || at == "serve.exit!"
		if role == "0.S" && (at == "serve.accept!" || wd.serveRes != "-") {
			done = true
		}
		if role == "0.D" && wd.sdDone {
			done = true // Shutdown has returned, wherever the controller saw it last
		}
		if !done {
			blocked = append(blocked, []string{role, at})
		}
	}
	if len(blocked) > 0 {
		wd.w.Emit(map[string]any{"ev": "obs", "kind": "leak", "blocked": blocked})
	}
	wd.w.Emit(map[string]any{"ev": "end", "out": out, "handled": handled, "termhooks": hooks, "serve": wd.serveRes, "diverged": wd.diverged})
}

// runOne executes one schedule followed by a random walk and a drain phase. All runs of a driver process share
// ONE synctest bubble (see TestRuns): library state that outlives a server (e.g. a package-level pool) then
// behaves as it does in a real process, where all servers and connections live in the same world.
func runOne(t *testing.T, w *vh.Writer, sc Schedule, seed int64, randomSteps int, shutdown bool) {
	{
		w.Emit(map[string]any{"ev": "reset", "id": sc.ID})
		wd := newWorld(w, seed)
		go func() {
			err := wd.srv.Serve()
			if errors.Is(err, kmipserver.ErrShutdown) {
				wd.serveRes = "shutdown"
			} else {
				wd.serveRes = fmt.Sprint(err)
			}
		}()
		synctest.Wait()
		// 1. the schedule
		for _, cmd := range sc.Cmds {
			if cmd.Op == "env" {
				if cmd.Act == "CliConnect" && cmd.Out != "" {
					wd.hookOut[cmd.C] = cmd.Out
				}
				if !wd.env(cmd.Act, cmd.C, cmd.Kind) {
					wd.diverged++
				}
				continue
			}
			role := roleName(cmd.C, cmd.Role)
			if cmd.Out != "" {
				wd.hookOut[cmd.C] = cmd.Out
			}
			g := wd.ctl.Find(role)
			if g == nil {
				wd.diverged++
				continue
			}
			wd.release(g)
		}
		// 2. seeded random walk
		kinds := []string{"req", "req", "req", "enc", "plain", "resp", "part"}
		for step := 0; step < randomSteps; step++ {
			parked := wd.pickable(seed%2 == 0)
			n := len(parked)
			pick := wd.rnd.Intn(n + 3)
			if pick < n {
				wd.release(parked[pick])
				continue
			}
			c := 1 + wd.rnd.Intn(2)
			switch wd.rnd.Intn(12) {
			case 0, 1:
				if wd.rnd.Intn(4) == 0 {
					wd.hookOut[wd.nconn+1] = "fail"
				}
				wd.env("CliConnect", wd.nconn+1, "")
			case 2, 3, 4, 5, 6:
				wd.env("CliSend", c, kinds[wd.rnd.Intn(len(kinds))])
			case 7:
				wd.env("CliHalfClose", c, "")
			case 8:
				wd.env("CliClose", c, "")
			case 9:
				if shutdown {
					wd.env("StartShutdown", 0, "")
				}
			case 10:
				wd.env("TimerFire", 0, "")
			case 11:
				if shutdown && wd.rnd.Intn(3) == 0 {
					wd.env("OwnerClose", 0, "")
				}
			}
		}
		// 3. drain: close every client, let everything run out
		w.Emit(map[string]any{"ev": "note", "what": "drain"})
		for guard := 0; guard < 2000; guard++ {
			parked := wd.ctl.Parked()
			if len(parked) > 0 {
				wd.release(parked[wd.rnd.Intn(len(parked))])
				continue
			}
			if wd.sdDone && !wd.checkedAfterSd {
				// Shutdown has returned and nothing is parked: whatever goroutine of a connection has not ended now waits for its client
				wd.checkedAfterSd = true
				var alive [][]string
				for role, at := range wd.positions() {
					if at == "" || strings.HasPrefix(role, "0.") {
						continue
					}
					if at != "hc.exit!" && at != "rl.exit!" && at != "wl.exit!" && at != "done" && at != "done!" {
						alive = append(alive, []string{role, at})
					}
				}
				if len(alive) > 0 {
					wd.w.Emit(map[string]any{"ev": "obs", "kind": "alive-after-shutdown", "blocked": alive})
				}
			}
			progressed := false
			for c := 1; c <= wd.nconn; c++ {
				if wd.env("CliClose", c, "") {
					progressed = true
					break
				}
			}
			if progressed {
				continue
			}
			if wd.sdStarted && !wd.sdDone && wd.env("TimerFire", 0, "") {
				continue
			}
			break
		}
		wd.end()
		kmipserver.VerifHook = nil
		wd.ln.Close() // lets the accept loop of a run without Shutdown return
		synctest.Wait()
	}
}

func TestRuns(t *testing.T) {
	path := vh.Env("VERIF_TRACE", "")
	if path == "" {
		t.Skip("VERIF_TRACE not set")
	}
	w, err := vh.NewWriter(path)
	if err != nil {
		t.Fatal(err)
	}
	defer w.Close()
	prog, _ := os.Create(vh.Env("VERIF_PROGRESS", path+".progress"))
	defer prog.Close()
	skip := vh.EnvInt("VERIF_SKIP", 0)
	n := 0
	var scheds []Schedule
	if p := vh.Env("VERIF_SCHEDULES", ""); p != "" {
		scheds, err = vh.ReadNDJSON[Schedule](p)
		if err != nil {
			t.Fatal(err)
		}
	}
	shutdown := vh.Env("VERIF_SHUTDOWN", "0") == "1"
	// watchdog (outside the bubble, wall clock): a run that makes no progress for 12 s cannot be continued by the controller - a library
	// goroutine is blocked on something the controller cannot see (a sync.Mutex held by a goroutine parked at a gate). The events
	// recorded so far are kept, the run is marked, the process ends and is restarted after it.
	var progress atomic.Int64 // bumped inside the bubble (where time.Now is virtual); the watchdog keeps the wall clock itself
	var curRun atomic.Value
	go func() {
		seen, since := int64(-1), time.Now()
		for {
			time.Sleep(time.Second)
			if p := progress.Load(); p != seen {
				seen, since = p, time.Now()
				continue
			}
			if time.Since(since) > 12*time.Second {
				w.Emit(map[string]any{"ev": "obs", "kind": "driver-hang"})
				w.Flush()
				fmt.Fprintf(prog, "hang %v\n", curRun.Load())
				prog.Sync()
				os.Exit(3)
			}
		}
	}()
	run := func(sc Schedule, seed int64, steps int) {
		n++
		if n <= skip {
			return
		}
		fmt.Fprintf(prog, "%d %s\n", n, sc.ID)
		prog.Sync()
		w.Flush()
		progress.Add(1)
		curRun.Store(fmt.Sprintf("%d %s", n, sc.ID))
		runOne(t, w, sc, seed, steps, shutdown)
		progress.Add(1)
	}
	defer func() {
		if r := recover(); r != nil {
			// synctest reports goroutines that are still blocked when the bubble ends ("deadlock"): leaks were already logged per run
			msg := fmt.Sprint(r)
			if !strings.Contains(msg, "deadlock") && !strings.Contains(msg, "blocked") {
				panic(r)
			}
		}
	}()
	synctest.Test(t, func(t *testing.T) {
		for i, sc := range scheds {
			run(sc, vh.Seed()*7919+int64(i), 0)
		}
		nrand := vh.EnvInt("VERIF_NRANDOM", 200)
		for i := 0; i < nrand; i++ {
			// every walk starts with a connection and a request so that the interesting part is reached
			pre := Schedule{ID: fmt.Sprintf("rw-%d-%d", vh.Seed(), i), Cmds: []Cmd{{Op: "env", Act: "CliConnect", C: 1}, {Op: "env", Act: "CliSend", C: 1, Kind: "req"}}}
			run(pre, vh.Seed()*104729+int64(i), 20+i%60)
		}
		fmt.Fprintf(prog, "done %d\n", n)
		prog.Sync()
		w.Flush()
	})
}
