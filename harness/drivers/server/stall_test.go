// TestStall: the plans of spec/MCShutdownStall.tla on a real kmipserver inside a synctest bubble - Shutdown while a response is on its
// way to a client that has stopped reading (memnet's Stall: the server's write blocks). The handler of the one request waits until
// the harness releases it (application code: it does not look at its context). Events are logged in the order they happen; the
// `grace` event is logged one millisecond before the 3 s grace period ends, when Shutdown has not returned by then. TLC validates
// every run against TraceShutdownStall.tla; the `end` event carries what the property is about (did Shutdown return, was the
// response delivered, how often did the terminate hook run, what did Serve return, are goroutines of the server left).
package server

import (
	"context"
	"crypto/tls"
	"errors"
	"io"
	"net"
	"sync"
	"sync/atomic"
	"testing"
	"testing/synctest"
	"time"

	"github.com/ovh/kmip-go"
	"github.com/ovh/kmip-go/kmipserver"
	"github.com/ovh/kmip-go/payloads"
	"github.com/ovh/kmip-go/ttlv"

	"verifharness/memnet"
	"verifharness/vh"
)

type stallPlan struct {
	Stall    string `json:"stall"`
	Shutdown string `json:"shutdown"`
	After    string `json:"after"`
}

func runStallPlan(w *vh.Writer, n int, p stallPlan, cert *tls.Certificate) {
	var mu sync.Mutex
	emit := func(m map[string]any) {
		mu.Lock()
		m["plan"] = n
		w.Emit(m)
		mu.Unlock()
	}
	base := libGoroutines()
	emit(map[string]any{"ev": "reset", "stall": p.Stall, "shutdown": p.Shutdown, "after": p.After, "tls": cert != nil})
	ln := memnet.NewListener()
	release := make(chan struct{})
	var connects, terminates atomic.Int32
	ex := kmipserver.NewBatchExecutor()
	ex.Route(kmip.OperationActivate, kmipserver.HandleFunc(func(ctx context.Context, req *payloads.ActivateRequestPayload) (*payloads.ActivateResponsePayload, error) {
		emit(map[string]any{"ev": "handler-enter"})
		<-release
		emit(map[string]any{"ev": "handler-exit"})
		return &payloads.ActivateResponsePayload{UniqueIdentifier: req.UniqueIdentifier}, nil
	}))
	var lis net.Listener = ln
	if cert != nil { // the same plan behind a TLS listener: the server does the handshake, the stall is that of the raw connection
		lis = tls.NewListener(ln, &tls.Config{Certificates: []tls.Certificate{*cert}, MinVersion: tls.VersionTLS12})
	}
	srv := kmipserver.NewServer(lis, ex).
		WithConnectHook(func(ctx context.Context) (context.Context, error) { connects.Add(1); return ctx, nil }).
		WithTerminateHook(func(ctx context.Context) { terminates.Add(1); emit(map[string]any{"ev": "term-hook"}) })
	served := make(chan error, 1)
	go func() { served <- srv.Serve() }()
	conn, err := ln.Dial()
	if err != nil {
		emit(map[string]any{"ev": "problem", "what": "harness: dial refused"})
		return
	}
	synctest.Wait()
	var answered atomic.Bool
	var rw io.ReadWriteCloser = conn
	if cert != nil {
		tc := tls.Client(conn, &tls.Config{InsecureSkipVerify: true, MinVersion: tls.VersionTLS12})
		hs := make(chan error, 1)
		go func() { hs <- tc.Handshake() }()
		synctest.Wait()
		select {
		case err := <-hs:
			if err != nil {
				emit(map[string]any{"ev": "problem", "what": "harness: TLS handshake: " + err.Error()})
				return
			}
		default:
			emit(map[string]any{"ev": "problem", "what": "harness: TLS handshake does not complete"})
			return
		}
		rw = tc
	}
	st := ttlv.NewStream(rw, -1)
	go func() {
		var resp kmip.ResponseMessage
		if st.Recv(&resp) == nil && len(resp.BatchItem) == 1 && resp.BatchItem[0].ResultStatus == kmip.ResultStatusSuccess {
			answered.Store(true)
		}
	}()
	stall := func() { conn.Stall(true); emit(map[string]any{"ev": "stall"}) }
	var sdAt time.Time
	var returned atomic.Bool
	shutdown := func() {
		sdAt = time.Now()
		emit(map[string]any{"ev": "shutdown-call"})
		go func() {
			_ = srv.Shutdown()
			returned.Store(true)
			emit(map[string]any{"ev": "shutdown-return", "after_ms": time.Since(sdAt).Milliseconds()})
		}()
		synctest.Wait()
	}
	if p.Stall == "before-request" {
		stall()
	}
	if p.Shutdown == "idle" {
		shutdown()
	} else {
		msg := kmip.NewRequestMessage(kmip.V1_4, &payloads.ActivateRequestPayload{UniqueIdentifier: "id"})
		emit(map[string]any{"ev": "request"})
		if err := st.Send(&msg); err != nil {
			emit(map[string]any{"ev": "problem", "what": "harness: send: " + err.Error()})
		}
		synctest.Wait()
		if p.Stall == "during-handler" {
			stall()
		}
		if p.Shutdown == "during-handler" {
			shutdown()
		}
		close(release)
		synctest.Wait()
		if p.Stall == "after-handler" {
			stall()
		}
		if p.Shutdown == "after-handler" {
			shutdown()
		}
	}
	at := func(d time.Duration) {
		if rest := d - time.Since(sdAt); rest > 0 {
			time.Sleep(rest)
		}
		synctest.Wait()
	}
	if p.After == "resume-before-grace" {
		at(time.Second)
		conn.Stall(false)
		emit(map[string]any{"ev": "resume"})
		synctest.Wait()
	}
	at(2999 * time.Millisecond)
	if !returned.Load() {
		emit(map[string]any{"ev": "grace"})
	}
	at(3001 * time.Millisecond)
	if p.After == "resume-after-grace" {
		at(4 * time.Second)
		conn.Stall(false)
		emit(map[string]any{"ev": "resume"})
		synctest.Wait()
	}
	at(10 * time.Second)
	serveRes := "running"
	select {
	case err := <-served:
		serveRes = "other"
		if errors.Is(err, kmipserver.ErrShutdown) {
			serveRes = "ErrShutdown"
		}
	default:
	}
	sd := "returned"
	if !returned.Load() {
		sd = "blocked"
	}
	left := libGoroutines() - base
	emit(map[string]any{"ev": "end", "sd": sd, "answered": answered.Load(), "hooks": int(terminates.Load()), "connects": int(connects.Load()), "serve": serveRes, "left": left})
	// let whatever is still blocked go, so that the bubble can end
	conn.Stall(false)
	conn.Close()
	synctest.Wait()
	time.Sleep(5 * time.Second)
	synctest.Wait()
}

func TestStall(t *testing.T) {
	path := vh.Env("VERIF_STALL_CASES", "")
	if path == "" {
		t.Skip("VERIF_STALL_CASES not set")
	}
	plans, err := vh.ReadNDJSON[stallPlan](path)
	if err != nil {
		t.Fatal(err)
	}
	w, err := vh.NewWriter(vh.Env("VERIF_TRACE", "stall_trace.ndjson"))
	if err != nil {
		t.Fatal(err)
	}
	defer w.Close()
	cert := selfSigned()
	all := append(append([]stallPlan{}, plans...), plans...) // every plan twice: TLS-less, then behind a TLS listener
	for n, p := range all {
		var c *tls.Certificate
		if n >= len(plans) {
			c = &cert
		}
		done := make(chan struct{})
		go func() {
			defer close(done)
			synctest.Test(t, func(t *testing.T) { runStallPlan(w, n, p, c) })
		}()
		select {
		case <-done:
		case <-time.After(60 * time.Second): // wall clock, outside the bubble
			w.Emit(map[string]any{"ev": "problem", "plan": n, "what": "the bubble of this plan did not end within 60 s of wall time"})
			w.Close()
			t.Fatalf("plan %d hangs", n)
		}
	}
}
