// TestTLS replays the histories of spec/TlsAccept.tla against a real kmipserver behind a TLS listener (crypto/tls over the
// in-memory network), inside one testing/synctest bubble: after every client step the bubble is run to quiescence and the
// step's expectation is checked (handshake completed, request answered); at the end Shutdown must return, connect and
// terminate hooks must pair, no goroutine may be left.
package server

import (
	"context"
	"crypto/ecdsa"
	"crypto/elliptic"
	"crypto/rand"
	"crypto/tls"
	"crypto/x509"
	"crypto/x509/pkix"
	"fmt"
	"math/big"
	"runtime"
	"strings"
	"sync/atomic"
	"testing"
	"testing/synctest"
	"time"

	"github.com/ovh/kmip-go"
	"github.com/ovh/kmip-go/kmipserver"
	"github.com/ovh/kmip-go/payloads"
	"github.com/ovh/kmip-go/ttlv"

	"verifharness/memnet"
	"verifharness/vh"
)

type tlsStep struct {
	C  int    `json:"c"`
	Op string `json:"op"`
}

type tlsCase struct {
	Kind     []string  `json:"kind"`
	H        []tlsStep `json:"h"`
	Answered []int     `json:"answered"`
	Hooked   []int     `json:"hooked"`
	Open     []int     `json:"open"`
}

func selfSigned() tls.Certificate {
	key, err := ecdsa.GenerateKey(elliptic.P256(), rand.Reader)
	if err != nil {
		panic(err)
	}
	tpl := &x509.Certificate{SerialNumber: big.NewInt(1), Subject: pkix.Name{CommonName: "verif"}, NotBefore: time.Date(1990, 1, 1, 0, 0, 0, 0, time.UTC),
		NotAfter: time.Date(2200, 1, 1, 0, 0, 0, 0, time.UTC), KeyUsage: x509.KeyUsageDigitalSignature, ExtKeyUsage: []x509.ExtKeyUsage{x509.ExtKeyUsageServerAuth}}
	der, err := x509.CreateCertificate(rand.Reader, tpl, tpl, &key.PublicKey, key)
	if err != nil {
		panic(err)
	}
	return tls.Certificate{Certificate: [][]byte{der}, PrivateKey: key}
}

// libGoroutines counts the goroutines that have a frame of the server package on their stack
func libGoroutines() int {
	buf := make([]byte, 1<<20)
	n := runtime.Stack(buf, true)
	cnt := 0
	for _, g := range strings.Split(string(buf[:n]), "\n\n") {
		if strings.Contains(g, "github.com/ovh/kmip-go/kmipserver.") {
			cnt++
		}
	}
	return cnt
}

type tlsClient struct {
	raw   *memnet.Conn
	tc    *tls.Conn
	shook atomic.Bool
}

func runTLSHistory(c tlsCase, cert tls.Certificate, hi int) (problems []string) {
	bad := func(f string, a ...any) { problems = append(problems, fmt.Sprintf(f, a...)) }
	base := libGoroutines()
	ln := memnet.NewListener()
	var connects, terminates atomic.Int32
	ex := kmipserver.NewBatchExecutor()
	ex.Route(kmip.OperationActivate, kmipserver.HandleFunc(func(ctx context.Context, req *payloads.ActivateRequestPayload) (*payloads.ActivateResponsePayload, error) {
		return &payloads.ActivateResponsePayload{UniqueIdentifier: req.UniqueIdentifier}, nil
	}))
	srv := kmipserver.NewServer(tls.NewListener(ln, &tls.Config{Certificates: []tls.Certificate{cert}, MinVersion: tls.VersionTLS12}), ex).
		WithConnectHook(func(ctx context.Context) (context.Context, error) { connects.Add(1); return ctx, nil }).
		WithTerminateHook(func(ctx context.Context) { terminates.Add(1) })
	served := make(chan error, 1)
	go func() { served <- srv.Serve() }()
	synctest.Wait()
	cl := map[int]*tlsClient{}
	for k, s := range c.H {
		at := fmt.Sprintf("step %d %s(%d)", k+1, s.Op, s.C)
		switch s.Op {
		case "connect":
			raw, err := ln.Dial()
			if err != nil {
				bad("%s: dial refused", at)
				continue
			}
			cl[s.C] = &tlsClient{raw: raw}
		case "handshake":
			x := cl[s.C]
			x.tc = tls.Client(x.raw, &tls.Config{InsecureSkipVerify: true, MinVersion: tls.VersionTLS12})
			go func() {
				if err := x.tc.Handshake(); err == nil {
					x.shook.Store(true)
				}
			}()
			synctest.Wait()
			if !x.shook.Load() {
				bad("handshake-not-completed:%s: the server does not complete the handshake of client %d while the others are %v", at, s.C, statesOf(c, k))
			}
		case "hello-close":
			x := cl[s.C]
			x.raw.Write([]byte{0x16, 0x03, 0x01, 0x02, 0x00, 0x01, 0x00, 0x01, 0xfc, 0x03, 0x03}) // the beginning of a ClientHello record
			synctest.Wait()
			x.raw.Close()
		case "request":
			x := cl[s.C]
			if x.tc == nil || !x.shook.Load() {
				continue // already reported at the handshake step
			}
			if hi%2 == 1 {
				// (virtual) time passes on an established connection: nothing in TlsAccept.tla depends on how long a client
				// waits between its handshake and a request
				time.Sleep(2 * time.Minute)
				synctest.Wait()
			}
			msg := kmip.NewRequestMessage(kmip.V1_2, &payloads.ActivateRequestPayload{UniqueIdentifier: fmt.Sprintf("h%d.c%d", hi, s.C)})
			var got atomic.Value
			go func() {
				st := ttlv.NewStream(x.tc, -1)
				var resp kmip.ResponseMessage
				if err := st.Roundtrip(&msg, &resp); err != nil {
					got.Store("error: " + err.Error())
					return
				}
				if len(resp.BatchItem) != 1 || resp.BatchItem[0].ResultStatus != kmip.ResultStatusSuccess {
					got.Store("unexpected response")
					return
				}
				got.Store("ok")
			}()
			synctest.Wait()
			if v, _ := got.Load().(string); v != "ok" {
				bad("request-not-answered:%s: client %d got %q while the others are %v", at, s.C, v, statesOf(c, k))
			}
		case "close":
			x := cl[s.C]
			if x.tc != nil {
				x.tc.Close()
			}
			x.raw.Close()
		}
		synctest.Wait()
	}
	// Shutdown: returns at once when no connection is open, at the latest after the grace period otherwise
	done := make(chan error, 1)
	go func() { done <- srv.Shutdown() }()
	synctest.Wait()
	returned := false
	select {
	case <-done:
		returned = true
	default:
	}
	if returned {
		// C16: after Shutdown has returned no handler is running or will be started - a client that was accepted before the
		// call and completes its handshake only now must not get a connect hook
		before := connects.Load()
		for id, x := range cl {
			if x.tc == nil && c.Kind[id-1] == "full" && !x.raw.Closed() {
				x.tc = tls.Client(x.raw, &tls.Config{InsecureSkipVerify: true, MinVersion: tls.VersionTLS12})
				go func() {
					if err := x.tc.Handshake(); err == nil {
						x.shook.Store(true)
					}
				}()
			}
		}
		synctest.Wait()
		if after := connects.Load(); after != before {
			bad("handler-started-after-shutdown: Shutdown had returned; a client accepted before completed its handshake afterwards and %d connect hook(s) ran", after-before)
		}
	}
	if !returned {
		if len(c.Open) == 0 {
			bad("shutdown-blocked: no client connection is open but Shutdown has not returned")
		}
		time.Sleep(5 * time.Second)
		synctest.Wait()
		select {
		case <-done:
			returned = true
		default:
		}
		if !returned {
			// Observation outside the listed properties (their quantifiers are about connections past the handshake): a handler
			// blocked in the TLS handshake of a silent client is not reached by the grace-period cancellation. Such clients are
			// cut by the harness; the connections that completed their handshake must have been cut by the server.
			pending := 0
			for _, x := range cl {
				if !x.shook.Load() {
					pending++
					x.raw.Close()
				}
			}
			synctest.Wait()
			select {
			case <-done:
				returned = true
			default:
				bad("shutdown-never-returns: Shutdown still blocked 5 s after the call although only connections past their handshake are open (%d were cut in their handshake by the harness)", pending)
			}
		}
	}
	for _, x := range cl {
		if x.tc != nil {
			go x.tc.Close()
		}
		x.raw.Close()
	}
	synctest.Wait()
	time.Sleep(30 * time.Second) // let the harness's own closing goroutines (TLS close_notify with its deadline) run out
	synctest.Wait()
	select {
	case <-served:
	default:
		bad("serve-not-returned: Serve is still running after Shutdown")
	}
	if int(connects.Load()) != len(c.Hooked) && !hasProblem(problems, "handler-started-after-shutdown") {
		bad("connect-hooks: %d connect hook calls, %d handshakes completed", connects.Load(), len(c.Hooked))
	}
	if connects.Load() != terminates.Load() {
		bad("hooks-unpaired: %d connect hook calls, %d terminate hook calls", connects.Load(), terminates.Load())
	}
	if n := libGoroutines(); n > base {
		bad("goroutines-left: %d goroutine(s) running server code are left after the history", n-base)
	}
	return problems
}

func hasProblem(ps []string, prefix string) bool {
	for _, p := range ps {
		if strings.HasPrefix(p, prefix) {
			return true
		}
	}
	return false
}

// statesOf describes what the other clients have done up to step k (for reports)
func statesOf(c tlsCase, k int) map[int]string {
	res := map[int]string{}
	for i := 0; i < k; i++ {
		res[c.H[i].C] = c.Kind[c.H[i].C-1] + ":" + c.H[i].Op
	}
	return res
}

func TestTLS(t *testing.T) {
	path := vh.Env("VERIF_TLS_CASES", "")
	if path == "" {
		t.Skip("VERIF_TLS_CASES not set")
	}
	cases, err := vh.ReadNDJSON[tlsCase](path)
	if err != nil {
		t.Fatal(err)
	}
	out, err := vh.NewWriter(vh.Env("VERIF_OUT", "tls_results.ndjson"))
	if err != nil {
		t.Fatal(err)
	}
	defer out.Close()
	cert := selfSigned()
	steps := 0
	synctest.Test(t, func(t *testing.T) {
		for hi, c := range cases {
			steps += len(c.H)
			var probs []string
			func() {
				defer func() {
					if r := recover(); r != nil {
						probs = append(probs, "panic:"+vh.PanicSig(r))
					}
				}()
				probs = runTLSHistory(c, cert, hi)
			}()
			if len(probs) > 0 {
				out.Emit(map[string]any{"history": hi, "c": c, "problems": probs})
			}
		}
	})
	out.Emit(map[string]any{"summary": true, "histories": len(cases), "steps": steps})
}
