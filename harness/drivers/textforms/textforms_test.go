// Driver for C04. TestItems: every item case enumerated by TLC from spec/TextForms.tla (made concrete by the orchestrator)
// is written with the real typed Encoder API in binary, XML and JSON; the documents go back to the orchestrator, which parses
// them with independent parsers and compares them with the specification's forms; the driver decodes each document (and the
// foreign forms of the same value) with the typed Decoder API and re-encodes it in binary.
// TestDocs: XML messages produced elsewhere (OASIS vectors and variations) are decoded and re-encoded in XML, JSON and binary.
package textforms

import (
	"bytes"
	"context"
	"fmt"
	"math/big"
	"net/http"
	"net/http/httptest"
	"os"
	"strconv"
	"testing"
	"time"

	"github.com/ovh/kmip-go"
	"github.com/ovh/kmip-go/kmipserver"
	"github.com/ovh/kmip-go/payloads"
	"github.com/ovh/kmip-go/ttlv"

	"verifharness/vh"
)

func TestMain(m *testing.M) { vh.Quiet(); os.Exit(m.Run()) }

type Item struct {
	ID          int      `json:"id"`
	Tag         int      `json:"tag"`
	Kind        string   `json:"kind"`
	Int         string   `json:"int"`
	ETag        int      `json:"etag"`
	Big         string   `json:"big"`
	Bool        bool     `json:"bool"`
	Text        string   `json:"text"`
	Hex         string   `json:"hex"`
	Epoch       string   `json:"epoch"`
	Zone        string   `json:"zone"`
	Shape       []string `json:"shape"`
	ForeignXML  []string `json:"foreign_xml"`
	ForeignJSON []string `json:"foreign_json"`
}

func safe(f func()) (pan string) {
	defer func() {
		if r := recover(); r != nil {
			pan = vh.PanicSig(r)
		}
	}()
	f()
	return ""
}

func zoneOf(z string) *time.Location {
	if z == "" || z == "Z" {
		return time.UTC
	}
	sign := 1
	if z[0] == '-' {
		sign = -1
	}
	h, _ := strconv.Atoi(z[1:3])
	m, _ := strconv.Atoi(z[4:6])
	return time.FixedZone(z, sign*(h*3600+m*60))
}

const leafTagA, leafTagB = 0x420009, 0x540007

func writeShape(e *ttlv.Encoder, shape []string) {
	for _, s := range shape {
		switch s {
		case "L":
			e.Integer(leafTagA, 7)
		case "S0":
			e.Struct(0x540010, func(e *ttlv.Encoder) {})
		case "S1":
			e.Struct(0x420008, func(e *ttlv.Encoder) { e.TextString(leafTagB, "a<b") })
		case "S2":
			e.Struct(0x540011, func(e *ttlv.Encoder) {
				e.Struct(0x420008, func(e *ttlv.Encoder) { e.Integer(leafTagA, 1); e.Bool(leafTagB, true) })
			})
		}
	}
}

func readShape(d *ttlv.Decoder, e *ttlv.Encoder, shape []string) error {
	for _, s := range shape {
		var err error
		switch s {
		case "L":
			var v int32
			if v, err = d.Integer(leafTagA); err == nil {
				e.Integer(leafTagA, v)
			}
		case "S0":
			err = d.Struct(0x540010, func(d *ttlv.Decoder) error { return nil })
			e.Struct(0x540010, func(e *ttlv.Encoder) {})
		case "S1":
			var str string
			err = d.Struct(0x420008, func(d *ttlv.Decoder) error { str, err = d.TextString(leafTagB); return err })
			e.Struct(0x420008, func(e *ttlv.Encoder) { e.TextString(leafTagB, str) })
		case "S2":
			var a int32
			var b bool
			err = d.Struct(0x540011, func(d *ttlv.Decoder) error {
				return d.Struct(0x420008, func(d *ttlv.Decoder) error {
					if a, err = d.Integer(leafTagA); err != nil {
						return err
					}
					b, err = d.Bool(leafTagB)
					return err
				})
			})
			e.Struct(0x540011, func(e *ttlv.Encoder) {
				e.Struct(0x420008, func(e *ttlv.Encoder) { e.Integer(leafTagA, a); e.Bool(leafTagB, b) })
			})
		}
		if err != nil {
			return err
		}
	}
	return nil
}

func write(e *ttlv.Encoder, it Item) {
	n, _ := strconv.ParseInt(it.Int, 10, 64)
	switch it.Kind {
	case "Integer":
		e.Integer(it.Tag, int32(n))
	case "LongInteger":
		e.LongInteger(it.Tag, n)
	case "BigInteger":
		b, _ := new(big.Int).SetString(it.Big, 10)
		e.BigInteger(it.Tag, b)
	case "Enumeration":
		e.Enum(it.ETag, it.Tag, uint32(n))
	case "Boolean":
		e.Bool(it.Tag, it.Bool)
	case "TextString":
		e.TextString(it.Tag, it.Text)
	case "ByteString":
		var b []byte
		fmt.Sscanf(it.Hex, "%x", &b)
		e.ByteString(it.Tag, b)
	case "DateTime":
		ep, _ := strconv.ParseInt(it.Epoch, 10, 64)
		e.DateTime(it.Tag, time.Unix(ep, []int64{0, 600_000_000, 999_999_999}[uint64(ep)%3]).In(zoneOf(it.Zone))) // (with a fraction of a second, as for intervals)
	case "Interval":
		// an Interval is a whole number of seconds: a duration with a fraction of a second (a time.Until result) is written as its
		// whole seconds, by every encoding alike
		frac := []time.Duration{0, 600 * time.Millisecond, 999 * time.Millisecond, 400 * time.Millisecond}[(int(n)+it.Tag)%4]
		if n >= 4294967295 {
			frac = 0
		}
		e.Interval(it.Tag, time.Duration(n)*time.Second+frac)
	case "Bitmask":
		e.Bitmask(it.ETag, it.Tag, int32(n))
	case "Struct":
		e.Struct(it.Tag, func(e *ttlv.Encoder) { writeShape(e, it.Shape) })
	default:
		panic("unknown kind " + it.Kind)
	}
}

// read decodes one item of the given kind and writes it to e
func read(d *ttlv.Decoder, e *ttlv.Encoder, it Item) error {
	switch it.Kind {
	case "Integer":
		v, err := d.Integer(it.Tag)
		if err != nil {
			return err
		}
		e.Integer(it.Tag, v)
	case "LongInteger":
		v, err := d.LongInteger(it.Tag)
		if err != nil {
			return err
		}
		e.LongInteger(it.Tag, v)
	case "BigInteger":
		v, err := d.BigInteger(it.Tag)
		if err != nil {
			return err
		}
		e.BigInteger(it.Tag, v)
	case "Enumeration":
		v, err := d.Enum(it.ETag, it.Tag)
		if err != nil {
			return err
		}
		e.Enum(it.ETag, it.Tag, v)
	case "Boolean":
		v, err := d.Bool(it.Tag)
		if err != nil {
			return err
		}
		e.Bool(it.Tag, v)
	case "TextString":
		v, err := d.TextString(it.Tag)
		if err != nil {
			return err
		}
		e.TextString(it.Tag, v)
	case "ByteString":
		v, err := d.ByteString(it.Tag)
		if err != nil {
			return err
		}
		e.ByteString(it.Tag, v)
	case "DateTime":
		v, err := d.DateTime(it.Tag)
		if err != nil {
			return err
		}
		e.DateTime(it.Tag, v)
	case "Interval":
		v, err := d.Interval(it.Tag)
		if err != nil {
			return err
		}
		e.Interval(it.Tag, v)
	case "Bitmask":
		v, err := d.Bitmask(it.ETag, it.Tag)
		if err != nil {
			return err
		}
		e.Bitmask(it.ETag, it.Tag, v)
	case "Struct":
		err := d.Struct(it.Tag, func(d *ttlv.Decoder) error {
			var ierr error
			e.Struct(it.Tag, func(e *ttlv.Encoder) { ierr = readShape(d, e, it.Shape) })
			return ierr
		})
		if err != nil {
			return err
		}
	}
	return nil
}

// back decodes doc with the decoder of enc and returns the binary re-encoding ("err:..." / "panic:..." otherwise)
func back(enc string, doc []byte, it Item) string {
	res := ""
	pan := safe(func() {
		var d ttlv.Decoder
		var err error
		switch enc {
		case "xml":
			d, err = ttlv.NewXMLDecoder(doc)
		case "json":
			d, err = ttlv.NewJSONDecoder(doc)
		default:
			d, err = ttlv.NewTTLVDecoder(doc)
		}
		if err != nil {
			res = "err:" + err.Error()
			return
		}
		e := ttlv.NewTTLVEncoder()
		if err := read(&d, &e, it); err != nil {
			res = "err:" + err.Error()
			return
		}
		res = fmt.Sprintf("%x", e.Bytes())
	})
	if pan != "" {
		return "panic:" + pan
	}
	return res
}

func TestItems(t *testing.T) {
	items, err := vh.ReadNDJSON[Item](vh.Env("VERIF_CASES", "items.ndjson"))
	if err != nil {
		t.Fatal(err)
	}
	out, err := vh.NewWriter(vh.Env("VERIF_OUT", "items.out.ndjson"))
	if err != nil {
		t.Fatal(err)
	}
	defer out.Close()
	for _, it := range items {
		r := map[string]any{"id": it.ID}
		var bin []byte
		if pan := safe(func() { e := ttlv.NewTTLVEncoder(); write(&e, it); bin = append([]byte(nil), e.Bytes()...) }); pan != "" {
			r["ttlv"] = "panic:" + pan
			out.Emit(r)
			continue
		}
		r["ttlv"] = fmt.Sprintf("%x", bin)
		r["ttlv_back"] = back("ttlv", bin, it)
		for _, enc := range []string{"xml", "json"} {
			var doc []byte
			if pan := safe(func() {
				var e ttlv.Encoder
				if enc == "xml" {
					e = ttlv.NewXMLEncoder()
				} else {
					e = ttlv.NewJSONEncoder()
				}
				write(&e, it)
				doc = append([]byte(nil), e.Bytes()...)
			}); pan != "" {
				r[enc+"_panic"] = pan
				continue
			}
			r[enc] = string(doc)
			r[enc+"_back"] = back(enc, doc, it)
		}
		var fx, fj []string
		for _, doc := range it.ForeignXML {
			fx = append(fx, back("xml", []byte(doc), it))
		}
		for _, doc := range it.ForeignJSON {
			fj = append(fj, back("json", []byte(doc), it))
		}
		r["foreign_xml_back"], r["foreign_json_back"] = fx, fj
		out.Emit(r)
	}
	out.Emit(map[string]any{"summary": true, "items": len(items)})
}

type Doc struct {
	ID   string `json:"id"`
	Kind string `json:"kind"` // RequestMessage | ResponseMessage
	XML  string `json:"xml"`
}

func TestDocs(t *testing.T) {
	docs, err := vh.ReadNDJSON[Doc](vh.Env("VERIF_CASES", "docs.ndjson"))
	if err != nil {
		t.Fatal(err)
	}
	out, err := vh.NewWriter(vh.Env("VERIF_OUT", "docs.out.ndjson"))
	if err != nil {
		t.Fatal(err)
	}
	defer out.Close()
	for _, d := range docs {
		r := map[string]any{"id": d.ID}
		newPtr := func() any { return new(kmip.RequestMessage) }
		if d.Kind == "ResponseMessage" {
			newPtr = func() any { return new(kmip.ResponseMessage) }
		}
		msg := newPtr()
		var derr error
		if pan := safe(func() { derr = ttlv.UnmarshalXML([]byte(d.XML), msg) }); pan != "" {
			r["decode"] = "panic:" + pan
			out.Emit(r)
			continue
		}
		if derr != nil {
			r["decode"] = "err:" + derr.Error()
			out.Emit(r)
			continue
		}
		r["decode"] = "ok"
		var bin []byte
		if pan := safe(func() {
			bin = ttlv.MarshalTTLV(msg)
			r["ttlv"] = fmt.Sprintf("%x", bin)
			r["xml"] = string(ttlv.MarshalXML(msg))
			r["json"] = string(ttlv.MarshalJSON(msg))
		}); pan != "" {
			r["encode"] = "panic:" + pan
			out.Emit(r)
			continue
		}
		for _, h := range []struct {
			name string
			doc  []byte
			u    func([]byte, any) error
		}{{"xml", []byte(r["xml"].(string)), ttlv.UnmarshalXML}, {"json", []byte(r["json"].(string)), ttlv.UnmarshalJSON}} {
			p := newPtr()
			var herr error
			if pan := safe(func() { herr = h.u(h.doc, p) }); pan != "" {
				r[h.name+"_back"] = "panic:" + pan
				continue
			}
			if herr != nil {
				r[h.name+"_back"] = "err:" + herr.Error()
				continue
			}
			b2 := ttlv.MarshalTTLV(p)
			if string(b2) == string(bin) {
				r[h.name+"_back"] = "same"
			} else {
				r[h.name+"_back"] = fmt.Sprintf("%x", b2)
			}
		}
		out.Emit(r)
	}
	out.Emit(map[string]any{"summary": true, "docs": len(docs)})
}

// ---------------------------------------------------------------- TestShapes (spec/TextShapes.tla)

type Shape struct {
	ID     int    `json:"id"`
	Enc    string `json:"enc"`
	Target string `json:"target"` // RequestMessage | ResponseMessage
	Doc    string `json:"doc"`
}

type decOut struct {
	Outcome string // value | error | panic | timeout
	Detail  string
	Bin     string
	Fix     string // fixed point of the accepted value: ok | differs | err:... | panic:...
}

func decodeShape(enc string, doc []byte, ptr any, fresh ...func() any) decOut {
	ch := make(chan decOut, 1)
	go func() {
		var o decOut
		defer func() {
			if r := recover(); r != nil {
				o = decOut{Outcome: "panic", Detail: vh.PanicSig(r)}
			}
			ch <- o
		}()
		var err error
		switch enc {
		case "xml":
			err = ttlv.UnmarshalXML(doc, ptr)
		case "json":
			err = ttlv.UnmarshalJSON(doc, ptr)
		}
		if err != nil {
			o = decOut{Outcome: "error", Detail: err.Error()}
			return
		}
		o = decOut{Outcome: "value"}
		func() {
			defer func() {
				if r := recover(); r != nil {
					o.Bin = "reencode-panic:" + vh.PanicSig(r)
				}
			}()
			b1 := ttlv.MarshalTTLV(ptr)
			o.Bin = fmt.Sprintf("%x", b1)
			if len(fresh) > 0 {
				// C18: the accepted value re-encodes, decodes again and re-encodes to the same bytes, in binary and in its own encoding
				p2 := fresh[0]()
				if err := ttlv.UnmarshalTTLV(b1, p2); err != nil {
					o.Fix = "err:binary re-encoding not accepted: " + err.Error()
					return
				}
				if b2 := ttlv.MarshalTTLV(p2); string(b2) != string(b1) {
					o.Fix = "differs:binary"
					return
				}
				m, u := ttlv.MarshalXML, ttlv.UnmarshalXML
				if enc == "json" {
					m, u = ttlv.MarshalJSON, ttlv.UnmarshalJSON
				}
				t1 := m(ptr)
				p3 := fresh[0]()
				if err := u(t1, p3); err != nil {
					o.Fix = "err:" + enc + " re-encoding not accepted: " + err.Error()
					return
				}
				if t2 := m(p3); string(t2) != string(t1) {
					o.Fix = "differs:" + enc
					return
				}
				o.Fix = "ok"
			}
		}()
	}()
	select {
	case o := <-ch:
		return o
	case <-time.After(10 * time.Second):
		return decOut{Outcome: "timeout"}
	}
}

func shapeExecutor() *kmipserver.BatchExecutor {
	ex := kmipserver.NewBatchExecutor()
	ex.Route(kmip.OperationGet, kmipserver.HandleFunc(func(ctx context.Context, req *payloads.GetRequestPayload) (*payloads.GetResponsePayload, error) {
		return nil, kmipserver.ErrItemNotFound
	}))
	ex.Route(kmip.OperationRegister, kmipserver.HandleFunc(func(ctx context.Context, req *payloads.RegisterRequestPayload) (*payloads.RegisterResponsePayload, error) {
		return &payloads.RegisterResponsePayload{UniqueIdentifier: "new-1"}, nil
	}))
	return ex
}

var contentType = map[string]string{"xml": "text/xml", "json": "application/json"}

func TestShapes(t *testing.T) {
	shapes, err := vh.ReadNDJSON[Shape](vh.Env("VERIF_CASES", "shapes.ndjson"))
	if err != nil {
		t.Fatal(err)
	}
	out, err := vh.NewWriter(vh.Env("VERIF_OUT", "shapes.out.ndjson"))
	if err != nil {
		t.Fatal(err)
	}
	defer out.Close()
	hdl := kmipserver.NewHTTPHandler(shapeExecutor())
	for _, s := range shapes {
		r := map[string]any{"id": s.ID}
		newPtr := func() any { return new(kmip.RequestMessage) }
		if s.Target == "ResponseMessage" {
			newPtr = func() any { return new(kmip.ResponseMessage) }
		}
		orig := []byte(s.Doc)
		in := append([]byte(nil), orig...)
		d1 := decodeShape(s.Enc, in, newPtr(), newPtr)
		r["unchanged"] = string(in) == string(orig)
		d2 := decodeShape(s.Enc, in, newPtr())
		r["first"], r["second"] = d1, d2
		// determinism: six further decodes of the same bytes (typed and untyped) must agree with the first
		differs := 0
		var g0 string
		for k := 0; k < 6; k++ {
			dk := decodeShape(s.Enc, append([]byte(nil), orig...), newPtr())
			if dk.Outcome != d1.Outcome || dk.Bin != d1.Bin {
				differs++
			}
			var gv ttlv.Value
			dgk := decodeShape(s.Enc, append([]byte(nil), orig...), &gv)
			if k == 0 {
				g0 = dgk.Outcome + dgk.Bin
			} else if dgk.Outcome+dgk.Bin != g0 {
				differs++
			}
		}
		r["again_differs"] = differs
		var generic ttlv.Value
		dg := decodeShape(s.Enc, append([]byte(nil), orig...), &generic, func() any { return new(ttlv.Value) })
		dg.Bin = ""
		r["generic"] = dg
		if s.Target == "RequestMessage" {
			// the HTTP transport: the handler must return normally and answer
			func() {
				rec := httptest.NewRecorder()
				req := httptest.NewRequest(http.MethodPost, "/kmip", bytes.NewReader(orig))
				req.Header.Set("Content-Type", contentType[s.Enc])
				req.Header.Set("Content-Length", strconv.Itoa(len(orig)))
				h := map[string]any{}
				defer func() {
					if rr := recover(); rr != nil {
						h["panic"] = vh.PanicSig(rr)
					}
					r["http"] = h
				}()
				if len(orig) == 0 {
					h["skipped"] = "empty body"
					return
				}
				hdl.ServeHTTP(rec, req)
				h["status"] = rec.Code
				body := rec.Body.Bytes()
				h["body_len"] = len(body)
				var resp kmip.ResponseMessage
				do := decodeShape(s.Enc, body, &resp)
				h["body_decode"] = do.Outcome
				if do.Outcome == "value" {
					h["items"] = len(resp.BatchItem)
					if len(resp.BatchItem) > 0 {
						h["status0"] = ttlv.EnumStr(resp.BatchItem[0].ResultStatus)
						h["reason0"] = ttlv.EnumStr(resp.BatchItem[0].ResultReason)
					}
				} else {
					h["body_detail"] = do.Detail
				}
			}()
		}
		out.Emit(r)
	}
	out.Emit(map[string]any{"summary": true, "shapes": len(shapes)})
}
