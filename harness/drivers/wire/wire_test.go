// Driver for C03 / C02 (binary part) / C18 (binary part): the cases TLC enumerated from spec/Wire.tla
// (generic TTLV trees with their specified encoding; corrupted and non-canonical encodings with the
// specification's accept/reject verdict, parsed tree and canonical re-encoding) are run through
// ttlv.MarshalTTLV / ttlv.UnmarshalTTLV and through the harness's independent parser (refwire).
package wire

import (
	"bytes"
	"encoding/binary"
	"encoding/json"
	"fmt"
	"math/big"
	"os"
	"runtime/debug"
	"strings"
	"syscall"
	"testing"
	"time"

	"github.com/ovh/kmip-go"
	"github.com/ovh/kmip-go/ttlv"

	"verifharness/refwire"
	"verifharness/vh"
)

func TestMain(m *testing.M) { vh.Quiet(); os.Exit(m.Run()) }

type Tree struct {
	Tag int             `json:"tag"`
	Ty  int             `json:"ty"`
	V   json.RawMessage `json:"v"`
}
type BigV struct {
	Neg bool  `json:"neg"`
	Mag []int `json:"mag"`
}
type Case struct {
	Kind   string `json:"kind"`
	Tree   *Tree  `json:"tree"`
	Bytes  []int  `json:"bytes"`
	Accept bool   `json:"accept"`
	Canon  []int  `json:"canon"`
	Strict bool   `json:"strict"`
	Why    string `json:"why"`
	Twin   []int  `json:"twin"` // kind twins: same bytes up to Extent, every byte after it different
	Extent int    `json:"extent"`
	Depth  int    `json:"depth"` // kind nest: the tree is MCWire's Nest(depth), rebuilt here (TLC cannot print it)
}

// nestTree is MCWire.tla's Nest(n): a text string under n structures
func nestTree(n int) *Tree {
	if n == 0 {
		return &Tree{Tag: 5505026, Ty: 7, V: json.RawMessage("[100,101,101,112]")}
	}
	kid, _ := json.Marshal([]*Tree{nestTree(n - 1)})
	return &Tree{Tag: 5505025 + n%3, Ty: 1, V: kid}
}

// kept: encodings handed out earlier; they are values - later calls of the encoder must not change them
type keptEnc struct {
	got  []byte
	spec []byte
	idx  int
}

func toBytes(a []int) []byte {
	b := make([]byte, len(a))
	for i, x := range a {
		b[i] = byte(x)
	}
	return b
}
func ints(b []byte) []int {
	a := make([]int, len(b))
	for i, x := range b {
		a[i] = int(x)
	}
	return a
}

// treeToValue builds the library's generic value from the specification's tree
func treeToValue(t *Tree) ttlv.Value {
	v := ttlv.Value{Tag: t.Tag}
	switch t.Ty {
	case 1:
		var kids []*Tree
		json.Unmarshal(t.V, &kids)
		s := ttlv.Struct{}
		for _, k := range kids {
			s = append(s, treeToValue(k))
		}
		v.Value = s
	case 4:
		var bv BigV
		json.Unmarshal(t.V, &bv)
		n := new(big.Int).SetBytes(toBytes(bv.Mag))
		if bv.Neg {
			n.Neg(n)
		}
		v.Value = n
	case 6:
		var b bool
		json.Unmarshal(t.V, &b)
		v.Value = b
	default:
		var a []int
		json.Unmarshal(t.V, &a)
		b := toBytes(a)
		switch t.Ty {
		case 2:
			v.Value = int32(binary.BigEndian.Uint32(b))
		case 3:
			v.Value = int64(binary.BigEndian.Uint64(b))
		case 5:
			v.Value = ttlv.Enum(binary.BigEndian.Uint32(b))
		case 7:
			v.Value = string(b)
		case 8:
			v.Value = b
		case 9:
			// a Date-Time is the whole POSIX second an instant lies in: the encoder is handed instants with a fraction of a second, too
			sec := int64(binary.BigEndian.Uint64(b))
			frac := []int64{600_000_000, 999_999_999}[uint64(sec)%2]
			v.Value = time.Unix(sec, frac)
		case 10:
			v.Value = time.Duration(binary.BigEndian.Uint32(b)) * time.Second
		}
	}
	return v
}

// canonical JSON-able projection shared by the library's value, refwire's item and the specification's tree
func projValue(v ttlv.Value) any {
	m := map[string]any{"tag": v.Tag}
	switch x := v.Value.(type) {
	case ttlv.Struct:
		kids := []any{}
		for _, k := range x {
			kids = append(kids, projValue(k))
		}
		m["ty"], m["v"] = 1, kids
	case int32:
		m["ty"], m["v"] = 2, ints(binary.BigEndian.AppendUint32(nil, uint32(x)))
	case int64:
		m["ty"], m["v"] = 3, ints(binary.BigEndian.AppendUint64(nil, uint64(x)))
	case *big.Int:
		m["ty"], m["v"] = 4, map[string]any{"neg": x.Sign() < 0, "mag": ints(new(big.Int).Abs(x).Bytes())}
	case ttlv.Enum:
		m["ty"], m["v"] = 5, ints(binary.BigEndian.AppendUint32(nil, uint32(x)))
	case bool:
		m["ty"], m["v"] = 6, x
	case string:
		m["ty"], m["v"] = 7, ints([]byte(x))
	case []byte:
		m["ty"], m["v"] = 8, ints(x)
	case time.Time:
		m["ty"], m["v"] = 9, ints(binary.BigEndian.AppendUint64(nil, uint64(x.Unix())))
	case time.Duration:
		m["ty"] = 10
		if secs := int64(x / time.Second); secs < 0 || secs > 0xFFFFFFFF || x%time.Second != 0 {
			m["v"] = fmt.Sprintf("a duration outside the interval range: %d ns", int64(x)) // no 4-byte pattern stands for it
		} else {
			m["v"] = ints(binary.BigEndian.AppendUint32(nil, uint32(secs)))
		}
	default:
		m["ty"], m["v"] = -1, fmt.Sprintf("%T", x)
	}
	return m
}

func projItem(it *refwire.Item) any {
	m := map[string]any{"tag": it.Tag, "ty": it.Type}
	switch it.Type {
	case 1:
		kids := []any{}
		for _, k := range it.Kids {
			kids = append(kids, projItem(k))
		}
		m["v"] = kids
	case 4:
		m["v"] = map[string]any{"neg": it.Big.Sign() < 0, "mag": ints(new(big.Int).Abs(it.Big).Bytes())}
	case 6:
		m["v"] = it.Raw[7] != 0
	default:
		m["v"] = ints(it.Raw)
	}
	return m
}

func projTree(t *Tree) any {
	m := map[string]any{"tag": t.Tag, "ty": t.Ty}
	switch t.Ty {
	case 1:
		var kids []*Tree
		json.Unmarshal(t.V, &kids)
		out := []any{}
		for _, k := range kids {
			out = append(out, projTree(k))
		}
		m["v"] = out
	default:
		var v any
		json.Unmarshal(t.V, &v)
		if t.Ty == 4 {
			mm := v.(map[string]any)
			if mm["mag"] == nil {
				mm["mag"] = []any{}
			}
		}
		m["v"] = v
	}
	return m
}

func canon(v any) string {
	b, _ := json.Marshal(v)
	var x any
	json.Unmarshal(b, &x)
	b, _ = json.Marshal(x)
	return string(b)
}

// leaves returns the multiset of leaf items (as canonical JSON strings) of a projected tree
func leaves(p any, acc map[string]int) {
	b, _ := json.Marshal(p)
	var m map[string]any
	json.Unmarshal(b, &m)
	if ty, _ := m["ty"].(float64); ty == 1 {
		if kids, ok := m["v"].([]any); ok {
			for _, k := range kids {
				leaves(k, acc)
			}
		}
		return
	}
	acc[canon(m)]++
}

func leavesSubset(a, b any) bool {
	la, lb := map[string]int{}, map[string]int{}
	leaves(a, la)
	leaves(b, lb)
	for k, n := range la {
		if lb[k] < n {
			return false
		}
	}
	return true
}

type decodeOut struct {
	Outcome string // value | error | panic | timeout
	Detail  string
	Value   ttlv.Value
}

// decode into dst (a pointer) with panic capture and a watchdog
func decodeInto(data []byte, dst any) (out decodeOut) {
	done := make(chan decodeOut, 1)
	go func() {
		var o decodeOut
		defer func() {
			if r := recover(); r != nil {
				o = decodeOut{Outcome: "panic", Detail: vh.PanicSig(r)}
			}
			done <- o
		}()
		if err := ttlv.UnmarshalTTLV(data, dst); err != nil {
			o = decodeOut{Outcome: "error", Detail: err.Error()}
			return
		}
		o = decodeOut{Outcome: "value"}
		if v, ok := dst.(*ttlv.Value); ok {
			o.Value = *v
		}
	}()
	select {
	case o := <-done:
		return o
	case <-time.After(5 * time.Second):
		return decodeOut{Outcome: "timeout"}
	}
}

// guarded memory: a read-only mapping followed by an inaccessible page. An input is placed so that it ends where the mapping ends: a
// decoder that writes into its input, or reads past its end, faults - and with SetPanicOnFault the fault is a panic this harness sees.
var guardMem []byte

const guardSize = 1 << 20

func guarded(data []byte) []byte {
	page := syscall.Getpagesize()
	if guardMem == nil {
		m, err := syscall.Mmap(-1, 0, guardSize+page, syscall.PROT_READ|syscall.PROT_WRITE, syscall.MAP_ANON|syscall.MAP_PRIVATE)
		if err != nil {
			panic(err)
		}
		if err := syscall.Mprotect(m[guardSize:], syscall.PROT_NONE); err != nil {
			panic(err)
		}
		guardMem = m[:guardSize]
	}
	if len(data) > guardSize {
		return nil
	}
	if err := syscall.Mprotect(guardMem, syscall.PROT_READ|syscall.PROT_WRITE); err != nil {
		panic(err)
	}
	at := guardMem[guardSize-len(data) : guardSize : guardSize]
	copy(at, data)
	if err := syscall.Mprotect(guardMem, syscall.PROT_READ); err != nil {
		panic(err)
	}
	return at
}

// (with SetPanicOnFault a memory fault is a runtime error panic: "invalid memory address ..." / "unexpected fault address ...")
func isFault(detail string) bool {
	return strings.Contains(detail, "fault") || strings.Contains(detail, "invalid memory address")
}

func decodeGuarded(data []byte, dst any) (out decodeOut) {
	in := guarded(data)
	if in == nil {
		return decodeOut{Outcome: "skipped"}
	}
	done := make(chan decodeOut, 1)
	go func() {
		var o decodeOut
		debug.SetPanicOnFault(true)
		defer func() {
			if r := recover(); r != nil {
				o = decodeOut{Outcome: "panic", Detail: fmt.Sprint(r)}
			}
			done <- o
		}()
		if err := ttlv.UnmarshalTTLV(in, dst); err != nil {
			o = decodeOut{Outcome: "error", Detail: err.Error()}
			return
		}
		o = decodeOut{Outcome: "value"}
		if v, ok := dst.(*ttlv.Value); ok {
			o.Value = *v
		}
	}()
	select {
	case o := <-done:
		return o
	case <-time.After(5 * time.Second):
		return decodeOut{Outcome: "timeout"}
	}
}

// scribble overwrites every byte string of a decoded value in place
func scribble(v ttlv.Value) {
	switch x := v.Value.(type) {
	case []byte:
		for i := range x {
			x[i] ^= 0xFF
		}
	case ttlv.Struct:
		for _, k := range x {
			scribble(k)
		}
	}
}

func beyondRFC3339(v ttlv.Value) bool {
	switch x := v.Value.(type) {
	case time.Time:
		return x.Unix() > 253402300799
	case ttlv.Struct:
		for _, k := range x {
			if beyondRFC3339(k) {
				return true
			}
		}
	}
	return false
}

func marshal(v any) (b []byte, pan string) {
	defer func() {
		if r := recover(); r != nil {
			pan = vh.PanicSig(r)
		}
	}()
	return ttlv.MarshalTTLV(v), ""
}

// marshalReused encodes v with an encoder that has already written another message (all bits set) and was
// cleared: the bytes must be those of a fresh encoder (padding and length fields are written, not assumed)
var reused = ttlv.NewTTLVEncoder()

func marshalReused(v any, size int) (b []byte, pan string) {
	defer func() {
		if r := recover(); r != nil {
			pan = vh.PanicSig(r)
			reused = ttlv.NewTTLVEncoder()
		}
	}()
	reused.Clear()
	reused.ByteString(0x420001, bytes.Repeat([]byte{0xFF}, size+72))
	reused.Clear()
	reused.Any(v)
	return append([]byte(nil), reused.Bytes()...), ""
}

func TestReplay(t *testing.T) {
	casesPath := vh.Env("VERIF_CASES", "")
	if casesPath == "" {
		t.Skip("VERIF_CASES not set")
	}
	cases, err := vh.ReadNDJSON[Case](casesPath)
	if err != nil {
		t.Fatal(err)
	}
	out, err := vh.NewWriter(vh.Env("VERIF_OUT", "wire_results.ndjson"))
	if err != nil {
		t.Fatal(err)
	}
	defer out.Close()
	n := 0
	var kept []keptEnc
	// every case is replayed twice in this process, the second time in reverse order: the outcome of a case is a function of the
	// case, not of what the process did before (memos, pools and lazily built tables keyed by too little would show here)
	n0 := len(cases)
	for k := n0 - 1; k >= 0; k-- {
		cases = append(cases, cases[k])
	}
	for i, c := range cases {
		n++
		spec := toBytes(c.Bytes)
		var problems []map[string]any
		bad := func(kind string, detail any) {
			problems = append(problems, map[string]any{"kind": kind, "detail": detail})
		}
		switch c.Kind {
		case "twins":
			// C02: the result may depend on the declared extent of the top-level item only
			var va, vb ttlv.Value
			da := decodeInto(append([]byte(nil), spec...), &va)
			db := decodeInto(toBytes(c.Twin), &vb)
			if da.Outcome == "panic" || da.Outcome == "timeout" || db.Outcome == "panic" || db.Outcome == "timeout" {
				bad("c02:"+da.Outcome+"/"+db.Outcome, fmt.Sprint(da.Detail, db.Detail))
			} else if da.Outcome == "value" && db.Outcome == "value" && canon(projValue(da.Value)) != canon(projValue(db.Value)) {
				// (a decoder may be strict about what follows the top-level item: value on one side and error on the other is not an over-read)
				bad("c02:result-depends-on-bytes-outside-the-declared-extent", map[string]any{"extent": c.Extent, "a": fmt.Sprintf("%x", spec), "b": fmt.Sprintf("%x", toBytes(c.Twin)),
					"result_a": da.Outcome + ":" + canon(projValue(da.Value)), "result_b": db.Outcome + ":" + canon(projValue(db.Value))})
			}
		case "tree", "nest":
			if c.Kind == "nest" {
				c.Tree = nestTree(c.Depth)
			}
			want := canon(projTree(c.Tree))
			// (a) the library's encoder against the specification's bytes
			got, pan := marshal(treeToValue(c.Tree))
			if pan != "" {
				bad("c03:encode-panic", pan)
			} else if !bytes.Equal(got, spec) {
				bad("c03:encoding-differs", map[string]any{"lib": fmt.Sprintf("%x", got), "spec": fmt.Sprintf("%x", spec)})
			} else if len(got) <= 4096 {
				kept = append(kept, keptEnc{got: got, spec: spec, idx: i}) // the slice itself, not a copy
			}
			if got2, pan := marshalReused(treeToValue(c.Tree), len(spec)); pan != "" {
				bad("c03:encode-panic-on-reused-encoder", pan)
			} else if !bytes.Equal(got2, spec) {
				bad("c03:encoding-differs-on-reused-encoder", map[string]any{"lib": fmt.Sprintf("%x", got2), "spec": fmt.Sprintf("%x", spec)})
			}
			// (b) the library's decoder on the specification's bytes
			var v ttlv.Value
			d := decodeInto(append([]byte(nil), spec...), &v)
			if d.Outcome != "value" {
				bad("c03:decode-"+d.Outcome, d.Detail)
			} else if g := canon(projValue(d.Value)); g != want {
				bad("c03:decoded-tree-differs", map[string]any{"lib": g, "spec": want})
			}
			// (b') C18 for untyped values through the text encodings: what the library writes for the decoded value is read back by
			// the library and written again identically
			// (instants after 9999-12-31T23:59:59Z exist in the binary encoding only: RFC 3339, the text form of a Date-Time, ends there)
			if d.Outcome == "value" && len(spec) <= 4096 && !beyondRFC3339(d.Value) {
				for _, h := range []struct {
					name string
					m    func(any) []byte
					u    func([]byte, any) error
				}{{"xml", ttlv.MarshalXML, ttlv.UnmarshalXML}, {"json", ttlv.MarshalJSON, ttlv.UnmarshalJSON}} {
					func() {
						defer func() {
							if r := recover(); r != nil {
								bad("c18:generic-"+h.name+"-panic", vh.PanicSig(r))
							}
						}()
						t1 := h.m(v)
						var v2 ttlv.Value
						if err := h.u(t1, &v2); err != nil {
							bad("c18:generic-"+h.name+"-reencoding-not-accepted", map[string]any{"doc": string(t1), "err": err.Error()})
							return
						}
						if t2 := h.m(v2); !bytes.Equal(t1, t2) {
							bad("c18:generic-"+h.name+"-second-reencoding-differs", map[string]any{"first": string(t1), "second": string(t2)})
						}
					}()
				}
			}
			// (c) refwire against the specification: this is what licenses it as the independent parser
			it, err := refwire.Parse(spec, true)
			if err != nil {
				bad("refwire:rejects-spec-encoding", err.Error())
			} else {
				if g := canon(projItem(it)); g != want {
					bad("refwire:tree-differs", map[string]any{"refwire": g, "spec": want})
				}
				if !bytes.Equal(refwire.Encode(it), spec) {
					bad("refwire:encoding-differs", fmt.Sprintf("%x", refwire.Encode(it)))
				}
			}
		case "bytes":
			// C02: decode twice on private copies; no panic, no hang, input untouched, same result
			in1 := append([]byte(nil), spec...)
			var v1, v2 ttlv.Value
			d1 := decodeInto(in1, &v1)
			unchanged := bytes.Equal(in1, spec)
			d2 := decodeInto(in1, &v2)
			if d1.Outcome == "panic" || d1.Outcome == "timeout" {
				bad("c02:"+d1.Outcome, d1.Detail)
			}
			if !unchanged {
				bad("c02:input-mutated", map[string]any{"before": fmt.Sprintf("%x", spec), "after": fmt.Sprintf("%x", in1)})
			}
			if d1.Outcome == "value" || d2.Outcome == "value" {
				if d1.Outcome != d2.Outcome || canon(projValue(d1.Value)) != canon(projValue(d2.Value)) {
					bad("c02:second-decode-differs", map[string]any{"first": canon(projValue(d1.Value)), "second": canon(projValue(d2.Value)), "o1": d1.Outcome, "o2": d2.Outcome})
				}
			}
			// what the decoder hands out is the caller's: a caller that wipes a decoded secret writes into ITS copy, not into the input
			// (a decode of its own: the values compared below stay as they are)
			if d1.Outcome == "value" {
				in3 := append([]byte(nil), spec...)
				var v3 ttlv.Value
				if d3 := decodeInto(in3, &v3); d3.Outcome == "value" {
					scribble(d3.Value)
					if !bytes.Equal(in3, spec) {
						bad("c02:decoded-value-shares-memory-with-the-input", map[string]any{"before": fmt.Sprintf("%x", spec), "after": fmt.Sprintf("%x", in3)})
					}
				}
			}
			// the same input in read-only memory that ends at an inaccessible page: same outcome, and no fault - a decoder reads its
			// input, and only its input
			{
				var vg ttlv.Value
				dg := decodeGuarded(spec, &vg)
				switch {
				case dg.Outcome == "panic" && isFault(dg.Detail):
					bad("c02:memory-fault-on-guarded-input", dg.Detail)
				case dg.Outcome == "skipped":
				case dg.Outcome != d1.Outcome || (dg.Outcome == "value" && canon(projValue(dg.Value)) != canon(projValue(d1.Value))):
					bad("c02:guarded-decode-differs", map[string]any{"plain": d1.Outcome, "guarded": dg.Outcome, "detail": dg.Detail})
				}
				for _, target := range []func() any{func() any { return new(kmip.RequestMessage) }, func() any { return new(kmip.ResponseMessage) }} {
					if d := decodeGuarded(spec, target()); d.Outcome == "panic" && isFault(d.Detail) {
						bad("c02:typed-memory-fault-on-guarded-input", d.Detail)
					}
				}
			}
			// Whatever is accepted must come from inside the declared extents. The library is more lenient than the
			// format (it ignores bytes after the top-level item and stops a structure at a zero tag): that is not
			// an over-read. It is one when the decoded value holds content the specification's parser does not find
			// at that place (leaves not among the specification's leaves), or - when the format rejects the input
			// because an announced extent exceeds its container - when the decoded value re-encodes to more bytes
			// than the input has (content counted twice).
			if d1.Outcome == "value" {
				if c.Accept {
					if !leavesSubset(projValue(d1.Value), projTree(c.Tree)) {
						bad("c02:content-outside-extents", map[string]any{"lib": canon(projValue(d1.Value)), "spec": canon(projTree(c.Tree))})
					}
				} else if re, pan := marshal(d1.Value); pan == "" && len(re) > len(spec) && (c.Why == "value-short" || c.Why == "header-short") {
					bad("c02:over-read", map[string]any{"why": c.Why, "lib": canon(projValue(d1.Value)), "reencoded": len(re), "input": len(spec)})
				}
			}
			// typed targets: outcome only
			for _, target := range []func() any{func() any { return new(kmip.RequestMessage) }, func() any { return new(kmip.ResponseMessage) }} {
				d := decodeInto(append([]byte(nil), spec...), target())
				if d.Outcome == "panic" || d.Outcome == "timeout" {
					bad("c02:typed-"+d.Outcome, d.Detail)
				}
			}
			// refwire must agree with the specification exactly
			it, err := refwire.Parse(spec, false)
			if (err == nil) != c.Accept {
				bad("refwire:verdict-differs", fmt.Sprint(err))
			} else if err == nil {
				if g, w := canon(projItem(it)), canon(projTree(c.Tree)); g != w {
					bad("refwire:tree-differs", map[string]any{"refwire": g, "spec": w})
				}
				if !bytes.Equal(refwire.Encode(it), toBytes(c.Canon)) {
					bad("refwire:canon-differs", fmt.Sprintf("%x", refwire.Encode(it)))
				}
				_, serr := refwire.Parse(spec, true)
				if (serr == nil) != c.Strict {
					bad("refwire:strict-verdict-differs", fmt.Sprint(serr))
				}
			}
			// C18: what the library accepts re-encodes to a fixed point
			if d1.Outcome == "value" && unchanged {
				re1, pan := marshal(d1.Value)
				if pan != "" {
					bad("c18:reencode-panic", pan)
				} else {
					var v3 ttlv.Value
					d3 := decodeInto(append([]byte(nil), re1...), &v3)
					if d3.Outcome != "value" {
						bad("c18:reencoding-not-accepted", d3.Detail)
					} else {
						re2, _ := marshal(d3.Value)
						if !bytes.Equal(re1, re2) {
							bad("c18:second-reencoding-differs", map[string]any{"first": fmt.Sprintf("%x", re1), "second": fmt.Sprintf("%x", re2)})
						}
					}
					// (the re-encoding need not be the specification's canonical form: the property asks for stability)
				}
			}
		}
		if len(problems) > 0 {
			orig := i
			if i >= n0 {
				orig = 2*n0 - 1 - i // second pass (reverse order)
			}
			out.Emit(map[string]any{"case": orig, "kind": c.Kind, "bytes": fmt.Sprintf("%x", spec), "problems": problems})
		}
	}
	// the encodings returned earlier are still what they were
	changed := 0
	for _, k := range kept {
		if !bytes.Equal(k.got, k.spec) {
			changed++
			if changed <= 3 {
				orig := k.idx
				if orig >= n0 {
					orig = 2*n0 - 1 - orig
				}
				out.Emit(map[string]any{"case": orig, "kind": "tree", "bytes": fmt.Sprintf("%x", k.spec), "problems": []map[string]any{{"kind": "c03:encoding-changed-by-later-calls",
					"detail": map[string]any{"now": fmt.Sprintf("%x", k.got), "spec": fmt.Sprintf("%x", k.spec)}}}})
			}
		}
	}
	out.Emit(map[string]any{"summary": true, "cases": n0, "replays": n, "kept": len(kept), "kept_changed": changed})
}
