// Package memnet is an in-memory net.Listener / net.Conn pair for the conformance drivers.
// Writes are buffered without bound (they never block, like a socket with a large send buffer);
// reads block on a channel, which testing/synctest treats as a durable block, so a gate controller
// can tell "blocked in Read" from "running". Every end has an id; faults can be scripted per end.
package memnet

import (
	"errors"
	"fmt"
	"io"
	"net"
	"os"
	"sync"
	"sync/atomic"
	"time"
)

type addr string

func (a addr) Network() string { return "mem" }
func (a addr) String() string  { return string(a) }

// ErrReset is a non-EOF transport error (stands for ECONNRESET).
var ErrReset = errors.New("memnet: connection reset by peer")

// ErrBrokenPipe is returned by writes to a peer that has closed.
var ErrBrokenPipe = errors.New("memnet: broken pipe")

// Fault hooks: called (if set) before every Read/Write of an end; a non-nil error is returned to the caller
// (for Write after delivering `n` bytes: short write).
type Fault func(op string, index int, p []byte) (n int, err error, fire bool)

type end struct {
	mu       sync.Mutex
	buf      []byte
	closed   bool // this end was closed by its owner
	peerWr   bool // the peer closed its write side (or closed completely): EOF after the buffer drains
	reset    bool // the peer reset the connection: pending and future reads fail with ErrReset
	notify   chan struct{}
	stalled  bool          // the owner of this end has stopped taking data and its window is full: the peer's writes block
	wnotify  chan struct{} // wakes the owner's blocked Write (the peer takes data again, or this end was closed)
	rdl, wdl time.Time     // read / write deadlines of the owner of this end (zero: none)
	rdTimer  *time.Timer   // wakes a blocked Read when the read deadline passes
	ReadCnt  int
	WriteCnt int
	RdBytes  int
	WrBytes  int
}

func (e *end) signal() {
	select {
	case e.notify <- struct{}{}:
	default:
	}
}

func (e *end) wsignal() {
	select {
	case e.wnotify <- struct{}{}:
	default:
	}
}

// Stall makes this end stop taking data, as a peer does that no longer reads while its receive window is full: from now on the
// other end's writes block - until Stall(false), or until that other end is closed by its owner.
func (c *Conn) Stall(b bool) {
	c.self.mu.Lock()
	c.self.stalled = b
	c.self.mu.Unlock()
	c.peer.wsignal()
}

// Conn is one end of a pipe.
type Conn struct {
	ID    int
	Name  string
	self  *end
	peer  *end
	Fault Fault
	ioIdx atomic.Int64 // Read and Write may run concurrently, like on a socket
	// MaxChunk limits how many bytes one Read returns (0 = everything available).
	MaxChunk int
	// EOFWithData: a Read that hands over the last bytes the peer wrote before it closed returns them together with io.EOF (io.Reader
	// allows n > 0 with an error; in-memory transports and some TLS stacks do it)
	EOFWithData bool
}

// Pipe returns the two ends (a: dialing side, b: accepting side).
func Pipe(id int) (*Conn, *Conn) {
	ea := &end{notify: make(chan struct{}, 1), wnotify: make(chan struct{}, 1)}
	eb := &end{notify: make(chan struct{}, 1), wnotify: make(chan struct{}, 1)}
	return &Conn{ID: id, Name: fmt.Sprintf("c%d.cli", id), self: ea, peer: eb}, &Conn{ID: id, Name: fmt.Sprintf("c%d.srv", id), self: eb, peer: ea}
}

func (c *Conn) Read(p []byte) (int, error) {
	idx := int(c.ioIdx.Add(1) - 1)
	if c.Fault != nil {
		if n, err, fire := c.Fault("read", idx, p); fire {
			return n, err
		}
	}
	for {
		c.self.mu.Lock()
		c.self.ReadCnt++
		switch {
		case c.self.closed:
			c.self.mu.Unlock()
			return 0, net.ErrClosed
		case c.self.reset:
			c.self.mu.Unlock()
			return 0, ErrReset
		case !c.self.rdl.IsZero() && !time.Now().Before(c.self.rdl):
			// like the runtime's network poller: a read with an expired deadline fails even if data is available
			c.self.mu.Unlock()
			return 0, os.ErrDeadlineExceeded
		case len(c.self.buf) > 0:
			n := len(c.self.buf)
			if n > len(p) {
				n = len(p)
			}
			if c.MaxChunk > 0 && n > c.MaxChunk {
				n = c.MaxChunk
			}
			copy(p, c.self.buf[:n])
			c.self.buf = c.self.buf[n:]
			c.self.RdBytes += n
			last := len(c.self.buf) == 0 && c.self.peerWr && c.EOFWithData
			c.self.mu.Unlock()
			if last {
				return n, io.EOF
			}
			return n, nil
		case c.self.peerWr:
			c.self.mu.Unlock()
			return 0, io.EOF
		}
		c.self.mu.Unlock()
		<-c.self.notify
	}
}

func (c *Conn) Write(p []byte) (int, error) {
	idx := int(c.ioIdx.Add(1) - 1)
	if c.Fault != nil {
		if n, err, fire := c.Fault("write", idx, p); fire {
			if n > 0 {
				c.deliver(p[:n])
			}
			return n, err
		}
	}
	c.self.mu.Lock()
	closed := c.self.closed
	late := !c.self.wdl.IsZero() && !time.Now().Before(c.self.wdl)
	c.self.WriteCnt++
	c.self.mu.Unlock()
	if closed {
		return 0, net.ErrClosed
	}
	if late {
		return 0, os.ErrDeadlineExceeded
	}
	for {
		c.peer.mu.Lock()
		peerClosed, stalled := c.peer.closed, c.peer.stalled
		c.peer.mu.Unlock()
		if peerClosed {
			return 0, ErrBrokenPipe
		}
		if !stalled {
			break
		}
		// a blocked write ends when the peer takes data again, when this end is closed, or when its write deadline passes
		c.self.mu.Lock()
		wdl := c.self.wdl
		c.self.mu.Unlock()
		var tm *time.Timer
		if !wdl.IsZero() {
			tm = time.AfterFunc(time.Until(wdl), c.self.wsignal)
		}
		<-c.self.wnotify // a channel receive: a durable block for testing/synctest
		if tm != nil {
			tm.Stop()
		}
		c.self.mu.Lock()
		closed := c.self.closed
		late := !c.self.wdl.IsZero() && !time.Now().Before(c.self.wdl)
		c.self.mu.Unlock()
		if closed {
			return 0, net.ErrClosed
		}
		if late {
			return 0, os.ErrDeadlineExceeded
		}
	}
	c.deliver(p)
	return len(p), nil
}

func (c *Conn) deliver(p []byte) {
	c.peer.mu.Lock()
	c.peer.buf = append(c.peer.buf, p...)
	c.peer.mu.Unlock()
	c.self.mu.Lock()
	c.self.WrBytes += len(p)
	c.self.mu.Unlock()
	c.peer.signal()
}

// Close closes this end: own readers fail with net.ErrClosed, the peer reads EOF after draining.
func (c *Conn) Close() error {
	c.self.mu.Lock()
	already := c.self.closed
	c.self.closed = true
	c.self.mu.Unlock()
	c.self.signal()
	c.self.wsignal()
	c.peer.mu.Lock()
	c.peer.peerWr = true
	c.peer.mu.Unlock()
	c.peer.signal()
	c.peer.wsignal()
	if already {
		return net.ErrClosed
	}
	return nil
}

// CloseWrite half-closes: the peer reads EOF after draining, this end can still read.
func (c *Conn) CloseWrite() error {
	c.peer.mu.Lock()
	c.peer.peerWr = true
	c.peer.mu.Unlock()
	c.peer.signal()
	return nil
}

// Reset makes the peer's pending and future reads fail with ErrReset, and closes this end.
func (c *Conn) Reset() {
	c.self.mu.Lock()
	c.self.closed = true
	c.self.mu.Unlock()
	c.self.signal()
	c.peer.mu.Lock()
	c.peer.reset = true
	c.peer.mu.Unlock()
	c.peer.signal()
}

// Closed reports whether this end was closed by its owner.
func (c *Conn) Closed() bool {
	c.self.mu.Lock()
	defer c.self.mu.Unlock()
	return c.self.closed
}

// Pending returns the bytes buffered for this end without consuming them.
func (c *Conn) Pending() int {
	c.self.mu.Lock()
	defer c.self.mu.Unlock()
	return len(c.self.buf)
}

// TryRead returns whatever is buffered for this end without blocking.
func (c *Conn) TryRead() []byte {
	c.self.mu.Lock()
	defer c.self.mu.Unlock()
	b := c.self.buf
	c.self.buf = nil
	return b
}

func (c *Conn) Stats() (reads, writes, rdBytes, wrBytes int) {
	c.self.mu.Lock()
	defer c.self.mu.Unlock()
	return c.self.ReadCnt, c.self.WriteCnt, c.self.RdBytes, c.self.WrBytes
}

func (c *Conn) LocalAddr() net.Addr  { return addr(c.Name) }
func (c *Conn) RemoteAddr() net.Addr { return addr(c.Name + ".peer") }

// Deadlines behave like those of a socket: a deadline in the past fails pending and future reads (writes never block here,
// so a write deadline only matters once it has passed); the zero time removes the deadline.
func (c *Conn) SetDeadline(t time.Time) error {
	_ = c.SetReadDeadline(t)
	return c.SetWriteDeadline(t)
}
func (c *Conn) SetReadDeadline(t time.Time) error {
	e := c.self
	e.mu.Lock()
	if e.closed {
		e.mu.Unlock()
		return net.ErrClosed
	}
	e.rdl = t
	if e.rdTimer != nil {
		e.rdTimer.Stop()
		e.rdTimer = nil
	}
	if d := time.Until(t); !t.IsZero() && d > 0 {
		e.rdTimer = time.AfterFunc(d, e.signal)
	}
	e.mu.Unlock()
	e.signal()
	return nil
}
func (c *Conn) SetWriteDeadline(t time.Time) error {
	c.self.mu.Lock()
	defer c.self.mu.Unlock()
	if c.self.closed {
		return net.ErrClosed
	}
	c.self.wdl = t
	c.self.wsignal()
	return nil
}

// Listener hands out the accepting ends of pipes created by Dial.
type Listener struct {
	mu     sync.Mutex
	q      chan *Conn
	closed chan struct{}
	once   sync.Once
	next   int
}

func NewListener() *Listener {
	return &Listener{q: make(chan *Conn, 1024), closed: make(chan struct{})}
}

// Dial creates a connection; the server end is queued for Accept. It never blocks.
func (l *Listener) Dial() (*Conn, error) {
	select {
	case <-l.closed:
		return nil, errors.New("memnet: connection refused")
	default:
	}
	l.mu.Lock()
	l.next++
	id := l.next
	l.mu.Unlock()
	a, b := Pipe(id)
	l.q <- b
	return a, nil
}

func (l *Listener) Accept() (net.Conn, error) {
	select {
	case <-l.closed:
		return nil, &net.OpError{Op: "accept", Net: "mem", Err: net.ErrClosed}
	default:
	}
	select {
	case c := <-l.q:
		return c, nil
	case <-l.closed:
		return nil, &net.OpError{Op: "accept", Net: "mem", Err: net.ErrClosed}
	}
}

// Close closes the listener; like a socket, closing it again reports that it is closed already.
func (l *Listener) Close() error {
	first := false
	l.once.Do(func() { close(l.closed); first = true })
	if !first {
		return &net.OpError{Op: "close", Net: "mem", Err: net.ErrClosed}
	}
	return nil
}

func (l *Listener) Addr() net.Addr { return addr("memnet") }
