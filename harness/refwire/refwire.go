// Package refwire is an independent TTLV binary parser / encoder written from the KMIP specification
// (section 9.1), sharing no code with github.com/ovh/kmip-go/ttlv. It is itself checked against
// spec/Wire.tla (the C03 driver compares it with the TLC-enumerated vectors), which is what licenses
// its use as the "independent parser" of C01, C03 and C05.
package refwire

import (
	"errors"
	"fmt"
	"math/big"
)

// Item is a parsed TTLV item. Exactly one of the value fields is meaningful, according to Type.
type Item struct {
	Tag   int
	Type  int      // 1..10
	Raw   []byte   // value bytes without padding (all types)
	Kids  []*Item  // Structure
	Big   *big.Int // Big Integer
	Off   int      // offset of the header in the parsed buffer
	Total int      // 8 + padded value length
}

func pad8(n int) int { return (8 - n%8) % 8 }

// Parse parses exactly one item filling the whole buffer. strict enforces canonical form (zero padding,
// minimal big integers in multiples of 8 bytes, boolean 0/1).
func Parse(b []byte, strict bool) (*Item, error) {
	it, next, err := parseAt(b, 0, len(b), strict)
	if err != nil {
		return nil, err
	}
	if next != len(b) {
		return nil, errors.New("trailing-bytes")
	}
	return it, nil
}

func parseAt(b []byte, lo, hi int, strict bool) (*Item, int, error) {
	if hi-lo < 8 {
		return nil, 0, errors.New("header-short")
	}
	tag := int(b[lo])<<16 | int(b[lo+1])<<8 | int(b[lo+2])
	ty := int(b[lo+3])
	n64 := uint64(b[lo+4])<<24 | uint64(b[lo+5])<<16 | uint64(b[lo+6])<<8 | uint64(b[lo+7])
	if n64 > uint64(hi-lo-8) {
		return nil, 0, errors.New("value-short")
	}
	n := int(n64)
	pn := n + pad8(n)
	vlo := lo + 8
	if hi-vlo < pn {
		return nil, 0, errors.New("value-short")
	}
	if ty < 1 || ty > 10 {
		return nil, 0, errors.New("bad-type")
	}
	if strict {
		for _, x := range b[vlo+n : vlo+pn] {
			if x != 0 {
				return nil, 0, errors.New("nonzero-padding")
			}
		}
	}
	it := &Item{Tag: tag, Type: ty, Raw: append([]byte(nil), b[vlo:vlo+n]...), Off: lo, Total: 8 + pn}
	switch ty {
	case 1:
		p := vlo
		for p < vlo+n {
			kid, next, err := parseAt(b, p, vlo+n, strict)
			if err != nil {
				return nil, 0, err
			}
			it.Kids = append(it.Kids, kid)
			p = next
		}
	case 2, 5, 10:
		if n != 4 {
			return nil, 0, errors.New("bad-length")
		}
	case 3, 9:
		if n != 8 {
			return nil, 0, errors.New("bad-length")
		}
	case 6:
		if n != 8 {
			return nil, 0, errors.New("bad-length")
		}
		if strict {
			for _, x := range it.Raw[:7] {
				if x != 0 {
					return nil, 0, errors.New("bad-boolean")
				}
			}
			if it.Raw[7] > 1 {
				return nil, 0, errors.New("bad-boolean")
			}
		}
	case 4:
		if n == 0 {
			return nil, 0, errors.New("bad-length")
		}
		it.Big = twosToBig(it.Raw)
		if strict {
			if n%8 != 0 || string(BigBytes(it.Big)) != string(it.Raw) {
				return nil, 0, errors.New("non-canonical-biginteger")
			}
		}
	}
	return it, vlo + pn, nil
}

func twosToBig(b []byte) *big.Int {
	v := new(big.Int).SetBytes(b)
	if b[0]&0x80 != 0 {
		mod := new(big.Int).Lsh(big.NewInt(1), uint(8*len(b)))
		v.Sub(v, mod)
	}
	return v
}

// BigBytes is the canonical value of a Big Integer: minimal two's complement sign-extended to 8k bytes.
func BigBytes(v *big.Int) []byte {
	if v.Sign() == 0 {
		return make([]byte, 8)
	}
	// minimal width w with -2^(8w-1) <= v < 2^(8w-1)
	w := 1
	for {
		lim := new(big.Int).Lsh(big.NewInt(1), uint(8*w-1))
		neg := new(big.Int).Neg(lim)
		if v.Cmp(neg) >= 0 && v.Cmp(lim) < 0 {
			break
		}
		w++
	}
	total := w + pad8(w)
	mod := new(big.Int).Lsh(big.NewInt(1), uint(8*total))
	u := new(big.Int).Set(v)
	if u.Sign() < 0 {
		u.Add(u, mod)
	}
	out := make([]byte, total)
	u.FillBytes(out)
	return out
}

// Encode writes the item in canonical form.
func Encode(it *Item) []byte {
	var vb []byte
	switch it.Type {
	case 1:
		for _, k := range it.Kids {
			vb = append(vb, Encode(k)...)
		}
	case 4:
		vb = BigBytes(it.Big)
	case 6:
		vb = make([]byte, 8)
		if len(it.Raw) == 8 && it.Raw[7] != 0 || len(it.Raw) == 1 && it.Raw[0] != 0 {
			vb[7] = 1
		}
	default:
		vb = it.Raw
	}
	n := len(vb)
	out := []byte{byte(it.Tag >> 16), byte(it.Tag >> 8), byte(it.Tag), byte(it.Type), byte(n >> 24), byte(n >> 16), byte(n >> 8), byte(n)}
	out = append(out, vb...)
	out = append(out, make([]byte, pad8(n))...)
	return out
}

// Find returns the direct children with the given tag.
func (it *Item) Find(tag int) []*Item {
	var res []*Item
	for _, k := range it.Kids {
		if k.Tag == tag {
			res = append(res, k)
		}
	}
	return res
}

// Tags returns the tag tree as nested lists: [tag, type, [children...]].
func (it *Item) Tags() any {
	kids := []any{}
	for _, k := range it.Kids {
		kids = append(kids, k.Tags())
	}
	return []any{it.Tag, it.Type, kids}
}

func (it *Item) String() string { return fmt.Sprintf("%06X/%d/%x", it.Tag, it.Type, it.Raw) }
