// Package sched is the gate controller used for schedule replay and trace recording (binding
// mechanisms B2/B3 of DESIGN.md). It is meant to run inside a testing/synctest bubble: every hook
// call of the instrumented library parks its goroutine on a channel; the controller (the bubble's
// root goroutine) calls synctest.Wait() - which returns exactly when every other goroutine is
// durably blocked - inspects who is parked where, releases ONE goroutine (or performs one
// environment action), waits for quiescence again and records the macro-step:
//
//	{"ev":"step","rel":[role,gate],"arr":[[role,gate],...]}     goroutine released, gates reached as a consequence
//	{"ev":"env","act":...,"arr":[...]}                           environment action and its consequences
//
// Because only one goroutine is released at a time and every shared-memory operation of the library
// is preceded by a gate, the recorded order is the real order of the operations.
package sched

import (
	"fmt"
	"runtime"
	"sort"
	"strconv"
	"strings"
	"sync"
)

// Gate is a goroutine parked at an instrumented point.
type Gate struct {
	Gid   uint64
	Point string
	Obj   any
	Role  string // e.g. "1.M", "1.R", "1.W", "S", "D", "T", "u1" ...
	ch    chan struct{}
	seq   int
}

type Ctl struct {
	mu     sync.Mutex
	parked []*Gate
	seq    int
	roleOf map[uint64]string
	// RoleFor assigns a role to a goroutine the first time it reaches a gate (given point and obj).
	RoleFor func(gid uint64, point string, obj any) string
	// Passive: hooks only record (no gating)
	Passive bool
	lastAt  map[string]string // role -> gate where it is (parked) or "gate!" after release
	Events  []map[string]any
	OnEvent func(map[string]any)
	// OnArrive, if set, is called (under the controller's mutex) when a goroutine parks at a gate
	OnArrive func(*Gate)
}

func New() *Ctl {
	return &Ctl{roleOf: map[uint64]string{}, lastAt: map[string]string{}}
}

// Gid returns the id of the calling goroutine.
func Gid() uint64 {
	var buf [64]byte
	n := runtime.Stack(buf[:], false)
	s := strings.TrimPrefix(string(buf[:n]), "goroutine ")
	s = s[:strings.IndexByte(s, ' ')]
	id, _ := strconv.ParseUint(s, 10, 64)
	return id
}

// Hook is installed as the library's VerifHook. It parks the caller until the controller releases it.
func (c *Ctl) Hook(point string, obj any) {
	gid := Gid()
	c.mu.Lock()
	role, ok := c.roleOf[gid]
	if !ok || c.RoleFor != nil {
		if c.RoleFor != nil {
			if r := c.RoleFor(gid, point, obj); r != "" {
				role = r
			}
		}
		if role == "" {
			role = fmt.Sprintf("g%d", gid)
		}
		c.roleOf[gid] = role
	}
	c.seq++
	g := &Gate{Gid: gid, Point: point, Obj: obj, Role: role, ch: make(chan struct{}), seq: c.seq}
	c.parked = append(c.parked, g)
	c.lastAt[role] = point
	if c.OnArrive != nil {
		c.OnArrive(g)
	}
	c.mu.Unlock()
	<-g.ch
}

// SetRole binds a goroutine id to a role explicitly.
func (c *Ctl) SetRole(gid uint64, role string) {
	c.mu.Lock()
	c.roleOf[gid] = role
	c.mu.Unlock()
}

// Parked returns a snapshot of the parked gates sorted by role.
func (c *Ctl) Parked() []*Gate {
	c.mu.Lock()
	defer c.mu.Unlock()
	res := append([]*Gate(nil), c.parked...)
	sort.Slice(res, func(i, j int) bool { return res[i].Role < res[j].Role })
	return res
}

// Find returns the parked gate of a role (nil if the role is not parked).
func (c *Ctl) Find(role string) *Gate {
	c.mu.Lock()
	defer c.mu.Unlock()
	for _, g := range c.parked {
		if g.Role == role {
			return g
		}
	}
	return nil
}

// Where tells the last known position of a role: "gate" when parked, "gate!" when released from it.
func (c *Ctl) Where(role string) string {
	c.mu.Lock()
	defer c.mu.Unlock()
	return c.lastAt[role]
}

// Release lets the goroutine parked at g continue. The caller must then wait for quiescence
// (synctest.Wait) and call Arrivals to learn what happened.
func (c *Ctl) Release(g *Gate) {
	c.mu.Lock()
	for i, p := range c.parked {
		if p == g {
			c.parked = append(c.parked[:i], c.parked[i+1:]...)
			break
		}
	}
	c.lastAt[g.Role] = g.Point + "!"
	c.mu.Unlock()
	close(g.ch)
}

// Snapshot returns the sequence number up to which gates are known; Arrivals(since) lists gates parked later.
func (c *Ctl) Snapshot() int {
	c.mu.Lock()
	defer c.mu.Unlock()
	return c.seq
}

func (c *Ctl) Arrivals(since int) [][2]string {
	c.mu.Lock()
	defer c.mu.Unlock()
	var res [][2]string
	for _, g := range c.parked {
		if g.seq > since {
			res = append(res, [2]string{g.Role, g.Point})
		}
	}
	sort.Slice(res, func(i, j int) bool { return res[i][0] < res[j][0] })
	return res
}

// Record appends an event to the trace.
func (c *Ctl) Record(ev map[string]any) {
	c.mu.Lock()
	ev["seq"] = len(c.Events) + 1
	c.Events = append(c.Events, ev)
	c.mu.Unlock()
	if c.OnEvent != nil {
		c.OnEvent(ev)
	}
}

// ReleaseAll releases everything that is parked (used to let goroutines run out at the end of a run).
func (c *Ctl) ReleaseAll() int {
	c.mu.Lock()
	ps := c.parked
	c.parked = nil
	c.mu.Unlock()
	for _, g := range ps {
		close(g.ch)
	}
	return len(ps)
}
