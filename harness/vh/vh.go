// Package vh holds the small helpers shared by all conformance drivers:
// ndjson I/O for cases, results and traces, seed handling, panic capture.
package vh

import (
	"bufio"
	"encoding/json"
	"fmt"
	"io"
	"log/slog"
	"os"
	"time"
	"runtime"
	"strconv"
	"strings"
	"sync"
)

// Env returns the value of an environment variable or def.
func Env(name, def string) string {
	if v := os.Getenv(name); v != "" {
		return v
	}
	return def
}

func EnvInt(name string, def int) int {
	if v := os.Getenv(name); v != "" {
		if n, err := strconv.Atoi(v); err == nil {
			return n
		}
	}
	return def
}

func Seed() int64 { return int64(EnvInt("VERIF_SEED", 1)) }

// ReadNDJSON decodes every line of path into a new T.
func ReadNDJSON[T any](path string) ([]T, error) {
	f, err := os.Open(path)
	if err != nil {
		return nil, err
	}
	defer f.Close()
	var res []T
	sc := bufio.NewScanner(f)
	sc.Buffer(make([]byte, 1<<20), 1<<28)
	for sc.Scan() {
		line := strings.TrimSpace(sc.Text())
		if line == "" {
			continue
		}
		var v T
		if err := json.Unmarshal([]byte(line), &v); err != nil {
			return nil, fmt.Errorf("%s: %w: %s", path, err, line)
		}
		res = append(res, v)
	}
	return res, sc.Err()
}

// Writer is a goroutine-safe ndjson writer. Seq numbers are assigned under its mutex.
type Writer struct {
	mu  sync.Mutex
	f   *os.File
	w   *bufio.Writer
	seq int
}

func NewWriter(path string) (*Writer, error) {
	f, err := os.Create(path)
	if err != nil {
		return nil, err
	}
	return &Writer{f: f, w: bufio.NewWriterSize(f, 1<<20)}, nil
}

// Emit writes one object. If it is a map, "seq" is added (order of Emit calls).
func (w *Writer) Emit(v any) {
	w.mu.Lock()
	defer w.mu.Unlock()
	w.seq++
	if m, ok := v.(map[string]any); ok {
		m["seq"] = w.seq
	}
	b, err := json.Marshal(v)
	if err != nil {
		panic(err)
	}
	w.w.Write(b)
	w.w.WriteByte('\n')
}

// Flush writes buffered lines to the file.
func (w *Writer) Flush() {
	w.mu.Lock()
	defer w.mu.Unlock()
	w.w.Flush()
}

func (w *Writer) Close() error {
	w.mu.Lock()
	defer w.mu.Unlock()
	if err := w.w.Flush(); err != nil {
		return err
	}
	return w.f.Close()
}

// PanicSig renders a recovered panic value plus the top library frame as a stable signature.
func PanicSig(r any) string {
	pcs := make([]uintptr, 64)
	n := runtime.Callers(3, pcs)
	frames := runtime.CallersFrames(pcs[:n])
	top := ""
	for {
		fr, more := frames.Next()
		if strings.Contains(fr.Function, "github.com/ovh/kmip-go") && !strings.Contains(fr.Function, "verifharness") {
			top = fr.Function
			break
		}
		if !more {
			break
		}
	}
	msg := fmt.Sprint(r)
	if len(msg) > 120 {
		msg = msg[:120]
	}
	return "panic@" + shortFn(top) + ":" + msg
}

func shortFn(fn string) string {
	fn = strings.TrimPrefix(fn, "github.com/ovh/kmip-go/")
	fn = strings.TrimPrefix(fn, "github.com/ovh/kmip-go.")
	return fn
}

// Quiet silences the library's slog output (handler panics are logged with stack traces).
func Quiet() {
	slog.SetDefault(slog.New(slog.NewTextHandler(io.Discard, nil)))
	// Nothing the properties state depends on the time zone of the host: every driver runs in a zone that is not UTC and not a
	// whole number of hours away from it (VERIF_TZ=utc restores UTC).
	if os.Getenv("VERIF_TZ") != "utc" {
		time.Local = time.FixedZone("VRF", 5*3600+30*60)
	}
}
