"""Common machinery of the /verif orchestrator (python3, standard library only).

A check is a python module checks/<id>.py with a function run(ctx).  The Context gives it
  * ctx.tlc(...)            run TLC on a specification of /verif/spec in a scratch copy
  * ctx.build_driver(pkg)   compile a harness test binary from /repo's current working tree (-tags verif)
  * ctx.run_driver(...)     run it
  * ctx.violation(...)      report something the REAL CODE did (known finding or VIOLATION)
  * ctx.inconclusive(...)   exit 2 (tool failure, model drift, unreproduced counterexample)
  * ctx.finish(coverage)    write evidence/<id>.json and exit 0/1

Exit codes: 0 property held on everything explored (KNOWN-FINDING lines allowed), 1 VIOLATION, 2 inconclusive.
"""
import json, os, re, shutil, subprocess, sys, time, hashlib, random

VERIF = os.path.dirname(os.path.dirname(os.path.abspath(__file__)))
REPO = os.environ.get("VERIF_REPO", "/repo")
SPEC = os.path.join(VERIF, "spec")
HARNESS = os.path.join(VERIF, "harness")
NCPU = os.cpu_count() or 4


def goenv():
    env = dict(os.environ)
    env.update(GOFLAGS="-mod=mod", GOPROXY="off", GOSUMDB="off", CGO_ENABLED=env.get("CGO_ENABLED", "1"))
    env.pop("GOTOOLCHAIN", None)  # GOTOOLCHAIN=local would select go1.23 and fail; auto picks cached go1.26.8
    return env


class Inconclusive(Exception):
    pass


TLA_CP = "/opt/veriftools/tla/tla2tools.jar:/opt/veriftools/tla/CommunityModules-deps.jar"


class TLCResult:
    def __init__(self, rc, out, wall):
        self.rc, self.out, self.wall = rc, out, wall
        self.generated = self.distinct = self.depth = 0
        m = None
        for m in re.finditer(r"(\d+) states generated, (\d+) distinct states found, (\d+) states left", out):
            pass
        if m:
            self.generated, self.distinct = int(m.group(1)), int(m.group(2))
        m = re.search(r"depth of the complete state graph search is (\d+)", out)
        if m:
            self.depth = int(m.group(1))
        self.violated = re.findall(r"Error: Invariant (\S+) is violated", out)
        self.violated += re.findall(r"Error: Action property (\S+) is violated", out)
        self.violated += re.findall(r"The invariant of (\S+) is equal to FALSE", out)
        if "Temporal properties were violated" in out:
            self.violated.append("<temporal>")
        self.postcondition_failed = "Postcondition" in out and "violated" in out or "POSTCONDITION" in out and "violated" in out
        self.deadlock = "Deadlock reached" in out
        self.error = bool(re.search(r"^Error:", out, re.M)) or rc not in (0,)
        self.ok = (rc == 0) and not self.violated and not self.deadlock and "Error:" not in out

    def printed(self, key):
        """Lines printed by PrintT(<<key, jsonstring>>) -> list of decoded JSON objects."""
        res = []
        pat = '<<"%s", "' % key
        for line in self.out.splitlines():
            i = line.find(pat)
            if i < 0:
                continue
            body = line[i + len(pat):]
            j = body.rfind('">>')
            if j < 0:
                continue
            s = body[:j]
            res.append(json.loads(json.loads('"' + s + '"')))
        return res

    def coverage_zero(self):
        """action/branch locations with zero count under -coverage 1 (top-level actions only)."""
        zeros = []
        for m in re.finditer(r"^<(\w+) line (\d+), col \d+ to line \d+, col \d+ of module (\w+)>: (\d+):(\d+)$", self.out, re.M):
            if int(m.group(4)) == 0 and int(m.group(5)) == 0:
                zeros.append(m.group(1))
        return zeros


class Context:
    def __init__(self, pid, tier, seed, replay=None):
        self.pid, self.tier, self.seed, self.replay = pid, tier, seed, replay
        self.t0 = time.time()
        self.work = os.path.join(VERIF, ".work", "%s.%d" % (pid, os.getpid()))
        shutil.rmtree(self.work, ignore_errors=True)
        os.makedirs(self.work)
        self.viol = 0
        self.known = 0
        self.known_seen = set()
        self.viol_sigs = set()
        self.states = 0
        self.transitions = 0
        self.traces_validated = 0
        self.tlc_cmds = []
        self.notes = []
        self.rng = random.Random(seed)
        self.findings = load_findings()
        self.quick = tier == "quick"

    # ------------------------------------------------------------------ TLC
    def tlc(self, module, cfg, workers=None, env=None, timeout=1800, extra=(), count=True, must_pass=True,
            simulate=None, coverage=False, deque=False, label=None):
        """Run TLC on spec/<module>.tla with spec/<cfg> inside a scratch copy of spec/.
        Returns TLCResult.  must_pass: anything but a clean run is Inconclusive (the caller inspects
        .violated itself when must_pass=False)."""
        sdir = os.path.join(self.work, "spec")
        if not os.path.isdir(sdir):
            shutil.copytree(SPEC, sdir)
        meta = os.path.join(self.work, "meta.%d" % len(self.tlc_cmds))
        if workers is None:
            workers = min(NCPU, 16)
        # the `tlc` wrapper on PATH is `java -XX:+UseParallelGC -cp <jars> tlc2.TLC`; it is spelled out here because the stack size of the
        # JVM's main thread (which computes the initial states) can only be given on the command line, not through JAVA_TOOL_OPTIONS
        cmd = ["java", "-Xss512m", "-XX:+UseParallelGC", "-cp", TLA_CP, "tlc2.TLC",
               "-noGenerateSpecTE", "-maxSetSize", "50000000", "-metadir", meta, "-workers", str(workers), "-config", cfg]
        if simulate:
            cmd += ["-simulate", simulate]
        if coverage:
            cmd += ["-coverage", "1"]
        cmd += list(extra) + [module + ".tla"]
        e = dict(os.environ)
        jto = "-Xss512m"
        if deque:
            jto += " -Dtlc2.tool.queue.IStateQueue=StateDeque"
        e["JAVA_TOOL_OPTIONS"] = (e.get("JAVA_TOOL_OPTIONS", "") + " " + jto).strip()
        if env:
            e.update({k: str(v) for k, v in env.items()})
        t = time.time()
        try:
            p = subprocess.run(cmd, cwd=sdir, env=e, stdout=subprocess.PIPE, stderr=subprocess.STDOUT, timeout=timeout, text=True)
        except subprocess.TimeoutExpired:
            subprocess.run(["pkill", "-f", meta], check=False)
            raise Inconclusive("TLC timed out after %ds: %s" % (timeout, " ".join(cmd)))
        finally:
            shutil.rmtree(meta, ignore_errors=True)
        r = TLCResult(p.returncode, p.stdout, time.time() - t)
        self.tlc_cmds.append("tlc " + " ".join(cmd[6:]))
        with open(os.path.join(self.work, "tlc.%d.%s.log" % (len(self.tlc_cmds), label or cfg)), "w") as f:
            f.write(p.stdout)
        if count:
            self.states += r.distinct
            self.transitions += r.generated
        if must_pass and not r.ok:
            tail = "\n".join(p.stdout.splitlines()[-40:])
            raise Inconclusive("TLC run failed (%s %s): rc=%d violated=%s\n%s" % (module, cfg, p.returncode, r.violated, tail))
        return r

    # ------------------------------------------------------------------ Go
    def build_driver(self, pkg, race=False, tags="verif"):
        """go test -c of harness package ./drivers/<pkg>, compiled against /repo's working tree."""
        out = os.path.join(self.work, "drv_%s%s" % (pkg.replace("/", "_"), "_race" if race else ""))
        sync_harness_gomod()
        cmd = ["go", "test", "-c", "-tags", tags, "-o", out]
        if race:
            cmd.append("-race")
        cmd.append("./drivers/" + pkg)
        p = subprocess.run(cmd, cwd=HARNESS, env=goenv(), stdout=subprocess.PIPE, stderr=subprocess.STDOUT, text=True, timeout=900)
        if p.returncode != 0:
            raise Inconclusive("harness build failed (the tree under %s does not compile with -tags %s?):\n%s" % (REPO, tags, p.stdout[-4000:]))
        return out

    def run_driver(self, binary, args=(), env=None, timeout=900, test_run=None, ok_rc=(0,)):
        e = goenv()
        e["VERIF_SEED"] = str(self.seed)
        e["VERIF_TIER"] = self.tier
        e["VERIF_WORK"] = self.work
        if env:
            e.update({k: str(v) for k, v in env.items()})
        cmd = [binary, "-test.count=1", "-test.timeout=%ds" % (timeout + 30)]
        if test_run:
            cmd += ["-test.run", test_run]
        cmd += list(args)
        try:
            p = subprocess.run(cmd, cwd=self.work, env=e, stdout=subprocess.PIPE, stderr=subprocess.STDOUT, text=True, timeout=timeout)
        except subprocess.TimeoutExpired as ex:
            return 124, (ex.stdout or b"").decode("utf8", "replace") if isinstance(ex.stdout, bytes) else (ex.stdout or "")
        return p.returncode, p.stdout

    # ------------------------------------------------------------------ verdicts
    def violation(self, signature, what, replay_obj=None):
        """Something the real code did that the specification does not allow."""
        for f in self.findings:
            if f.get("property") == self.pid and f.get("status") == "open" and signature_matches(f["signature"], signature):
                if f["id"] not in self.known_seen:
                    self.known_seen.add(f["id"])
                    print("KNOWN-FINDING: property=%s %s [%s] %s" % (self.pid, f["id"], f["signature"], f.get("what", "")))
                self.known += 1
                return False
        self.sig_count = getattr(self, "sig_count", {})
        self.sig_count[signature] = self.sig_count.get(signature, 0) + 1
        if signature in self.viol_sigs:
            self.viol += 1
            return True
        if os.environ.get("VERIF_SIGS"):
            self.sig_what = getattr(self, "sig_what", {})
            self.sig_what[signature] = what
        self.viol_sigs.add(signature)
        self.viol += 1
        if len(self.viol_sigs) > 5:      # keep the output readable: the first five distinct signatures are reported
            return True
        rdir = os.path.join(VERIF, "replays")
        os.makedirs(rdir, exist_ok=True)
        h = hashlib.sha1(signature.encode()).hexdigest()[:10]
        path = os.path.join(rdir, "%s-%s.json" % (self.pid, h))
        with open(path, "w") as f:
            json.dump({"property": self.pid, "signature": signature, "what": what, "seed": self.seed, "tier": self.tier,
                       "repo_tree": repo_tree_hash(), "replay": replay_obj}, f, indent=1, default=str)
        print("VIOLATION property=%s replay=%s" % (self.pid, path))
        print("  signature: %s" % signature)
        print("  what: %s" % (what[:2000]))
        return True

    def note(self, s):
        self.notes.append(s)
        print("note: " + s)

    def finish(self, level, coverage, assumptions=()):
        cov = dict(coverage)
        if level == "model_checking":
            cov.setdefault("states", self.states)
            cov.setdefault("transitions", self.transitions)
            cov.setdefault("traces_validated_against_impl", self.traces_validated)
        cov.setdefault("checker_cmd", "; ".join(self.tlc_cmds)[:4000])
        cov["known_finding_hits"] = self.known
        if self.notes:
            cov["notes"] = self.notes
        ev = {"property_id": self.pid, "tier": self.tier, "seed": self.seed, "level": level, "coverage": cov,
              "assumptions": list(assumptions), "wall_s": round(time.time() - self.t0, 2), "violations": self.viol}
        os.makedirs(os.path.join(VERIF, "evidence"), exist_ok=True)
        with open(os.path.join(VERIF, "evidence", self.pid + ".json"), "w") as f:
            json.dump(ev, f, indent=1, default=str)
        if not os.environ.get("VERIF_KEEP"):
            shutil.rmtree(self.work, ignore_errors=True)
        try:
            os.rmdir(os.path.join(VERIF, ".work"))
        except OSError:
            pass
        if os.environ.get("VERIF_SIGS"):     # debugging aid: every distinct signature with its count
            for sg, n in sorted(getattr(self, "sig_count", {}).items()):
                print("SIG %5d %s\n          %s" % (n, sg, getattr(self, "sig_what", {}).get(sg, "")[:int(os.environ["VERIF_SIGS"]) if os.environ["VERIF_SIGS"].isdigit() else 300]))
        print("%s %s tier=%s seed=%d states=%d transitions=%d traces=%d violations=%d known=%d wall=%.1fs" % (
            "FAIL" if self.viol else "OK", self.pid, self.tier, self.seed, self.states, self.transitions,
            self.traces_validated, self.viol, self.known, time.time() - self.t0))
        sys.exit(1 if self.viol else 0)


def signature_matches(pattern, sig):
    """A known-finding signature is a literal or a python regex anchored at both ends."""
    if pattern == sig:
        return True
    try:
        return re.fullmatch(pattern, sig) is not None
    except re.error:
        return False


def load_findings():
    p = os.path.join(VERIF, "known_findings.json")
    if not os.path.exists(p):
        return []
    with open(p) as f:
        return json.load(f)


_synced = False


def sync_harness_gomod():
    """Point the harness module at the tree under test and refresh go.sum (offline)."""
    global _synced
    if _synced:
        return
    gm = os.path.join(HARNESS, "go.mod")
    want = "replace github.com/ovh/kmip-go => %s\n" % REPO
    txt = open(gm).read()
    new = re.sub(r"replace github.com/ovh/kmip-go => .*\n", want, txt)
    if new != txt:
        open(gm, "w").write(new)
    src = os.path.join(REPO, "go.sum")
    if os.path.exists(src):
        have = set(open(os.path.join(HARNESS, "go.sum")).read().splitlines()) if os.path.exists(os.path.join(HARNESS, "go.sum")) else set()
        need = [l for l in open(src).read().splitlines() if l and l not in have]
        if need:
            with open(os.path.join(HARNESS, "go.sum"), "a") as f:
                f.write("\n".join(need) + "\n")
    _synced = True


def repo_tree_hash():
    try:
        head = subprocess.run(["git", "-C", REPO, "rev-parse", "HEAD"], stdout=subprocess.PIPE, text=True).stdout.strip()
        diff = subprocess.run(["git", "-C", REPO, "diff", "HEAD"], stdout=subprocess.PIPE).stdout
        return head + ("+" + hashlib.sha1(diff).hexdigest()[:10] if diff else "")
    except Exception:
        return "unknown"


def write_ndjson(path, objs):
    with open(path, "w") as f:
        for o in objs:
            f.write(json.dumps(o, separators=(",", ":")) + "\n")


def read_ndjson(path):
    res = []
    with open(path) as f:
        for line in f:
            line = line.strip()
            if line:
                res.append(json.loads(line))
    return res
