------------------------------- MODULE Batch -------------------------------
(***************************************************************************)
(* kmipserver.BatchExecutor.HandleRequest as a transition system (C09) and *)
(* the ID placeholder (C15).  One request is processed by the steps        *)
(*   Start -> Validate -> (Exec | Skip)* -> Finish                         *)
(* mirroring router.go: handleRequest's header validation, the item loop   *)
(* with the `stopped` flag, executeItem (critical extension check, route   *)
(* lookup, handler call, panic recovery), handleBatchItemError (clears the *)
(* placeholder).  Several requests (Rids) are in flight at once; every     *)
(* variable is a function of the request id, which is the design reason    *)
(* why nothing can leak between requests (fresh batchData per request).    *)
(***************************************************************************)
EXTENDS Naturals, Sequences, FiniteSets, TLC

CONSTANTS Rids,        \* request identifiers
          MaxItems,    \* bound on the batch length explored
          Outcomes,    \* subset of AllOutcomes
          Options      \* subset of {"unset","Continue","Stop","Undo"}

AllOutcomes == {"success", "successSetsId", "successClearsId", "discover", "retriedSuccess", "deniedByStage", "typedError", "plainError", "panic", "unrouted", "critical"}

VARIABLES st,       \* st[r] \in {"idle","validate","items","done"}
          req,      \* req[r]   the request message descriptor
          idx,      \* idx[r]   next item
          stopped,  \* stopped[r]
          called,   \* called[r]  sequence of item indexes whose HANDLER was invoked
          resp,     \* resp[r]    sequence of response item descriptors
          hdr,      \* hdr[r]     response header descriptor [count, ver]
          uid,      \* uid[r]     unique serial of the request occupying slot r (slots are reused in traces)
          ph,       \* ph[r]      the ID placeholder: <<>> or <<uid[r], i>>
          reads     \* reads[r]   sequence of <<i, value read by the handler of item i>>
vars == <<st, req, idx, stopped, called, resp, hdr, uid, ph, reads>>

Item     == [out : Outcomes, hasId : BOOLEAN]
ItemSeqs == UNION {[1..n -> Item] : n \in 0..MaxItems}
Request  == [opt : Options, ver : {"supported", "unsupported"}, count : {"match", "mismatch"}, items : ItemSeqs]

NoReq == [opt |-> "unset", ver |-> "supported", count |-> "match", items |-> <<>>]

\* "deniedByStage": an item middleware of the application answers the item itself with status Failed and no error, without calling its
\* continuation. The item is failed like any other (under Stop nothing after it runs); the executor's own error handling never sees it,
\* so the placeholder stays what it was.
Failed(o)       == o \in {"typedError", "plainError", "panic", "unrouted", "critical", "deniedByStage"}
ClearsOnFail(o) == Failed(o) /\ o # "deniedByStage"
CallsHandler(o) == o \notin {"unrouted", "critical", "discover", "deniedByStage"}     \* "discover": the built-in Discover Versions answer, no handler
Reason(o) == CASE o = "typedError" -> "ItemNotFound"            \* the typed error the scripted handler returns
               [] o = "plainError" -> "GeneralFailure"
               [] o = "panic"      -> "GeneralFailure"
               [] o = "unrouted"   -> "OperationNotSupported"
               [] o = "critical"   -> "FeatureNotSupported"
               [] o = "deniedByStage" -> "PermissionDenied"
               [] OTHER            -> "none"

Rejects(q) == q.ver = "unsupported" \/ q.opt = "Undo" \/ q.count = "mismatch"
\* order of the checks in handleRequest: version, Undo, batch count
RejectReason(q) == IF q.ver = "unsupported" THEN "InvalidMessage"
                   ELSE IF q.opt = "Undo" THEN "FeatureNotSupported" ELSE "InvalidMessage"

StopOnError(q) == q.opt = "Stop"          \* unset and Continue both continue

-----------------------------------------------------------------------------
Init == /\ st = [r \in Rids |-> "idle"]
        /\ req = [r \in Rids |-> NoReq]
        /\ idx = [r \in Rids |-> 1]
        /\ stopped = [r \in Rids |-> FALSE]
        /\ called = [r \in Rids |-> <<>>]
        /\ resp = [r \in Rids |-> <<>>]
        /\ hdr = [r \in Rids |-> [count |-> 0, ver |-> "none"]]
        /\ uid = [r \in Rids |-> 0]
        /\ ph = [r \in Rids |-> <<>>]
        /\ reads = [r \in Rids |-> <<>>]

\* HandleRequest is entered: a fresh batch context is created (empty placeholder).  Fresh sets every
\* per-request variable, so a slot can be reused by a later request once the previous one is done
\* (trace validation reuses slots to keep the state small; the model checker starts from idle only).
Fresh(r, q, u) ==
    /\ st' = [st EXCEPT ![r] = "validate"]
    /\ req' = [req EXCEPT ![r] = q]
    /\ uid' = [uid EXCEPT ![r] = u]
    /\ ph' = [ph EXCEPT ![r] = <<>>]
    /\ idx' = [idx EXCEPT ![r] = 1]
    /\ stopped' = [stopped EXCEPT ![r] = FALSE]
    /\ called' = [called EXCEPT ![r] = <<>>]
    /\ resp' = [resp EXCEPT ![r] = <<>>]
    /\ hdr' = [hdr EXCEPT ![r] = [count |-> 0, ver |-> "none"]]
    /\ reads' = [reads EXCEPT ![r] = <<>>]

Start(r, q) == st[r] = "idle" /\ Fresh(r, q, r)

Validate(r) ==
    /\ st[r] = "validate"
    /\ IF Rejects(req[r])
       THEN /\ resp' = [resp EXCEPT ![r] = << [idx |-> 0, status |-> "Failed", reason |-> RejectReason(req[r])] >>]
            /\ hdr' = [hdr EXCEPT ![r] = [count |-> 1, ver |-> "request"]]
            /\ st' = [st EXCEPT ![r] = "done"]
       ELSE /\ hdr' = [hdr EXCEPT ![r] = [count |-> Len(req[r].items), ver |-> "request"]]
            /\ st' = [st EXCEPT ![r] = "items"]
            /\ UNCHANGED resp
    /\ UNCHANGED <<req, idx, stopped, called, uid, ph, reads>>

\* executeItemWithMiddleware for item idx[r]
Exec(r) ==
    /\ st[r] = "items" /\ idx[r] <= Len(req[r].items) /\ ~stopped[r]
    /\ LET i == idx[r]
           o == req[r].items[i].out
       \* ("retriedSuccess": the handler fails once, an item middleware of the application calls its continuation again and that
       \* attempt succeeds - the handler runs twice and reads the same placeholder twice, the item succeeds, nothing is cleared)
       IN /\ called' = [called EXCEPT ![r] = IF o = "retriedSuccess" THEN @ \o <<i, i>> ELSE IF CallsHandler(o) THEN Append(@, i) ELSE @]
          /\ reads' = [reads EXCEPT ![r] = IF o = "retriedSuccess" THEN @ \o <<<<i, ph[r]>>, <<i, ph[r]>>>>
                                           ELSE IF CallsHandler(o) THEN Append(@, <<i, ph[r]>>) ELSE @]
          /\ resp' = [resp EXCEPT ![r] = Append(@, [idx |-> i,
                                                     status |-> IF Failed(o) THEN "Failed" ELSE "Success",
                                                     reason |-> Reason(o)])]
          /\ ph' = [ph EXCEPT ![r] = IF ClearsOnFail(o) THEN <<>>     \* handleBatchItemError clears it
                                     ELSE IF o = "successSetsId" THEN <<uid[r], i>>
                                     ELSE IF o = "successClearsId" THEN <<>> ELSE @]      \* a handler may store the empty placeholder
          /\ stopped' = [stopped EXCEPT ![r] = Failed(o) /\ StopOnError(req[r])]
          /\ idx' = [idx EXCEPT ![r] = i + 1]
    /\ UNCHANGED <<st, req, hdr, uid>>

Skip(r) ==
    /\ st[r] = "items" /\ idx[r] <= Len(req[r].items) /\ stopped[r]
    /\ resp' = [resp EXCEPT ![r] = Append(@, [idx |-> idx[r], status |-> "Failed", reason |-> "OperationCanceledByRequester"])]
    /\ idx' = [idx EXCEPT ![r] = @ + 1]
    /\ UNCHANGED <<st, req, stopped, called, hdr, uid, ph, reads>>

Finish(r) ==
    /\ st[r] = "items" /\ idx[r] > Len(req[r].items)
    /\ st' = [st EXCEPT ![r] = "done"]
    /\ UNCHANGED <<req, idx, stopped, called, resp, hdr, uid, ph, reads>>

Next == \E r \in Rids : \/ (st[r] = "idle" /\ \E q \in Request : Start(r, q))   \* guard first: TLC must not enumerate Request in every state
                         \/ Validate(r) \/ Exec(r) \/ Skip(r) \/ Finish(r)

Spec == Init /\ [][Next]_vars

-----------------------------------------------------------------------------
(* The properties of C09, stated declaratively over the finished request.  *)
Done(r) == st[r] = "done"
Range(s) == {s[k] : k \in 1..Len(s)}
FailIdx(r) == {j \in 1..Len(resp[r]) : resp[r][j].status = "Failed"}
FirstFailure(r) == CHOOSE j \in FailIdx(r) : \A k \in FailIdx(r) : j <= k

OnePerItemInOrderFor(r) ==
    Done(r) /\ ~Rejects(req[r]) =>
        /\ Len(resp[r]) = Len(req[r].items)
        /\ \A j \in 1..Len(resp[r]) : resp[r][j].idx = j          \* echoes operation and id of item j
        /\ hdr[r] = [count |-> Len(req[r].items), ver |-> "request"]

AtMostOnceInOrderFor(r) ==
    \A j, k \in 1..Len(called[r]) : j < k => called[r][j] < called[r][k]

StopSemanticsFor(r) ==
    Done(r) /\ ~Rejects(req[r]) /\ req[r].opt = "Stop" /\ FailIdx(r) # {} =>
        \A j \in 1..Len(resp[r]) : j > FirstFailure(r) =>
            /\ j \notin Range(called[r])
            /\ resp[r][j].status # "Success"

ContinueSemanticsFor(r) ==
    Done(r) /\ ~Rejects(req[r]) /\ req[r].opt \in {"unset", "Continue"} =>
        Range(called[r]) = {j \in 1..Len(req[r].items) : CallsHandler(req[r].items[j].out)}

RejectWholeFor(r) ==
    Done(r) /\ Rejects(req[r]) =>
        /\ called[r] = <<>>
        /\ Len(resp[r]) = 1 /\ resp[r][1].status = "Failed"
        /\ hdr[r].count = 1

(* C15, declaratively: what the handler of item i must read is determined   *)
(* by the items before i OF THE SAME REQUEST only.                          *)
ExpectedPh(r, i) ==
    LET its == req[r].items
        Prior == {j \in 1..(i-1) : ClearsOnFail(its[j].out) \/ its[j].out \in {"successSetsId", "successClearsId"}}
    IN IF Prior = {} THEN <<>>
       ELSE LET j == CHOOSE m \in Prior : \A n \in Prior : n <= m
            IN IF its[j].out = "successSetsId" THEN <<uid[r], j>> ELSE <<>>

EmptyAtStartFor(r) == st[r] = "validate" => ph[r] = <<>>

ReadsSeeOwnRequestFor(r) ==
    \A k \in 1..Len(reads[r]) :
        LET i == reads[r][k][1]  v == reads[r][k][2]
        IN /\ v = ExpectedPh(r, i)
           /\ v # <<>> => v[1] = uid[r]       \* NoCrossRequest

OnePerItemInOrder == \A r \in Rids : OnePerItemInOrderFor(r)
AtMostOnceInOrder == \A r \in Rids : AtMostOnceInOrderFor(r)
StopSemantics == \A r \in Rids : StopSemanticsFor(r)
ContinueSemantics == \A r \in Rids : ContinueSemanticsFor(r)
RejectWhole == \A r \in Rids : RejectWholeFor(r)
ReadsSeeOwnRequest == \A r \in Rids : ReadsSeeOwnRequestFor(r)
EmptyAtStart == \A r \in Rids : EmptyAtStartFor(r)
AllFor(r) == OnePerItemInOrderFor(r) /\ AtMostOnceInOrderFor(r) /\ StopSemanticsFor(r) /\ ContinueSemanticsFor(r) /\ RejectWholeFor(r) /\ ReadsSeeOwnRequestFor(r) /\ EmptyAtStartFor(r)

TypeOK == /\ \A r \in Rids : st[r] \in {"idle", "validate", "items", "done"}
          /\ \A r \in Rids : ph[r] = <<>> \/ ph[r][1] = uid[r]

(* History export for case replay (B1): one JSON line per finished request *)
History(r) == [req |-> req[r], called |-> called[r], resp |-> resp[r], hdr |-> hdr[r], reads |-> reads[r]]
=============================================================================
