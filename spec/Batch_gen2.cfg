\* C09/C15 exhaustive: one request, all batches up to 2 items
SPECIFICATION Spec
CONSTANTS
  Rids = {1}
  MaxItems = 2
  Outcomes = {"success", "successSetsId", "successClearsId", "discover", "typedError", "plainError", "panic", "unrouted", "critical"}
  Options = {"unset", "Continue", "Stop", "Undo"}
INVARIANTS Emit
CHECK_DEADLOCK FALSE
