\* C15/C09 with an item middleware that retries: batches up to 3 items over a small outcome set including retriedSuccess and deniedByStage
SPECIFICATION Spec
CONSTANTS
  Rids = {1}
  MaxItems = 3
  Outcomes = {"success", "successSetsId", "retriedSuccess", "deniedByStage", "unrouted"}
  Options = {"unset", "Stop"}
INVARIANTS Emit
CHECK_DEADLOCK FALSE
