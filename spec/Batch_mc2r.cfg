\* C15 exhaustive: two concurrent requests, interleaved item steps
SPECIFICATION Spec
CONSTANTS
  Rids = {1, 2}
  MaxItems = 2
  Outcomes = {"success", "successSetsId", "successClearsId", "plainError"}
  Options = {"unset", "Stop"}
INVARIANTS TypeOK OnePerItemInOrder AtMostOnceInOrder StopSemantics ContinueSemantics RejectWhole EmptyAtStart ReadsSeeOwnRequest
CHECK_DEADLOCK FALSE
