\* C09/C15 exhaustive: one request, all batches up to 3 items
SPECIFICATION Spec
CONSTANTS
  Rids = {1}
  MaxItems = 3
  Outcomes = {"success", "successSetsId", "successClearsId", "discover", "typedError", "plainError", "panic", "unrouted", "critical"}
  Options = {"unset", "Continue", "Stop", "Undo"}
INVARIANTS TypeOK OnePerItemInOrder AtMostOnceInOrder StopSemantics ContinueSemantics RejectWhole EmptyAtStart ReadsSeeOwnRequest
CHECK_DEADLOCK FALSE
