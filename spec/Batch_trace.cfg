SPECIFICATION TraceSpec
CONSTANTS
  Rids <- TraceRids
  MaxItems = 0
  Outcomes = {"success", "successSetsId", "successClearsId", "discover", "typedError", "plainError", "panic", "unrouted", "critical"}
  Options = {"unset", "Continue", "Stop", "Undo"}
INVARIANTS TraceInv
CONSTRAINT HighWater
POSTCONDITION TraceAccepted
CHECK_DEADLOCK FALSE
