------------------------------- MODULE Chain -------------------------------
(***************************************************************************)
(* Middleware chains of kmip-go (C19): kmipclient.Client.Roundtrip,        *)
(* kmipserver.BatchExecutor.HandleRequest (message chain) and              *)
(* executeItemWithMiddleware (batch-item chain).  A chain is a sequence of *)
(* stage programs; the semantics is a stack machine: `call` at stage s     *)
(* runs stage s+1 (or the core when s is the last stage) with the context  *)
(* and message tokens the caller passes, and yields its result to the      *)
(* caller.  Every invocation of the continuation is an independent run of  *)
(* the remainder of the chain (that is the re-entrancy clause of C19).     *)
(* Several requests (Qids) share the chain; all state is per request.      *)
(***************************************************************************)
EXTENDS Integers, Sequences, FiniteSets, TLC

CONSTANTS Qids,      \* request identifiers
          MaxLen,    \* bound on the chain length
          Programs   \* names of stage programs used

Prog(p) == CASE p = "pass"    -> <<"call", "ret">>            \* return what the continuation returned
             [] p = "twice"   -> <<"call", "call", "ret">>    \* retry: invoke the continuation twice
             [] p = "short"   -> <<"retOwn">>                 \* short-circuit with its own response
             [] p = "err"     -> <<"retErr">>                 \* short-circuit with an error
             [] p = "newmsg"  -> <<"setMsg", "call", "ret">>  \* pass a replaced message on
             [] p = "newctx"  -> <<"setCtx", "call", "ret">>  \* pass a derived context on
             [] p = "callerr" -> <<"call", "retErr">>         \* discard the continuation's result, return an error
             [] p = "thrice"  -> <<"call", "setMsg", "call", "setCtx", "call", "ret">>
             [] p = "hedge"   -> <<"call", "keep", "setMsg", "call", "retKept">>   \* two invocations (the second with a replaced message), answer with the FIRST result

Chains == UNION {[1..n -> Programs] : n \in 0..MaxLen}

VARIABLES chain,   \* chain[q]  the chain request q runs through (shared configuration, chosen per request in MC)
          stack,   \* stack[q]  frames [s, pc, c, m, k, f]: stage, program counter, tokens held, last result
          hist,    \* hist[q]   events
          final    \* final[q]  <<"idle",0>>, <<"run",0>> while running, else <<kind, from>>
vars == <<chain, stack, hist, final>>

\* results are <<kind, from>>: kind "ok"/"err"/"none"; from = s for stage s; a result of the core is 0 - m where m is the token of the
\* message the core was invoked with (0 for the original message): results of different invocations are values of their own
NoRes == <<"none", 0>>
Frame(s, c, m) == [s |-> s, pc |-> 1, c |-> c, m |-> m, k |-> "none", f |-> 0, kk |-> "none", kf |-> 0]

Init == /\ chain = [q \in Qids |-> <<>>]
        /\ stack = [q \in Qids |-> <<>>]
        /\ hist  = [q \in Qids |-> <<>>]
        /\ final = [q \in Qids |-> <<"idle", 0>>]

Top(q) == stack[q][Len(stack[q])]
Pop(st) == SubSeq(st, 1, Len(st) - 1)
SetTop(st, fr) == [st EXCEPT ![Len(st)] = fr]

\* request q enters the chain ch with the original context/message tokens (0, 0)
BeginFresh(q, ch) ==
    /\ chain' = [chain EXCEPT ![q] = ch]
    /\ final' = [final EXCEPT ![q] = <<"run", 0>>]
    /\ IF Len(ch) = 0
       THEN /\ stack' = [stack EXCEPT ![q] = <<>>]
            /\ hist' = [hist EXCEPT ![q] = << [e |-> "core", c |-> 0, m |-> 0] >>]
       ELSE /\ stack' = [stack EXCEPT ![q] = << Frame(1, 0, 0) >>]
            /\ hist' = [hist EXCEPT ![q] = << [e |-> "enter", s |-> 1, c |-> 0, m |-> 0] >>]

Begin(q, ch) == final[q][1] = "idle" /\ BeginFresh(q, ch)

\* an empty chain: the core result is the final result
FinishEmpty(q) ==
    /\ final[q][1] = "run" /\ stack[q] = <<>> /\ Len(chain[q]) = 0
    /\ final' = [final EXCEPT ![q] = <<"ok", 0>>]
    /\ UNCHANGED <<chain, stack, hist>>

Running(q) == final[q][1] = "run" /\ stack[q] # <<>>
Op(q) == Prog(chain[q][Top(q).s])[Top(q).pc]

\* return <<k, f>> from the top frame to its caller (or as the final result)
Return(q, k, f) ==
    LET fr == Top(q)
        rest == Pop(stack[q])
    IN /\ hist' = [hist EXCEPT ![q] = Append(@, [e |-> "exit", s |-> fr.s, k |-> k, f |-> f])]
       /\ IF rest = <<>>
          THEN /\ stack' = [stack EXCEPT ![q] = <<>>]
               /\ final' = [final EXCEPT ![q] = <<k, f>>]
          ELSE /\ stack' = [stack EXCEPT ![q] = SetTop(rest, [rest[Len(rest)] EXCEPT !.k = k, !.f = f])]
               /\ UNCHANGED final
       /\ UNCHANGED chain

Call(q) ==
    /\ Running(q) /\ Op(q) = "call"
    /\ LET fr == Top(q)
           adv == [fr EXCEPT !.pc = @ + 1]
       IN IF fr.s = Len(chain[q])
          THEN \* innermost stage: the continuation is the core (transport / handleRequest / executeItem)
               /\ hist' = [hist EXCEPT ![q] = Append(@, [e |-> "core", c |-> fr.c, m |-> fr.m])]
               /\ stack' = [stack EXCEPT ![q] = SetTop(@, [adv EXCEPT !.k = "ok", !.f = 0 - fr.m])]
          ELSE /\ hist' = [hist EXCEPT ![q] = Append(@, [e |-> "enter", s |-> fr.s + 1, c |-> fr.c, m |-> fr.m])]
               /\ stack' = [stack EXCEPT ![q] = Append(SetTop(@, adv), Frame(fr.s + 1, fr.c, fr.m))]
    /\ UNCHANGED <<chain, final>>

SetMsg(q) == /\ Running(q) /\ Op(q) = "setMsg"
             /\ stack' = [stack EXCEPT ![q] = SetTop(@, [Top(q) EXCEPT !.pc = @ + 1, !.m = Top(q).s])]
             /\ UNCHANGED <<chain, hist, final>>
SetCtx(q) == /\ Running(q) /\ Op(q) = "setCtx"
             /\ stack' = [stack EXCEPT ![q] = SetTop(@, [Top(q) EXCEPT !.pc = @ + 1, !.c = Top(q).s])]
             /\ UNCHANGED <<chain, hist, final>>
Keep(q) == /\ Running(q) /\ Op(q) = "keep"
           /\ stack' = [stack EXCEPT ![q] = SetTop(@, [Top(q) EXCEPT !.pc = @ + 1, !.kk = Top(q).k, !.kf = Top(q).f])]
           /\ UNCHANGED <<chain, hist, final>>
RetKept(q) == Running(q) /\ Op(q) = "retKept" /\ Return(q, Top(q).kk, Top(q).kf)
Ret(q)    == Running(q) /\ Op(q) = "ret"    /\ Return(q, Top(q).k, Top(q).f)
RetOwn(q) == Running(q) /\ Op(q) = "retOwn" /\ Return(q, "ok", Top(q).s)
RetErr(q) == Running(q) /\ Op(q) = "retErr" /\ Return(q, "err", Top(q).s)

Step(q) == Call(q) \/ SetMsg(q) \/ SetCtx(q) \/ Keep(q) \/ RetKept(q) \/ Ret(q) \/ RetOwn(q) \/ RetErr(q) \/ FinishEmpty(q)
Next == \E q \in Qids : \/ (final[q][1] = "idle" /\ \E ch \in Chains : Begin(q, ch))
                         \/ Step(q)
Spec == Init /\ [][Next]_vars

-----------------------------------------------------------------------------
(* Declarative statement of C19 over a finished request.                   *)
Done(q) == final[q][1] \in {"ok", "err"}
NCalls(p) == Cardinality({k \in 1..Len(Prog(p)) : Prog(p)[k] = "call"})
Enters(q, s) == {k \in 1..Len(hist[q]) : hist[q][k].e = "enter" /\ hist[q][k].s = s}
Exits(q, s)  == {k \in 1..Len(hist[q]) : hist[q][k].e = "exit" /\ hist[q][k].s = s}
Cores(q)     == {k \in 1..Len(hist[q]) : hist[q][k].e = "core"}

\* each invocation of the continuation of stage s runs stage s+1 exactly once; the core is innermost
ExactlyOncePerInvocation(q) ==
    Done(q) =>
      LET n == Len(chain[q]) IN
        /\ n = 0 => Cardinality(Cores(q)) = 1
        /\ n > 0 =>
            /\ Cardinality(Enters(q, 1)) = 1
            /\ \A s \in 1..n : Cardinality(Exits(q, s)) = Cardinality(Enters(q, s))
            /\ \A s \in 1..(n-1) : Cardinality(Enters(q, s + 1)) = Cardinality(Enters(q, s)) * NCalls(chain[q][s])
            /\ Cardinality(Cores(q)) = Cardinality(Enters(q, n)) * NCalls(chain[q][n])

\* registration order: stage s+1 only ever runs inside stage s (well bracketed)
Depth(q, k) == Cardinality({j \in 1..k : hist[q][j].e = "enter"}) - Cardinality({j \in 1..k : hist[q][j].e = "exit"})
Nested(q) ==
    \A k \in 1..Len(hist[q]) :
        /\ hist[q][k].e = "enter" => Depth(q, k) = hist[q][k].s
        /\ hist[q][k].e = "core"  => Depth(q, k) = Len(chain[q])

\* what a stage receives is what its predecessor passed on: tokens only change where a stage replaced them
TokensPassed(q) ==
    \A k \in 1..Len(hist[q]) :
        hist[q][k].e \in {"enter", "core"} =>
            /\ hist[q][k].c \in {0} \cup {s \in 1..Len(chain[q]) : chain[q][s] \in {"newctx", "thrice"}}
            /\ hist[q][k].m \in {0} \cup {s \in 1..Len(chain[q]) : chain[q][s] \in {"newmsg", "thrice", "hedge"}}
            /\ hist[q][k].e = "enter" => hist[q][k].c < hist[q][k].s /\ hist[q][k].m < hist[q][k].s

\* a chain of pass-through stages is transparent
Transparent(q) ==
    Done(q) /\ (\A s \in 1..Len(chain[q]) : chain[q][s] \in {"pass", "newmsg", "newctx"}) => final[q][1] = "ok" /\ final[q][2] <= 0
\* a stage that answers with the result of its first invocation returns that result, whatever later invocations produced
FirstKept(q) ==
    Done(q) /\ Len(chain[q]) >= 1 /\ chain[q][1] = "hedge" /\ (\A s \in 2..Len(chain[q]) : chain[q][s] = "pass") => final[q] = <<"ok", 0>>

AllFor(q) == ExactlyOncePerInvocation(q) /\ Nested(q) /\ TokensPassed(q) /\ Transparent(q) /\ FirstKept(q)
Inv == \A q \in Qids : AllFor(q)

History(q) == [chain |-> chain[q], hist |-> hist[q], final |-> final[q]]
=============================================================================
