\* C19: two requests interleaved through chains up to 2 stages
SPECIFICATION Spec
CONSTANTS
  Qids = {1, 2}
  MaxLen = 2
  Programs = {"pass", "twice", "short", "newmsg", "callerr", "hedge"}
INVARIANTS Inv
CHECK_DEADLOCK FALSE
