\* C19 exhaustive: all chains up to 3 stages over the eight stage programs
SPECIFICATION Spec
CONSTANTS
  Qids = {1}
  MaxLen = 3
  Programs = {"pass", "twice", "short", "err", "newmsg", "newctx", "callerr", "thrice", "hedge"}
INVARIANTS Inv
CHECK_DEADLOCK FALSE
