SPECIFICATION TraceSpec
CONSTANTS
  Qids <- TraceQids
  MaxLen = 0
  Programs = {"pass"}
INVARIANTS TraceInv
CONSTRAINT HighWater
POSTCONDITION TraceAccepted
CHECK_DEADLOCK FALSE
