------------------------------- MODULE Churn -------------------------------
(***************************************************************************)
(* C08 under real parallelism: many clients connect, send requests, read   *)
(* the responses and disconnect at the same time on all cores (no gate     *)
(* controller).  At this grain a connection is a counter pair: requests    *)
(* sent and responses received; the server answers each request of a live  *)
(* connection once, in order.  The recorded event log of a free-running    *)
(* run (linearised by the harness's log lock) is validated against this    *)
(* machine; that the server process survives the run at all is observed    *)
(* by the check (a Go process dies of an unsynchronised map write).        *)
(***************************************************************************)
EXTENDS Naturals, Sequences, TLC

CONSTANTS MaxConn, MaxReq
VARIABLES st, sent, got
vars == <<st, sent, got>>
Conns == 1..MaxConn
Init == st = [c \in Conns |-> "none"] /\ sent = [c \in Conns |-> 0] /\ got = [c \in Conns |-> 0]
Connect(c) == st[c] = "none" /\ st' = [st EXCEPT ![c] = "open"] /\ UNCHANGED <<sent, got>>
Send(c) == st[c] = "open" /\ sent[c] < MaxReq /\ sent' = [sent EXCEPT ![c] = @ + 1] /\ UNCHANGED <<st, got>>
\* the client reads response number k: the next one in order, to a request it has sent
Recv(c, k) == st[c] = "open" /\ k = got[c] + 1 /\ k <= sent[c] /\ got' = [got EXCEPT ![c] = k] /\ UNCHANGED <<st, sent>>
Close(c) == st[c] = "open" /\ st' = [st EXCEPT ![c] = "closed"] /\ UNCHANGED <<sent, got>>
Next == \E c \in Conns : Connect(c) \/ Send(c) \/ Close(c) \/ (\E k \in 1..MaxReq : Recv(c, k))
Spec == Init /\ [][Next]_vars
InOrder == \A c \in Conns : got[c] <= sent[c]

=============================================================================
