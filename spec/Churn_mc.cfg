SPECIFICATION Spec
CONSTANTS
  MaxConn = 3
  MaxReq = 2
INVARIANTS InOrder
CHECK_DEADLOCK FALSE
