SPECIFICATION TraceSpec
CONSTANTS
  MaxConn = 64
  MaxReq = 3
INVARIANTS InOrder
CONSTRAINT HighWater
POSTCONDITION TraceAccepted
CHECK_DEADLOCK FALSE
