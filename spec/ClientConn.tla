----------------------------- MODULE ClientConn -----------------------------
(***************************************************************************)
(* kmipclient: Client.doRountrip (mutex, reconnect / retry loop), conn     *)
(* send / recv / roundtrip, the read and write loops, terminate, Close     *)
(* (properties C10 and C11).  Same granularity as Server.tla: a gate       *)
(* before every shared-memory operation, Release / Arrive per gate,        *)
(* rendezvous as joint actions, terminate as separate steps.               *)
(*                                                                         *)
(* Callers 1..NC share one client; caller k sends request k and must get   *)
(* response k or an error.  A connection object is a generation g; the     *)
(* client replaces it on reconnect.  The environment: the server of each   *)
(* generation reads requests, answers them (in any order of time, or       *)
(* never), closes or resets the connection at any moment; every caller's   *)
(* context may be cancelled at any moment; the dialer may fail; somebody   *)
(* calls Client.Close.                                                     *)
(*                                                                         *)
(* Constants select the code variant (the pinned tree is FALSE/0 for all): *)
(*   RecvTerm   recv tears the connection down when it finds the call      *)
(*              cancelled after the request was sent                       *)
(*   FixDead    a dead (not user-closed) connection is replaced at the     *)
(*              start of a call                                            *)
(*   SafeClose  Client.Close tolerates a missing connection and marks the  *)
(*              client closed                                              *)
(*   CloseTx    terminate closes the tx channel     ErrBuf  error chan cap *)
(***************************************************************************)
EXTENDS Naturals, Sequences, FiniteSets, TLC

CONSTANTS NC, NG, RecvTerm, FixDead, SafeClose, CloseTx, ErrBuf,
          DialMayFail, WithClose, MayCancel, MayReset, MaySrvClose,
          DialedAtStart   \* BOOLEAN: the client was created by Dial - generation 1 exists before the first call

Callers == 1..NC
Gens == 1..NG
K(k) == <<k, "K">>   R(g) == <<g, "R">>   W(g) == <<g, "W">>   X == <<0, "X">>
Procs == {K(k) : k \in Callers} \cup {R(g) : g \in Gens} \cup {W(g) : g \in Gens} \cup {X}

VARIABLES
  pc, res, ret, tg,            \* tg[p]: the generation p is operating on (terminate / Close target, caller's connection)
  lock, cur, nextGen, clientClosed,
  retry, inLoop, cancelled, result, tries, deadAtLock, dialed, startedAfterClose,
  alive, closed, ctx, cause, tx, txClosed, mtx, wtx, cliSock, srvClosed, srvReset,
  c2s, pending, s2c, rcur, wcur, rxClosed, errch,
  panicked

kvars == <<retry, inLoop, cancelled, result, tries, deadAtLock, dialed, startedAfterClose>>
gvars == <<alive, closed, ctx, cause, tx, txClosed, mtx, wtx, cliSock, srvClosed, srvReset, c2s, pending, s2c, rcur, wcur, rxClosed, errch>>
cvars == <<lock, cur, nextGen, clientClosed>>
vars == <<pc, res, ret, tg, cvars, kvars, gvars, panicked>>

Init ==
  /\ pc = [p \in Procs |-> IF DialedAtStart /\ p \in {R(1), W(1)} THEN "new!" ELSE "none"] /\ res = [p \in Procs |-> "-"] /\ ret = [p \in Procs |-> <<"-", "-", "-">>] /\ tg = [p \in Procs |-> 0]
  /\ lock = 0 /\ cur = (IF DialedAtStart THEN 1 ELSE 0) /\ nextGen = (IF DialedAtStart THEN 2 ELSE 1) /\ clientClosed = FALSE
  /\ retry = [k \in Callers |-> 3] /\ inLoop = [k \in Callers |-> FALSE] /\ cancelled = [k \in Callers |-> FALSE]
  /\ result = [k \in Callers |-> <<"none", 0>>] /\ tries = [k \in Callers |-> 0]
  /\ deadAtLock = [k \in Callers |-> FALSE] /\ dialed = [k \in Callers |-> FALSE] /\ startedAfterClose = [k \in Callers |-> FALSE]
  /\ alive = [g \in Gens |-> DialedAtStart /\ g = 1] /\ closed = [g \in Gens |-> FALSE] /\ ctx = [g \in Gens |-> FALSE] /\ cause = [g \in Gens |-> "-"]
  /\ tx = [g \in Gens |-> "chan"] /\ txClosed = [g \in Gens |-> FALSE] /\ mtx = [g \in Gens |-> "-"] /\ wtx = [g \in Gens |-> "-"]
  /\ cliSock = [g \in Gens |-> FALSE] /\ srvClosed = [g \in Gens |-> FALSE] /\ srvReset = [g \in Gens |-> FALSE]
  /\ c2s = [g \in Gens |-> <<>>] /\ pending = [g \in Gens |-> {}] /\ s2c = [g \in Gens |-> <<>>]
  /\ rcur = [g \in Gens |-> 0] /\ wcur = [g \in Gens |-> 0] /\ rxClosed = [g \in Gens |-> FALSE] /\ errch = [g \in Gens |-> "none"]
  /\ panicked = FALSE

S1(f, x, v) == [f EXCEPT ![x] = v]
Go(p, g) == pc' = S1(pc, p, g)
UC(vs) == UNCHANGED vs
Retryable(cls) == cls \in {"eof", "pipe"}

\* unchanged: everything except pc (most common frame)
Frame == UC(<<res, ret, tg, cvars, kvars, gvars, panicked>>)

-----------------------------------------------------------------------------
(* Release                                                                  *)

\* checkAvailable(ctx) of connection g for caller k: closed flag first, then a select over both contexts
Avail(k, g) == IF closed[g] THEN {"closed"}
               ELSE (IF cancelled[k] THEN {"canceled"} ELSE {}) \cup (IF ctx[g] THEN {cause[g]} ELSE {})

RelK(k) ==
  LET p == K(k) g == pc[p] c == tg[p] IN
  /\ g \in {"rt.lock", "rt.reconnect", "rt.dial", "send.avail", "send.load", "send.select", "send.wait", "rt.between",
            "recv.avail", "recv.select", "rt.exit"}
  /\ CASE g = "rt.lock" ->            \* c.lock.Lock() - the scheduler never releases a caller into a held mutex
            /\ lock = 0 /\ lock' = k
            /\ deadAtLock' = S1(deadAtLock, k, cur # 0 /\ ctx[cur] /\ ~closed[cur])
            /\ startedAfterClose' = S1(startedAfterClose, k, clientClosed \/ (cur # 0 /\ closed[cur]))
            /\ Go(p, "rt.lock!")
            /\ UC(<<res, ret, tg, cur, nextGen, clientClosed, retry, inLoop, cancelled, result, tries, dialed, gvars, panicked>>)
       [] g = "rt.dial" ->            \* the dialer is called; on success newConn spawns the loops of a new generation
            /\ \E ok \in (IF DialMayFail THEN {TRUE, FALSE} ELSE {TRUE}) :
                 IF ok /\ nextGen <= NG
                 THEN /\ res' = S1(res, p, "ok")
                      /\ alive' = S1(alive, nextGen, TRUE) /\ cur' = nextGen /\ nextGen' = nextGen + 1
                      /\ tg' = S1(tg, p, nextGen) /\ dialed' = S1(dialed, k, TRUE)
                      /\ pc' = [pc EXCEPT ![p] = "rt.dial!", ![R(nextGen)] = "new!", ![W(nextGen)] = "new!"]
                      /\ UC(<<ret, lock, clientClosed, retry, inLoop, cancelled, result, tries, deadAtLock, startedAfterClose,
                              closed, ctx, cause, tx, txClosed, mtx, wtx, cliSock, srvClosed, srvReset, c2s, pending, s2c, rcur, wcur, rxClosed, errch, panicked>>)
                 ELSE /\ res' = S1(res, p, "fail") /\ Go(p, "rt.dial!") /\ dialed' = S1(dialed, k, TRUE)
                      /\ UC(<<ret, tg, cvars, retry, inLoop, cancelled, result, tries, deadAtLock, startedAfterClose, gvars, panicked>>)
       [] g \in {"send.avail", "recv.avail"} ->
            /\ \E a \in (IF Avail(k, c) = {} THEN {"avail"} ELSE Avail(k, c)) : res' = S1(res, p, a)
            /\ Go(p, g \o "!") /\ UC(<<ret, tg, cvars, kvars, gvars, panicked>>)
       [] g = "send.load" ->
            /\ mtx' = S1(mtx, c, tx[c]) /\ errch' = S1(errch, c, "open")
            /\ Go(p, g \o "!")
            /\ UC(<<res, ret, tg, cvars, kvars, alive, closed, ctx, cause, tx, txClosed, wtx, cliSock, srvClosed, srvReset, c2s, pending, s2c, rcur, wcur, rxClosed, panicked>>)
       [] OTHER -> Go(p, g \o "!") /\ Frame

\* terminate (3 gates) and conn.Close (1 gate), executed by a caller, the closer, R or W on generation tg[p]
RelTerm(p) ==
  LET g == pc[p] c == tg[p] IN
  /\ g \in {"cl.close", "term.cancel", "term.txswap", "term.sockclose"}
  /\ Go(p, g \o "!")
  /\ CASE g = "cl.close" ->
            /\ res' = S1(res, p, IF closed[c] THEN "already" ELSE "first") /\ closed' = S1(closed, c, TRUE)
            /\ UC(<<ret, tg, cvars, kvars, alive, ctx, cause, tx, txClosed, mtx, wtx, cliSock, srvClosed, srvReset, c2s, pending, s2c, rcur, wcur, rxClosed, errch, panicked>>)
       [] g = "term.cancel" ->        \* cancel(err): the first cause wins
            /\ ctx' = S1(ctx, c, TRUE) /\ cause' = S1(cause, c, IF ctx[c] THEN cause[c] ELSE ret[p][2])
            /\ UC(<<res, ret, tg, cvars, kvars, alive, closed, tx, txClosed, mtx, wtx, cliSock, srvClosed, srvReset, c2s, pending, s2c, rcur, wcur, rxClosed, errch, panicked>>)
       [] g = "term.txswap" ->
            /\ tx' = S1(tx, c, "nil") /\ txClosed' = S1(txClosed, c, txClosed[c] \/ (CloseTx /\ tx[c] = "chan"))
            /\ UC(<<res, ret, tg, cvars, kvars, alive, closed, ctx, cause, mtx, wtx, cliSock, srvClosed, srvReset, c2s, pending, s2c, rcur, wcur, rxClosed, errch, panicked>>)
       [] g = "term.sockclose" ->
            /\ cliSock' = S1(cliSock, c, TRUE)
            /\ UC(<<res, ret, tg, cvars, kvars, alive, closed, ctx, cause, tx, txClosed, mtx, wtx, srvClosed, srvReset, c2s, pending, s2c, rcur, wcur, rxClosed, errch, panicked>>)

RelR(g) ==
  LET p == R(g) q == pc[p] IN
  /\ q \in {"rl.enter", "rl.recv", "rl.offer", "rl.exit"}
  /\ Go(p, q \o "!")
  /\ CASE q = "rl.enter" -> res' = S1(res, p, IF closed[g] THEN "exit" ELSE "go") /\ UC(<<ret, tg, cvars, kvars, gvars, panicked>>)
       [] q = "rl.exit" -> rxClosed' = S1(rxClosed, g, TRUE)
                           /\ UC(<<res, ret, tg, cvars, kvars, alive, closed, ctx, cause, tx, txClosed, mtx, wtx, cliSock, srvClosed, srvReset, c2s, pending, s2c, rcur, wcur, errch, panicked>>)
       [] OTHER -> Frame

\* the caller whose request the write loop holds
Sender(g) == CHOOSE k \in Callers : wcur[g] = k

RelW(g) ==
  LET p == W(g) q == pc[p] IN
  /\ q \in {"wl.enter", "wl.select", "wl.send", "wl.report", "wl.exit"}
  /\ Go(p, q \o "!")
  /\ CASE q = "wl.enter" ->
            /\ wtx' = S1(wtx, g, tx[g]) /\ res' = S1(res, p, IF closed[g] THEN "exit" ELSE "go")
            /\ UC(<<ret, tg, cvars, kvars, alive, closed, ctx, cause, tx, txClosed, mtx, cliSock, srvClosed, srvReset, c2s, pending, s2c, rcur, wcur, rxClosed, errch, panicked>>)
       [] q = "wl.send" ->            \* stream.Send: the request reaches the server, or the write fails
            /\ IF cliSock[g] \/ srvClosed[g] \/ srvReset[g]
               THEN /\ res' = S1(res, p, IF cliSock[g] THEN "pipe" ELSE "broken") /\ UC(<<c2s, tries, errch>>)
               ELSE /\ res' = S1(res, p, IF closed[g] THEN "ok-exit" ELSE "ok-go")
                    /\ c2s' = S1(c2s, g, Append(c2s[g], wcur[g]))
                    /\ tries' = S1(tries, wcur[g], tries[wcur[g]] + 1)
                    /\ errch' = S1(errch, g, "closed")
            /\ UC(<<ret, tg, cvars, retry, inLoop, cancelled, result, deadAtLock, dialed, startedAfterClose,
                    alive, closed, ctx, cause, tx, txClosed, mtx, wtx, cliSock, srvClosed, srvReset, pending, s2c, rcur, wcur, rxClosed, panicked>>)
       [] q = "wl.report" ->
            /\ errch' = S1(errch, g, IF ErrBuf = 1 THEN res[p] ELSE errch[g])
            /\ UC(<<res, ret, tg, cvars, kvars, alive, closed, ctx, cause, tx, txClosed, mtx, wtx, cliSock, srvClosed, srvReset, c2s, pending, s2c, rcur, wcur, rxClosed, panicked>>)
       [] OTHER -> Frame

RelX ==
  /\ pc[X] = "cx.close"
  /\ IF cur = 0 /\ ~SafeClose
     THEN panicked' = TRUE /\ Go(X, "done") /\ UC(<<res, ret, tg, cvars, kvars, gvars>>)      \* nil pointer dereference
     ELSE /\ clientClosed' = (clientClosed \/ SafeClose) /\ tg' = S1(tg, X, cur) /\ Go(X, "cx.close!")
          /\ UC(<<res, ret, lock, cur, nextGen, kvars, gvars, panicked>>)

Release(p) ==
  \/ (\E k \in Callers : p = K(k) /\ RelK(k))
  \/ (\E g \in Gens : p = R(g) /\ RelR(g))
  \/ (\E g \in Gens : p = W(g) /\ RelW(g))
  \/ RelTerm(p)
  \/ (p = X /\ RelX)

-----------------------------------------------------------------------------
(* Arrive                                                                   *)

\* the call returns (deferred Unlock, then the rt.exit gate)
Exit(k, r) == /\ Go(K(k), "rt.exit") /\ result' = S1(result, k, r) /\ lock' = 0
\* an attempt failed with error class cls: retry through reconnect, or give up
FailTo(k, cls) == IF retry[k] > 0 /\ Retryable(cls) THEN "rt.reconnect" ELSE "rt.exit"

\* p enters terminate(cls) on generation c and continues with continuation r afterwards
Term(p, c, cls, r) == /\ Go(p, "term.cancel") /\ ret' = S1(ret, p, <<r, cls, cls>>) /\ tg' = S1(tg, p, c)
\* ... same, but the error reported to the caller afterwards (rep) differs from the cause given to terminate
TermRep(p, c, cls, r, rep) == /\ Go(p, "term.cancel") /\ ret' = S1(ret, p, <<r, cls, rep>>) /\ tg' = S1(tg, p, c)

\* continuation after terminate / Close returned
AfterTerm(p) ==
  LET r == ret[p][1] cls == ret[p][3] IN
  CASE r = "rexit" -> /\ Go(p, "rl.exit") /\ UC(<<result, lock, cur, inLoop>>)
    [] r = "wexit" -> /\ Go(p, "wl.exit") /\ UC(<<result, lock, cur, inLoop>>)
    [] r = "xdone" -> /\ Go(p, "done") /\ UC(<<result, lock, cur, inLoop>>)
    [] r = "dial" -> /\ Go(p, "rt.dial") /\ cur' = 0 /\ UC(<<result, lock, inLoop>>)         \* c.conn = nil
    [] r = "canceled" -> /\ Exit(p[1], <<"err", "canceled">>) /\ UC(<<cur, inLoop>>)
    [] r = "closedexit" -> /\ Exit(p[1], <<"err", "closed">>) /\ UC(<<cur, inLoop>>)
    [] r = "fail" -> \* recv found the call cancelled / the connection unusable after sending: report cls
                     /\ IF FailTo(p[1], cls) = "rt.exit" THEN Exit(p[1], <<"err", cls>>) /\ UC(inLoop)
                        ELSE Go(p, "rt.reconnect") /\ inLoop' = S1(inLoop, p[1], TRUE) /\ UC(<<result, lock>>)
                     /\ UC(cur)

ArrTerm(p) ==
  LET g == pc[p] IN
  /\ g \in {"cl.close!", "term.cancel!", "term.txswap!", "term.sockclose!"}
  /\ CASE g = "cl.close!" ->
            IF res[p] = "already" THEN AfterTerm(p) /\ UC(<<ret, tg>>)
            ELSE /\ Go(p, "term.cancel") /\ ret' = S1(ret, p, <<ret[p][1], "closed", ret[p][3]>>) /\ UC(<<tg, result, lock, cur, inLoop>>)
       [] g = "term.cancel!" -> Go(p, "term.txswap") /\ UC(<<ret, tg, result, lock, cur, inLoop>>)
       [] g = "term.txswap!" -> Go(p, "term.sockclose") /\ UC(<<ret, tg, result, lock, cur, inLoop>>)
       [] g = "term.sockclose!" -> AfterTerm(p) /\ UC(<<ret, tg>>)
  /\ UC(<<res, nextGen, clientClosed, retry, cancelled, tries, deadAtLock, dialed, startedAfterClose, gvars, panicked>>)

\* outcome of an attempt for caller k (no terminate involved)
Outcome(k, cls) ==
  IF FailTo(k, cls) = "rt.exit" THEN Exit(k, <<"err", cls>>) /\ UC(inLoop)
  ELSE Go(K(k), "rt.reconnect") /\ inLoop' = S1(inLoop, k, TRUE) /\ UC(<<result, lock>>)

ArrK(k) ==
  LET p == K(k) g == pc[p] c == tg[p] IN
  \/ /\ g = "new!" /\ Go(p, "rt.lock") /\ Frame
  \/ /\ g = "rt.lock!"
     /\ IF SafeClose /\ clientClosed
        THEN Exit(k, <<"err", "closed">>) /\ UC(<<tg, inLoop>>)
        ELSE IF cur = 0 \/ (FixDead /\ ctx[cur] /\ ~closed[cur])
        THEN Go(p, "rt.reconnect") /\ UC(<<tg, result, lock, inLoop>>)
        ELSE Go(p, "send.avail") /\ tg' = S1(tg, p, cur) /\ UC(<<result, lock, inLoop>>)
     /\ UC(<<res, ret, cur, nextGen, clientClosed, retry, cancelled, tries, deadAtLock, dialed, startedAfterClose, gvars, panicked>>)
  \/ /\ g = "rt.reconnect!"          \* if c.conn != nil { c.conn.Close(); c.conn = nil }
     /\ IF cur # 0 THEN Go(p, "cl.close") /\ tg' = S1(tg, p, cur) /\ ret' = S1(ret, p, <<"dial", "-", "-">>)
        ELSE Go(p, "rt.dial") /\ UC(<<tg, ret>>)
     /\ UC(<<res, cvars, kvars, gvars, panicked>>)
  \/ /\ g = "rt.dial!"
     /\ IF res[p] = "fail" THEN Exit(k, <<"err", "dial">>) /\ UC(<<retry, tg, ret>>)
        ELSE IF SafeClose /\ clientClosed
        THEN \* the client was closed while reconnecting: the new connection is closed again, the call fails
             /\ Go(p, "cl.close") /\ ret' = S1(ret, p, <<"closedexit", "-", "-">>) /\ UC(<<retry, tg, result, lock>>)
        ELSE /\ Go(p, "send.avail") /\ retry' = S1(retry, k, IF inLoop[k] THEN retry[k] - 1 ELSE retry[k])
             /\ UC(<<tg, ret, result, lock>>)
     /\ UC(<<res, cur, nextGen, clientClosed, inLoop, cancelled, tries, deadAtLock, dialed, startedAfterClose, gvars, panicked>>)
  \/ /\ g = "send.avail!"
     /\ IF res[p] = "avail" THEN Go(p, "send.load") /\ UC(<<result, lock, inLoop>>) ELSE Outcome(k, res[p])
     /\ UC(<<res, ret, tg, cur, nextGen, clientClosed, retry, cancelled, tries, deadAtLock, dialed, startedAfterClose, gvars, panicked>>)
  \/ /\ g = "send.load!" /\ Go(p, "send.select") /\ Frame
  \/ /\ g = "send.select!"            \* select { tx <- | c.ctx.Done | ctx.Done }  (hand-off: TxHandoff)
     /\ \/ /\ mtx[c] = "chan" /\ txClosed[c] /\ panicked' = TRUE /\ Go(p, "done")
           /\ UC(<<res, ret, tg, cvars, kvars, gvars>>)
        \/ /\ ctx[c] /\ errch' = S1(errch, c, "closed") /\ Outcome(k, cause[c])
           /\ UC(<<res, ret, tg, cur, nextGen, clientClosed, retry, cancelled, tries, deadAtLock, dialed, startedAfterClose,
                   alive, closed, ctx, cause, tx, txClosed, mtx, wtx, cliSock, srvClosed, srvReset, c2s, pending, s2c, rcur, wcur, rxClosed, panicked>>)
        \/ /\ cancelled[k] /\ errch' = S1(errch, c, "closed") /\ Exit(k, <<"err", "canceled">>)
           /\ UC(<<res, ret, tg, cur, nextGen, clientClosed, retry, inLoop, cancelled, tries, deadAtLock, dialed, startedAfterClose,
                   alive, closed, ctx, cause, tx, txClosed, mtx, wtx, cliSock, srvClosed, srvReset, c2s, pending, s2c, rcur, wcur, rxClosed, panicked>>)
  \/ /\ g = "send.wait!"              \* select { <-errCh | c.ctx.Done | ctx.Done -> terminate }
     /\ \/ /\ errch[c] = "closed" /\ Go(p, "rt.between") /\ UC(<<ret, tg, result, lock, inLoop>>)
        \/ /\ errch[c] \in {"pipe", "broken"} /\ Outcome(k, errch[c]) /\ UC(<<ret, tg>>)
        \/ /\ ctx[c] /\ Outcome(k, cause[c]) /\ UC(<<ret, tg>>)
        \/ /\ cancelled[k] /\ Term(p, c, "pipe", "canceled") /\ UC(<<result, lock, inLoop>>)
     /\ UC(<<res, cur, nextGen, clientClosed, retry, cancelled, tries, deadAtLock, dialed, startedAfterClose, gvars, panicked>>)
  \/ /\ g = "rt.between!" /\ Go(p, "recv.avail") /\ Frame
  \/ /\ g = "recv.avail!"
     /\ IF res[p] = "avail" THEN Go(p, "recv.select") /\ UC(<<ret, tg, result, lock, inLoop>>)
        ELSE IF RecvTerm
        THEN TermRep(p, c, "pipe", IF res[p] = "canceled" THEN "canceled" ELSE "fail", res[p]) /\ UC(<<result, lock, inLoop>>)
        ELSE Outcome(k, res[p]) /\ UC(<<ret, tg>>)
     /\ UC(<<res, cur, nextGen, clientClosed, retry, cancelled, tries, deadAtLock, dialed, startedAfterClose, gvars, panicked>>)
  \/ /\ g = "recv.select!"            \* select { rx | c.ctx.Done | ctx.Done -> terminate }  (the rx rendezvous: RxHandoff)
     /\ \/ /\ rxClosed[c] /\ Outcome(k, "pipe") /\ UC(<<ret, tg>>)
        \/ /\ ctx[c] /\ Outcome(k, cause[c]) /\ UC(<<ret, tg>>)
        \/ /\ cancelled[k] /\ Term(p, c, "pipe", "canceled") /\ UC(<<result, lock, inLoop>>)
     /\ UC(<<res, cur, nextGen, clientClosed, retry, cancelled, tries, deadAtLock, dialed, startedAfterClose, gvars, panicked>>)
  \/ /\ g = "rt.exit!" /\ Go(p, "done") /\ Frame

RLoop(g) == IF closed[g] THEN "rl.exit" ELSE "rl.recv"

ArrR(g) ==
  LET p == R(g) q == pc[p] IN
  \/ /\ q = "new!" /\ Go(p, "rl.enter") /\ Frame
  \/ /\ q = "rl.enter!" /\ Go(p, IF res[p] = "go" THEN "rl.recv" ELSE "rl.exit") /\ Frame
  \/ /\ q = "rl.recv!"                \* stream.Recv
     /\ \/ /\ cliSock[g] /\ Term(p, g, "pipe", "rexit") /\ UC(<<s2c, rcur>>)             \* own socket closed
        \/ /\ ~cliSock[g] /\ srvReset[g] /\ Term(p, g, "reset", "rexit") /\ UC(<<s2c, rcur>>)
        \/ /\ ~cliSock[g] /\ ~srvReset[g] /\ s2c[g] # <<>>
           /\ rcur' = S1(rcur, g, Head(s2c[g])) /\ s2c' = S1(s2c, g, Tail(s2c[g]))
           /\ Go(p, "rl.offer") /\ UC(<<ret, tg>>)
        \/ /\ ~cliSock[g] /\ ~srvReset[g] /\ s2c[g] = <<>> /\ srvClosed[g]
           /\ Term(p, g, "eof", "rexit") /\ UC(<<s2c, rcur>>)
     /\ UC(<<res, cvars, kvars, alive, closed, ctx, cause, tx, txClosed, mtx, wtx, cliSock, srvClosed, srvReset, c2s, pending, wcur, rxClosed, errch, panicked>>)
  \/ /\ q = "rl.offer!" /\ ctx[g] /\ Go(p, "rl.exit") /\ Frame
  \/ /\ q = "rl.exit!" /\ Go(p, "done") /\ Frame

ArrW(g) ==
  LET p == W(g) q == pc[p] IN
  \/ /\ q = "new!" /\ Go(p, "wl.enter") /\ Frame
  \/ /\ q = "wl.enter!" /\ Go(p, IF res[p] = "go" THEN "wl.select" ELSE "wl.exit") /\ Frame
  \/ /\ q = "wl.select!" /\ ((wtx[g] = "chan" /\ txClosed[g]) \/ ctx[g]) /\ Go(p, "wl.exit") /\ Frame
  \/ /\ q = "wl.send!"
     /\ IF res[p] \in {"pipe", "broken"} THEN Go(p, "wl.report") ELSE Go(p, IF res[p] = "ok-go" THEN "wl.select" ELSE "wl.exit")
     /\ Frame
  \/ /\ q = "wl.report!" /\ ErrBuf = 1 /\ Term(p, g, res[p], "wexit")
     /\ UC(<<res, cvars, kvars, gvars, panicked>>)
  \/ /\ q = "wl.exit!" /\ Go(p, "done") /\ Frame

ArrX ==
  \/ /\ pc[X] = "new!" /\ Go(X, "cx.close") /\ Frame
  \/ /\ pc[X] = "cx.close!"
     /\ IF tg[X] = 0 THEN Go(X, "done") /\ UC(ret) ELSE Go(X, "cl.close") /\ ret' = S1(ret, X, <<"xdone", "-", "-">>)
     /\ UC(<<res, tg, cvars, kvars, gvars, panicked>>)

Arrive(p) ==
  \/ (\E k \in Callers : p = K(k) /\ ArrK(k))
  \/ (\E g \in Gens : p = R(g) /\ ArrR(g))
  \/ (\E g \in Gens : p = W(g) /\ ArrW(g))
  \/ ArrTerm(p)
  \/ (p = X /\ ArrX)

\* rendezvous
TxHandoff(g) ==
  \E k \in Callers :
    /\ pc[K(k)] = "send.select!" /\ tg[K(k)] = g /\ pc[W(g)] = "wl.select!"
    /\ mtx[g] = "chan" /\ wtx[g] = "chan" /\ ~txClosed[g]
    /\ wcur' = S1(wcur, g, k)
    /\ pc' = [pc EXCEPT ![K(k)] = "send.wait", ![W(g)] = "wl.send"]
    /\ UC(<<res, ret, tg, cvars, kvars, alive, closed, ctx, cause, tx, txClosed, mtx, wtx, cliSock, srvClosed, srvReset, c2s, pending, s2c, rcur, rxClosed, errch, panicked>>)

\* the caller in recv takes whatever response the read loop offers: matching requests and responses is not the
\* connection's business, it relies on one exchange being in flight per connection
RxHandoff(g) ==
  \E k \in Callers :
    /\ pc[K(k)] = "recv.select!" /\ tg[K(k)] = g /\ pc[R(g)] = "rl.offer!"
    /\ pc' = [pc EXCEPT ![K(k)] = "rt.exit", ![R(g)] = RLoop(g)]
    /\ result' = S1(result, k, <<"resp", rcur[g]>>) /\ lock' = 0
    /\ UC(<<res, ret, tg, cur, nextGen, clientClosed, retry, inLoop, cancelled, tries, deadAtLock, dialed, startedAfterClose, gvars, panicked>>)

ErrHandoff(g) ==
  \E k \in Callers :
    /\ ErrBuf = 0 /\ pc[W(g)] = "wl.report!" /\ pc[K(k)] = "send.wait!" /\ tg[K(k)] = g
    /\ LET cls == res[W(g)] IN
       /\ IF FailTo(k, cls) = "rt.exit"
          THEN /\ pc' = [pc EXCEPT ![K(k)] = "rt.exit", ![W(g)] = "term.cancel"]
               /\ result' = S1(result, k, <<"err", cls>>) /\ lock' = 0 /\ UC(inLoop)
          ELSE /\ pc' = [pc EXCEPT ![K(k)] = "rt.reconnect", ![W(g)] = "term.cancel"]
               /\ inLoop' = S1(inLoop, k, TRUE) /\ UC(<<result, lock>>)
       /\ ret' = S1(ret, W(g), <<"wexit", cls, cls>>) /\ tg' = S1(tg, W(g), g)
    /\ UC(<<res, cur, nextGen, clientClosed, retry, cancelled, tries, deadAtLock, dialed, startedAfterClose, gvars, panicked>>)

Handoff(g) == TxHandoff(g) \/ RxHandoff(g) \/ ErrHandoff(g)

-----------------------------------------------------------------------------
(* Environment                                                              *)
StartCall(k) == /\ pc[K(k)] = "none" /\ Go(K(k), "new!") /\ Frame
Cancel(k) == /\ MayCancel /\ pc[K(k)] \notin {"none", "done"} /\ ~cancelled[k]
             /\ cancelled' = S1(cancelled, k, TRUE)
             /\ UC(<<pc, res, ret, tg, cvars, retry, inLoop, result, tries, deadAtLock, dialed, startedAfterClose, gvars, panicked>>)
SrvRead(g) == /\ alive[g] /\ c2s[g] # <<>>
              /\ pending' = S1(pending, g, pending[g] \cup {Head(c2s[g])}) /\ c2s' = S1(c2s, g, Tail(c2s[g]))
              /\ UC(<<pc, res, ret, tg, cvars, kvars, alive, closed, ctx, cause, tx, txClosed, mtx, wtx, cliSock, srvClosed, srvReset, s2c, rcur, wcur, rxClosed, errch, panicked>>)
SrvReply(g, id) == /\ alive[g] /\ id \in pending[g] /\ ~srvClosed[g] /\ ~srvReset[g]
                   /\ pending' = S1(pending, g, pending[g] \ {id}) /\ s2c' = S1(s2c, g, Append(s2c[g], id))
                   /\ UC(<<pc, res, ret, tg, cvars, kvars, alive, closed, ctx, cause, tx, txClosed, mtx, wtx, cliSock, srvClosed, srvReset, c2s, rcur, wcur, rxClosed, errch, panicked>>)
SrvClose(g) == /\ MaySrvClose /\ alive[g] /\ ~srvClosed[g] /\ ~srvReset[g] /\ srvClosed' = S1(srvClosed, g, TRUE)
               /\ UC(<<pc, res, ret, tg, cvars, kvars, alive, closed, ctx, cause, tx, txClosed, mtx, wtx, cliSock, srvReset, c2s, pending, s2c, rcur, wcur, rxClosed, errch, panicked>>)
SrvReset(g) == /\ MayReset /\ alive[g] /\ ~srvClosed[g] /\ ~srvReset[g] /\ srvReset' = S1(srvReset, g, TRUE)
               /\ UC(<<pc, res, ret, tg, cvars, kvars, alive, closed, ctx, cause, tx, txClosed, mtx, wtx, cliSock, srvClosed, c2s, pending, s2c, rcur, wcur, rxClosed, errch, panicked>>)
StartClose == /\ WithClose /\ pc[X] = "none" /\ Go(X, "new!") /\ Frame

Env == \/ \E k \in Callers : StartCall(k) \/ Cancel(k)
       \/ \E g \in Gens : SrvRead(g) \/ SrvClose(g) \/ SrvReset(g) \/ (\E id \in Callers : SrvReply(g, id))
       \/ StartClose

Next == (~panicked) /\ ((\E p \in Procs : Release(p) \/ Arrive(p)) \/ (\E g \in Gens : Handoff(g)) \/ Env)
Spec == Init /\ [][Next]_vars

\* maximal-progress reduction (see Server.tla)
GateNames == {"rt.lock", "rt.reconnect", "rt.dial", "send.avail", "send.load", "send.select", "send.wait", "rt.between", "recv.avail",
              "recv.select", "rt.exit", "cl.close", "term.cancel", "term.txswap", "term.sockclose", "rl.enter", "rl.recv", "rl.offer",
              "rl.exit", "wl.enter", "wl.select", "wl.send", "wl.report", "wl.exit", "cx.close", "new"}
Bangs == {h \o "!" : h \in GateNames}
Runnable == {p \in Procs : pc[p] \in Bangs /\ ENABLED Arrive(p)}
ReadyHandoffs == {g \in Gens : ENABLED Handoff(g)}
EagerNext == (~panicked) /\
             IF Runnable # {} \/ ReadyHandoffs # {}
             THEN (\E p \in Runnable : Arrive(p)) \/ (\E g \in ReadyHandoffs : Handoff(g))
             ELSE ((\E p \in Procs : Release(p)) \/ Env)
EagerSpec == Init /\ [][EagerNext]_vars
Fairness == /\ \A p \in Procs : WF_vars(Release(p)) /\ WF_vars(Arrive(p))
            /\ \A g \in Gens : WF_vars(Handoff(g))
FairEagerSpec == EagerSpec /\ Fairness

-----------------------------------------------------------------------------
(* Properties                                                               *)
NoPanic == ~panicked
\* C10: a call only ever returns the response to its own request
NoMisdelivery == \A k \in Callers : result[k][1] = "resp" => result[k][2] = k
\* C11: a single call transmits its request at most four times
AtMostFour == \A k \in Callers : tries[k] <= 4
\* C11: once the client is closed, calls fail
ClosedFails == \A k \in Callers : (startedAfterClose[k] /\ result[k][1] # "none") => result[k][1] = "err"
\* C11: at the latest the next call uses a fresh connection: a call that finds a dead (not user-closed) connection
\* when it takes the mutex never fails without having dialed, unless it was cancelled or the client was closed meanwhile
Recovers == \A k \in Callers :
              (result[k][1] = "err" /\ deadAtLock[k] /\ ~cancelled[k] /\ ~clientClosed /\ ~startedAfterClose[k]
                 /\ (\A g \in Gens : ~closed[g] \/ g < cur \/ cur = 0)) => dialed[k]
LockSane == lock \in {0} \cup Callers
Safety == NoPanic /\ NoMisdelivery /\ AtMostFour /\ ClosedFails /\ LockSane

GenDead(g) == alive[g] /\ (ctx[g] \/ closed[g])
LoopsDone(g) == pc[R(g)] = "done" /\ pc[W(g)] = "done"
\* C11: neither a closed client nor an abandoned connection leaves goroutines behind
NoLeak == \A g \in Gens : GenDead(g) ~> LoopsDone(g)
\* C11: a call whose connection is dead or whose context is cancelled does not hang
Prompt == \A k \in Callers : (pc[K(k)] \notin {"none", "done", "rt.lock"} /\ (cancelled[k] \/ (tg[K(k)] # 0 /\ ctx[tg[K(k)]]))) ~> (pc[K(k)] \in {"done", "rt.lock"} \/ nextGen > NG)
=============================================================================
