----------------------------- MODULE ClientResp -----------------------------
(***************************************************************************)
(* How a kmipclient call must decide on a server response (C12).  The      *)
(* server may answer a request of N items with any well-formed response:   *)
(* any header count, any number of items, each item of one of the classes  *)
(* below.  The client's decision is modelled as the steps of the real      *)
(* call path: receive/decode, count check (BatchOpt / negotiateVersion),   *)
(* per-item check, result.  The outcome is what the caller gets.           *)
(***************************************************************************)
EXTENDS Naturals, Sequences, FiniteSets, TLC

CONSTANTS Apis,       \* subset of {"Exec", "Request", "Batch", "Dial"}
          MaxItems    \* request items for Batch (1..MaxItems); the other APIs send one item

\* item classes: status x operation echoed x payload
ItemClasses == {
  "S_same_pl",      \* success, requested operation, payload of that operation        (the only good one)
  "S_same_nopl",    \* success, requested operation, payload missing
  "S_same_foreign", \* success, requested operation code, payload content of another operation (undecodable)
  "S_other_pl",     \* success, another operation with that operation's payload
  "S_other_nopl",
  "S_zero_nopl",    \* success without operation (payload cannot be present: it is typed by the operation)
  "F_same_known",   \* failed, known reason, message
  "F_same_unknown", \* failed, reason value outside the enumeration
  "F_same_noreason",
  "F_other_known",
  "F_zero_known",   \* failed without operation (message-level rejection)
  "P_same",         \* status Operation Pending, no payload
  "U_same",         \* status value outside the enumeration
  "F_same_pl",      \* failed (known reason, message) although the item carries a well-formed payload of the requested operation
  "P_same_pl",      \* pending, with such a payload
  "U_same_pl",      \* unknown status, with such a payload
  "F_zero_pl",      \* failed without operation although a payload follows (it has no type: the client has nothing to read it with and lets it pass)
  "P_same_notsupp", \* pending / unknown status with the reason Operation Not Supported: the reason of a server that lacks the operation,
  "U_same_notsupp"  \* under a status that is not Failed - an error like any other (for Dial in particular: no fallback to 1.0)
}
Status(c) == CASE c \in {"S_same_pl", "S_same_nopl", "S_same_foreign", "S_other_pl", "S_other_nopl", "S_zero_nopl"} -> "Success"
               [] c \in {"F_same_known", "F_same_unknown", "F_same_noreason", "F_other_known", "F_zero_known", "F_same_pl", "F_zero_pl"} -> "Failed"
               [] c \in {"P_same", "P_same_pl", "P_same_notsupp"} -> "Pending"
               [] OTHER -> "Unknown"
GoodC(c) == c = "S_same_pl"
Undecodable(c) == c = "S_same_foreign"
Succ(c) == Status(c) = "Success"

VARIABLES api, n, hdr, items, idpat, opt, pc, outcome, carries, lenient
vars == <<api, n, hdr, items, idpat, opt, pc, outcome, carries, lenient>>

Shapes(k) == [1..k -> ItemClasses]
Init == /\ api \in Apis
        /\ n \in 1..MaxItems /\ (api # "Batch" => n = 1)
        /\ hdr \in {"match", "less", "more"}              \* header batch count relative to the number of items sent
        /\ \E k \in {n - 1, n, n + 1} : items \in Shapes(k)
        \* which unique batch item ids the response items echo: their own, all the first one's, none, swapped.
        \* Items are matched by position; the echoed ids never change what the caller must get.
        \* "short" / "long": ids of one byte / nine bytes that no request carried (the library's own ids are eight bytes long).
        /\ idpat \in IF api = "Batch" /\ n = 2 /\ hdr = "match" /\ Len(items) = 2 THEN {"own", "dup", "none", "swap", "short", "long"}
                      ELSE IF hdr = "match" /\ Len(items) = n THEN {"own", "none", "short", "long"} ELSE {"own"}
        \* the continuation option the batch was sent with: it tells the server what to do, it never relaxes what the client must check
        /\ opt \in IF api = "Batch" /\ n >= 2 /\ hdr = "match" /\ Len(items) = n /\ idpat = "own" THEN {"unset", "Continue", "Stop", "Undo"} ELSE {"unset"}
        /\ pc = "recv" /\ outcome = "none" /\ carries = FALSE /\ lenient = FALSE

\* content of another operation under the requested operation code: the decoder of the requested payload
\* type either rejects it (transport-level error) or, being lenient about missing optional and unknown
\* fields, accepts it as a (degenerate) payload of the requested type - both are within the property.
Good(c) == GoodC(c) \/ (lenient /\ Undecodable(c))

\* the response is read from the connection
Recv == /\ pc = "recv"
        /\ \/ /\ \E i \in 1..Len(items) : Undecodable(items[i])
              /\ pc' = "done" /\ outcome' = "error" /\ UNCHANGED lenient
           \/ /\ pc' = "counts" /\ lenient' = (\E i \in 1..Len(items) : Undecodable(items[i])) /\ UNCHANGED outcome
        /\ UNCHANGED <<api, n, hdr, items, idpat, opt, carries>>

\* header count = number of items = number of request items
Counts == /\ pc = "counts"
          /\ IF hdr # "match" \/ Len(items) # n
             THEN pc' = "done" /\ outcome' = "error"
             ELSE pc' = "items" /\ UNCHANGED outcome
          /\ UNCHANGED <<api, n, hdr, items, idpat, opt, carries, lenient>>

\* per item: a successful item must echo the requested operation and carry its payload
Items == /\ pc = "items"
         /\ IF api = "Batch"
            THEN IF \A i \in 1..n : Succ(items[i]) => Good(items[i])
                 THEN outcome' = "items" /\ carries' = TRUE     \* failed items are handed over with status/reason/message
                 ELSE outcome' = "error" /\ UNCHANGED carries
            ELSE IF Good(items[1]) THEN outcome' = "payload" /\ UNCHANGED carries
                 ELSE /\ outcome' = "error"
                      /\ carries' = ~Succ(items[1])               \* a non-successful item is surfaced with its status/reason/message
         /\ pc' = "done"
         /\ UNCHANGED <<api, n, hdr, items, idpat, opt, lenient>>

Next == Recv \/ Counts \/ Items
Spec == Init /\ [][Next]_vars

-----------------------------------------------------------------------------
Done == pc = "done"
\* C12, declaratively
OutcomeDefined == Done => outcome \in {"payload", "items", "error"}            \* never a panic, never "nothing"
NoForeignSuccess ==
    Done /\ outcome \in {"payload", "items"} =>
        /\ hdr = "match" /\ Len(items) = n
        /\ \A i \in 1..n : Succ(items[i]) => Good(items[i])
PayloadOnlyIfGood == Done /\ outcome = "payload" => Good(items[1]) /\ api # "Batch"
FailureSurfaced ==
    Done /\ hdr = "match" /\ Len(items) = n /\ (\A i \in 1..n : ~Undecodable(items[i])) /\ (\E i \in 1..n : ~Succ(items[i])) =>
        IF api = "Batch" THEN (outcome = "items" => carries) ELSE outcome = "error" /\ carries
GoodAccepted ==
    Done /\ hdr = "match" /\ Len(items) = n /\ (\A i \in 1..n : Good(items[i])) => outcome = IF api = "Batch" THEN "items" ELSE "payload"
Inv == OutcomeDefined /\ NoForeignSuccess /\ PayloadOnlyIfGood /\ FailureSurfaced /\ GoodAccepted

History == [api |-> api, n |-> n, hdr |-> hdr, items |-> items, idpat |-> idpat, opt |-> opt, outcome |-> outcome, carries |-> carries, lenient |-> lenient]
=============================================================================
