SPECIFICATION Spec
CONSTANTS
  Apis = {"Exec", "Request", "Batch", "Dial"}
  MaxItems = 2
INVARIANTS Emit
CHECK_DEADLOCK FALSE
