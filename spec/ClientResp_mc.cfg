SPECIFICATION Spec
CONSTANTS
  Apis = {"Exec", "Request", "Batch", "Dial"}
  MaxItems = 2
INVARIANTS Inv
CHECK_DEADLOCK FALSE
