\* C10: two callers, two generations, cancellation at every instant, server delays; no faults
SPECIFICATION EagerSpec
CONSTANTS
  NC = 2
  NG = 2
  RecvTerm = TRUE
  FixDead = TRUE
  SafeClose = TRUE
  CloseTx = FALSE
  ErrBuf = 1
  DialMayFail = FALSE
  WithClose = FALSE
  MayCancel = TRUE
  DialedAtStart = TRUE
  MayReset = FALSE
  MaySrvClose = FALSE
INVARIANTS Safety Recovers
CHECK_DEADLOCK FALSE
