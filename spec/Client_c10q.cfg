\* C10 quick: two callers, one generation (a reconnect fails), cancellation at every instant
SPECIFICATION EagerSpec
CONSTANTS
  NC = 2
  NG = 1
  RecvTerm = TRUE
  FixDead = TRUE
  SafeClose = TRUE
  CloseTx = FALSE
  ErrBuf = 1
  DialMayFail = FALSE
  WithClose = FALSE
  MayCancel = TRUE
  DialedAtStart = TRUE
  MayReset = FALSE
  MaySrvClose = FALSE
INVARIANTS Safety Recovers
CHECK_DEADLOCK FALSE
