\* C11: one caller, three generations, server closes / resets at every instant, dial failures
SPECIFICATION EagerSpec
CONSTANTS
  NC = 1
  NG = 3
  RecvTerm = TRUE
  FixDead = TRUE
  SafeClose = TRUE
  CloseTx = FALSE
  ErrBuf = 1
  DialMayFail = TRUE
  WithClose = FALSE
  MayCancel = FALSE
  MayReset = TRUE
  MaySrvClose = TRUE
INVARIANTS Safety Recovers
CHECK_DEADLOCK FALSE
