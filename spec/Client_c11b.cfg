\* C11: two callers, two generations, server closes / resets, Client.Close at any moment
SPECIFICATION EagerSpec
CONSTANTS
  NC = 2
  NG = 2
  RecvTerm = TRUE
  FixDead = TRUE
  SafeClose = TRUE
  CloseTx = FALSE
  ErrBuf = 1
  DialMayFail = FALSE
  WithClose = TRUE
  MayCancel = FALSE
  DialedAtStart = TRUE
  MayReset = TRUE
  MaySrvClose = TRUE
INVARIANTS Safety Recovers
CHECK_DEADLOCK FALSE
