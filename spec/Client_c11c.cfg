\* C11: one caller, two generations, cancellation + faults + Close together
SPECIFICATION EagerSpec
CONSTANTS
  NC = 1
  NG = 2
  RecvTerm = TRUE
  FixDead = TRUE
  SafeClose = TRUE
  CloseTx = FALSE
  ErrBuf = 1
  DialMayFail = TRUE
  WithClose = TRUE
  MayCancel = TRUE
  MayReset = TRUE
  MaySrvClose = TRUE
INVARIANTS Safety Recovers
CHECK_DEADLOCK FALSE
