\* C11 quick: one caller, two generations, server closes / resets at every instant
SPECIFICATION EagerSpec
CONSTANTS
  NC = 1
  NG = 2
  RecvTerm = TRUE
  FixDead = TRUE
  SafeClose = TRUE
  CloseTx = FALSE
  ErrBuf = 1
  DialMayFail = FALSE
  WithClose = FALSE
  MayCancel = FALSE
  DialedAtStart = TRUE
  MayReset = TRUE
  MaySrvClose = TRUE
INVARIANTS Safety Recovers
CHECK_DEADLOCK FALSE
