\* C11: one caller, two generations, Client.Close at any moment, dial failures
SPECIFICATION EagerSpec
CONSTANTS
  NC = 1
  NG = 2
  RecvTerm = TRUE
  FixDead = TRUE
  SafeClose = TRUE
  CloseTx = FALSE
  ErrBuf = 1
  DialMayFail = TRUE
  WithClose = TRUE
  MayCancel = FALSE
  DialedAtStart = TRUE
  MayReset = FALSE
  MaySrvClose = TRUE
INVARIANTS Safety Recovers
CHECK_DEADLOCK FALSE
