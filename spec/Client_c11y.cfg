\* C11: two callers, two generations, server closes (no reset), no cancellation
SPECIFICATION EagerSpec
CONSTANTS
  NC = 2
  NG = 2
  RecvTerm = TRUE
  FixDead = TRUE
  SafeClose = TRUE
  CloseTx = FALSE
  ErrBuf = 1
  DialMayFail = FALSE
  WithClose = FALSE
  MayCancel = FALSE
  DialedAtStart = TRUE
  MayReset = FALSE
  MaySrvClose = TRUE
INVARIANTS Safety Recovers
CHECK_DEADLOCK FALSE
