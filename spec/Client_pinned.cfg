\* the pinned client code: misdelivery after a cancellation between send and recv must be FOUND (expected violation)
SPECIFICATION EagerSpec
CONSTANTS
  NC = 2
  NG = 2
  RecvTerm = FALSE
  FixDead = FALSE
  SafeClose = FALSE
  CloseTx = TRUE
  ErrBuf = 0
  DialMayFail = FALSE
  WithClose = FALSE
  MayCancel = TRUE
  DialedAtStart = TRUE
  MayReset = FALSE
  MaySrvClose = FALSE
INVARIANTS NoMisdelivery
CHECK_DEADLOCK FALSE
