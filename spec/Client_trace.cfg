SPECIFICATION TraceSpec
CONSTANTS
  NC = 3
  NG = 6
  RecvTerm = TRUE
  FixDead = TRUE
  SafeClose = TRUE
  CloseTx = FALSE
  ErrBuf = 1
  DialMayFail = TRUE
  WithClose = TRUE
  MayCancel = TRUE
  DialedAtStart = TRUE
  MayReset = TRUE
  MaySrvClose = TRUE
INVARIANTS TraceInv
CONSTRAINT HighWater
POSTCONDITION TraceAccepted
CHECK_DEADLOCK FALSE
