\* client traps; one INVARIANT TrapX is appended by the orchestrator
SPECIFICATION EagerSpec
CONSTANTS
  NC = 2
  NG = 4
  RecvTerm = TRUE
  FixDead = TRUE
  SafeClose = TRUE
  CloseTx = FALSE
  ErrBuf = 1
  DialMayFail = TRUE
  WithClose = TRUE
  MayCancel = TRUE
  DialedAtStart = TRUE
  MayReset = TRUE
  MaySrvClose = TRUE
CHECK_DEADLOCK FALSE
