\* C10 traps found breadth-first: two callers, cancellation, no faults; one INVARIANT TrapX is appended by the orchestrator
SPECIFICATION EagerSpec
CONSTANTS
  NC = 2
  NG = 2
  RecvTerm = TRUE
  FixDead = TRUE
  SafeClose = TRUE
  CloseTx = FALSE
  ErrBuf = 1
  DialMayFail = FALSE
  WithClose = FALSE
  MayCancel = TRUE
  DialedAtStart = TRUE
  MayReset = FALSE
  MaySrvClose = FALSE
CHECK_DEADLOCK FALSE
