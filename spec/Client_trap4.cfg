\* trap for the fourth transmission: one caller, four generations, the server only reads and closes
SPECIFICATION EagerSpec
CONSTANTS
  NC = 1
  NG = 4
  RecvTerm = TRUE
  FixDead = TRUE
  SafeClose = TRUE
  CloseTx = FALSE
  ErrBuf = 1
  DialMayFail = FALSE
  WithClose = FALSE
  MayCancel = FALSE
  DialedAtStart = TRUE
  MayReset = FALSE
  MaySrvClose = TRUE
CHECK_DEADLOCK FALSE
