\* trap for the fourth transmission of the second of two sequential calls: the first is answered, then the server only reads and closes
SPECIFICATION EagerSpec
CONSTANTS
  NC = 2
  NG = 4
  RecvTerm = TRUE
  FixDead = TRUE
  SafeClose = TRUE
  CloseTx = FALSE
  ErrBuf = 1
  DialMayFail = FALSE
  WithClose = FALSE
  MayCancel = FALSE
  DialedAtStart = TRUE
  MayReset = FALSE
  MaySrvClose = TRUE
CHECK_DEADLOCK FALSE
