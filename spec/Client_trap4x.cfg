\* trap search with Client.Close: one caller, the closer, the server may close
SPECIFICATION EagerSpec
CONSTANTS
  NC = 1
  NG = 2
  RecvTerm = TRUE
  FixDead = TRUE
  SafeClose = TRUE
  CloseTx = FALSE
  ErrBuf = 1
  DialMayFail = FALSE
  WithClose = TRUE
  MayCancel = FALSE
  DialedAtStart = TRUE
  MayReset = FALSE
  MaySrvClose = FALSE
CHECK_DEADLOCK FALSE
