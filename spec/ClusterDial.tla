---------------------------- MODULE ClusterDial ----------------------------
(***************************************************************************)
(* kmipclient.DialCluster: a client over a list of servers (C11, the       *)
(* cluster configuration).  The dialer the client is built with walks the  *)
(* list in order and connects to the first server that answers; every      *)
(* reconnect of the client is one more walk.  Time is counted in periods   *)
(* longer than the retry timeout: dials between two `Tick`s happen "at the *)
(* same time" as far as the timeout is concerned.                          *)
(*                                                                         *)
(* The specification follows the implementation, including one behaviour   *)
(* that is certainly not intended and that no listed property talks about: *)
(* the loop over the servers works on a COPY of each entry, so the time of *)
(* a failed attempt is only ever remembered for the first server, by the   *)
(* fallback at the end of the walk (`LoopForgets`).  A server that failed  *)
(* a moment ago is therefore contacted again by the next walk, except the  *)
(* first one after a walk in which every server failed.                    *)
(***************************************************************************)
EXTENDS Naturals, Sequences, FiniteSets, TLC

CONSTANTS N,           \* number of servers, 1..N in list order
          MaxSteps     \* bound on the length of a plan

Servers == 1..N
Never == 0             \* "no failure remembered"; times start at 1

VARIABLES up,          \* the servers that answer (environment)
          now,         \* current period
          lastErr1,    \* period of the remembered failure of server 1, or Never
          client,      \* "none" | "connected" | "broken"   (broken: the last walk found nobody; the client has no connection)
          at,          \* the server the client is connected to, 0 if none
          attempts,    \* the servers contacted by the last walk, in order
          result,      \* outcome of the last call: "ok" | "err" | "none"
          steps
vars == <<up, now, lastErr1, client, at, attempts, result, steps>>

Init == /\ up = Servers /\ now = 1 /\ lastErr1 = Never /\ client = "none" /\ at = 0 /\ attempts = <<>> /\ result = "none" /\ steps = 0

Penalised1 == lastErr1 # Never /\ ~(now > lastErr1)      \* time.Now().After(lastError + timeout) is false within the same period

\* the servers the loop contacts, in order, until one answers
RECURSIVE Walk(_, _)
Walk(s, acc) == IF s > N THEN [tried |-> acc, got |-> 0]
                ELSE IF s = 1 /\ Penalised1 THEN Walk(s + 1, acc)
                ELSE IF s \in up THEN [tried |-> Append(acc, s), got |-> s]
                ELSE Walk(s + 1, Append(acc, s))               \* LoopForgets: the failure is written to a copy of the entry

\* one invocation of the dialer
DialOutcome == LET w == Walk(1, <<>>) IN
                 IF w.got # 0 THEN [tried |-> w.tried, got |-> w.got, le |-> lastErr1]
                 ELSE \* every server failed (or was skipped): the first one is asked once more
                      IF 1 \in up THEN [tried |-> Append(w.tried, 1), got |-> 1, le |-> Never]
                                  ELSE [tried |-> Append(w.tried, 1), got |-> 0, le |-> now]

Step == steps' = steps + 1 /\ steps < MaxSteps

\* environment
Flip(s) == /\ Step /\ up' = (IF s \in up THEN up \ {s} ELSE up \cup {s})
           /\ UNCHANGED <<now, lastErr1, client, at, attempts, result>>
Tick == /\ Step /\ now' = now + 1 /\ UNCHANGED <<up, lastErr1, client, at, attempts, result>>

\* DialCluster: the first walk; a client exists only if it succeeds (and the remembered failures belong to the client)
Build == /\ client = "none" /\ Step
         /\ LET d == DialOutcome IN
              /\ attempts' = d.tried
              /\ IF d.got # 0 THEN client' = "connected" /\ at' = d.got /\ lastErr1' = d.le /\ result' = "ok"
                              ELSE client' = "none" /\ at' = 0 /\ lastErr1' = Never /\ result' = "err"
         /\ UNCHANGED <<up, now>>

\* a call on a client whose connection has just been lost (the harness makes the server drop it first), or that has none:
\* exactly one walk; the call succeeds on the server the walk ends at, or fails
Call == /\ client \in {"connected", "broken"} /\ Step
        /\ LET d == DialOutcome IN
             /\ attempts' = d.tried /\ lastErr1' = d.le
             /\ IF d.got # 0 THEN client' = "connected" /\ at' = d.got /\ result' = "ok"
                             ELSE client' = "broken" /\ at' = 0 /\ result' = "err"
        /\ UNCHANGED <<up, now>>

Next == Tick \/ Build \/ Call \/ \E s \in Servers : Flip(s)
Spec == Init /\ [][Next]_vars

-----------------------------------------------------------------------------
(* C11 for the cluster client: what holds of every walk (a Build or Call step), stated over the step *)
IsWalk == steps' = steps + 1 /\ up' = up /\ now' = now
\* a walk that reaches a server that answers connects to it
ConnectedToALiveServer == [][IsWalk => (result' = "ok" => at' \in up)]_vars
\* recovery: a call fails only if no server the walk asked answered - when a server of the list answers and is asked, the call succeeds
RecoversWhenReachable == [][IsWalk => (result' = "err" => \A k \in 1..Len(attempts') : attempts'[k] \notin up)]_vars
\* ... and, stronger: a walk fails only if NO server of the list answers at that moment (a server that failed a moment ago is skipped
\* by the loop at most when it is the first one, and then the fallback asks it)
RecoversIfAnyUp == [][IsWalk => (up # {} => result' = "ok")]_vars
\* the first server is asked by every walk that finds nobody (it is never locked out for good)
FirstServerAlwaysAsked == [][IsWalk => (result' = "err" => (Len(attempts') > 0 /\ attempts'[Len(attempts')] = 1))]_vars
\* a walk asks no server twice, except the first one in the fallback
AtMostTwice == \A s \in Servers : Cardinality({k \in 1..Len(attempts) : attempts[k] = s}) <= (IF s = 1 THEN 2 ELSE 1)
TypeOK == /\ up \subseteq Servers /\ lastErr1 \in 0..now /\ client \in {"none", "connected", "broken"} /\ at \in 0..N
          /\ result \in {"ok", "err", "none"}
Inv == TypeOK /\ AtMostTwice
=============================================================================
