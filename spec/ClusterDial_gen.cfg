\* plans for the replay: 2 servers, 6 steps
SPECIFICATION MCSpec
CONSTANTS
  N = 2
  MaxSteps = 6
INVARIANTS Emit
CHECK_DEADLOCK FALSE
