\* exhaustive: 3 servers, plans of up to 8 steps
SPECIFICATION Spec
CONSTANTS
  N = 3
  MaxSteps = 8
INVARIANTS Inv
PROPERTIES RecoversIfAnyUp ConnectedToALiveServer RecoversWhenReachable FirstServerAlwaysAsked
CHECK_DEADLOCK FALSE
