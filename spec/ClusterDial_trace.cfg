SPECIFICATION TraceSpec
CONSTANTS
  N = 2
  MaxSteps = 1000000
INVARIANTS TraceInv
CONSTRAINT HighWater
POSTCONDITION TraceAccepted
CHECK_DEADLOCK FALSE
