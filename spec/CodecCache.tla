----------------------------- MODULE CodecCache -----------------------------
(***************************************************************************)
(* The lazily built per-type plan caches and the per-encoder protocol      *)
(* version register of ttlv (C20).                                         *)
(*                                                                         *)
(* Several goroutines execute codec calls from a cold process.  A call     *)
(* [type, ver] needs the plan of its type; building a plan recursively     *)
(* needs the plans of the member types (Sub).  encodeFuncFor / decode-     *)
(* FuncFor: Load - on a miss: build (recursing), then Store.  Two          *)
(* goroutines may build the same plan at once; both store it; plans are a  *)
(* function of the type only.  A plan becomes visible to others only by    *)
(* Store, i.e. complete.  Every encoder (one per call, or one per          *)
(* goroutine reused after Clear) has its own version register, set while   *)
(* the header of the message is processed.                                 *)
(***************************************************************************)
EXTENDS Naturals, Sequences, FiniteSets, TLC

CONSTANTS Procs,      \* goroutines
          Types,      \* type names
          Sub,        \* Sub[t]: member types whose plans the plan of t needs
          Calls,      \* Calls[p]: sequence of [t, ver, reuse] executed by p (reuse: encoder reused after Clear)
          ClearResets \* BOOLEAN: Clear() resets the version register (FALSE models the defect)

None == 99
VARIABLES cache,    \* set of types whose plan is stored
          stack,    \* stack[p]: types whose plan p is building (innermost last), with the set of members still to visit
          idx,      \* idx[p]: call being executed
          phase,    \* phase[p]: "idle" | "plan" | "emit" | "done"
          reg,      \* reg[p]: version register of p's current encoder
          out       \* out[p]: results: <<t, version that gated the message>>
vars == <<cache, stack, idx, phase, reg, out>>

Init == /\ cache = {} /\ stack = [p \in Procs |-> <<>>] /\ idx = [p \in Procs |-> 1]
        /\ phase = [p \in Procs |-> "idle"] /\ reg = [p \in Procs |-> None] /\ out = [p \in Procs |-> <<>>]

Cur(p) == Calls[p][idx[p]]
\* the call starts: a fresh encoder, or the reused one after Clear()
Begin(p) == /\ phase[p] = "idle" /\ idx[p] <= Len(Calls[p])
            /\ reg' = [reg EXCEPT ![p] = IF Cur(p).reuse /\ ~ClearResets THEN reg[p] ELSE None]
            /\ phase' = [phase EXCEPT ![p] = "plan"]
            /\ stack' = [stack EXCEPT ![p] = <<>>]
            /\ UNCHANGED <<cache, idx, out>>

\* encodeFuncFor(t): Load
Top(p) == stack[p][Len(stack[p])]
Building(p) == stack[p] # <<>>
Need(p) == IF ~Building(p) THEN Cur(p).t ELSE CHOOSE t \in Top(p).todo : TRUE
Wants(p) == phase[p] = "plan" /\ (IF Building(p) THEN Top(p).todo # {} ELSE TRUE)
Hit(p) == /\ Wants(p) /\ Need(p) \in cache
          /\ IF Building(p)
             THEN stack' = [stack EXCEPT ![p] = [stack[p] EXCEPT ![Len(stack[p])] = [t |-> Top(p).t, todo |-> Top(p).todo \ {Need(p)}]]] /\ UNCHANGED phase
             ELSE phase' = [phase EXCEPT ![p] = "emit"] /\ UNCHANGED stack
          /\ UNCHANGED <<cache, idx, reg, out>>
\* miss: start building the plan of the needed type
Miss(p) == /\ Wants(p) /\ Need(p) \notin cache
           /\ stack' = [stack EXCEPT ![p] = Append(stack[p], [t |-> Need(p), todo |-> Sub[Need(p)] \ {Need(p)}])]
           /\ UNCHANGED <<cache, idx, phase, reg, out>>
\* all member plans obtained: Store (idempotent) and return to the caller
Store(p) == /\ phase[p] = "plan" /\ Building(p) /\ Top(p).todo = {}
            /\ LET t == Top(p).t
                   rest == SubSeq(stack[p], 1, Len(stack[p]) - 1)
               IN /\ cache' = cache \cup {t}
                  /\ stack' = [stack EXCEPT ![p] = IF rest = <<>> THEN <<>>
                                                   ELSE [rest EXCEPT ![Len(rest)] = [t |-> rest[Len(rest)].t, todo |-> rest[Len(rest)].todo \ {t}]]]
                  /\ phase' = [phase EXCEPT ![p] = IF rest = <<>> THEN "emit" ELSE "plan"]
            /\ UNCHANGED <<idx, reg, out>>
\* the message is encoded: its header sets the register, the body is gated by it
Emit(p) == /\ phase[p] = "emit"
           /\ reg' = [reg EXCEPT ![p] = Cur(p).ver]
           /\ out' = [out EXCEPT ![p] = Append(@, <<Cur(p).t, Cur(p).ver>>)]
           /\ idx' = [idx EXCEPT ![p] = @ + 1]
           /\ phase' = [phase EXCEPT ![p] = "idle"]
           /\ UNCHANGED <<cache, stack>>

Next == \E p \in Procs : Begin(p) \/ Hit(p) \/ Miss(p) \/ Store(p) \/ Emit(p)
Spec == Init /\ [][Next]_vars

\* C20: the result of a call is what the same call gives alone from a cold state: a function of the call only
ResultIndependent == \A p \in Procs : \A k \in 1..Len(out[p]) : out[p][k] = <<Calls[p][k].t, Calls[p][k].ver>>
\* a plan is only ever visible complete: everything in the cache has all its member plans in the cache
PlansComplete == \A t \in cache : Sub[t] \subseteq cache \cup {t}
\* the register of a reused encoder is empty when a call starts
VersionLocal == \A p \in Procs : phase[p] = "plan" => reg[p] = None
Inv == ResultIndependent /\ PlansComplete /\ VersionLocal
AllDone == \A p \in Procs : idx[p] > Len(Calls[p])
=============================================================================
