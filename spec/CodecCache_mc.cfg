SPECIFICATION Spec
CONSTANTS
  Procs <- MCProcs
  Types <- MCTypes
  Sub <- MCSub
  Calls <- MCCalls
  ClearResets = TRUE
INVARIANTS Inv
CHECK_DEADLOCK FALSE
