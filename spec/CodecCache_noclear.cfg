SPECIFICATION Spec
CONSTANTS
  Procs <- MCProcs
  Types <- MCTypes
  Sub <- MCSub
  Calls <- MCCalls
  ClearResets = FALSE
INVARIANTS Inv
CHECK_DEADLOCK FALSE
