SPECIFICATION Spec
CONSTANTS
  Procs <- MCProcs
  Types <- MCTypes
  Sub <- MCSub
  Calls <- MCCalls
  ClearResets = TRUE
INVARIANTS NotAllDone
CHECK_DEADLOCK FALSE
