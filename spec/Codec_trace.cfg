SPECIFICATION Spec
INVARIANTS Inv
CONSTRAINT HighWater
POSTCONDITION TraceAccepted
CHECK_DEADLOCK FALSE
