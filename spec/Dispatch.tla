------------------------------ MODULE Dispatch ------------------------------
(***************************************************************************)
(* Dispatch tables of the codec (C06): operation x direction -> payload    *)
(* type, object type -> structure, attribute name -> value type.  Live is  *)
(* the tables of the running library (read through the verif export),      *)
(* Pinned the reference (spec/ref/dispatch.ref.json).  Cases enumerate the *)
(* classes the property names; the expected outcome is part of the case.   *)
(***************************************************************************)
EXTENDS Naturals, Sequences, FiniteSets, TLC, Json, IOUtils

Live == JsonDeserialize(IOEnv.PLAN_FILE)
Pinned == JsonDeserialize(IOEnv.DISPATCH_FILE)

Idx(s) == 1..Len(s)
LiveOps == {<<n, Live.operations[n][1], Live.operations[n][2]>> : n \in DOMAIN Live.operations}
PinOps == {<<Pinned.operations[i][1], Pinned.operations[i][2], Pinned.operations[i][3]>> : i \in Idx(Pinned.operations)}
LiveObjs == {<<n, Live.objects[n]>> : n \in DOMAIN Live.objects}
PinObjs == {<<Pinned.objects[i][1], Pinned.objects[i][2]>> : i \in Idx(Pinned.objects)}
LiveAttrs == {<<n, Live.attributes[n]>> : n \in DOMAIN Live.attributes}
PinAttrs == {<<Pinned.attributes[i][1], Pinned.attributes[i][2]>> : i \in Idx(Pinned.attributes)}
TablesPinned == LiveOps = PinOps /\ LiveObjs = PinObjs /\ LiveAttrs = PinAttrs

OpEnum == {<<Pinned.operation_enum[i][1], Pinned.operation_enum[i][2]>> : i \in Idx(Pinned.operation_enum)}     \* <<code, name>>
Implemented == {o[1] : o \in PinOps}
\* every named operation is either implemented or not: the two classes partition the enumeration
NamedUnimplemented == {e \in OpEnum : e[2] \notin Implemented}
ClassesPartition == /\ Implemented \subseteq {e[2] : e \in OpEnum}
                    /\ Cardinality(NamedUnimplemented) + Cardinality(Implemented) = Cardinality(OpEnum)
OtherCodes == {44, 45, 255, 65536, 2147483647}        \* codes outside the enumeration (0x80000000.. are added by the driver)

Encodings == {"ttlv", "xml", "json"}
TtlvTypes == 1..10
VARIABLE c
\* the payload type of a response item is given by its operation, whatever its result status (0 Success, 1 Failed, 2 Pending, 3 Undone)
Statuses(d) == IF d = 2 THEN {0, 1, 2, 3} ELSE {0}
\* ... and whatever the protocol version of the message header (ver = minor version 0..4): the registry of payload types has no version
OpCases == {[kind |-> "op", code |-> e[1], name |-> e[2], dir |-> d, status |-> st, ver |-> v, enc |-> x, expect |-> IF e[2] \in Implemented THEN "typed" ELSE "opaque"] :
              e \in OpEnum, d \in {1, 2}, st \in {0, 1, 2, 3}, v \in 0..4, x \in Encodings}
           \cup {[kind |-> "op", code |-> k, name |-> "", dir |-> d, status |-> 0, ver |-> 4, enc |-> x, expect |-> "opaque"] : k \in OtherCodes, d \in {1, 2}, x \in Encodings}
\* operations an application has registered payload types for (RegisterOperationPayload): code is an index into the driver's table of
\* such operations - one of the vendor extension range, one between the standard enumeration and that range, one at the top of the
\* range. Their payloads decode to the registered types like those of the library's own operations.
OpRegCases == {[kind |-> "opreg", code |-> k, name |-> "", dir |-> d, status |-> 0, ver |-> 4, enc |-> x, expect |-> "typed"] : k \in 1..3, d \in {1, 2}, x \in Encodings}
ObjCases == {[kind |-> "obj", code |-> Pinned.objecttype_enum[i][1], name |-> Pinned.objecttype_enum[i][2], dir |-> 2, enc |-> x, expect |-> "typed"] :
               i \in Idx(Pinned.objecttype_enum), x \in Encodings}
            \cup {[kind |-> "obj", code |-> k, name |-> "", dir |-> 2, enc |-> x, expect |-> "error"] : k \in {10, 11, 153, 2147483647}, x \in Encodings}
AttrCases == {[kind |-> "attr", code |-> 0, name |-> a[1], dir |-> 0, enc |-> x, expect |-> "typed"] : a \in PinAttrs, x \in Encodings}
             \cup {[kind |-> "attr", code |-> t, name |-> n, dir |-> 0, enc |-> x, expect |-> "opaque"] :
                     n \in {"x-custom", "y-custom", "Arbitrary Attribute", "", "x-"}, t \in TtlvTypes, x \in Encodings}
             \* item types the library does not know (0x0B is Date-Time Extended of KMIP 2.x, 0x0C, 0x00): an opaque position either rejects the
             \* message or hands the item on exactly as it came
             \cup {[kind |-> "attr", code |-> t, name |-> n, dir |-> 0, enc |-> "ttlv", expect |-> "opaque-or-error"] : n \in {"x-custom"}, t \in {0, 11, 12}}
             \* a standard attribute whose value arrives as an item of another type than its specified one (a text attribute carrying an
             \* Integer, an Enumeration, a Byte String) is not that attribute's value: the message is refused, nothing generic is made of it
             \cup {[kind |-> "attr", code |-> t, name |-> a[1], dir |-> 2, enc |-> x, expect |-> "error"] :
                     a \in {b \in PinAttrs : b[2] = "string"}, t \in {2, 5, 8}, x \in Encodings}
             \* names that differ from a standard one only by letter case are NOT standard attributes
             \cup {[kind |-> "attr", code |-> t, name |-> a[1], dir |-> 1, enc |-> x, expect |-> "opaque"] : a \in PinAttrs, t \in {2, 7}, x \in {"ttlv"}}
\* where the type of a carried object comes from: the payload's Object Type field (Get / Export responses, Register request) or, when the
\* payload has no such field, the "Object Type" attribute (Import request).  An attribute next to a field never overrides the field.
\* field / attr / content are object type codes (0: absent); 127 is not an object type.
ObjCodes == {Pinned.objecttype_enum[i][1] : i \in Idx(Pinned.objecttype_enum)}
Carriers == {"get-response", "register-request", "export-response", "import-request"}
HasField(k) == k # "import-request"
HasAttrs(k) == k \in {"export-response", "import-request", "register-request"}
Governing(k, f, a) == IF HasField(k) THEN f ELSE a
SrcExpect(k, f, a, content) == LET g == Governing(k, f, a) IN IF g \in ObjCodes /\ content = g THEN "typed" ELSE "error"
ObjSrcCases == {[kind |-> "objsrc", carrier |-> k, field |-> f, attr |-> a, content |-> ct, code |-> Governing(k, f, a), name |-> "", dir |-> 0, enc |-> x,
                 expect |-> SrcExpect(k, f, a, ct)] :
                  k \in Carriers, f \in {2, 4, 7, 127}, a \in {0, 2, 3, 7}, ct \in {2, 3, 4, 7}, x \in Encodings}
Cases == {o \in OpCases : o.status \in Statuses(o.dir) /\ (o.ver = 4 \/ o.status = 0)} \cup OpRegCases \cup ObjCases \cup AttrCases \cup {o \in ObjSrcCases : (HasField(o.carrier) \/ o.field = 2) /\ (HasAttrs(o.carrier) \/ o.attr = 0) /\ o.content \in {o.field, o.attr}}
Init == c \in Cases
Next == UNCHANGED c
Spec == Init /\ [][Next]_c
TablesOK == TablesPinned /\ ClassesPartition
CaseOK == c.expect \in {"typed", "opaque", "error", "opaque-or-error"}
Emit == PrintT(<<"CASE", ToJson(c)>>)
=============================================================================
