SPECIFICATION Spec
INVARIANTS TablesOK CaseOK
CHECK_DEADLOCK FALSE
