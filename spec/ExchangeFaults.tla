---------------------------- MODULE ExchangeFaults ----------------------------
(***************************************************************************)
(* C11 at the granularity of transport operations.  One client is used      *)
(* sequentially; every exchange - the version negotiation inside Dial and   *)
(* every later call - writes its request and reads its response in one or   *)
(* more reads.  A fault plan names the exchange, the point of the exchange   *)
(* (the write, the first read, a read in the middle of the response, the     *)
(* read after the complete response), the kind of failure and whether only   *)
(* one connection or every connection fails there.                           *)
(*                                                                           *)
(* The machine is the client's recovery policy as the property states it:   *)
(* a connection that failed is never used again; a call may replace a dead   *)
(* connection once for free before it has transmitted anything and at most   *)
(* three more times afterwards; it answers with the response the server      *)
(* produced for it on the connection it is read from, or with an error, and  *)
(* an error needs a failure during that very call.                           *)
(***************************************************************************)
EXTENDS Naturals, Sequences, FiniteSets, TLC, Json

CONSTANTS MaxExch        \* exchanges per run (the first one is the negotiation inside Dial)

Points == {"write", "read-first", "read-mid", "after-reply"}
\* a write fails at the client's socket (eof: the peer has gone, broken pipe; closed; reset; short write); a read fails because of what
\* the peer does (eof: it closes; reset) - before replying, after a part of the response, or right after the complete response
\* ("junk" before the reply: the server sends a well-framed message the client cannot decode - an unsolicited server-to-client request
\* with vendor content - and then its reply; the connection is of no use any more, whatever the server sends on it afterwards)
\* ("srvreq" before the reply: the server sends a well-formed REQUEST message of its own - a Query, a Notify - and then its reply. That is
\* not a failure: the client is no server, it lets the message pass and goes on waiting for its response on the same connection)
KindsAt(p) == IF p = "write" THEN {"eof", "closed", "reset", "short"} ELSE IF p = "read-first" THEN {"eof", "reset", "junk", "srvreq"}
              ELSE IF p = "after-reply" THEN {"eof", "reset", "with-reply"} ELSE {"eof", "reset"}
\* refuse: the server refuses the version negotiation it receives on the SECOND connection (an error item instead of the version list):
\* when a failure inside Dial has made the client reconnect, the negotiation ends with an error on a connection that is alive - Dial
\* fails, and the connection it had replaced the failed one with is given up like any other (closed, nothing left behind)
NoPlan == [pt |-> "none", kind |-> "none", persist |-> FALSE, exch |-> 0, refuse |-> FALSE]
AllPlans == UNION {{[pt |-> p, kind |-> k, persist |-> b, exch |-> e, refuse |-> r] : k \in KindsAt(p), b \in BOOLEAN, e \in 1..2, r \in BOOLEAN} : p \in Points}
Plans == {NoPlan} \cup {q \in AllPlans : q.refuse => (q.exch = 1 /\ q.pt # "after-reply" /\ ~q.persist /\ q.kind # "srvreq")}

VARIABLES plan, exch, pc, gen, dead, sent, replied, tries, dials, attempts, budget, failedNow, fired, result,
          idleDeath      \* the connection died while no call was using it: the client learns it when it next uses the connection
vars == <<plan, exch, pc, gen, dead, sent, replied, tries, dials, attempts, budget, failedNow, fired, result, idleDeath>>

Init == /\ plan \in Plans /\ exch = 0 /\ pc = "idle" /\ gen = 0 /\ dead = FALSE /\ sent = FALSE /\ replied = FALSE
        /\ tries = 0 /\ dials = 0 /\ attempts = 0 /\ budget = 3 /\ failedNow = FALSE /\ fired = 0 /\ result = <<>> /\ idleDeath = FALSE

\* the fault applies to the current connection: in the planned exchange (and, when persistent, in every later one), once per
\* connection; a fault that is not persistent fires once in the whole run
Applies == /\ plan.pt # "none" /\ pc = "busy" /\ ~dead /\ gen > 0
           /\ IF plan.persist THEN exch >= plan.exch ELSE exch = plan.exch /\ fired = 0

\* (a connection that died while it was idle counts as a failure of the call that finds it dead; a connection a call has seen
\* fail does not: the next call must not pay for it)
Begin == /\ pc = "idle" /\ exch < MaxExch
         /\ exch' = exch + 1 /\ pc' = "busy" /\ tries' = 0 /\ dials' = 0 /\ attempts' = 0 /\ budget' = 3
         /\ failedNow' = idleDeath /\ idleDeath' = FALSE
         /\ sent' = FALSE /\ replied' = FALSE
         /\ UNCHANGED <<plan, gen, dead, fired, result>>

\* a new connection replaces a missing or dead one: free before the call has used any connection, from the budget afterwards
Dial == /\ pc = "busy" /\ (gen = 0 \/ dead)
        /\ IF attempts = 0 THEN budget' = budget ELSE budget > 0 /\ budget' = budget - 1
        /\ gen' = gen + 1 /\ dead' = FALSE /\ sent' = FALSE /\ replied' = FALSE /\ dials' = dials + 1
        /\ UNCHANGED <<plan, exch, pc, tries, attempts, failedNow, fired, result, idleDeath>>

\* the request is written; the server has received it completely
Rx == /\ pc = "busy" /\ gen > 0 /\ ~dead /\ ~sent
      /\ ~(Applies /\ plan.pt = "write")
      /\ sent' = TRUE /\ tries' = tries + 1 /\ attempts' = attempts + 1
      /\ UNCHANGED <<plan, exch, pc, gen, dead, replied, dials, budget, failedNow, fired, result, idleDeath>>

FaultWrite == /\ Applies /\ plan.pt = "write" /\ ~sent
              /\ dead' = TRUE /\ failedNow' = TRUE /\ fired' = fired + 1 /\ attempts' = attempts + 1
              /\ UNCHANGED <<plan, exch, pc, gen, sent, replied, tries, dials, budget, result, idleDeath>>

Reply == /\ pc = "busy" /\ sent /\ ~replied /\ replied' = TRUE
         /\ UNCHANGED <<plan, exch, pc, gen, dead, sent, tries, dials, attempts, budget, failedNow, fired, result, idleDeath>>

\* a read fails: before any byte of the response was read (whether or not the server has replied), or in the middle of it
FaultRead == /\ Applies /\ sent /\ plan.kind # "srvreq"
             /\ \/ plan.pt = "read-first"
                \/ plan.pt = "read-mid" /\ replied
             /\ dead' = TRUE /\ failedNow' = TRUE /\ fired' = fired + 1
             /\ UNCHANGED <<plan, exch, pc, gen, sent, replied, tries, dials, attempts, budget, result, idleDeath>>

Refused == plan.refuse /\ exch = 1 /\ gen = 2
\* the negotiation was answered with a refusal: Dial fails and gives the connection up
RetRefused == /\ pc = "busy" /\ replied /\ ~dead /\ Refused
              /\ result' = Append(result, "err") /\ pc' = "idle" /\ dead' = TRUE
              /\ UNCHANGED <<plan, exch, gen, sent, replied, tries, dials, attempts, budget, failedNow, fired, idleDeath>>

\* ("with-reply": the server closes right after writing its reply, before the client has read it - the reply and the end of the stream
\* reach the client together. The reply is there: the call gets it; the connection is found dead by the next call)
FaultWithReply == /\ Applies /\ plan.pt = "after-reply" /\ plan.kind = "with-reply" /\ replied /\ ~idleDeath
                  /\ idleDeath' = TRUE /\ fired' = fired + 1
                  /\ UNCHANGED <<plan, exch, pc, gen, dead, sent, replied, tries, dials, attempts, budget, failedNow, result>>

\* the response was read completely from a connection that had not failed
RetResp == /\ pc = "busy" /\ replied /\ ~dead /\ ~Refused
           /\ result' = Append(result, "resp") /\ pc' = "idle" /\ dead' = idleDeath
           /\ UNCHANGED <<plan, exch, gen, sent, replied, tries, dials, attempts, budget, failedNow, fired, idleDeath>>

\* the connection fails after the exchange is over (the read that waits for the next response)
FaultAfter == /\ plan.pt = "after-reply" /\ plan.kind # "with-reply" /\ pc = "idle" /\ ~dead /\ gen > 0 /\ result # <<>> /\ result[Len(result)] = "resp"
              /\ IF plan.persist THEN exch >= plan.exch ELSE exch = plan.exch /\ fired = 0
              /\ dead' = TRUE /\ fired' = fired + 1 /\ idleDeath' = TRUE
              /\ UNCHANGED <<plan, exch, pc, gen, sent, replied, tries, dials, attempts, budget, failedNow, result>>

\* giving up needs a failure during this call
RetErr == /\ pc = "busy" /\ failedNow
          /\ result' = Append(result, "err") /\ pc' = "idle"
          /\ UNCHANGED <<plan, exch, gen, dead, sent, replied, tries, dials, attempts, budget, failedNow, fired, idleDeath>>

Next == Begin \/ Dial \/ Rx \/ FaultWrite \/ Reply \/ FaultRead \/ FaultWithReply \/ RetResp \/ RetRefused \/ FaultAfter \/ RetErr
Spec == Init /\ [][Next]_vars /\ WF_vars(Next)

TypeOK == /\ tries \in 0..8 /\ dials \in 0..8 /\ budget \in 0..3 /\ gen \in Nat /\ exch \in 0..MaxExch
AtMostFour == tries <= 4 /\ dials <= 4
\* a failure that does not persist is survived: the exchange after a failed one succeeds, and so does every exchange the failure
\* did not hit
Recovers == \A i \in 1..Len(result) :
              result[i] = "err" => /\ plan.pt # "none" /\ plan.kind # "srvreq"
                                   /\ (~plan.persist => IF plan.pt = "after-reply" THEN i = plan.exch + 1 ELSE i = plan.exch)
                                   /\ (plan.persist => i >= plan.exch)
\* a failure after the complete response does not cost that call its response
AfterReplyHarmless == plan.pt = "after-reply" /\ Len(result) >= plan.exch /\ (~plan.persist \/ plan.exch = 1) => result[plan.exch] = "resp"
Inv == TypeOK /\ AtMostFour /\ Recovers /\ AfterReplyHarmless
\* every exchange ends
Ends == <>[](exch = MaxExch /\ pc = "idle")

\* case generation: the plans
Emit == exch = 0 /\ pc = "idle" /\ gen = 0 => PrintT(<<"CASE", ToJson(plan)>>)
=============================================================================
