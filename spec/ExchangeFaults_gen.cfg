\* the fault plans, one CASE line each
INIT Init
NEXT Next
CONSTANTS
  MaxExch = 0
INVARIANTS Emit
CHECK_DEADLOCK FALSE
