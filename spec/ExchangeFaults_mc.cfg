\* C11 at the granularity of transport operations: every fault plan, negotiation + 3 calls
SPECIFICATION Spec
CONSTANTS
  MaxExch = 4
INVARIANTS Inv
PROPERTIES Ends
CHECK_DEADLOCK FALSE
