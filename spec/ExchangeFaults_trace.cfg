SPECIFICATION TraceSpec
CONSTANTS
  MaxExch = 4
INVARIANTS TraceInv
CONSTRAINT HighWater
POSTCONDITION TraceAccepted
CHECK_DEADLOCK FALSE
