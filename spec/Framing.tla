------------------------------ MODULE Framing ------------------------------
(***************************************************************************)
(* ttlv.Stream.Recv over a transport that chunks the byte stream any way   *)
(* it likes (C07).  The stream is a sequence of messages; message i        *)
(* announces a total length A[i] (8-byte header + padded body); only the   *)
(* first `trunc` bytes of the stream ever arrive, then the transport       *)
(* reports end of stream.  The receiver is called repeatedly; each call    *)
(* starts with a fresh 512-byte buffer, needs 8 bytes, learns the total    *)
(* from the header, asks the transport for exactly the missing bytes of    *)
(* THIS message (never more), and delivers when the message is complete.   *)
(* The transport is the environment: it answers a read of r bytes with any *)
(* 1 <= n <= min(r, available) bytes, possibly together with the           *)
(* end-of-stream indication when these are the last bytes (io.Reader       *)
(* allows n > 0 with io.EOF), or with end of stream when nothing is left.  *)
(***************************************************************************)
EXTENDS Naturals, Sequences, FiniteSets, TLC

CONSTANTS Streams,   \* set of records [A: sequence of announced totals, bad: indices of malformed messages, trunc: bytes available, max: limit or 0]
          Chunks     \* candidate chunk sizes besides "all requested" and "all available"

VARIABLES A, trunc, max,           \* the run's parameters (chosen in Init / bound by the trace's reset event)
          bad,                     \* the messages whose content cannot be decoded (a fixed-width item announcing another width, ...):
                                   \* the extent of a message is what its header announces, whatever the type byte says; such a message
                                   \* is received in full, reported as an encoding error, and the stream stays in step
          pc,                      \* "idle" | "reading" | "failed"
          pos,                     \* bytes the transport has handed over so far
          i,                       \* index of the message being received
          read, need, cap,         \* Recv's locals: bytes of this message read, bytes needed, buffer capacity
          eofPending,              \* the transport already signalled end of stream together with the last bytes
          out                      \* results of the Recv calls so far: <<"msg", k, consumed>> or <<"err", kind, consumed>>
vars == <<A, trunc, max, bad, pc, pos, i, read, need, cap, eofPending, out>>

RECURSIVE Sum(_, _)
Sum(s, k) == IF k = 0 THEN 0 ELSE s[k] + Sum(s, k - 1)
Total(s) == Sum(s, Len(s))
Min(a, b) == IF a < b THEN a ELSE b
MaxOf(a, b) == IF a > b THEN a ELSE b

Init == /\ \E s \in Streams : A = s.A /\ trunc = s.trunc /\ max = s.max /\ bad = s.bad
        /\ pc = "idle" /\ pos = 0 /\ i = 1 /\ read = 0 /\ need = 8 /\ cap = 512 /\ eofPending = FALSE /\ out = <<>>

Avail == trunc - pos
Requested == need - read

\* a Recv call begins (the caller keeps calling until an error is returned)
RecvStart == /\ pc = "idle"
             /\ pc' = "reading" /\ read' = 0 /\ need' = 8 /\ cap' = 512
             /\ UNCHANGED <<A, trunc, max, bad, pos, i, eofPending, out>>

\* the transport has nothing left: the read fails; Recv returns an error (never a message)
ReadEOF == /\ pc = "reading" /\ (Avail = 0 \/ eofPending)
           /\ pc' = "failed"
           /\ out' = Append(out, <<"err", IF read = 0 THEN "eof-clean" ELSE "eof-inside", pos>>)
           /\ UNCHANGED <<A, trunc, max, bad, pos, i, read, need, cap, eofPending>>

\* the transport hands over n bytes (with = TRUE: together with the end-of-stream indication)
ReadChunk(n, with) ==
    /\ pc = "reading" /\ ~eofPending /\ Avail > 0
    /\ n >= 1 /\ n <= Min(Requested, Avail)
    /\ with => (n = Avail)
    /\ LET r2 == read + n
           announced == IF i <= Len(A) THEN A[i] ELSE 8
           need2 == IF r2 >= 8 THEN announced ELSE 8
       IN /\ pos' = pos + n
          /\ eofPending' = with
          /\ IF max > 0 /\ need2 > max
             THEN \* rejected before the buffer is grown to the announced size
                  /\ pc' = "failed" /\ out' = Append(out, <<"err", "toobig", pos + n>>)
                  /\ read' = r2 /\ need' = need2 /\ UNCHANGED <<cap, i>>
             ELSE IF r2 >= need2
             THEN /\ pc' = "idle" /\ out' = Append(out, <<IF i \in bad THEN "bad" ELSE "msg", i, pos + n>>)
                  /\ i' = i + 1 /\ read' = r2 /\ need' = need2 /\ UNCHANGED cap
             ELSE \/ /\ read' = r2 /\ need' = need2
                     /\ cap' = MaxOf(cap, need2)       \* the buffer grows to the announced size, never beyond
                     /\ UNCHANGED <<pc, out, i>>
                  \/ \* the message is still incomplete and the transport said "end of stream" with these bytes:
                     \* the receiver may give up at once instead of issuing a read that can only fail
                     /\ with
                     /\ pc' = "failed" /\ out' = Append(out, <<"err", "eof-inside", pos + n>>)
                     /\ read' = r2 /\ need' = need2 /\ UNCHANGED <<cap, i>>
    /\ UNCHANGED <<A, trunc, max, bad>>

ChunkChoices == Chunks \cup {Requested, Avail}
Next == \/ RecvStart \/ ReadEOF
        \/ \E n \in ChunkChoices : \E with \in BOOLEAN : ReadChunk(n, with)
Spec == Init /\ [][Next]_vars

-----------------------------------------------------------------------------
Msgs == {k \in 1..Len(out) : out[k][1] \in {"msg", "bad"}}     \* the messages received in full, decodable or not
InOrder == \A k \in Msgs : out[k][2] = k                      \* the k-th result is message k: in order, none skipped
ExactExtent == \A k \in Msgs : out[k][3] = Sum(A, out[k][2])  \* consumed exactly the bytes of messages 1..k
OnlyCompleteMessages == \A k \in Msgs : Sum(A, out[k][2]) <= trunc
TruncationIsError ==
    pc = "failed" => /\ out[Len(out)][1] = "err"
                     /\ \A k \in 1..(Len(out) - 1) : out[k][1] \in {"msg", "bad"}
NeverBeyondMessage == pc = "reading" => pos + Requested <= Sum(A, Min(i, Len(A))) + (IF i > Len(A) THEN 8 ELSE 0)
NoOverBuffer == /\ pc = "reading" => cap <= MaxOf(512, IF i <= Len(A) THEN A[i] ELSE 8)
                /\ max > 0 => cap <= MaxOf(512, max)
BadIsReported == \A k \in Msgs : (out[k][1] = "bad") <=> (out[k][2] \in bad)
Inv == BadIsReported /\ InOrder /\ ExactExtent /\ OnlyCompleteMessages /\ TruncationIsError /\ NeverBeyondMessage /\ NoOverBuffer

\* liveness flavour checked as a state property: when everything arrived, everything is delivered
AllDelivered == (pc = "failed" /\ trunc = Total(A) /\ (max = 0 \/ \A k \in 1..Len(A) : A[k] <= max)) => Cardinality(Msgs) = Len(A)
=============================================================================
