SPECIFICATION Spec
CONSTANTS
  Streams <- BigStreams
  Chunks <- BigChunks
INVARIANTS Inv AllDelivered
CONSTRAINT BigConstraint
CHECK_DEADLOCK FALSE
