SPECIFICATION Spec
CONSTANTS
  Streams <- SmallStreams
  Chunks <- SmallChunks
INVARIANTS Inv AllDelivered
CHECK_DEADLOCK FALSE
