SPECIFICATION TraceSpec
CONSTANTS
  Streams = {}
  Chunks = {}
INVARIANTS TraceInv
CONSTRAINT HighWater
POSTCONDITION TraceAccepted
CHECK_DEADLOCK FALSE
