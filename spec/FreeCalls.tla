----------------------------- MODULE FreeCalls -----------------------------
(***************************************************************************)
(* C10 under real parallelism: many goroutines call one client at the same *)
(* time through every public entry point (no gate controller).  At this    *)
(* grain a call is: started with an id, returned with the id found in the  *)
(* response, or with an error.  A call only ever returns its own id.       *)
(***************************************************************************)
EXTENDS Naturals, TLC
CONSTANTS Callers, Ids
VARIABLES cur            \* cur[k]: the id of the call goroutine k is making (0: none)
Init == cur = [k \in Callers |-> 0]
Call(k, id) == cur[k] = 0 /\ id \in Ids \ {cur[j] : j \in Callers} /\ cur' = [cur EXCEPT ![k] = id]
RetOwn(k) == cur[k] # 0 /\ cur' = [cur EXCEPT ![k] = 0]
RetErr(k) == cur[k] # 0 /\ cur' = [cur EXCEPT ![k] = 0]
Next == \E k \in Callers : RetOwn(k) \/ RetErr(k) \/ \E id \in Ids : Call(k, id)
Spec == Init /\ [][Next]_cur
Distinct == \A j, k \in Callers : j # k /\ cur[j] # 0 => cur[j] # cur[k]
=============================================================================
