SPECIFICATION Spec
CONSTANTS
  Callers = {1, 2, 3}
  Ids = {1, 2, 3, 4}
INVARIANTS Distinct
CHECK_DEADLOCK FALSE
