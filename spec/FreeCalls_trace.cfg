SPECIFICATION TraceSpec
CONSTANTS
  Callers = {1, 2, 3}
  Ids = {1}
CONSTRAINT HighWater
POSTCONDITION TraceAccepted
CHECK_DEADLOCK FALSE
