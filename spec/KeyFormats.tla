------------------------------ MODULE KeyFormats ------------------------------
(***************************************************************************)
(* Key registration formats and accessor preconditions (C14).              *)
(*                                                                         *)
(* Part 1 - the decision table of the client's Register builders: key kind *)
(* x requested format x negotiated protocol version |-> object type and    *)
(* Key Format Type of the registered object (transparent EC keys use the   *)
(* ECDSA structures before KMIP 1.3 and the EC structures from 1.3 on; a   *)
(* requested format set selects the first applicable format in the kind's  *)
(* precedence order, none applicable: the kind's default).  The case is then transported (wire encoding x version) and   *)
(* the key extracted with the accessors must equal the original.           *)
(*                                                                         *)
(* Part 2 - presence patterns: a decodable object may lack any optional    *)
(* part (no key value, no plain value, material variant not matching the   *)
(* format, missing transparent components); every accessor must then       *)
(* return an error, never panic.                                           *)
(***************************************************************************)
EXTENDS Naturals, Sequences, FiniteSets, TLC, Json

Kinds == {"rsa-priv", "rsa-pub", "ec-priv", "ec-pub", "sym"}
FormatNames == {"PKCS1", "PKCS8", "X509", "SEC1", "RAW", "Transparent"}
\* WithKeyFormat takes a bit set; requested sets of at most two formats are enumerated (the empty set: no format requested)
Formats == {F \in SUBSET FormatNames : Cardinality(F) <= 2}
Versions == 0..4
Encodings == {"ttlv", "xml", "json", "stream"}      \* stream: binary through the client/server connection (ttlv.Stream), further messages exchanged before extraction
Curves == {"P-224", "P-256", "P-384", "P-521"}

\* the formats that apply to a kind, in the order in which the selector looks for them; the first is the kind's default
Prec(k) == CASE k = "rsa-priv" -> <<"PKCS1", "PKCS8", "Transparent">>
             [] k = "rsa-pub" -> <<"PKCS1", "X509", "Transparent">>
             [] k = "ec-priv" -> <<"SEC1", "PKCS8", "Transparent">>
             [] k = "ec-pub" -> <<"X509", "Transparent">>
             [] k = "sym" -> <<"RAW", "Transparent">>
Effective(k, F) == LET hits == {i \in 1..Len(Prec(k)) : Prec(k)[i] \in F}
                   IN IF hits = {} THEN Prec(k)[1] ELSE Prec(k)[CHOOSE i \in hits : \A j \in hits : i <= j]

ObjectType(k) == CASE k \in {"rsa-priv", "ec-priv"} -> "PrivateKey" [] k \in {"rsa-pub", "ec-pub"} -> "PublicKey" [] k = "sym" -> "SymmetricKey"
KeyFormatType(k, f, v) ==
  LET e == Effective(k, f) IN
  CASE e = "PKCS1" -> "PKCS_1" [] e = "PKCS8" -> "PKCS_8" [] e = "X509" -> "X_509" [] e = "SEC1" -> "ECPrivateKey" [] e = "RAW" -> "Raw"
    [] e = "Transparent" ->
         CASE k = "rsa-priv" -> "TransparentRSAPrivateKey" [] k = "rsa-pub" -> "TransparentRSAPublicKey" [] k = "sym" -> "TransparentSymmetricKey"
           [] k = "ec-priv" -> IF v >= 3 THEN "TransparentECPrivateKey" ELSE "TransparentECDSAPrivateKey"
           [] k = "ec-pub" -> IF v >= 3 THEN "TransparentECPublicKey" ELSE "TransparentECDSAPublicKey"

VARIABLE c
CurvesOf(k) == IF k \in {"ec-priv", "ec-pub"} THEN Curves ELSE {"-"}
RegCases == UNION {{[part |-> "register", kind |-> k, format |-> f, ver |-> v, enc |-> x, curve |-> cu,
                     objtype |-> ObjectType(k), kft |-> KeyFormatType(k, f, v)] :
                      f \in Formats, v \in Versions, x \in Encodings, cu \in CurvesOf(k)} : k \in Kinds}

\* presence patterns
ObjKinds == {"SymmetricKey", "PrivateKey", "PublicKey", "SecretData", "Certificate", "OpaqueObject", "Template", "SplitKey", "PGPKey"}
\* "empty-value" / "short-value": the parameters of the format (curve, modulus) are valid, the value itself (point, private value, key
\* bytes) is empty / one byte long
\* "wrapped-bare": a wrapped key value (byte string) without the optional Key Wrapping Data
Missing == {"none", "keyvalue", "plain", "material", "wrong-variant", "component", "wrapped", "wrapped-bare", "empty-value", "short-value"}
KFTs == {"Raw", "PKCS_1", "PKCS_8", "X_509", "ECPrivateKey", "TransparentSymmetricKey", "TransparentRSAPrivateKey", "TransparentRSAPublicKey",
         "TransparentECDSAPrivateKey", "TransparentECDSAPublicKey", "TransparentECPrivateKey", "TransparentECPublicKey", "Opaque"}
Accessors == {"SecretString", "Secret", "SymmetricKey", "X509Certificate", "PemCertificate", "RsaPrivateKey", "EcdsaPrivateKey", "PrivateKey",
              "PemPrivateKey", "RsaPublicKey", "EcdsaPublicKey", "PublicKey", "PemPublicKey"}
PresenceCases == {[part |-> "presence", obj |-> o, kft |-> t, missing |-> m] : o \in {"SymmetricKey", "PrivateKey", "PublicKey", "SecretData"}, t \in KFTs, m \in Missing}
                 \cup {[part |-> "presence", obj |-> o, kft |-> "Raw", missing |-> "none"] : o \in ObjKinds}
\* transparent RSA private keys: only the modulus is mandatory; any subset of the other components may be present
RSAComps == {"D", "E", "P", "Q", "DP", "DQ", "QINV"}
Expect(S) == IF {"D", "E", "P", "Q"} \subseteq S THEN "key" ELSE IF {"D", "E"} \subseteq S THEN "key-or-error" ELSE "error"
CompCases == {[part |-> "rsa-components", comps |-> S, expect |-> Expect(S)] : S \in SUBSET RSAComps}
Init == c \in RegCases \cup PresenceCases \cup CompCases
Next == UNCHANGED c
Spec == Init /\ [][Next]_c

\* sanity of the table: every kind/format/version selects exactly one format type, transparent EC switches at 1.3 only
TableOK == c.part = "register" =>
             /\ c.kft \in KFTs
             /\ (c.kind = "ec-priv" /\ Effective(c.kind, c.format) = "Transparent") => (c.kft = "TransparentECPrivateKey" <=> c.ver >= 3)
             /\ (Effective(c.kind, c.format) # "Transparent") => KeyFormatType(c.kind, c.format, 0) = KeyFormatType(c.kind, c.format, 4)
             /\ (Cardinality(c.format) = 1 /\ c.format \subseteq {Prec(c.kind)[i] : i \in 1..Len(Prec(c.kind))}) => {Effective(c.kind, c.format)} = c.format
             /\ (c.format = {}) => Effective(c.kind, c.format) = Prec(c.kind)[1]
Emit == PrintT(<<"CASE", ToJson(c)>>)
=============================================================================
