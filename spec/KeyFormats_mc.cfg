SPECIFICATION Spec
INVARIANTS TableOK
CHECK_DEADLOCK FALSE
