------------------------------ MODULE MCBatch ------------------------------
(* Model-checking / case-generation wrapper of Batch.tla.                  *)
EXTENDS Batch, Json

\* B1 export: every finished request (a terminal history) is printed once as JSON.
Emit == \A r \in Rids : st[r] = "done" => PrintT(<<"CASE", ToJson(History(r))>>)
=============================================================================
