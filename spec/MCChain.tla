------------------------------ MODULE MCChain ------------------------------
EXTENDS Chain, Json
Emit == \A q \in Qids : Done(q) => PrintT(<<"CASE", ToJson(History(q))>>)
=============================================================================
