------------------------------ MODULE MCClient ------------------------------
(* Trap invariants for the client model: windows that TLC-generated schedules steer the real client into. *)
EXTENDS ClientConn

\* C10: the caller's context is cancelled after the request was handed to the write loop and before recv starts
TrapCancelBetween == ~(\E k \in Callers : pc[K(k)] = "rt.between" /\ cancelled[k] /\ \E k2 \in Callers : k2 # k /\ pc[K(k2)] = "rt.lock")
\* C10: a call was abandoned while its response is still going to arrive, and another caller is about to take the mutex
TrapLateResponse == ~(\E k, k2 \in Callers : k # k2 /\ result[k][1] = "err" /\ pc[K(k2)] = "rt.lock" /\ lock = 0
                        /\ \E g \in Gens : k \in pending[g] \/ (\E i \in 1..Len(c2s[g]) : c2s[g][i] = k))
\* C10: cancellation while the response is in flight (caller already in recv)
TrapCancelInRecv == ~(\E k \in Callers : pc[K(k)] = "recv.select!" /\ cancelled[k] = FALSE /\ \E g \in Gens : k \in pending[g] /\ \E k2 \in Callers : k2 # k /\ pc[K(k2)] = "rt.lock")
\* C10: the response has been read and is about to be offered when its caller is cancelled, and another caller is waiting for the mutex
TrapCancelAtOffer == ~(\E k, k2 \in Callers : \E g \in Gens : k # k2 /\ pc[R(g)] = "rl.offer" /\ rcur[g] = k /\ cancelled[k] /\ tg[K(k)] = g
                         /\ pc[K(k)] \in {"recv.select", "recv.select!"} /\ pc[K(k2)] = "rt.lock")
\* C11: the sender loaded the tx channel and teardown swapped it before the select
TrapSendAfterSwap == ~(\E k \in Callers : pc[K(k)] = "send.select" /\ tg[K(k)] # 0 /\ mtx[tg[K(k)]] = "chan" /\ tx[tg[K(k)]] = "nil")
\* C11: the write loop is about to report an error to a caller that left
TrapReportToGoneSender == ~(\E g \in Gens : pc[W(g)] = "wl.report" /\ ~(\E k \in Callers : tg[K(k)] = g /\ pc[K(k)] \in {"send.wait", "send.wait!"}))
\* C11: the connection died from a reset and the next call is about to start
TrapResetThenCall == ~(\E g \in Gens : cur = g /\ ctx[g] /\ cause[g] \in {"reset", "broken"} /\ ~closed[g] /\ lock = 0 /\ \E k \in Callers : pc[K(k)] = "rt.lock")
\* C11: Client.Close when there is no connection (after a failed reconnect)
TrapCloseNoConn == ~(cur = 0 /\ pc[X] = "cx.close")
\* C11: Client.Close while a caller is dialing
TrapCloseDuringDial == ~(pc[X] = "cx.close" /\ \E k \in Callers : pc[K(k)] = "rt.dial")
\* C11: a call after Close completed
TrapCallAfterClose == ~(pc[X] = "done" /\ \E k \in Callers : pc[K(k)] = "rt.lock")
\* C11: the read loop has gone (response channel closed) while the connection's context is not cancelled yet, and a caller has just entered the select of recv
TrapRxClosedBeforeCancel == ~(\E k \in Callers : \E g \in Gens : tg[K(k)] = g /\ pc[K(k)] = "recv.select!" /\ rxClosed[g] /\ ~ctx[g])
\* C11: a request is about to be transmitted for the fourth time
TrapFourthTry == ~(\E k \in Callers : tries[k] = 3 /\ pc[K(k)] = "send.select")
\* C11: the server closes right after replying (response and EOF both pending)
TrapCloseAfterReply == ~(\E g \in Gens : s2c[g] # <<>> /\ srvClosed[g] /\ pc[R(g)] = "rl.recv")
\* search-space focus for TrapFourthTry: the server of a generation closes only right after it read the request, and
\* loops of dead generations are not scheduled before the caller moved on (they are independent of the caller)
FocusFourth == /\ \A g \in Gens : srvClosed[g] => (c2s[g] = <<>> /\ pending[g] # {})
               /\ \A g \in Gens : s2c[g] = <<>>                \* ... and never answers
\* C11: a request has been transmitted for the fourth time on a client whose connection has served a complete exchange before
\* (the budget of a call does not depend on the history of the connection it started on)
TrapFourthTryAfterSuccess == ~(2 \in Callers /\ result[1][1] = "resp" /\ tries[2] = 4 /\ result[2][1] = "err")     \* ... and that one failed too: the call gives up
FocusAfterSuccess == /\ \A g \in Gens : srvClosed[g] => (c2s[g] = <<>> /\ pending[g] # {} /\ result[1][1] = "resp")
                     /\ \A g \in Gens : \A i \in 1..Len(s2c[g]) : s2c[g][i] = 1      \* only the first call is answered
                     /\ (2 \in Callers /\ pc[K(2)] # "none") => result[1][1] = "resp"   \* the calls are sequential
=============================================================================
