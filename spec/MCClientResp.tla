--------------------------- MODULE MCClientResp ---------------------------
EXTENDS ClientResp, Json
Emit == Done => PrintT(<<"CASE", ToJson(History)>>)
=============================================================================
