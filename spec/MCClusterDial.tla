--------------------------- MODULE MCClusterDial ---------------------------
(* Plans for the replay of ClusterDial.tla: every behaviour of MaxSteps steps is a plan (the sequence of steps taken). *)
EXTENDS ClusterDial, Json, TLCExt
VARIABLE plan
mcvars == <<vars, plan>>
MCInit == Init /\ plan = <<>>
MCNext == \/ Tick /\ plan' = Append(plan, [op |-> "tick"])
          \/ Build /\ plan' = Append(plan, [op |-> "build"])
          \/ Call /\ plan' = Append(plan, [op |-> "call"])
          \/ \E s \in Servers : Flip(s) /\ plan' = Append(plan, [op |-> "flip", s |-> s])
MCSpec == MCInit /\ [][MCNext]_mcvars
\* plans worth replaying: they end with a call or a build, and contain at least one failed walk
Interesting == steps = MaxSteps /\ plan[Len(plan)].op \in {"call", "build"}
Emit == Interesting => PrintT(<<"CASE", ToJson([plan |-> plan])>>)
=============================================================================
