--------------------------- MODULE MCClusterDial ---------------------------
(* Plans for the replay of ClusterDial.tla: every behaviour of MaxSteps steps is a plan (the sequence of steps taken). *)
EXTENDS ClusterDial, Json, TLCExt
VARIABLES plan,
          fb      \* some walk of the plan ended in the fallback and succeeded there (the first server was back)
mcvars == <<vars, plan, fb>>
MCInit == Init /\ plan = <<>> /\ fb = FALSE
FallbackHit == result' = "ok" /\ Len(attempts') >= 2 /\ attempts'[Len(attempts')] = 1
MCNext == \/ Tick /\ plan' = Append(plan, [op |-> "tick"]) /\ UNCHANGED fb
          \/ Build /\ plan' = Append(plan, [op |-> "build"]) /\ fb' = (fb \/ FallbackHit)
          \/ Call /\ plan' = Append(plan, [op |-> "call"]) /\ fb' = (fb \/ FallbackHit)
          \/ \E s \in Servers : Flip(s) /\ plan' = Append(plan, [op |-> "flip", s |-> s]) /\ UNCHANGED fb
MCSpec == MCInit /\ [][MCNext]_mcvars
\* plans worth replaying: they end with a call or a build, and contain at least one failed walk
Interesting == steps = MaxSteps /\ plan[Len(plan)].op \in {"call", "build"}
Emit == Interesting => PrintT(<<"CASE", ToJson([plan |-> plan, fb |-> fb])>>)
=============================================================================
