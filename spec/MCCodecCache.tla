---------------------------- MODULE MCCodecCache ----------------------------
EXTENDS CodecCache
\* three message types sharing member types (header and attribute plans are shared), two protocol versions
MCTypes == {"ReqGet", "ReqLocate", "RespGet", "Header", "Attribute", "KeyBlock"}
MCSub == [t \in MCTypes |-> CASE t = "ReqGet" -> {"Header"} [] t = "ReqLocate" -> {"Header", "Attribute"} [] t = "RespGet" -> {"Header", "KeyBlock", "Attribute"}
                              [] t = "KeyBlock" -> {"Attribute"} [] OTHER -> {}]
MCProcs == {1, 2, 3}
MCCalls == [p \in MCProcs |-> CASE p = 1 -> << [t |-> "ReqGet", ver |-> 0, reuse |-> FALSE], [t |-> "RespGet", ver |-> 4, reuse |-> TRUE] >>
                               [] p = 2 -> << [t |-> "ReqLocate", ver |-> 4, reuse |-> FALSE], [t |-> "ReqLocate", ver |-> 0, reuse |-> TRUE] >>
                               [] p = 3 -> << [t |-> "RespGet", ver |-> 3, reuse |-> FALSE], [t |-> "ReqGet", ver |-> 1, reuse |-> TRUE] >>]
\* a complete behaviour is exported by "violating" ~AllDone (simulation mode, one per seed)
NotAllDone == ~AllDone
=============================================================================
