----------------------------- MODULE MCFraming -----------------------------
EXTENDS Framing, Json

Lens == {8, 16, 24}
SmallA == UNION {[1..n -> Lens] : n \in 0..3}
\* every message sequence of <= 3 messages of 8/16/24 bytes x every truncation offset x limit {none, 16}
\* ... x which of the messages is malformed (none, the first, the second)
SmallStreams == UNION {{[A |-> a, bad |-> b, trunc |-> t, max |-> m] : t \in 0..Total(a), m \in {0, 16}, b \in {{}, {1}, {2}}} : a \in SmallA}
SmallChunks == {1, 2, 3, 7, 8, 9, 15}

\* messages around the initial 512-byte buffer and around the limit; announced lengths relative to the limit
BigA == {<<520>>, <<504, 16>>, <<512, 8>>, <<520, 520>>, <<1048576>>, <<1048584>>, <<8, 1048568, 8>>, <<1073741824>>,
         <<16, 600, 40, 1000>>, <<3000, 104, 9000, 24>>, <<520, 1048576>>}      \* the last three: the buffer grows more than once on one stream
BigStreams == UNION {{[A |-> a, bad |-> {}, trunc |-> t, max |-> m] :
                        t \in {Total(a), Total(a) - 1, Total(a) - 8, 8, 9, 511, 512, 513} \cap 0..Total(a),
                        m \in {0, 512, 1048576}} : a \in BigA}
BigChunks == {1, 8, 504, 512, 65536}
\* 1-byte reads of a megabyte are pointless for the model checker: bound the number of reads per message
BigConstraint == read < 8 \/ read >= need - 16 \/ read % 65536 \in {0, 8, 504, 512} \/ read <= 1024

\* behaviours for replay: the sequence of chunk decisions is kept as history
Terminal == pc = "failed"
=============================================================================
