---------------------------- MODULE MCNegotiate ----------------------------
EXTENDS Negotiate, Json
Emit == Terminal => PrintT(<<"CASE", ToJson(History)>>)
=============================================================================
