------------------------------ MODULE MCServer ------------------------------
(* Trap invariants: each ~Window is "violated" by the shortest behaviour that  *)
(* reaches a critical window of the connection / shutdown state machines; the   *)
(* counterexample is compiled into a schedule and replayed on the real server.  *)
EXTENDS Server

\* sender loaded the tx channel, teardown swapped it out before the sender selects on it
TrapSendAfterSwap == ~(\E c \in Conns : pc[M(c)] = "send.select" /\ mtx[c] = "chan" /\ tx[c] = "nil")
\* the write loop is about to report a write error to a sender that already left
TrapReportToGoneSender == ~(\E c \in Conns : pc[W(c)] = "wl.report" /\ pc[M(c)] \notin {"send.wait", "send.wait!"})
\* the read loop holds a request while the connection is torn down by the main goroutine
TrapOfferAfterCancel == ~(\E c \in Conns : pc[R(c)] = "rl.offer!" /\ ctx[c])
\* the invalid-message reply is being sent while the client has gone
TrapInvalidReplyClientGone == ~(\E c \in Conns : lastReply[c] /\ pc[M(c)] = "send.select" /\ cliClosed[c])
\* a response is handed to the write loop after the client closed
TrapWriteAfterClientClose == ~(\E c \in Conns : pc[W(c)] = "wl.send" /\ cliClosed[c])
\* the sender waits for the write while another goroutine tears the connection down
TrapWaitDuringTeardown == ~(\E c \in Conns : pc[M(c)] = "send.wait!" /\ pc[R(c)] = "term.cancel")
\* two goroutines race into terminate
TrapDoubleTerminate == ~(\E c \in Conns : pc[R(c)] = "term.enter" /\ pc[W(c)] = "term.enter")
\* C16: a connection was accepted but not yet counted when Shutdown returns
TrapAcceptedDuringShutdown == ~(pc[S] = "serve.accepted" /\ sdReturned)
TrapLateHandler == ~lateHandler
\* ... in the shape the real scheduler can follow: the read loop is already offering a request when the main
\* goroutine, accepted late, enters its select after Shutdown returned (Go then chooses among two ready cases)
TrapLateOffer == ~(\E c \in Conns : sdReturned /\ pc[R(c)] = "rl.offer!" /\ pc[M(c)] = "recv.select")
\* C16: a handler is still running when the grace timer fires
TrapHandlerOutlivesGrace == ~(\E c \in Conns : pc[M(c)] = "u.handler" /\ pc[T] = "sd.timer")
\* C16: Shutdown starts while a response is in the write loop
TrapShutdownMidResponse == ~(\E c \in Conns : pc[W(c)] = "wl.send" /\ pc[D] = "sd.recvcancel")
\* C16: Shutdown while the connect hook is running / failing
TrapShutdownDuringConnect == ~(\E c \in Conns : pc[M(c)] = "u.connect" /\ pc[D] = "sd.wait!")
\* C16: the owner closed the listener itself; Shutdown is called while a handler runs / while the connection is idle
TrapShutdownAfterOwnerClose == ~(\E c \in Conns : pc[D] = "sd.close" /\ listener = "closed" /\ pc[M(c)] = "u.handler")
TrapShutdownAfterOwnerCloseIdle == ~(\E c \in Conns : pc[D] = "sd.close" /\ listener = "closed" /\ pc[M(c)] = "recv.select!")
\* C16: the client has closed its connection while a handler of that connection runs; the read loop is about to notice
TrapClientGoneDuringHandler == ~(\E c \in Conns : pc[M(c)] = "u.handler" /\ cliClosed[c] /\ pc[R(c)] = "rl.recv")
\* ... and the read loop has torn the connection down completely while the handler still runs
TrapTornDownDuringHandler == ~(\E c \in Conns : pc[M(c)] = "u.handler" /\ cliClosed[c] /\ pc[R(c)] \in {"rl.exit", "done"})
=============================================================================
