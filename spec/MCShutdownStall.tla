-------------------------- MODULE MCShutdownStall --------------------------
(* The plans replayed on the real server: when the client stops reading, when Shutdown is called, what the client does then. *)
EXTENDS Naturals, TLC, Json
Plans == {[stall |-> s, shutdown |-> d, after |-> a] :
            s \in {"never", "before-request", "during-handler", "after-handler"},
            d \in {"idle", "during-handler", "after-handler"},
            a \in {"stay", "resume-before-grace", "resume-after-grace"}}
Useful == {p \in Plans : (p.stall = "never" => p.after = "stay") /\ (p.shutdown = "idle" => p.stall \in {"never", "before-request"})}
VARIABLE emitted
MCInit == emitted = FALSE
MCNext == emitted = FALSE /\ emitted' = TRUE /\ \A p \in Useful : PrintT(<<"CASE", ToJson(p)>>)
MCSpec == MCInit /\ [][MCNext]_emitted
=============================================================================
