------------------------------- MODULE MCWire -------------------------------
(* Bounded case spaces over Wire.tla, checked exhaustively by TLC and exported  *)
(* for replay against ttlv.MarshalTTLV / UnmarshalTTLV and the harness's        *)
(* independent parser (refwire).                                                *)
EXTENDS Wire, Json

CONSTANTS Deep,     \* BOOLEAN: the thorough tier's larger case sets (more bases, byte-level corruptions, wider structures)
          Mode      \* "trees" (C03), "mutants" (C02/C18: corrupted encodings), "noncanon" (C18: accepted non-canonical encodings)

VARIABLE c          \* the case: a record
vars == <<c>>

B(n, k) == [i \in 1..n |-> (i * 7 + k * 13) % 256]       \* n content bytes, pattern k

I4 == {<<0,0,0,0>>, <<0,0,0,1>>, <<127,255,255,255>>, <<128,0,0,0>>, <<255,255,255,255>>, <<0,0,1,0>>}
I8 == {Zeros(8), Zeros(7) \o <<1>>, <<127>> \o Rep(255, 7), <<128>> \o Zeros(7), Rep(255, 8), <<0,0,0,0,128,0,0,0>>}
Mags == {<<>>, <<1>>, <<127>>, <<128>>, <<255>>, <<1, 0>>, <<127, 255>>, <<128, 0>>, <<128, 1>>, <<255, 255>>,
         <<127>> \o Rep(255, 7), <<128>> \o Zeros(7), <<128>> \o Zeros(6) \o <<1>>, Rep(255, 8), <<1>> \o Zeros(8), <<1>> \o Zeros(7) \o <<1>>,
         <<127>> \o Rep(255, 15), <<128>> \o Zeros(15), Rep(255, 16), <<1>> \o Zeros(16), <<1, 2, 3, 4, 5, 6, 7>>, <<200, 1, 2, 3, 4, 5, 6, 7, 8, 9>>}
Bigs == {[neg |-> s, mag |-> m] : s \in BOOLEAN, m \in Mags} \ {[neg |-> TRUE, mag |-> <<>>]}
Strs == {B(n, 1) : n \in 0..17}
Tags == {4325377, 5505025, 1, 16777215, 4325420}          \* 0x420001, 0x540001, 0x000001, 0xFFFFFF, 0x42002C (a registered bit-mask tag)

Leaves(tags) ==
     {[tag |-> g, ty |-> 2, v |-> x] : g \in tags, x \in I4}
  \cup {[tag |-> g, ty |-> 5, v |-> x] : g \in tags, x \in {<<0,0,0,1>>, <<255,255,255,255>>, <<128,0,0,1>>}}
  \cup {[tag |-> g, ty |-> 10, v |-> x] : g \in tags, x \in {<<0,0,0,0>>, <<0,0,14,16>>, <<255,255,255,255>>}}
  \cup {[tag |-> g, ty |-> 3, v |-> x] : g \in tags, x \in I8}
  \cup {[tag |-> g, ty |-> 9, v |-> x] : g \in tags, x \in {Zeros(8), <<0,0,0,0,101,83,241,0>>, <<0,0,0,58>> \o <<255,244,65,127>>, <<0,0,0,58>> \o <<255,244,65,128>>, <<0,0,3,232,0,0,0,0>>, Rep(255, 8), <<255,255,255,241>> \o <<136,110,9,0>>}}
  \cup {[tag |-> g, ty |-> 6, v |-> x] : g \in tags, x \in BOOLEAN}
  \cup {[tag |-> g, ty |-> 7, v |-> x] : g \in tags, x \in {[i \in 1..Len(s) |-> 32 + (s[i] % 90)] : s \in Strs}}
  \cup {[tag |-> g, ty |-> 7, v |-> x] : g \in tags, x \in {<<97, 98, 99, 100, 101, 102, 103, 0>>, Zeros(8), <<97, 0>>, <<0>>, <<97, 98, 99, 100, 101, 102, 103, 104>> \o Zeros(8)}}   \* U+0000 is a character
  \cup {[tag |-> g, ty |-> 8, v |-> x] : g \in tags, x \in Strs}
  \cup {[tag |-> g, ty |-> 4, v |-> x] : g \in tags, x \in Bigs}

\* a small representative leaf set for building structures
L2 == {[tag |-> 4325377, ty |-> 2, v |-> <<128,0,0,0>>], [tag |-> 4325378, ty |-> 3, v |-> Rep(255, 8)],
       [tag |-> 4325379, ty |-> 4, v |-> [neg |-> TRUE, mag |-> <<128, 1>>]], [tag |-> 4325380, ty |-> 5, v |-> <<0,0,0,2>>],
       [tag |-> 4325381, ty |-> 6, v |-> TRUE], [tag |-> 4325382, ty |-> 7, v |-> <<97, 98, 99>>], [tag |-> 4325383, ty |-> 8, v |-> B(9, 2)],
       [tag |-> 4325384, ty |-> 9, v |-> <<0,0,0,0,101,83,241,0>>], [tag |-> 4325385, ty |-> 10, v |-> <<0,0,14,16>>],
       [tag |-> 5505025, ty |-> 7, v |-> <<>>], [tag |-> 4325386, ty |-> 8, v |-> <<>>]}
S1 == {[tag |-> 4325387, ty |-> 1, v |-> s] : s \in UNION {[1..n -> L2] : n \in 0..(IF Deep THEN 3 ELSE 2)}}
S1small == {[tag |-> 4325387, ty |-> 1, v |-> <<>>], [tag |-> 4325387, ty |-> 1, v |-> <<[tag |-> 4325382, ty |-> 7, v |-> <<97, 98, 99>>]>>],
            [tag |-> 4325387, ty |-> 1, v |-> <<[tag |-> 4325381, ty |-> 6, v |-> TRUE], [tag |-> 4325379, ty |-> 4, v |-> [neg |-> TRUE, mag |-> <<128, 1>>]]>>]}
S2 == {[tag |-> 4325388, ty |-> 1, v |-> s] : s \in UNION {[1..n -> (S1small \cup {[tag |-> 4325383, ty |-> 8, v |-> B(9, 2)]})] : n \in 1..3}}
S3 == {[tag |-> 4325389, ty |-> 1, v |-> <<x, y>>] : x \in S2, y \in S1small}
\* sizes beyond any initial buffer: a value of 8200 / 70000 bytes, a structure of 600 children (about 10 kB), nested
Big == {[tag |-> 4325383, ty |-> 8, v |-> B(8200, 5)], [tag |-> 4325382, ty |-> 7, v |-> [i \in 1..20000 |-> 65 + (i % 26)]],
        [tag |-> 4325387, ty |-> 1, v |-> [i \in 1..40 |-> [tag |-> 4325382, ty |-> 7, v |-> B(250 + (i % 9), i)]]],
        [tag |-> 4325388, ty |-> 1, v |-> <<[tag |-> 4325387, ty |-> 1, v |-> [i \in 1..30 |-> [tag |-> 4325382, ty |-> 7, v |-> B(i % 19, i)]]],
                                            [tag |-> 4325383, ty |-> 8, v |-> B(9000, 7)]>>]}
\* nesting: a structure inside a structure ... n levels deep (the format has no depth bound; vendor extensions and custom attribute values
\* may nest as deep as they like)
RECURSIVE Nest(_)
Nest(n) == IF n = 0 THEN [tag |-> 5505026, ty |-> 7, v |-> <<100, 101, 101, 112>>] ELSE [tag |-> 5505025 + (n % 3), ty |-> 1, v |-> <<Nest(n - 1)>>]
NestDepths == {8, 31, 32, 33, 34, 64, 100}
Nested == {Nest(n) : n \in NestDepths}
\* width: a structure of n (empty) structures, and a comb - at each of d levels k empty structures before the one that goes on
Empty(g) == [tag |-> g, ty |-> 1, v |-> <<>>]
Wide(n) == [tag |-> 4325388, ty |-> 1, v |-> [i \in 1..n |-> Empty(4325387)]]
RECURSIVE Comb(_, _)
Comb(d, k) == IF d = 0 THEN Empty(4325387) ELSE [tag |-> 4325388, ty |-> 1, v |-> [i \in 1..(k + 1) |-> IF i <= k THEN Empty(4325387) ELSE Comb(d - 1, k)]]
WideTrees == {Wide(n) : n \in {100, 127, 128, 129, 300}} \cup {Comb(12, 12), Comb(6, 40)}
MoreTags == {4325377, 4325668, 4325669, 5505025, 5570559, 1, 16777215, 8388608, 4194304}
Trees == Leaves(IF Deep THEN MoreTags ELSE Tags) \cup S1 \cup S2 \cup S3 \cup Big \cup Nested \cup WideTrees

\* ---- corrupted encodings (C02): every single-header corruption and every truncation of a few base trees
Bases == {[tag |-> 4325387, ty |-> 1, v |-> <<[tag |-> 4325382, ty |-> 7, v |-> <<97, 98, 99>>], [tag |-> 4325377, ty |-> 2, v |-> <<0,0,0,5>>]>>],
          [tag |-> 4325388, ty |-> 1, v |-> <<[tag |-> 4325387, ty |-> 1, v |-> <<[tag |-> 4325379, ty |-> 4, v |-> [neg |-> TRUE, mag |-> <<5>>]]>>],
                                              [tag |-> 4325381, ty |-> 6, v |-> TRUE]>>],
          [tag |-> 4325379, ty |-> 4, v |-> [neg |-> TRUE, mag |-> <<5>>]],
          [tag |-> 4325384, ty |-> 9, v |-> <<0,0,0,0,101,83,241,0>>]}
\* two real messages (tags of the KMIP message structures): a request of two items (Destroy, Get) and a response of one item
Txt(g, x) == [tag |-> g, ty |-> 7, v |-> x]
Int(g, n) == [tag |-> g, ty |-> 2, v |-> <<0, 0, 0, n>>]
Enu(g, n) == [tag |-> g, ty |-> 5, v |-> <<0, 0, 0, n>>]
Str(g, kids) == [tag |-> g, ty |-> 1, v |-> kids]
PVer == Str(4325481, <<Int(4325482, 1), Int(4325483, 2)>>)
ReqItem(op, id) == Str(4325391, <<Enu(4325468, op), Str(4325497, <<Txt(4325524, id)>>)>>)
ReqBase == Str(4325496, <<Str(4325495, <<PVer, Int(4325389, 2)>>), ReqItem(20, <<97, 98>>), ReqItem(10, <<99, 100>>)>>)
RespBase == Str(4325499, <<Str(4325498, <<PVer, [tag |-> 4325522, ty |-> 9, v |-> <<0,0,0,0,101,83,241,0>>], Int(4325389, 1)>>),
                           Str(4325391, <<Enu(4325468, 20), Enu(4325503, 0), Str(4325500, <<Txt(4325524, <<97, 98>>)>>)>>)>>)
MsgBases == {ReqBase, RespBase}
\* structural mutations of a tree: one child dropped, duplicated or swapped with its neighbour, at any depth (re-encoded: well-formed TTLV
\* that a typed decoder may find incomplete or out of order)
RemoveAt(q, i) == [j \in 1..(Len(q) - 1) |-> IF j < i THEN q[j] ELSE q[j + 1]]
DupAt(q, i) == [j \in 1..(Len(q) + 1) |-> IF j <= i THEN q[j] ELSE q[j - 1]]
SwapAt(q, i) == [j \in 1..Len(q) |-> IF j = i THEN q[i + 1] ELSE IF j = i + 1 THEN q[i] ELSE q[j]]
RECURSIVE Restructured(_)
Restructured(t) ==
  IF t.ty # 1 THEN {}
  ELSE {[t EXCEPT !.v = RemoveAt(t.v, i)] : i \in 1..Len(t.v)} \cup {[t EXCEPT !.v = DupAt(t.v, i)] : i \in 1..Len(t.v)}
       \cup {[t EXCEPT !.v = SwapAt(t.v, i)] : i \in 1..(Len(t.v) - 1)}
       \cup UNION {{[t EXCEPT !.v = [t.v EXCEPT ![i] = d]] : d \in Restructured(t.v[i])} : i \in 1..Len(t.v)}
L2ByType(ty) == CHOOSE l \in L2 : l.ty = ty
AllTypes == [tag |-> 4325389, ty |-> 1, v |-> <<[tag |-> 4325388, ty |-> 1, v |-> [i \in 1..9 |-> L2ByType(i + 1)]], [tag |-> 4325387, ty |-> 1, v |-> <<>>]>>]
DeepBases == Bases \cup L2 \cup S1small \cup {AllTypes}
\* header offsets inside an encoding: every position where an item header starts
RECURSIVE HeadersAt(_, _, _)
HeadersAt(b, lo, hi) ==
  IF hi - lo + 1 < 8 THEN {}
  ELSE IF b[lo + 4] >= 128 \/ FromU32(Slice(b, lo + 4, 4)) > hi - lo THEN {lo}
  ELSE LET n == FromU32(Slice(b, lo + 4, 4)) pn == n + Pad8(n) IN
       {lo} \cup (IF b[lo + 3] = 1 THEN HeadersAt(b, lo + 8, lo + 7 + n) ELSE {}) \cup HeadersAt(b, lo + 8 + pn, hi)
SetBytes(b, at, x) == [i \in 1..Len(b) |-> IF i >= at /\ i < at + Len(x) THEN x[i - at + 1] ELSE b[i]]
LenChoices(b, h) == LET rem == Len(b) - (h + 7) IN
                    {0, 1, 4, 7, 8, 9, 16, rem} \cup (IF rem > 0 THEN {rem - 1} ELSE {}) \cup {rem + 1, 2147483647}
Mutants ==
  UNION {
    LET b == Enc(t) IN
         {SubSeq(b, 1, k) : k \in 0..Len(b)}                                               \* every truncation
    \cup UNION {{SetBytes(b, h + 3, <<ty>>) : ty \in {0, 1, 2, 3, 4, 5, 6, 7, 8, 9, 10, 11, 255}} : h \in HeadersAt(b, 1, Len(b))}
    \cup UNION {{SetBytes(b, h + 4, U32(n)) : n \in LenChoices(b, h)} : h \in HeadersAt(b, 1, Len(b))}
    \cup UNION {{SetBytes(b, h + 4, <<255, 255, 255, x>>) : x \in {255, 248}} : h \in HeadersAt(b, 1, Len(b))}
    \cup UNION {{SetBytes(b, h, U24(g)) : g \in {0, 1}} : h \in HeadersAt(b, 1, Len(b))}
    \cup {b \o <<0>>, b \o Zeros(8), b \o b}
    \cup (IF Deep THEN UNION {{SetBytes(b, i, <<x>>) : x \in {0, 1, 128, 255}} : i \in 1..Len(b)} ELSE {})     \* every byte forced to a boundary value
  : t \in (IF Deep THEN DeepBases ELSE Bases) \cup MsgBases }
  \cup UNION {{Enc(d) : d \in Restructured(t)} : t \in MsgBases}

\* ---- twins (C02): two inputs that agree on the declared extent of the top-level item and differ in every byte after it; what a decoder
\* returns may depend on the declared extent only (the library ignores what follows the top-level item)
TwinBases == {t \in (IF Deep THEN DeepBases ELSE Bases) : t.ty = 1}
\* outside the extent the twin keeps every type and length byte (so that it stays as well-formed as the original) and changes every
\* tag, value and padding byte
TypeLenBytes(b) == UNION {{h + 3, h + 4, h + 5, h + 6, h + 7} : h \in HeadersAt(b, 1, Len(b))}
Twins ==
  UNION {
    LET b == Enc(t) keep == TypeLenBytes(b) IN
      {[a |-> SetBytes(b, 5, U32(n)),
        b |-> [i \in 1..Len(b) |-> IF i > 8 + n /\ i \notin keep THEN (b[i] + 1) % 256 ELSE SetBytes(b, 5, U32(n))[i]], extent |-> 8 + n] :
         n \in 0..(Len(b) - 9)}
  : t \in TwinBases }

\* ---- accepted non-canonical encodings (C18): non-zero padding, over-long big integers, odd booleans
NonCanon ==
     {U24(4325382) \o <<7>> \o U32(3) \o <<97, 98, 99>> \o p : p \in {<<1,2,3,4,5>>, <<0,0,0,0,255>>}}
  \cup {U24(4325379) \o <<4>> \o U32(Len(x)) \o x \o Zeros(Pad8(Len(x))) :
          x \in {<<5>>, <<251>>, <<0, 5>>, <<255, 251>>, Zeros(8) \o Zeros(7) \o <<5>>, Rep(255, 8) \o Rep(255, 7) \o <<251>>, <<0,0,0,0,0,0,0,0,128>>,
                 <<255, 128>>, <<0, 128>>, <<128>>, Zeros(3)}}
  \cup {U24(4325381) \o <<6>> \o U32(8) \o x : x \in {<<0,0,0,0,0,0,0,2>>, <<1,0,0,0,0,0,0,0>>, <<0,0,0,0,0,0,1,0>>, Rep(255, 8)}}
  \cup {U24(4325377) \o <<2>> \o U32(4) \o <<0,0,0,7>> \o <<9,9,9,9>>}
  \cup {U24(4325387) \o <<1>> \o U32(16) \o (U24(4325381) \o <<6>> \o U32(8) \o <<0,0,0,0,0,0,0,3>>)}

Init == CASE Mode = "trees" -> c \in {[kind |-> "tree", tree |-> t] : t \in Trees}
          [] Mode = "mutants" -> c \in {[kind |-> "bytes", bytes |-> b] : b \in Mutants}
          [] Mode = "noncanon" -> c \in {[kind |-> "bytes", bytes |-> b] : b \in NonCanon}
          [] Mode = "twins" -> c \in {[kind |-> "twins", a |-> w.a, b |-> w.b, extent |-> w.extent] : w \in Twins}
Next == UNCHANGED c
Spec == Init /\ [][Next]_vars

\* C03: what the encoding of every tree must satisfy
EncodingOK ==
  c.kind = "tree" =>
    LET b == Enc(c.tree) IN
      /\ Len(b) % 8 = 0
      /\ WellFormed(b)
      /\ Parse(b, TRUE).item = c.tree          \* round trip through the independent parser
      /\ Parse(b, FALSE).item = c.tree
      /\ Canon(b) = b
\* C02: Parse is total, never reads outside its buffer (SubSeq / indexing outside 1..Len would be a TLC error),
\* and what it accepts re-encodes to something it accepts again with the same meaning
ParseTotal ==
  c.kind = "bytes" =>
    LET r == Parse(c.bytes, FALSE) IN
      /\ r.ok \in BOOLEAN
      /\ r.ok => (Parse(Enc(r.item), TRUE).ok /\ Parse(Enc(r.item), TRUE).item = r.item)
\* C18: accepted inputs reach a fixed point after one re-encoding
FixedPoint ==
  c.kind = "bytes" =>
    LET r == Parse(c.bytes, FALSE) IN
      r.ok => (Canon(Canon(c.bytes)) = Canon(c.bytes) /\ Parse(Canon(c.bytes), FALSE).item = r.item)

\* the specification's own parser does not look beyond the declared extent of the top-level item
TwinsOK == c.kind = "twins" => LET ra == Parse(SubSeq(c.a, 1, c.extent), FALSE) rb == Parse(SubSeq(c.b, 1, c.extent), FALSE) IN ra = rb
Export ==
  IF c.kind = "tree" /\ c.tree \in Nested THEN [kind |-> "nest", depth |-> CHOOSE n \in NestDepths : Nest(n) = c.tree, bytes |-> Enc(c.tree)]   \* the driver rebuilds Nest(depth)
  ELSE IF c.kind = "tree" THEN [kind |-> "tree", tree |-> c.tree, bytes |-> Enc(c.tree)]
  ELSE IF c.kind = "twins" THEN [kind |-> "twins", bytes |-> c.a, twin |-> c.b, extent |-> c.extent, same |-> Parse(c.a, FALSE).ok = Parse(c.b, FALSE).ok]
  ELSE LET r == Parse(c.bytes, FALSE) IN
       IF r.ok THEN [kind |-> "bytes", bytes |-> c.bytes, accept |-> TRUE, tree |-> r.item, canon |-> Enc(r.item), strict |-> Parse(c.bytes, TRUE).ok]
       ELSE [kind |-> "bytes", bytes |-> c.bytes, accept |-> FALSE, why |-> r.why]
Emit == PrintT(<<"CASE", ToJson(Export)>>)
=============================================================================
