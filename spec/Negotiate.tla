----------------------------- MODULE Negotiate -----------------------------
(***************************************************************************)
(* Protocol version negotiation at kmipclient.Dial (C13).  Versions are    *)
(* 0..4 for 1.0..1.4.  The client is configured with a non-empty set C (or *)
(* an enforced version E); it offers C in descending order in a Discover   *)
(* Versions request; the server answers with an arbitrary list of distinct *)
(* versions (any subset of the versions in any order: a conformant server  *)
(* answers the intersection in descending order, others list versions the  *)
(* client did not offer, unordered or empty lists) or with "operation not  *)
(* supported".  The client scans the answer and adopts.  Then every later  *)
(* request (and the requests of a Clone) carries the adopted version.      *)
(***************************************************************************)
EXTENDS Naturals, Sequences, FiniteSets, TLC

CONSTANTS Versions,     \* e.g. 0..4
          NReq          \* number of follow-up requests observed

VARIABLES pc, C, enforced, offered, reply, best, scan, adopted, sent
vars == <<pc, C, enforced, offered, reply, best, scan, adopted, sent>>

None == 99
NotSupported == <<None>>     \* the server answers "operation not supported"
OtherError == <<98>>         \* the server answers the discovery request with any other error
\* ... among them: the reason "operation not supported" under a status that is not Failed (97: Pending, 96: Undone) - not the
\* answer of a server that lacks the operation, so no fallback to 1.0
OtherErrors == {OtherError, <<97>>, <<96>>}
Range(s) == {s[k] : k \in 1..Len(s)}
Max(S) == CHOOSE x \in S : \A y \in S : y <= x

\* all sequences of distinct versions
RECURSIVE Perms(_)
Perms(S) == IF S = {} THEN {<<>>}
            ELSE UNION {{<<x>> \o p : p \in Perms(S \ {x})} : x \in S}
RECURSIVE Desc(_)
Desc(S) == IF S = {} THEN <<>> ELSE <<Max(S)>> \o Desc(S \ {Max(S)})

\* ... and lists that also carry versions of another major release (numbered 10 * major + minor: 20 = 2.0, 21 = 2.1, 30 = 3.0), which no
\* client set contains: in front of, or after, the versions of this release
Foreign == {20, 21, 30}
Replies == UNION {Perms(S) : S \in SUBSET Versions}
           \cup UNION {{<<30, 21, 20>> \o p, p \o <<21>>, <<21>> \o p \o <<30>>} : p \in {Desc(S) : S \in SUBSET Versions}}

Init == /\ pc = "config"
        /\ C \in (SUBSET Versions) \ {{}}
        /\ enforced \in Versions \cup {None}
        /\ offered = <<>> /\ reply = <<>> /\ best = None /\ scan = 0 /\ adopted = None /\ sent = <<>>

\* no discovery when a version is enforced
Enforce == /\ pc = "config" /\ enforced # None
           /\ adopted' = enforced /\ pc' = "connected"
           /\ UNCHANGED <<C, enforced, offered, reply, best, scan, sent>>

Offer == /\ pc = "config" /\ enforced = None
         /\ offered' = Desc(C) /\ pc' = "offered"
         /\ UNCHANGED <<C, enforced, reply, best, scan, adopted, sent>>

\* the server's answer: a list, or discovery is not supported (reply = <<None>>)
Reply(r) == /\ pc = "offered"
            /\ reply' = r /\ pc' = "scan" /\ scan' = 1
            /\ UNCHANGED <<C, enforced, offered, best, adopted, sent>>

\* the client scans the list once, keeping the highest version that is in its own set
Scan == /\ pc = "scan" /\ reply \notin ({NotSupported} \cup OtherErrors) /\ scan <= Len(reply)
        /\ best' = IF reply[scan] \in C /\ (best = None \/ reply[scan] > best) THEN reply[scan] ELSE best
        /\ scan' = scan + 1
        /\ UNCHANGED <<pc, C, enforced, offered, reply, adopted, sent>>

Adopt == /\ pc = "scan"
         /\ \/ /\ reply = <<None>>                         \* fall back to 1.0 only if the client accepts it
               /\ IF 0 \in C THEN adopted' = 0 /\ pc' = "connected" ELSE adopted' = None /\ pc' = "failed"
            \/ /\ reply \in OtherErrors /\ adopted' = None /\ pc' = "failed"
            \/ /\ reply \notin ({NotSupported} \cup OtherErrors) /\ scan > Len(reply)
               /\ IF best # None THEN adopted' = best /\ pc' = "connected" ELSE adopted' = None /\ pc' = "failed"
         /\ UNCHANGED <<C, enforced, offered, reply, best, scan, sent>>

Request == /\ pc = "connected" /\ Len(sent) < NReq
           /\ sent' = Append(sent, adopted)
           /\ UNCHANGED <<pc, C, enforced, offered, reply, best, scan, adopted>>

\* The connection is lost and the client dials again for its next request. Nothing of the negotiation is redone: the version adopted (or
\* enforced) when the client was built stays the client's version, and no second offer is made. (A step that leaves every variable as it
\* is, named because the implementation has code on it - and a recorded offer after it is not a behaviour of this specification.)
Reconnect == /\ pc = "connected" /\ UNCHANGED vars

Next == Reconnect \/ Enforce \/ Offer \/ (\E r \in Replies \cup {NotSupported} \cup OtherErrors : Reply(r)) \/ Scan \/ Adopt \/ Request
Spec == Init /\ [][Next]_vars

-----------------------------------------------------------------------------
Common == C \cap Range(reply)
HighestCommon ==
    (pc = "connected" /\ enforced = None /\ reply # <<>> /\ reply # NotSupported) => adopted = Max(Common)
FailsWithoutCommon ==
    (pc \in {"connected", "failed"} /\ enforced = None /\ reply # NotSupported /\ reply # <<>>) => (pc = "failed" <=> Common = {})
EmptyListFails ==
    (pc \in {"connected", "failed"} /\ enforced = None /\ reply = <<>> /\ offered # <<>> /\ scan > 0) => pc = "failed"
Fallback ==
    (pc \in {"connected", "failed"} /\ reply = NotSupported) => IF 0 \in C THEN pc = "connected" /\ adopted = 0 ELSE pc = "failed"
AdoptedInSet ==
    pc = "connected" => IF enforced # None THEN adopted = enforced ELSE adopted \in C
RequestsCarryIt == \A k \in 1..Len(sent) : sent[k] = adopted
OfferDescending == \A k \in 1..(Len(offered) - 1) : offered[k] > offered[k + 1]

Inv == HighestCommon /\ FailsWithoutCommon /\ EmptyListFails /\ Fallback /\ AdoptedInSet /\ RequestsCarryIt /\ OfferDescending

Terminal == pc = "failed" \/ (pc = "connected" /\ Len(sent) = NReq)
History == [C |-> Desc(C), enforced |-> enforced, offered |-> offered, reply |-> reply,
            outcome |-> pc, adopted |-> adopted, sent |-> sent]
=============================================================================
