SPECIFICATION Spec
CONSTANTS
  Versions = {0, 1, 2, 3, 4}
  NReq = 3
INVARIANTS Emit
CHECK_DEADLOCK FALSE
