SPECIFICATION Spec
CONSTANTS
  Versions = {0, 1, 2, 3, 4}
  NReq = 3
INVARIANTS Inv
CHECK_DEADLOCK FALSE
