SPECIFICATION TraceSpec
CONSTANTS
  Versions = {0, 1, 2, 3, 4}
  NReq = 3
INVARIANTS TraceInv
CONSTRAINT HighWater
POSTCONDITION TraceAccepted
CHECK_DEADLOCK FALSE
