-------------------------------- MODULE Plan --------------------------------
(***************************************************************************)
(* The reflective struct codec of ttlv (encoder.go / decoder.go), as a     *)
(* semantics over an abstract PLAN (C01, C05).  The plan is data held by   *)
(* the Go program - the exported fields of every structure with their      *)
(* ttlv annotations - extracted by the harness through reflection (B4) and *)
(* handed to TLC as a constant:                                            *)
(*   Structs : sequence of [name, fields]                                  *)
(*   field   : [name, tag, kind, vmin, setver]                             *)
(*     kind "req"  value field without omitempty: always emitted           *)
(*          "opt"  pointer or omitempty: emitted iff populated             *)
(*          "rep"  slice: one item per element, same tag                   *)
(*     vmin  first protocol version (0..4 = 1.0..1.4) carrying the field,  *)
(*           0 when not gated;  setver: the field sets the version register*)
(* A population assigns a count to every field (req: 1, opt: 0..1,         *)
(* rep: 0..2).  The encoder carries a version register: none (-1) until a  *)
(* set-version field is encoded, shared by nested encoders.                *)
(***************************************************************************)
EXTENDS Integers, Sequences, FiniteSets, TLC, Json, IOUtils

Structs == JsonDeserialize(IOEnv.PLAN_FILE).structs
PinnedTags == JsonDeserialize(IOEnv.TAGS_FILE).tags        \* pinned [struct, field, tag] triples: the tag each member has on the wire
Pinned == JsonDeserialize(IOEnv.VERSIONS_FILE).gated      \* pinned [struct, field, vmin] triples (KMIP 1.1 - 1.4 additions)

SI == 1..Len(Structs)
Fields(s) == Structs[s].fields
FI(s) == 1..Len(Fields(s))
Versions == -1..4                         \* -1: no version register (no gating)

Dom(f) == CASE f.kind = "req" -> {1} [] f.kind = "opt" -> {0, 1} [] f.kind = "rep" -> {0, 1, 2}
VersionOK(f, v) == v = -1 \/ f.vmin <= v

\* ---- encoder: the tag sequence emitted for population p (a function FI(s) -> count) at version v
RECURSIVE Rep(_, _)
Rep(x, n) == IF n = 0 THEN <<>> ELSE <<x>> \o Rep(x, n - 1)
RECURSIVE EncFrom(_, _, _, _)
EncFrom(s, p, v, i) ==
  IF i > Len(Fields(s)) THEN <<>>
  ELSE LET f == Fields(s)[i] IN
       (IF VersionOK(f, v) THEN Rep(f.tag, p[i]) ELSE <<>>) \o EncFrom(s, p, v, i + 1)
EncTags(s, p, v) == EncFrom(s, p, v, 1)
\* what a reader of that encoding can know: gated-out fields are absent
Visible(s, p, v) == [i \in FI(s) |-> IF VersionOK(Fields(s)[i], v) THEN p[i] ELSE 0]

\* ---- decoder: a cursor over the child items, field by field (decoder.go)
\*   req: the item at the cursor must carry the field's tag, else error
\*   opt: tag mismatch (or end) => absent, cursor stays
\*   rep: consume while the tag matches
\*   a gated-out field is skipped only when the tag does not match: a later-version element that is present is decoded
RECURSIVE DecFrom(_, _, _, _, _)
DecFrom(s, items, v, i, cur) ==
  IF i > Len(Fields(s)) THEN [ok |-> TRUE, pop |-> <<>>]
  ELSE LET f == Fields(s)[i]
           match == cur <= Len(items) /\ items[cur] = f.tag
           RECURSIVE Run(_)
           Run(k) == IF k <= Len(items) /\ items[k] = f.tag THEN Run(k + 1) ELSE k
           n == CASE f.kind = "req" -> IF match THEN 1 ELSE IF (~VersionOK(f, v)) THEN 0 ELSE -1
                  [] f.kind = "opt" -> IF match THEN 1 ELSE 0
                  [] f.kind = "rep" -> Run(cur) - cur
       IN IF n = -1 THEN [ok |-> FALSE, pop |-> <<>>]
          ELSE LET rest == DecFrom(s, items, v, i + 1, cur + n) IN
               IF rest.ok THEN [ok |-> TRUE, pop |-> <<n>> \o rest.pop] ELSE rest
DecPop(s, items, v) == DecFrom(s, items, v, 1, 1)

-----------------------------------------------------------------------------
(* the bounded population space of a structure *)
Optional(s) == {i \in FI(s) : Fields(s)[i].kind # "req"}
MaxP(s) == [i \in FI(s) |-> IF Fields(s)[i].kind = "rep" THEN 2 ELSE 1]
MinP(s) == [i \in FI(s) |-> IF Fields(s)[i].kind = "req" THEN 1 ELSE 0]
RECURSIVE ProdFrom(_, _)
ProdFrom(s, i) == IF i > Len(Fields(s)) THEN {<<>>}
                  ELSE {<<n>> \o r : n \in Dom(Fields(s)[i]), r \in ProdFrom(s, i + 1)}
AllPops(s) == ProdFrom(s, 1)
Sparse(s) == {MinP(s), MaxP(s)}
             \cup {[MinP(s) EXCEPT ![i] = n] : i \in Optional(s), n \in {1, 2}}
             \cup {[MaxP(s) EXCEPT ![i] = 0] : i \in Optional(s)}
             \cup {[MinP(s) EXCEPT ![i] = 1, ![j] = 1] : i \in Optional(s), j \in Optional(s)}
CONSTANT FullLimit     \* structures with at most this many optional members get every population (7 quick, 9 thorough)
Pops(s) == IF Cardinality(Optional(s)) <= FullLimit THEN AllPops(s)
           ELSE {p \in Sparse(s) : \A i \in FI(s) : p[i] \in Dom(Fields(s)[i])}

VARIABLE c       \* a case [s, p, v]
HasSetVer(s) == \E i \in FI(s) : Fields(s)[i].setver
\* a structure that carries the protocol version itself (the message headers) is never encoded without one
Init == \E s \in SI : \E p \in Pops(s) : \E v \in Versions : (v = -1 => ~HasSetVer(s)) /\ c = [s |-> s, p |-> p, v |-> v]
Next == UNCHANGED c
Spec == Init /\ [][Next]_c

\* C01 at the level of element tags: what is emitted decodes to what was visible, nothing dropped or invented
RoundTrip == LET d == DecPop(c.s, EncTags(c.s, c.p, c.v), c.v) IN d.ok /\ d.pop = Visible(c.s, c.p, c.v)
\* two different visible populations never produce the same element sequence (no adjacent same-tag ambiguity)
Unambiguous == Cardinality(Optional(c.s)) <= 5 => \A q \in Pops(c.s) : (EncTags(c.s, q, c.v) = EncTags(c.s, c.p, c.v)) => Visible(c.s, q, c.v) = Visible(c.s, c.p, c.v)
\* C05: nothing introduced after V is emitted at V; everything populated and valid at V is
Gating == \A i \in FI(c.s) :
            LET f == Fields(c.s)[i]
                emitted == Cardinality({k \in 1..Len(EncTags(c.s, c.p, c.v)) : EncTags(c.s, c.p, c.v)[k] = f.tag})
                sameTag == {j \in FI(c.s) : Fields(c.s)[j].tag = f.tag}
            IN Cardinality(sameTag) = 1 => emitted = (IF VersionOK(f, c.v) THEN c.p[i] ELSE 0)
\* C05, static: the annotations extracted from the code are exactly the pinned KMIP table
GatedNow == UNION {{<<Structs[s].name, Fields(s)[i].name, Fields(s)[i].vmin>> : i \in {j \in FI(s) : Fields(s)[j].vmin # 0}} : s \in SI}
PinnedSet == {<<Pinned[k][1], Pinned[k][2], Pinned[k][3]>> : k \in 1..Len(Pinned)}
AnnotationsPinned == GatedNow = PinnedSet
\* C01, static: every member is written under the tag the KMIP specification gives it (a member's tag is derived from its name or its
\* type by a lookup in the tag registry: what is registered there decides what goes on the wire)
TagsNow == UNION {{<<Structs[s].name, Fields(s)[i].name, Fields(s)[i].tag>> : i \in FI(s)} : s \in SI}
TagsPinned == TagsNow = {<<PinnedTags[k][1], PinnedTags[k][2], PinnedTags[k][3]>> : k \in 1..Len(PinnedTags)}
\* the version register is set before any gated field can be reached: the set-version field is the first field of the headers
SetVersionFirst == \A s \in SI : \A i \in FI(s) : Fields(s)[i].setver => i = 1

Export == [struct |-> Structs[c.s].name, pop |-> c.p, ver |-> c.v, tags |-> EncTags(c.s, c.p, c.v), visible |-> Visible(c.s, c.p, c.v)]
Emit == PrintT(<<"CASE", ToJson(Export)>>)
=============================================================================
