SPECIFICATION Spec
CONSTANTS FullLimit = 9
INVARIANTS Emit
CHECK_DEADLOCK FALSE
