SPECIFICATION Spec
INVARIANTS RoundTrip Unambiguous Gating AnnotationsPinned SetVersionFirst
CHECK_DEADLOCK FALSE
