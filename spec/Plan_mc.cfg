SPECIFICATION Spec
CONSTANTS FullLimit = 7
INVARIANTS RoundTrip Unambiguous Gating AnnotationsPinned TagsPinned SetVersionFirst
CHECK_DEADLOCK FALSE
