SPECIFICATION Spec
CONSTANTS FullLimit = 9
INVARIANTS RoundTrip Unambiguous Gating AnnotationsPinned SetVersionFirst
CHECK_DEADLOCK FALSE
