SPECIFICATION Spec
CONSTANTS FullLimit = 9
INVARIANTS RoundTrip Unambiguous Gating AnnotationsPinned TagsPinned SetVersionFirst
CHECK_DEADLOCK FALSE
