------------------------------ MODULE Registry ------------------------------
(***************************************************************************)
(* Tag, enumeration and bit-mask registries (C17).  Reg is the registry of *)
(* the live library, extracted through its public API by the harness; Ref  *)
(* is the pinned registry (spec/ref/registry.ref.json: KMIP 1.0 - 1.4).    *)
(*   tags  : sequence of <<number, name>>                                  *)
(*   enums : sequence of <<tag number, tag name, <<value, name>> ... >>    *)
(*   masks : sequence of <<tag number, tag name, <<bit, name>> ... >>      *)
(* The invariants state the bijection per scope and the structural rules   *)
(* of the KMIP registry; the cases (every entry, unregistered numbers      *)
(* around them) are replayed through TagString, EnumByName / EnumName,     *)
(* BitmaskByStr and single-item XML / JSON / text round trips.             *)
(***************************************************************************)
EXTENDS Naturals, Sequences, FiniteSets, TLC, Json, IOUtils

Reg == JsonDeserialize(IOEnv.REG_FILE)
Ref == JsonDeserialize(IOEnv.REF_FILE)

VARIABLE c
Idx(s) == 1..Len(s)
Injective(s, k) == \A i, j \in Idx(s) : i # j => s[i][k] # s[j][k]
FirstTag == 4325377          \* 0x420001

TagNums(r) == {r.tags[i][1] : i \in Idx(r.tags)}
SameAsPinned == Reg = Ref
TagsBijective(r) == Injective(r.tags, 1) /\ Injective(r.tags, 2)
TagsContiguous(r) == TagNums(r) = FirstTag..(FirstTag + Len(r.tags) - 1)
EnumsOK(r) ==
  \A i \in Idx(r.enums) :
    LET e == r.enums[i] IN
      /\ e[1] \in TagNums(r)
      /\ \E k \in Idx(r.tags) : r.tags[k][1] = e[1] /\ r.tags[k][2] = e[2]
      /\ Injective(e[3], 1) /\ Injective(e[3], 2)
      /\ \A k \in Idx(e[3]) : e[3][k][1] >= 0
MasksOK(r) ==
  \A i \in Idx(r.masks) :
    LET m == r.masks[i] IN
      /\ m[1] \in TagNums(r)
      /\ Injective(m[3], 1) /\ Injective(m[3], 2)
      /\ \A k \in Idx(m[3]) : \E b \in 0..30 : m[3][k][1] = 2 ^ b
      /\ Len(m[3]) >= 1
WellFormedRegistry(r) == TagsBijective(r) /\ TagsContiguous(r) /\ EnumsOK(r) /\ MasksOK(r) /\ Injective(r.enums, 1) /\ Injective(r.masks, 1)

RegistryOK == SameAsPinned /\ WellFormedRegistry(Reg) /\ WellFormedRegistry(Ref)

\* cases: every registered entry of the PINNED registry and unregistered probes around them
NameOfTag(t) == IF \E i \in Idx(Ref.tags) : Ref.tags[i][1] = t
                THEN Ref.tags[CHOOSE i \in Idx(Ref.tags) : Ref.tags[i][1] = t][2] ELSE ""
Probes == UNION {{t + 512, t + 1024, t + 65536, t + 4096} : t \in TagNums(Ref)} \cup {4325376, FirstTag + Len(Ref.tags), FirstTag + Len(Ref.tags) + 1, 5505025, 1, 16777215,
           \* numbers wider than the three bytes of a KMIP tag: an int all the same for the library, and not the registered tag their low 24 bits spell
           16777216, 16777216 + FirstTag, 21102593, 268435456 + FirstTag + 1, 2147483647}
TagCases == {[kind |-> "tag", tag |-> t, name |-> NameOfTag(t), value |-> 0, vname |-> ""] : t \in TagNums(Ref) \cup (Probes \ TagNums(Ref))}
MaxVal(e) == CHOOSE v \in {e[3][k][1] : k \in Idx(e[3])} : \A k \in Idx(e[3]) : e[3][k][1] <= v
EnumCases == UNION {
   LET e == Ref.enums[i] IN
        {[kind |-> "enum", tag |-> e[1], name |-> e[2], value |-> e[3][k][1], vname |-> e[3][k][2]] : k \in Idx(e[3])}
   \cup {[kind |-> "enum", tag |-> e[1], name |-> e[2], value |-> v, vname |-> ""] :
            v \in ({MaxVal(e) + 1, MaxVal(e) + 256, 2147483647} \ {e[3][k][1] : k \in Idx(e[3])})}
   : i \in Idx(Ref.enums)}
MaskCases == UNION {{[kind |-> "mask", tag |-> Ref.masks[i][1], name |-> Ref.masks[i][2], value |-> Ref.masks[i][3][k][1], vname |-> Ref.masks[i][3][k][2]]
                        : k \in Idx(Ref.masks[i][3])} : i \in Idx(Ref.masks)}
\* a registered flag together with position 31, which no mask registers (a vendor flag): as an int32 the value is negative; the flag keeps
\* its name, the unregistered position is written in hexadecimal (2^31 does not fit TLC's integers: value = flag - 2^31)
MaskHighCases == UNION {{[kind |-> "mask", tag |-> Ref.masks[i][1], name |-> Ref.masks[i][2], value |-> Ref.masks[i][3][k][1] - 2147483647 - 1,
                          vname |-> Ref.masks[i][3][k][2] \o "|0x80000000"]
                        : k \in Idx(Ref.masks[i][3])} : i \in Idx(Ref.masks)}
\* masks of two flags: the same value is written by every form the library offers, one right after the other - the separator belongs
\* to the form, the names and the value do not depend on which form was used before
PairOf(m, k, j) == [kind |-> "mask2", tag |-> m[1], name |-> m[2], value |-> m[3][k][1] + m[3][j][1], vname |-> m[3][k][2] \o "|" \o m[3][j][2]]
MaskPairCases == UNION {UNION {{PairOf(Ref.masks[i], k, j) : j \in {x \in Idx(Ref.masks[i][3]) : x > k /\ (x = k + 1 \/ x = Len(Ref.masks[i][3]))}}
                                 : k \in Idx(Ref.masks[i][3])} : i \in Idx(Ref.masks)}
\* names of values looked up in an enumeration they were not registered in: names of the two neighbouring enumerations and
\* strings that look like hexadecimal numbers without the 0x prefix. A name denotes a value only in the scope it was registered in.
Lookalikes == {"EC", "CBC", "ECB", "CFB", "Bad", "FACE", "DeadBeef", "ABCDEF", "A", "Ab", "fade", "B0B", "C4", "00FF", "1F"}
NamesOf(e) == {e[3][k][2] : k \in Idx(e[3])}
ValueByName(e, n) == e[3][CHOOSE k \in Idx(e[3]) : e[3][k][2] = n][1]
Neighbour(i, d) == Ref.enums[((i - 1 + d) % Len(Ref.enums)) + 1]
NameCases == UNION {
   LET e == Ref.enums[i] IN
        {[kind |-> IF n \in NamesOf(e) THEN "name-in-scope" ELSE "name-out-of-scope", tag |-> e[1], name |-> e[2],
          value |-> IF n \in NamesOf(e) THEN ValueByName(e, n) ELSE 0, vname |-> n]
            : n \in Lookalikes \cup NamesOf(Neighbour(i, 1)) \cup NamesOf(Neighbour(i, 2))}
   : i \in Idx(Ref.enums)}
\* ... and a tag that carries no enumeration at all is no scope for any name: neither the names of some enumeration nor the names
\* several enumerations share (PGP, X_509, CTR denote different numbers in different enumerations)
EnumTagNums == {Ref.enums[i][1] : i \in Idx(Ref.enums)} \cup {Ref.masks[i][1] : i \in Idx(Ref.masks)}
PlainTags == {t \in TagNums(Ref) : t \notin EnumTagNums /\ (t % 16 = 11 \/ t = 4325387)}         \* a sample, and Attribute Value (0x42000B)
NoScopeCases == {[kind |-> "name-out-of-scope", tag |-> t, name |-> NameOfTag(t), value |-> 0, vname |-> n]
                   : t \in PlainTags, n \in {"PGP", "X_509", "CTR"} \cup NamesOf(Ref.enums[1]) \cup NamesOf(Ref.enums[2])}
\* enumerations an application registers for its own tags with its own Go types - whatever these types are called (the first two are
\* called like standard tags, the third is not): the scope of a type is the tag it was registered with. Values 1 and 2 are registered
\* as "Unlocked" and "Locked", 9 is not.
VendorTypeCases == {[kind |-> "vendortype", tag |-> 5505040 + i, name |-> <<"State", "ObjectType", "VendorKind">>[i], value |-> v,
                     vname |-> IF v = 1 THEN "Unlocked" ELSE IF v = 2 THEN "Locked" ELSE ""] : i \in 1..3, v \in {1, 2, 9}}
\* a value of one enumeration carried under the tag of another (a member of type Certificate Type declared with the tag Key Format
\* Type, ...): the writer names the value in the enumeration of its TYPE, and so does the reader - X_509 is 1 as a certificate type and 5
\* as a key format, CTR is 5 as a DRBG algorithm and 6 as a block cipher mode. (case number k of the driver's table; value: what must come back)
CrossCases == {[kind |-> "crossenum", tag |-> 0, name |-> "", value |-> k, vname |-> ""] : k \in 1..3}
Cases == CrossCases \cup TagCases \cup EnumCases \cup MaskCases \cup MaskHighCases \cup MaskPairCases \cup NameCases \cup NoScopeCases \cup VendorTypeCases

Init == c \in Cases
Next == UNCHANGED c
Spec == Init /\ [][Next]_c
CaseOK == /\ c.kind = "tag" => (c.name = "" <=> c.tag \notin TagNums(Ref))
          /\ c.kind \in {"enum", "mask"} => c.tag \in TagNums(Ref)
          /\ c.kind = "vendortype" => c.tag \notin TagNums(Ref)
Emit == PrintT(<<"CASE", ToJson(c)>>)
=============================================================================
