----------------------------- MODULE RegistryDyn -----------------------------
(***************************************************************************)
(* The registry while it changes (C17): enumeration values registered at   *)
(* run time (vendor extensions) interleaved with lookups and writes.  The  *)
(* registry of one enumeration is the set of its registered extension      *)
(* slots on top of the pinned entries; whatever the order of registrations *)
(* and lookups, a registered value is written by its one name and that     *)
(* name is read back as the value; an unregistered one is written in       *)
(* hexadecimal and its name is unknown.  Every history of MaxLen steps is  *)
(* replayed against the real registry with fresh values per history.       *)
(***************************************************************************)
EXTENDS Naturals, Sequences, FiniteSets, TLC, Json
CONSTANT MaxLen
Slots == {1, 2}
VARIABLES reg, hist
vars == <<reg, hist>>
Init == reg = {} /\ hist = <<>>
Step(op, slot, obs) == hist' = Append(hist, [op |-> op, slot |-> slot, obs |-> obs])
Register(i) == i \notin reg /\ reg' = reg \cup {i} /\ Step("register", i, "ok")
ByName(i) == UNCHANGED reg /\ Step("by-name", i, IF i \in reg THEN "value" ELSE "unknown")
ByValue(i) == UNCHANGED reg /\ Step("by-value", i, IF i \in reg THEN "name" ELSE "none")
\* lookups of a pinned entry of the same enumeration: always found, whatever was registered since
BaseByName == UNCHANGED reg /\ Step("base-by-name", 0, "value")
BaseByValue == UNCHANGED reg /\ Step("base-by-value", 0, "name")
\* the value written by the XML / JSON writers and read back
Write(i) == UNCHANGED reg /\ Step("write", i, IF i \in reg THEN "by-name" ELSE "hex")
Next == /\ Len(hist) < MaxLen
        /\ \/ \E i \in Slots : (Register(i) \/ ByName(i) \/ ByValue(i) \/ Write(i))
           \/ BaseByName
           \/ BaseByValue
Spec == Init /\ [][Next]_vars
\* the observation of a lookup is a function of the registrations before it, not of earlier lookups
RegOf(h, k) == {h[j].slot : j \in {x \in 1..(k - 1) : h[x].op = "register"}}
ObsFunctional == \A k \in 1..Len(hist) :
                   /\ (hist[k].op = "by-name" => (hist[k].obs = "value") = (hist[k].slot \in RegOf(hist, k)))
                   /\ (hist[k].op = "write" => (hist[k].obs = "by-name") = (hist[k].slot \in RegOf(hist, k)))
                   /\ (hist[k].op = "by-value" => (hist[k].obs = "name") = (hist[k].slot \in RegOf(hist, k)))
Emit == Len(hist) = MaxLen => PrintT(<<"CASE", ToJson([h |-> hist])>>)
=============================================================================
