----------------------------- MODULE RegistryDyn -----------------------------
(***************************************************************************)
(* The registry while it changes (C17): enumeration values registered at   *)
(* run time (vendor extensions) interleaved with lookups and writes.  The  *)
(* registry of one enumeration is the set of its registered extension      *)
(* slots on top of the pinned entries; whatever the order of registrations *)
(* and lookups, a registered value is written by its one name and that     *)
(* name is read back as the value; an unregistered one is written in       *)
(* hexadecimal and its name is unknown.  Every history of MaxLen steps is  *)
(* replayed against the real registry with fresh values per history.       *)
(***************************************************************************)
EXTENDS Naturals, Sequences, FiniteSets, TLC, Json
CONSTANT MaxLen
Slots == {1, 2}
VARIABLES reg,      \* registered extension slots
          nm,       \* nm[slot]: the name (1 or 2) the slot carries
          hist
vars == <<reg, nm, hist>>
Init == reg = {} /\ nm = [i \in Slots |-> i] /\ hist = <<>>
Step(op, slot, obs) == hist' = Append(hist, [op |-> op, slot |-> slot, obs |-> obs])
\* slot i is registered under the name it carries
Register(i) == i \notin reg /\ reg' = reg \cup {i} /\ UNCHANGED nm /\ Step("register", i, "ok")
\* both values are registered again with their names exchanged: afterwards each name denotes the other value, and only that one
Swap == reg = Slots /\ nm' = [i \in Slots |-> nm[3 - i]] /\ UNCHANGED reg /\ Step("swap", 0, "ok")
Holder(n) == {s \in reg : nm[s] = n}
ByName(n) == UNCHANGED <<reg, nm>> /\ Step("by-name", n, IF Holder(n) = {} THEN "unknown" ELSE IF 1 \in Holder(n) THEN "value:1" ELSE "value:2")
ByValue(i) == UNCHANGED <<reg, nm>> /\ Step("by-value", i, IF i \in reg THEN (IF nm[i] = 1 THEN "name:1" ELSE "name:2") ELSE "none")
\* lookups of a pinned entry of the same enumeration: always found, whatever was registered since
BaseByName == UNCHANGED <<reg, nm>> /\ Step("base-by-name", 0, "value")
BaseByValue == UNCHANGED <<reg, nm>> /\ Step("base-by-value", 0, "name")
\* the value written by the XML / JSON writers and read back
Write(i) == UNCHANGED <<reg, nm>> /\ Step("write", i, IF i \in reg THEN (IF nm[i] = 1 THEN "name:1" ELSE "name:2") ELSE "hex")
\* payload types are registered for a vendor operation (another registry: operation number |-> Go types, whose names an application
\* chooses freely - here they are those of a standard operation): names and numbers of the enumerations are untouched
Payloads == UNCHANGED <<reg, nm>> /\ Step("payloads", 0, "ok")
\* a registered mask is registered again with its flags followed by vendor flags: every earlier name keeps its bit, the new names take
\* the next bits, one name per bit and one bit per name (the enumerations are untouched)
MaskExtend == UNCHANGED <<reg, nm>> /\ Step("mask-extend", 0, "ok")
Next == /\ Len(hist) < MaxLen
        /\ \/ \E i \in Slots : (Register(i) \/ ByName(i) \/ ByValue(i) \/ Write(i))
           \/ Swap
           \/ BaseByName
           \/ BaseByValue
           \/ Payloads
           \/ MaskExtend
Spec == Init /\ [][Next]_vars
\* the registry is a bijection between registered slots and the names they carry, at every step
Bijective == \A n \in Slots : Cardinality(Holder(n)) <= 1
ObsFunctional == Bijective
Emit == Len(hist) = MaxLen => PrintT(<<"CASE", ToJson([h |-> hist])>>)
=============================================================================
