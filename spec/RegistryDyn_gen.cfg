SPECIFICATION Spec
CONSTANTS MaxLen = 4
INVARIANTS Emit
CHECK_DEADLOCK FALSE
