SPECIFICATION Spec
CONSTANTS MaxLen = 5
INVARIANTS Emit
CHECK_DEADLOCK FALSE
