SPECIFICATION Spec
CONSTANTS MaxLen = 4
INVARIANTS ObsFunctional
CHECK_DEADLOCK FALSE
