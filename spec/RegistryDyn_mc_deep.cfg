SPECIFICATION Spec
CONSTANTS MaxLen = 5
INVARIANTS ObsFunctional
CHECK_DEADLOCK FALSE
