SPECIFICATION Spec
INVARIANTS RegistryOK CaseOK
CHECK_DEADLOCK FALSE
