------------------------------- MODULE Server -------------------------------
(***************************************************************************)
(* kmipserver: accept loop, per-connection goroutines, teardown, shutdown  *)
(* (properties C08 and C16).                                               *)
(*                                                                         *)
(* Granularity.  Every shared-memory operation of conn.go / server.go      *)
(* (atomic flag, context, channel operation, socket, WaitGroup) is         *)
(* preceded in the code by a gate point vp("name").  A goroutine is either *)
(* parked AT a gate ("g"), or has been released from it and is executing   *)
(* or blocked in the operation that follows ("g!").  Two actions per gate: *)
(*   Release(p)   the operation after the gate takes effect (atomics,      *)
(*                cancel, close, socket write ...) or a blocking           *)
(*                operation (select, Recv, Accept, Wait) is entered;       *)
(*   Arrive(p)    the goroutine reaches its next gate: immediately for     *)
(*                non-blocking code, when a select case / I/O is ready     *)
(*                otherwise; rendezvous on unbuffered channels move both   *)
(*                partners in one action.                                  *)
(* terminate() is four gates (flag swap, cancel, tx swap, socket close)    *)
(* because the races live between them.  Constants select the code         *)
(* variant: CloseTx (terminate closes the tx channel, as in the pinned     *)
(* tree) and ErrBuf (capacity of the per-message error channel).           *)
(* The environment (clients, shutdown caller, grace timer) is part of the  *)
(* specification.                                                          *)
(***************************************************************************)
EXTENDS Naturals, Sequences, FiniteSets, TLC

CONSTANTS Conns,        \* connection ids, e.g. {1} or {1, 2}
          NReq,         \* messages a client may send per connection
          Kinds,        \* kinds of client messages: subset of {"req","enc","plain","resp","part"}
          CloseTx,      \* BOOLEAN: terminate closes the tx channel after swapping it out
          ErrBuf,       \* 0 or 1: capacity of the per-message error channel
          PlainIsEnc,   \* BOOLEAN: framed-but-undecodable requests with a plain error are reported as encoding errors
          WithShutdown, \* BOOLEAN: the Shutdown caller and the grace timer exist
          HookFail,     \* BOOLEAN: the connect hook may fail
          AcceptGuard,  \* BOOLEAN: Serve refuses connections accepted after Shutdown began (flag under a mutex)
          CliCloses     \* BOOLEAN: clients may half-close / close (FALSE keeps shutdown configurations small)

Roles == {"M", "R", "W"}
Gates == {"hc.start", "hc.newconn", "u.connect", "recv.avail", "recv.select", "u.handler", "hc.ctxcheck", "send.avail", "send.load",
          "send.select", "send.wait", "u.terminate", "hc.exit", "term.enter", "term.cancel", "term.txswap", "term.sockclose",
          "rl.enter", "rl.recv", "rl.offer", "rl.exit", "wl.enter", "wl.select", "wl.send", "wl.report", "wl.exit",
          "serve.accept", "serve.accepted", "serve.exit", "sd.close", "sd.recvcancel", "sd.wait", "sd.cancel", "sd.return", "sd.timer"}
ConnProcs == Conns \X Roles
S == <<0, "S">>   D == <<0, "D">>   T == <<0, "T">>
Procs == ConnProcs \cup {S, D, T}

VARIABLES
  pc,          \* pc[p]: "none" | "new!" | gate | gate! | "done"
  res,         \* res[p]: local result of the operation performed at Release
  ret,         \* ret[p]: where terminate() returns to
  closed, ctx, tx, txClosed, mtx, wtx,           \* conn.closed, conn ctx done, conn.tx value, channel closed, values loaded by send / writeloop
  srvClosed, cliWr, cliClosed,                   \* socket: closed by server, client closed its write side, client closed
  inbox, sentk,                                  \* bytes in flight client->server (sequence of <<kind,k>>), messages sent so far
  rcur, mcur, wcur, lastReply,                   \* message held by R / M / W; M is sending the invalid-message reply (then leaves)
  rxClosed, errch,                               \* rx closed by readloop; state of the current per-message error channel
  outbox,                                        \* responses written to the socket: <<"ok",k>> | <<"inv",k>>
  handled,                                       \* requests whose handler was invoked, in order
  hookC, termHooks,                              \* connect hook outcome, number of terminate hook calls
  listener, acceptQ, wg, recvCtx, srvCtx, timer, \* server-wide
  serveRes, sdReturned, lateHandler, panicked, shuttingDown

cvars == <<closed, ctx, tx, txClosed, mtx, wtx, srvClosed, cliWr, cliClosed, inbox, sentk, rcur, mcur, wcur, lastReply,
           rxClosed, errch, outbox, handled, hookC, termHooks>>
gvars == <<listener, acceptQ, wg, recvCtx, srvCtx, timer, serveRes, sdReturned, lateHandler, panicked, shuttingDown>>
vars == <<pc, res, ret, cvars, gvars>>

M(c) == <<c, "M">>   R(c) == <<c, "R">>   W(c) == <<c, "W">>
Conn(p) == p[1]
CtxDone(c) == ctx[c] \/ srvCtx
NoMsg == <<"none", 0>>

Init ==
  /\ pc = [p \in Procs |-> IF p = S THEN "serve.accept" ELSE "none"]
  /\ res = [p \in Procs |-> "-"] /\ ret = [p \in Procs |-> "-"]
  /\ closed = [c \in Conns |-> FALSE] /\ ctx = [c \in Conns |-> FALSE]
  /\ tx = [c \in Conns |-> "chan"] /\ txClosed = [c \in Conns |-> FALSE]
  /\ mtx = [c \in Conns |-> "-"] /\ wtx = [c \in Conns |-> "-"]
  /\ srvClosed = [c \in Conns |-> FALSE] /\ cliWr = [c \in Conns |-> FALSE] /\ cliClosed = [c \in Conns |-> FALSE]
  /\ inbox = [c \in Conns |-> <<>>] /\ sentk = [c \in Conns |-> 0]
  /\ rcur = [c \in Conns |-> NoMsg] /\ mcur = [c \in Conns |-> NoMsg] /\ wcur = [c \in Conns |-> NoMsg]
  /\ lastReply = [c \in Conns |-> FALSE]
  /\ rxClosed = [c \in Conns |-> FALSE] /\ errch = [c \in Conns |-> "none"]
  /\ outbox = [c \in Conns |-> <<>>] /\ handled = [c \in Conns |-> <<>>]
  /\ hookC = [c \in Conns |-> "none"] /\ termHooks = [c \in Conns |-> 0]
  /\ listener = "open" /\ acceptQ = <<>> /\ wg = 0 /\ recvCtx = FALSE /\ srvCtx = FALSE /\ timer = "off"
  /\ serveRes = "-" /\ sdReturned = FALSE /\ lateHandler = FALSE /\ panicked = FALSE /\ shuttingDown = FALSE

Set1(f, c, v) == [f EXCEPT ![c] = v]
Go(p, g) == pc' = [pc EXCEPT ![p] = g]
Go2(p, g, q, h) == pc' = [pc EXCEPT ![p] = g, ![q] = h]

-----------------------------------------------------------------------------
(* Release: the operation following the gate where p is parked.             *)

\* unchanged helpers
UC(vs) == UNCHANGED vs

RelM(c) ==
  LET p == M(c) g == pc[p] IN
  /\ g \in {"hc.start", "hc.newconn", "u.connect", "recv.avail", "recv.select", "u.handler", "hc.ctxcheck",
            "send.avail", "send.load", "send.select", "send.wait", "u.terminate", "hc.exit"}
  /\ CASE g = "hc.start" ->       \* newConn: the read and write loops are spawned
            /\ pc' = [pc EXCEPT ![p] = "hc.start!", ![R(c)] = "new!", ![W(c)] = "new!"]
            /\ UC(<<res, ret, cvars, gvars>>)
       [] g = "u.connect" ->      \* the connect hook returns
            /\ \E o \in (IF HookFail THEN {"ok", "fail"} ELSE {"ok"}) : hookC' = Set1(hookC, c, o)
            /\ Go(p, g \o "!")
            /\ UC(<<res, ret, closed, ctx, tx, txClosed, mtx, wtx, srvClosed, cliWr, cliClosed, inbox, sentk, rcur, mcur, wcur,
                    lastReply, rxClosed, errch, outbox, handled, termHooks, gvars>>)
       [] g \in {"recv.avail", "send.avail"} ->     \* checkAvailable
            /\ res' = [res EXCEPT ![p] = IF closed[c] \/ CtxDone(c) THEN "unavail" ELSE "avail"]
            /\ Go(p, g \o "!") /\ UC(<<ret, cvars, gvars>>)
       [] g = "u.handler" ->      \* the operation handler runs
            /\ handled' = Set1(handled, c, Append(handled[c], mcur[c][2]))
            /\ lateHandler' = (lateHandler \/ sdReturned)
            /\ Go(p, g \o "!")
            /\ UC(<<res, ret, closed, ctx, tx, txClosed, mtx, wtx, srvClosed, cliWr, cliClosed, inbox, sentk, rcur, mcur, wcur,
                    lastReply, rxClosed, errch, outbox, hookC, termHooks,
                    listener, acceptQ, wg, recvCtx, srvCtx, timer, serveRes, sdReturned, panicked, shuttingDown>>)
       [] g = "hc.ctxcheck" ->
            /\ res' = [res EXCEPT ![p] = IF CtxDone(c) THEN "aborted" ELSE "ok"]
            /\ Go(p, g \o "!") /\ UC(<<ret, cvars, gvars>>)
       [] g = "send.load" ->      \* tx.Load, make(errCh)
            /\ mtx' = Set1(mtx, c, tx[c]) /\ errch' = Set1(errch, c, "open")
            /\ Go(p, g \o "!")
            /\ UC(<<res, ret, closed, ctx, tx, txClosed, wtx, srvClosed, cliWr, cliClosed, inbox, sentk, rcur, mcur, wcur,
                    lastReply, rxClosed, outbox, handled, hookC, termHooks, gvars>>)
       [] g = "u.terminate" ->    \* the terminate hook runs
            /\ termHooks' = Set1(termHooks, c, termHooks[c] + 1)
            /\ Go(p, g \o "!")
            /\ UC(<<res, ret, closed, ctx, tx, txClosed, mtx, wtx, srvClosed, cliWr, cliClosed, inbox, sentk, rcur, mcur, wcur,
                    lastReply, rxClosed, errch, outbox, handled, hookC, gvars>>)
       [] OTHER ->                \* hc.newconn, recv.select, send.select, send.wait, hc.exit: nothing shared happens at release
            /\ Go(p, g \o "!") /\ UC(<<res, ret, cvars, gvars>>)

RelTerm(p) ==      \* the four steps of conn.terminate, executed by any of M, R, W
  LET c == Conn(p) g == pc[p]
      \* this release completes terminate(): when it was the deferred stream.Close() of handleConn, the deferred
      \* wg.Done() runs in the same segment (before the hc.exit gate)
      finishing == g = "term.sockclose" \/ (g = "term.enter" /\ closed[c])
  IN
  /\ p \in ConnProcs
  /\ g \in {"term.enter", "term.cancel", "term.txswap", "term.sockclose"}
  /\ Go(p, g \o "!")
  /\ wg' = IF finishing /\ p[2] = "M" /\ ret[p] = "mexit" THEN wg - 1 ELSE wg
  /\ UC(<<listener, acceptQ, recvCtx, srvCtx, timer, serveRes, sdReturned, lateHandler, panicked, shuttingDown>>)
  /\ CASE g = "term.enter" ->
            /\ res' = [res EXCEPT ![p] = IF closed[c] THEN "already" ELSE "first"]
            /\ closed' = Set1(closed, c, TRUE)
            /\ UC(<<ret, ctx, tx, txClosed, mtx, wtx, srvClosed, cliWr, cliClosed, inbox, sentk, rcur, mcur, wcur, lastReply,
                    rxClosed, errch, outbox, handled, hookC, termHooks>>)
       [] g = "term.cancel" ->
            /\ ctx' = Set1(ctx, c, TRUE)
            /\ UC(<<res, ret, closed, tx, txClosed, mtx, wtx, srvClosed, cliWr, cliClosed, inbox, sentk, rcur, mcur, wcur, lastReply,
                    rxClosed, errch, outbox, handled, hookC, termHooks>>)
       [] g = "term.txswap" ->
            /\ tx' = Set1(tx, c, "nil")
            /\ txClosed' = Set1(txClosed, c, txClosed[c] \/ (CloseTx /\ tx[c] = "chan"))
            /\ UC(<<res, ret, closed, ctx, mtx, wtx, srvClosed, cliWr, cliClosed, inbox, sentk, rcur, mcur, wcur, lastReply,
                    rxClosed, errch, outbox, handled, hookC, termHooks>>)
       [] g = "term.sockclose" ->
            /\ srvClosed' = Set1(srvClosed, c, TRUE)
            /\ UC(<<res, ret, closed, ctx, tx, txClosed, mtx, wtx, cliWr, cliClosed, inbox, sentk, rcur, mcur, wcur, lastReply,
                    rxClosed, errch, outbox, handled, hookC, termHooks>>)

RelR(c) ==
  LET p == R(c) g == pc[p] IN
  /\ g \in {"rl.enter", "rl.recv", "rl.offer", "rl.exit"}
  /\ Go(p, g \o "!")
  /\ CASE g = "rl.enter" ->       \* loop condition: closed.Load
            /\ res' = [res EXCEPT ![p] = IF closed[c] THEN "exit" ELSE "go"]
            /\ UC(<<ret, cvars, gvars>>)
       [] g = "rl.exit" ->        \* deferred close(rx)
            /\ rxClosed' = Set1(rxClosed, c, TRUE)
            /\ UC(<<res, ret, closed, ctx, tx, txClosed, mtx, wtx, srvClosed, cliWr, cliClosed, inbox, sentk, rcur, mcur, wcur, lastReply,
                    errch, outbox, handled, hookC, termHooks, gvars>>)
       [] OTHER -> UC(<<res, ret, cvars, gvars>>)

RelW(c) ==
  LET p == W(c) g == pc[p] IN
  /\ g \in {"wl.enter", "wl.select", "wl.send", "wl.report", "wl.exit"}
  /\ Go(p, g \o "!")
  /\ CASE g = "wl.enter" ->       \* tx.Load, loop condition
            /\ wtx' = Set1(wtx, c, tx[c])
            /\ res' = [res EXCEPT ![p] = IF closed[c] THEN "exit" ELSE "go"]
            /\ UC(<<ret, closed, ctx, tx, txClosed, mtx, srvClosed, cliWr, cliClosed, inbox, sentk, rcur, mcur, wcur, lastReply,
                    rxClosed, errch, outbox, handled, hookC, termHooks, gvars>>)
       [] g = "wl.send" ->        \* stream.Send; on success close(req.err); then the loop condition closed.Load
            /\ IF srvClosed[c] \/ cliClosed[c]
               THEN /\ res' = [res EXCEPT ![p] = "err"] /\ UC(<<outbox, errch>>)
               ELSE /\ res' = [res EXCEPT ![p] = IF closed[c] THEN "ok-exit" ELSE "ok-go"]
                    /\ outbox' = Set1(outbox, c, Append(outbox[c], wcur[c]))
                    /\ errch' = Set1(errch, c, "closed")
            /\ UC(<<ret, closed, ctx, tx, txClosed, mtx, wtx, srvClosed, cliWr, cliClosed, inbox, sentk, rcur, mcur, wcur, lastReply,
                    rxClosed, handled, hookC, termHooks, gvars>>)
       [] g = "wl.report" ->      \* req.err <- err (blocks when unbuffered); close(req.err)
            /\ errch' = Set1(errch, c, IF ErrBuf = 1 THEN "err" ELSE errch[c])
            /\ UC(<<res, ret, closed, ctx, tx, txClosed, mtx, wtx, srvClosed, cliWr, cliClosed, inbox, sentk, rcur, mcur, wcur, lastReply,
                    rxClosed, outbox, handled, hookC, termHooks, gvars>>)
       [] OTHER -> UC(<<res, ret, cvars, gvars>>)

RelS ==
  /\ pc[S] \in {"serve.accept", "serve.accepted", "serve.exit"}
  /\ IF pc[S] \in {"serve.accept", "serve.exit"}
     THEN /\ Go(S, pc[S] \o "!") /\ UC(<<res, ret, cvars, gvars>>)
     ELSE IF AcceptGuard /\ shuttingDown
          THEN \* accepted while Shutdown is in progress: the connection is closed unserved, Serve returns ErrShutdown
               /\ srvClosed' = Set1(srvClosed, Head(acceptQ), TRUE)
               /\ acceptQ' = Tail(acceptQ)
               /\ res' = [res EXCEPT ![S] = "refused"]
               /\ Go(S, "serve.accepted!")
               /\ UC(<<ret, closed, ctx, tx, txClosed, mtx, wtx, cliWr, cliClosed, inbox, sentk, rcur, mcur, wcur, lastReply,
                       rxClosed, errch, outbox, handled, hookC, termHooks,
                       listener, wg, recvCtx, srvCtx, timer, serveRes, sdReturned, lateHandler, panicked, shuttingDown>>)
          ELSE \* wg.Add(1); go handleConn(conn)
               /\ wg' = wg + 1
               /\ pc' = [pc EXCEPT ![S] = "serve.accepted!", ![M(Head(acceptQ))] = "new!"]
               /\ acceptQ' = Tail(acceptQ)
               /\ res' = [res EXCEPT ![S] = "served"]
               /\ UC(<<ret, cvars, listener, recvCtx, srvCtx, timer, serveRes, sdReturned, lateHandler, panicked, shuttingDown>>)

RelD ==
  /\ pc[D] \in {"sd.close", "sd.recvcancel", "sd.wait", "sd.cancel", "sd.return"}
  /\ Go(D, pc[D] \o "!")
  /\ CASE pc[D] = "sd.close" -> listener' = "closed" /\ UC(<<res, ret, cvars, acceptQ, wg, recvCtx, srvCtx, timer, serveRes, sdReturned, lateHandler, panicked, shuttingDown>>)
       [] pc[D] = "sd.recvcancel" -> recvCtx' = TRUE /\ timer' = "armed"
                                     /\ UC(<<res, ret, cvars, listener, acceptQ, wg, srvCtx, serveRes, sdReturned, lateHandler, panicked, shuttingDown>>)
       [] pc[D] = "sd.cancel" -> srvCtx' = TRUE /\ UC(<<res, ret, cvars, listener, acceptQ, wg, recvCtx, timer, serveRes, sdReturned, lateHandler, panicked, shuttingDown>>)
       [] pc[D] = "sd.return" -> sdReturned' = TRUE /\ UC(<<res, ret, cvars, listener, acceptQ, wg, recvCtx, srvCtx, timer, serveRes, lateHandler, panicked, shuttingDown>>)
       [] OTHER -> UC(<<res, ret, cvars, gvars>>)

RelT == /\ pc[T] = "sd.timer" /\ Go(T, "sd.timer!") /\ srvCtx' = TRUE
        /\ UC(<<res, ret, cvars, listener, acceptQ, wg, recvCtx, timer, serveRes, sdReturned, lateHandler, panicked, shuttingDown>>)

Release(p) ==
  \/ (p \in ConnProcs /\ p[2] = "M" /\ RelM(Conn(p)))
  \/ (p \in ConnProcs /\ p[2] = "R" /\ RelR(Conn(p)))
  \/ (p \in ConnProcs /\ p[2] = "W" /\ RelW(Conn(p)))
  \/ RelTerm(p)
  \/ (p = S /\ RelS) \/ (p = D /\ RelD) \/ (p = T /\ RelT)

-----------------------------------------------------------------------------
(* Arrive: a released goroutine reaches its next gate.                      *)

\* where terminate() returns to; M leaving for good decrements the WaitGroup (deferred wg.Done)
AfterTerm(p) ==
  LET c == Conn(p) IN
  CASE ret[p] = "mfail" -> IF hookC[c] = "ok" THEN "u.terminate" ELSE "hc.exit"
    [] ret[p] = "mexit" -> "hc.exit"
    [] ret[p] = "rexit" -> "rl.exit"
    [] ret[p] = "wexit" -> "wl.exit"

\* M leaves its request loop (break / return): terminate hook if the connect hook had succeeded
LeaveLoop(c) == "u.terminate"

ArrTerm(p) ==
  LET c == Conn(p) g == pc[p] IN
  /\ p \in ConnProcs
  /\ g \in {"term.enter!", "term.cancel!", "term.txswap!", "term.sockclose!"}
  /\ LET dest == CASE g = "term.enter!" -> IF res[p] = "already" THEN AfterTerm(p) ELSE "term.cancel"
                   [] g = "term.cancel!" -> "term.txswap"
                   [] g = "term.txswap!" -> "term.sockclose"
                   [] g = "term.sockclose!" -> AfterTerm(p)
     IN Go(p, dest)
  /\ UC(<<res, ret, cvars, gvars>>)

\* M enters terminate with return continuation r
MTerm(c, r) == /\ Go(M(c), "term.enter") /\ ret' = [ret EXCEPT ![M(c)] = r]

ArrM(c) ==
  LET p == M(c) g == pc[p] IN
  \/ /\ g = "new!" /\ Go(p, "hc.start") /\ UC(<<res, ret, cvars, gvars>>)
  \/ /\ g = "hc.start!" /\ Go(p, "hc.newconn") /\ UC(<<res, ret, cvars, gvars>>)
  \/ /\ g = "hc.newconn!" /\ Go(p, "u.connect") /\ UC(<<res, ret, cvars, gvars>>)
  \/ /\ g = "u.connect!"
     /\ IF hookC[c] = "ok" THEN Go(p, "recv.avail") /\ UC(ret) ELSE MTerm(c, "mexit")     \* deferred stream.Close()
     /\ UC(<<res, cvars, gvars>>)
  \/ /\ g = "recv.avail!"
     /\ Go(p, IF res[p] = "avail" THEN "recv.select" ELSE LeaveLoop(c)) /\ UC(<<res, ret, cvars, gvars>>)
  \/ /\ g = "recv.select!"       \* select { rx | recvCtx.Done | conn ctx.Done }   (the rx rendezvous is RxHandoff)
     /\ \/ /\ rxClosed[c] /\ Go(p, LeaveLoop(c)) /\ UC(ret)
        \/ /\ (recvCtx \/ CtxDone(c)) /\ MTerm(c, "mfail")
     /\ UC(<<res, cvars, gvars>>)
  \/ /\ g = "u.handler!" /\ Go(p, "hc.ctxcheck") /\ UC(<<res, ret, cvars, gvars>>)
  \/ /\ g = "hc.ctxcheck!"
     /\ Go(p, IF res[p] = "ok" THEN "send.avail" ELSE LeaveLoop(c)) /\ UC(<<res, ret, cvars, gvars>>)
  \/ /\ g = "send.avail!"
     /\ Go(p, IF res[p] = "avail" THEN "send.load" ELSE LeaveLoop(c)) /\ UC(<<res, ret, cvars, gvars>>)
  \/ /\ g = "send.load!" /\ Go(p, "send.select") /\ UC(<<res, ret, cvars, gvars>>)
  \/ /\ g = "send.select!"       \* select { tx <- msg | ctx.Done }   (the hand-off is TxHandoff)
     /\ \/ /\ mtx[c] = "chan" /\ txClosed[c]              \* send on closed channel
           /\ panicked' = TRUE /\ Go(p, "done")
           /\ UC(<<res, ret, cvars, listener, acceptQ, wg, recvCtx, srvCtx, timer, serveRes, sdReturned, lateHandler, shuttingDown>>)
        \/ /\ CtxDone(c)
           /\ errch' = Set1(errch, c, "closed")
           /\ MTerm(c, "mfail")
           /\ UC(<<res, closed, ctx, tx, txClosed, mtx, wtx, srvClosed, cliWr, cliClosed, inbox, sentk, rcur, mcur, wcur, lastReply,
                   rxClosed, outbox, handled, hookC, termHooks, gvars>>)
  \/ /\ g = "send.wait!"         \* select { <-errCh | ctx.Done }   (the unbuffered error hand-off is ErrHandoff)
     /\ \/ /\ errch[c] = "closed"
           /\ Go(p, IF lastReply[c] THEN LeaveLoop(c) ELSE "recv.avail") /\ UC(ret)
        \/ /\ errch[c] = "err" /\ Go(p, LeaveLoop(c)) /\ UC(ret)
        \/ /\ CtxDone(c) /\ MTerm(c, "mfail")
     /\ UC(<<res, cvars, gvars>>)
  \/ /\ g = "u.terminate!" /\ MTerm(c, "mexit") /\ UC(<<res, cvars, gvars>>)
  \/ /\ g = "hc.exit!" /\ Go(p, "done") /\ UC(<<res, ret, cvars, gvars>>)

\* the loop condition of readloop after an iteration
RLoop(c) == IF closed[c] THEN "rl.exit" ELSE "rl.recv"

ArrR(c) ==
  LET p == R(c) g == pc[p] IN
  \/ /\ g = "new!" /\ Go(p, "rl.enter") /\ UC(<<res, ret, cvars, gvars>>)
  \/ /\ g = "rl.enter!" /\ Go(p, IF res[p] = "go" THEN "rl.recv" ELSE "rl.exit") /\ UC(<<res, ret, cvars, gvars>>)
  \/ /\ g = "rl.recv!"           \* stream.Recv
     /\ \/ /\ srvClosed[c]                                            \* own socket closed: read fails
           /\ Go(p, "term.enter") /\ ret' = [ret EXCEPT ![p] = "rexit"] /\ UC(<<inbox, rcur>>)
        \/ /\ ~srvClosed[c] /\ inbox[c] # <<>>
           /\ LET m == Head(inbox[c]) k == m[1] IN
              CASE k = "req" \/ k = "enc" \/ (k = "plain" /\ PlainIsEnc) ->
                     /\ inbox' = Set1(inbox, c, Tail(inbox[c]))
                     /\ rcur' = Set1(rcur, c, IF k = "req" THEN m ELSE <<"enc", m[2]>>)
                     /\ Go(p, "rl.offer") /\ UC(ret)
                [] k = "plain" /\ ~PlainIsEnc ->                      \* treated like an I/O failure
                     /\ inbox' = Set1(inbox, c, Tail(inbox[c])) /\ UC(rcur)
                     /\ Go(p, "term.enter") /\ ret' = [ret EXCEPT ![p] = "rexit"]
                [] k = "resp" ->                                      \* client-originated response: ignored
                     /\ inbox' = Set1(inbox, c, Tail(inbox[c])) /\ UC(<<rcur, ret>>)
                     /\ Go(p, RLoop(c))
                [] k = "part" ->                                      \* incomplete message: only the end of stream ends the read
                     /\ cliWr[c]
                     /\ inbox' = Set1(inbox, c, Tail(inbox[c])) /\ UC(rcur)
                     /\ Go(p, "term.enter") /\ ret' = [ret EXCEPT ![p] = "rexit"]
        \/ /\ ~srvClosed[c] /\ inbox[c] = <<>> /\ cliWr[c]            \* end of stream
           /\ Go(p, "term.enter") /\ ret' = [ret EXCEPT ![p] = "rexit"] /\ UC(<<inbox, rcur>>)
     /\ UC(<<res, closed, ctx, tx, txClosed, mtx, wtx, srvClosed, cliWr, cliClosed, sentk, mcur, wcur, lastReply,
             rxClosed, errch, outbox, handled, hookC, termHooks, gvars>>)
  \/ /\ g = "rl.offer!" /\ CtxDone(c) /\ Go(p, "rl.exit") /\ UC(<<res, ret, cvars, gvars>>)
  \/ /\ g = "rl.exit!" /\ Go(p, "done") /\ UC(<<res, ret, cvars, gvars>>)

ArrW(c) ==
  LET p == W(c) g == pc[p] IN
  \/ /\ g = "new!" /\ Go(p, "wl.enter") /\ UC(<<res, ret, cvars, gvars>>)
  \/ /\ g = "wl.enter!" /\ Go(p, IF res[p] = "go" THEN "wl.select" ELSE "wl.exit") /\ UC(<<res, ret, cvars, gvars>>)
  \/ /\ g = "wl.select!"         \* select { <-tx | ctx.Done }
     /\ \/ (wtx[c] = "chan" /\ txClosed[c])
        \/ CtxDone(c)
     /\ Go(p, "wl.exit") /\ UC(<<res, ret, cvars, gvars>>)
  \/ /\ g = "wl.send!"
     /\ Go(p, CASE res[p] = "err" -> "wl.report" [] res[p] = "ok-go" -> "wl.select" [] OTHER -> "wl.exit")
     /\ UC(<<res, ret, cvars, gvars>>)
  \/ /\ g = "wl.report!" /\ ErrBuf = 1       \* buffered: the send does not block
     /\ Go(p, "term.enter") /\ ret' = [ret EXCEPT ![p] = "wexit"] /\ UC(<<res, cvars, gvars>>)
  \/ /\ g = "wl.exit!" /\ Go(p, "done") /\ UC(<<res, ret, cvars, gvars>>)

\* rendezvous on the unbuffered channels: both partners are inside their select
RxHandoff(c) ==
  /\ pc[R(c)] = "rl.offer!" /\ pc[M(c)] = "recv.select!"
  /\ LET m == rcur[c] IN
     /\ mcur' = Set1(mcur, c, IF m[1] = "req" THEN m ELSE <<"inv", m[2]>>)
     /\ lastReply' = Set1(lastReply, c, m[1] # "req")
     /\ pc' = [pc EXCEPT ![R(c)] = RLoop(c), ![M(c)] = IF m[1] = "req" THEN "u.handler" ELSE "send.avail"]
  /\ UC(<<res, ret, closed, ctx, tx, txClosed, mtx, wtx, srvClosed, cliWr, cliClosed, inbox, sentk, rcur, wcur,
          rxClosed, errch, outbox, handled, hookC, termHooks, gvars>>)

TxHandoff(c) ==
  /\ pc[M(c)] = "send.select!" /\ pc[W(c)] = "wl.select!"
  /\ mtx[c] = "chan" /\ wtx[c] = "chan" /\ ~txClosed[c]
  /\ wcur' = Set1(wcur, c, IF mcur[c][1] = "req" THEN <<"ok", mcur[c][2]>> ELSE mcur[c])
  /\ Go2(M(c), "send.wait", W(c), "wl.send")
  /\ UC(<<res, ret, closed, ctx, tx, txClosed, mtx, wtx, srvClosed, cliWr, cliClosed, inbox, sentk, rcur, mcur, lastReply,
          rxClosed, errch, outbox, handled, hookC, termHooks, gvars>>)

ErrHandoff(c) ==     \* unbuffered error channel: the write loop hands the error to the sender that still waits
  /\ ErrBuf = 0 /\ pc[W(c)] = "wl.report!" /\ pc[M(c)] = "send.wait!"
  /\ pc' = [pc EXCEPT ![W(c)] = "term.enter", ![M(c)] = LeaveLoop(c)]
  /\ ret' = [ret EXCEPT ![W(c)] = "wexit"]
  /\ UC(<<res, cvars, gvars>>)

ArrS ==
  \/ /\ pc[S] = "serve.accept!"
     /\ \/ /\ listener = "open" /\ acceptQ # <<>> /\ Go(S, "serve.accepted") /\ UC(serveRes)
        \/ /\ listener = "closed" /\ Go(S, "serve.exit") /\ serveRes' = "shutdown"      \* Accept fails: Serve returns ErrShutdown
     /\ UC(<<res, ret, cvars, listener, acceptQ, wg, recvCtx, srvCtx, timer, sdReturned, lateHandler, panicked, shuttingDown>>)
  \/ /\ pc[S] = "serve.accepted!"
     /\ IF res[S] = "refused" THEN Go(S, "serve.exit") /\ serveRes' = "shutdown" ELSE Go(S, "serve.accept") /\ UC(serveRes)
     /\ UC(<<res, ret, cvars, listener, acceptQ, wg, recvCtx, srvCtx, timer, sdReturned, lateHandler, panicked, shuttingDown>>)
  \/ /\ pc[S] = "serve.exit!" /\ Go(S, "done") /\ UC(<<res, ret, cvars, gvars>>)

ArrD ==
  \/ /\ pc[D] = "new!" /\ Go(D, "sd.close") /\ UC(<<res, ret, cvars, gvars>>)
  \/ /\ pc[D] = "sd.close!" /\ Go(D, "sd.recvcancel") /\ UC(<<res, ret, cvars, gvars>>)
  \/ /\ pc[D] = "sd.recvcancel!" /\ Go(D, "sd.wait") /\ UC(<<res, ret, cvars, gvars>>)
  \/ /\ pc[D] = "sd.wait!" /\ wg = 0 /\ Go(D, "sd.cancel")      \* wg.Wait returns; tm.Stop()
     /\ timer' = IF timer = "armed" THEN "off" ELSE timer
     /\ UC(<<res, ret, cvars, listener, acceptQ, wg, recvCtx, srvCtx, serveRes, sdReturned, lateHandler, panicked, shuttingDown>>)
  \/ /\ pc[D] = "sd.cancel!" /\ Go(D, "sd.return") /\ UC(<<res, ret, cvars, gvars>>)
  \/ /\ pc[D] = "sd.return!" /\ Go(D, "done") /\ UC(<<res, ret, cvars, gvars>>)

ArrT ==
  \/ /\ pc[T] = "new!" /\ Go(T, "sd.timer") /\ UC(<<res, ret, cvars, gvars>>)
  \/ /\ pc[T] = "sd.timer!" /\ Go(T, "done") /\ UC(<<res, ret, cvars, gvars>>)

Arrive(p) ==
  \/ (p \in ConnProcs /\ p[2] = "M" /\ ArrM(Conn(p)))
  \/ (p \in ConnProcs /\ p[2] = "R" /\ ArrR(Conn(p)))
  \/ (p \in ConnProcs /\ p[2] = "W" /\ ArrW(Conn(p)))
  \/ ArrTerm(p)
  \/ (p = S /\ ArrS) \/ (p = D /\ ArrD) \/ (p = T /\ ArrT)

Handoff(c) == RxHandoff(c) \/ TxHandoff(c) \/ ErrHandoff(c)

-----------------------------------------------------------------------------
(* Environment                                                              *)
CliConnect(c) ==
  /\ listener = "open" /\ pc[M(c)] = "none" /\ ~(\E k \in 1..Len(acceptQ) : acceptQ[k] = c)
  /\ acceptQ' = Append(acceptQ, c)
  /\ UC(<<pc, res, ret, cvars, listener, wg, recvCtx, srvCtx, timer, serveRes, sdReturned, lateHandler, panicked, shuttingDown>>)

CliSend(c, kind) ==
  /\ ~cliWr[c] /\ sentk[c] < NReq /\ kind \in Kinds
  /\ (inbox[c] # <<>> => inbox[c][Len(inbox[c])][1] # "part")      \* nothing follows an incomplete message but the end
  /\ sentk' = Set1(sentk, c, sentk[c] + 1)
  /\ inbox' = Set1(inbox, c, Append(inbox[c], <<kind, sentk[c] + 1>>))
  /\ UC(<<pc, res, ret, closed, ctx, tx, txClosed, mtx, wtx, srvClosed, cliWr, cliClosed, rcur, mcur, wcur, lastReply,
          rxClosed, errch, outbox, handled, hookC, termHooks, gvars>>)

CliHalfClose(c) ==
  /\ CliCloses /\ ~cliWr[c] /\ cliWr' = Set1(cliWr, c, TRUE)
  /\ UC(<<pc, res, ret, closed, ctx, tx, txClosed, mtx, wtx, srvClosed, cliClosed, inbox, sentk, rcur, mcur, wcur, lastReply,
          rxClosed, errch, outbox, handled, hookC, termHooks, gvars>>)

CliClose(c) ==
  /\ CliCloses /\ ~cliClosed[c] /\ cliClosed' = Set1(cliClosed, c, TRUE) /\ cliWr' = Set1(cliWr, c, TRUE)
  /\ UC(<<pc, res, ret, closed, ctx, tx, txClosed, mtx, wtx, srvClosed, inbox, sentk, rcur, mcur, wcur, lastReply,
          rxClosed, errch, outbox, handled, hookC, termHooks, gvars>>)

StartShutdown ==     \* Shutdown() is called: the shutting-down flag is set before its first gate
  /\ WithShutdown /\ pc[D] = "none" /\ Go(D, "new!") /\ shuttingDown' = TRUE
  /\ UC(<<res, ret, cvars, listener, acceptQ, wg, recvCtx, srvCtx, timer, serveRes, sdReturned, lateHandler, panicked>>)

OwnerClose ==    \* the owner of the listener closes it itself, before it calls Shutdown: Serve ends, connections live on
  /\ WithShutdown /\ listener = "open" /\ pc[D] = "none" /\ listener' = "closed"
  /\ UC(<<pc, res, ret, cvars, acceptQ, wg, recvCtx, srvCtx, timer, serveRes, sdReturned, lateHandler, panicked, shuttingDown>>)

TimerFire ==     \* the 3 s grace timer fires (time is an ordering here)
  /\ timer = "armed" /\ pc[T] = "none" /\ timer' = "fired" /\ Go(T, "new!")
  /\ UC(<<res, ret, cvars, listener, acceptQ, wg, recvCtx, srvCtx, serveRes, sdReturned, lateHandler, panicked, shuttingDown>>)

Env == \/ \E c \in Conns : CliConnect(c) \/ CliHalfClose(c) \/ CliClose(c) \/ (\E k \in Kinds : CliSend(c, k))
       \/ StartShutdown \/ TimerFire \/ OwnerClose

Sched == \E p \in Procs : Release(p) \/ Arrive(p)
Next == (~panicked) /\ (Sched \/ (\E c \in Conns : Handoff(c)) \/ Env)

\* Reduction used by the exhaustive configurations: the code between a non-blocking operation and the next gate
\* touches no shared state, so its arrival can be taken at once (it is what happens in a controlled run, where the
\* released goroutine runs to its next gate before anything else is released). Blocking operations (select, Recv,
\* Accept, Wait, the unbuffered report) keep their separate, independently scheduled arrival.
BlockingBang == {"recv.select!", "send.select!", "send.wait!", "rl.recv!", "rl.offer!", "wl.select!", "serve.accept!", "sd.wait!"}
                  \cup (IF ErrBuf = 0 THEN {"wl.report!"} ELSE {})
Bangs == {h \o "!" : h \in {"new"} \cup Gates}
IsBang(g) == g \in Bangs
\* ... and, more generally, a goroutine that can run does run before the scheduler releases anybody else or the
\* environment acts: a blocked goroutine whose select case / I/O became ready proceeds at once (Go evaluates a
\* select atomically when it is entered and wakes a blocked one as soon as a case is ready). Which of several
\* runnable goroutines, and which of several ready cases, goes first stays nondeterministic.
Runnable == {p \in Procs : IsBang(pc[p]) /\ ENABLED Arrive(p)}
ReadyHandoffs == {c \in Conns : ENABLED Handoff(c)}
EagerNext == (~panicked) /\
             IF Runnable # {} \/ ReadyHandoffs # {}
             THEN (\E p \in Runnable : Arrive(p)) \/ (\E c \in ReadyHandoffs : Handoff(c))
             ELSE ((\E p \in Procs : Release(p)) \/ Env)
EagerSpec == Init /\ [][EagerNext]_vars
Fairness == /\ \A p \in Procs : WF_vars(Release(p)) /\ WF_vars(Arrive(p))
            /\ \A c \in Conns : WF_vars(Handoff(c))
Spec == Init /\ [][Next]_vars
FairSpec == Spec /\ Fairness
FairEagerSpec == EagerSpec /\ Fairness

-----------------------------------------------------------------------------
(* Properties                                                               *)
NoPanic == ~panicked

RECURSIVE IsPrefix(_, _)
IsPrefix(s, t) == Len(s) <= Len(t) /\ \A k \in 1..Len(s) : s[k] = t[k]

\* the ids of the messages R passed on (requests and invalid messages), in arrival order = the order of expected responses
Ids(s) == [k \in 1..Len(s) |-> s[k][2]]
\* one response per handled request, in request order, none duplicated, none for a request that was not handled
OneResponseInOrder ==
  \A c \in Conns :
    LET oks == SelectSeq(outbox[c], LAMBDA m : m[1] = "ok") IN
      /\ IsPrefix(Ids(oks), handled[c])
      /\ \A i, j \in 1..Len(outbox[c]) : i < j => outbox[c][i][2] < outbox[c][j][2]
\* an invalid-message reply is only ever sent for a message that could not be decoded, and it is the last thing sent
InvalidMessageReply ==
  \A c \in Conns : \A i \in 1..Len(outbox[c]) : outbox[c][i][1] = "inv" => i = Len(outbox[c])
HookPairing ==
  \A c \in Conns : /\ termHooks[c] <= 1
                   /\ hookC[c] # "ok" => termHooks[c] = 0
                   /\ (pc[M(c)] = "done" /\ hookC[c] = "ok") => termHooks[c] = 1
WgNonNegative == wg >= 0 /\ wg <= Cardinality(Conns)
ServeResult == pc[S] \in {"serve.exit", "serve.exit!", "done"} => serveRes = "shutdown"
NoHandlerAfterShutdown == ~lateHandler
Safety == NoPanic /\ OneResponseInOrder /\ InvalidMessageReply /\ HookPairing /\ WgNonNegative /\ ServeResult

ConnGone(c) == cliClosed[c] \/ srvClosed[c] \/ closed[c]
AllDone(c) == \A r \in Roles : pc[<<c, r>>] \in {"done", "none"}
\* no goroutine of a connection that has ended is left behind (under fair scheduling, without further external events)
NoLeak == \A c \in Conns : (ConnGone(c) /\ pc[M(c)] # "none") ~> AllDone(c)
\* a live connection answers every well-formed request: if the client never closes and nothing is cancelled, handled = answered
ShutdownEnds == (pc[D] # "none") ~> (pc[D] = "done" /\ pc[S] = "done" /\ \A c \in Conns : AllDone(c) \/ (\E k \in 1..Len(acceptQ) : acceptQ[k] = c))

\* terminal states of the bounded model: nothing of an ended connection is left, every framed request was answered on a live one
Quiet == \A p \in Procs : pc[p] \in {"none", "done"} \/ (p = S /\ pc[p] = "serve.accept!")
=============================================================================
