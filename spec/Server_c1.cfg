\* C08 quick: one connection, 2 client messages of every kind, all client behaviours, fixed code variant
SPECIFICATION EagerSpec
CONSTANTS
  Conns = {1}
  NReq = 2
  Kinds = {"req", "enc", "plain", "resp", "part"}
  CloseTx = FALSE
  ErrBuf = 1
  PlainIsEnc = TRUE
  WithShutdown = FALSE
  AcceptGuard = TRUE
  CliCloses = TRUE
  HookFail = TRUE
INVARIANTS Safety
CHECK_DEADLOCK FALSE
