\* C08 liveness: no goroutine of an ended connection is left behind (UNBUFFERED error channel: NoLeak must FAIL)
SPECIFICATION FairEagerSpec
CONSTANTS
  Conns = {1}
  NReq = 1
  Kinds = {"req", "enc"}
  CloseTx = FALSE
  ErrBuf = 0
  PlainIsEnc = TRUE
  WithShutdown = FALSE
  AcceptGuard = TRUE
  CliCloses = TRUE
  HookFail = TRUE
INVARIANTS Safety
PROPERTIES NoLeak
CHECK_DEADLOCK FALSE
