\* C08 liveness: no goroutine of an ended connection is left behind (fixed code variant)
SPECIFICATION FairEagerSpec
CONSTANTS
  Conns = {1}
  NReq = 1
  Kinds = {"req"}
  CloseTx = FALSE
  ErrBuf = 1
  PlainIsEnc = TRUE
  WithShutdown = FALSE
  AcceptGuard = TRUE
  CliCloses = TRUE
  HookFail = FALSE
INVARIANTS Safety
PROPERTIES NoLeak
CHECK_DEADLOCK FALSE
