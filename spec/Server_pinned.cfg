\* the pinned code variant: terminate closes tx, unbuffered error channel -> NoPanic must FAIL (expected counterexample)
SPECIFICATION Spec
CONSTANTS
  Conns = {1}
  NReq = 2
  Kinds = {"req"}
  CloseTx = TRUE
  ErrBuf = 0
  PlainIsEnc = FALSE
  WithShutdown = FALSE
  AcceptGuard = FALSE
  CliCloses = TRUE
  HookFail = FALSE
INVARIANTS NoPanic
CHECK_DEADLOCK FALSE
