\* C16: one connection, one request, Shutdown and the grace timer at any moment
SPECIFICATION EagerSpec
CONSTANTS
  Conns = {1}
  NReq = 1
  Kinds = {"req"}
  CloseTx = FALSE
  ErrBuf = 1
  PlainIsEnc = TRUE
  WithShutdown = TRUE
  AcceptGuard = TRUE
  CliCloses = TRUE
  HookFail = TRUE
INVARIANTS Safety NoHandlerAfterShutdown
CHECK_DEADLOCK FALSE
