\* C16 liveness: once Shutdown is called it returns, Serve returns and every connection goroutine ends
SPECIFICATION FairEagerSpec
CONSTANTS
  Conns = {1}
  NReq = 0
  Kinds = {"req"}
  CloseTx = FALSE
  ErrBuf = 1
  PlainIsEnc = TRUE
  WithShutdown = TRUE
  AcceptGuard = TRUE
  CliCloses = FALSE
  HookFail = FALSE
PROPERTIES ShutdownEnds NoLeak
CHECK_DEADLOCK FALSE
