SPECIFICATION TraceSpec
CONSTANTS
  Conns = {1, 2}
  NReq = 1000
  Kinds = {"req", "enc", "plain", "resp", "part"}
  CloseTx = FALSE
  ErrBuf = 1
  PlainIsEnc = TRUE
  WithShutdown = TRUE
  AcceptGuard = TRUE
  CliCloses = TRUE
  HookFail = TRUE
INVARIANTS TraceInv
CONSTRAINT HighWater
POSTCONDITION TraceAccepted
CHECK_DEADLOCK FALSE
