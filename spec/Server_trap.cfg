\* used with -dumpTrace json and one INVARIANT TrapX appended by the orchestrator
SPECIFICATION Spec
CONSTANTS
  Conns = {1}
  NReq = 2
  Kinds = {"req", "enc"}
  CloseTx = FALSE
  ErrBuf = 1
  PlainIsEnc = TRUE
  WithShutdown = TRUE
  AcceptGuard = TRUE
  CliCloses = TRUE
  HookFail = TRUE
CHECK_DEADLOCK FALSE
