\* C08 traps: one connection, no shutdown; one INVARIANT TrapX is appended by the orchestrator
SPECIFICATION Spec
CONSTANTS
  Conns = {1}
  NReq = 2
  Kinds = {"req", "enc"}
  CloseTx = FALSE
  ErrBuf = 1
  PlainIsEnc = TRUE
  WithShutdown = FALSE
  AcceptGuard = TRUE
  CliCloses = TRUE
  HookFail = FALSE
CHECK_DEADLOCK FALSE
