\* C16 traps (breadth-first, eager reduction): one connection, one request, passive client, Shutdown and timer
SPECIFICATION EagerSpec
CONSTANTS
  Conns = {1}
  NReq = 1
  Kinds = {"req"}
  CloseTx = FALSE
  ErrBuf = 1
  PlainIsEnc = TRUE
  WithShutdown = TRUE
  AcceptGuard = TRUE
  CliCloses = FALSE
  HookFail = FALSE
CHECK_DEADLOCK FALSE
