\* C16 trap with a client that closes: one connection, one request
SPECIFICATION EagerSpec
CONSTANTS
  Conns = {1}
  NReq = 1
  Kinds = {"req"}
  CloseTx = FALSE
  ErrBuf = 1
  PlainIsEnc = TRUE
  WithShutdown = TRUE
  AcceptGuard = TRUE
  CliCloses = TRUE
  HookFail = FALSE
CHECK_DEADLOCK FALSE
