\* C16 traps (simulation): one connection, one request, passive client, Shutdown and timer
SPECIFICATION Spec
CONSTANTS
  Conns = {1}
  NReq = 1
  Kinds = {"req"}
  CloseTx = FALSE
  ErrBuf = 1
  PlainIsEnc = TRUE
  WithShutdown = TRUE
  AcceptGuard = TRUE
  CliCloses = TRUE
  HookFail = TRUE
CHECK_DEADLOCK FALSE
