\* C16 trap into the window the accept guard closes (model WITHOUT the guard): one connection, one request, passive client, Shutdown and timer
SPECIFICATION EagerSpec
CONSTANTS
  Conns = {1}
  NReq = 1
  Kinds = {"req"}
  CloseTx = FALSE
  ErrBuf = 1
  PlainIsEnc = TRUE
  WithShutdown = TRUE
  AcceptGuard = FALSE
  CliCloses = FALSE
  HookFail = FALSE
CHECK_DEADLOCK FALSE
