--------------------------- MODULE ShutdownStall ---------------------------
(***************************************************************************)
(* C16, "mid-response": Shutdown while a response is on its way to a       *)
(* client that has stopped reading (its receive window is full: the        *)
(* server's write blocks).  One connection, one request; the processes are *)
(* the connection's handleConn goroutine (m), its write loop (w), Shutdown  *)
(* (sd, with the grace timer) and the client (the environment: it sends    *)
(* its request, stalls and resumes as it likes).                           *)
(*                                                                         *)
(*   m: recv -> handler -> send -> recv ...; term (terminate: the socket   *)
(*      is closed, the terminate hook runs) -> exit                        *)
(*   w: idle -> writing -> idle ...; exit once the socket is closed        *)
(*   sd: none -> called (receiving is cancelled: an idle connection ends)  *)
(*       -> cancelled (the grace period is over: the connections' contexts *)
(*       are cancelled) -> returned (every goroutine has ended)            *)
(*                                                                         *)
(* A handler is application code: it ends when it ends.  What the server   *)
(* owes is that a sender waiting for its response to be written gives up   *)
(* when the connection's context is cancelled (CtxTerminate): it closes    *)
(* the socket, which is what unblocks the write.                           *)
(***************************************************************************)
EXTENDS Naturals, TLC

VARIABLES cli,        \* "reading" | "stalled"
          req,        \* "none" | "sent" | "taken"
          m, w, conn, sd, answered, hooks
vars == <<cli, req, m, w, conn, sd, answered, hooks>>

Init == /\ cli = "reading" /\ req = "none" /\ m = "recv" /\ w = "idle" /\ conn = "open" /\ sd = "none" /\ answered = FALSE /\ hooks = 0

\* ---- the client (environment)
CliStall == cli = "reading" /\ cli' = "stalled" /\ UNCHANGED <<req, m, w, conn, sd, answered, hooks>>
CliResume == cli = "stalled" /\ cli' = "reading" /\ UNCHANGED <<req, m, w, conn, sd, answered, hooks>>
CliRequest == req = "none" /\ conn = "open" /\ sd = "none" /\ req' = "sent" /\ UNCHANGED <<cli, m, w, conn, sd, answered, hooks>>

\* ---- handleConn
MRecv == m = "recv" /\ req = "sent" /\ conn = "open" /\ m' = "handler" /\ req' = "taken" /\ UNCHANGED <<cli, w, conn, sd, answered, hooks>>
\* receiving was cancelled (Shutdown was called) and the goroutine is between two requests: it leaves its loop
MRecvCancelled == m = "recv" /\ sd \in {"called", "cancelled"} /\ m' = "term" /\ UNCHANGED <<cli, req, w, conn, sd, answered, hooks>>
HandlerDone == m = "handler" /\ m' = "send" /\ w' = "writing" /\ UNCHANGED <<cli, req, conn, sd, answered, hooks>>
\* the sender gives up when the connection's context is cancelled: it tears the connection down
CtxTerminate == m = "send" /\ sd = "cancelled" /\ m' = "term" /\ conn' = "closed" /\ UNCHANGED <<cli, req, w, sd, answered, hooks>>

\* ---- the write loop
WriteOK == /\ w = "writing" /\ cli = "reading" /\ conn = "open"
           /\ w' = "idle" /\ answered' = TRUE /\ m' = (IF m = "send" THEN "recv" ELSE m)
           /\ UNCHANGED <<cli, req, conn, sd, hooks>>
WriteFail == /\ w = "writing" /\ conn = "closed"
             /\ w' = "exit" /\ m' = (IF m = "send" THEN "term" ELSE m)
             /\ UNCHANGED <<cli, req, conn, sd, answered, hooks>>
WExit == w = "idle" /\ conn = "closed" /\ w' = "exit" /\ UNCHANGED <<cli, req, m, conn, sd, answered, hooks>>

\* ---- Shutdown
SdCall == sd = "none" /\ sd' = "called" /\ UNCHANGED <<cli, req, m, w, conn, answered, hooks>>
AllEnded == m = "exit" /\ w = "exit"
Grace == sd = "called" /\ ~AllEnded /\ sd' = "cancelled" /\ UNCHANGED <<cli, req, m, w, conn, answered, hooks>>
SdReturn == sd \in {"called", "cancelled"} /\ AllEnded /\ sd' = "returned" /\ UNCHANGED <<cli, req, m, w, conn, answered, hooks>>

MTerm == /\ m = "term" /\ m' = "exit" /\ conn' = "closed" /\ hooks' = hooks + 1
              /\ UNCHANGED <<cli, req, w, sd, answered>>
Server == MRecv \/ MRecvCancelled \/ CtxTerminate \/ MTerm \/ WriteOK \/ WriteFail \/ WExit \/ Grace \/ SdReturn
Env == CliStall \/ CliResume \/ CliRequest \/ HandlerDone \/ SdCall
Next == Server \/ Env
\* the server's own steps are taken when they can be; the client and the application owe nothing - except that a handler ends
Spec == Init /\ [][Next]_vars /\ WF_vars(Server) /\ WF_vars(HandlerDone)

-----------------------------------------------------------------------------
TypeOK == /\ cli \in {"reading", "stalled"} /\ req \in {"none", "sent", "taken"} /\ m \in {"recv", "handler", "send", "term", "exit"}
          /\ w \in {"idle", "writing", "exit"} /\ conn \in {"open", "closed"} /\ sd \in {"none", "called", "cancelled", "returned"} /\ hooks \in 0..2
\* after Shutdown has returned: nothing of the connection is left, its socket is closed, its terminate hook has run exactly once
Drained == sd = "returned" => (m = "exit" /\ w = "exit" /\ conn = "closed" /\ hooks = 1)
HookOnce == hooks <= 1
HookAfterHandler == hooks = 1 => m = "exit"
AnsweredOnlyIfHandled == answered => req = "taken"
Inv == TypeOK /\ Drained /\ HookOnce /\ HookAfterHandler /\ AnsweredOnlyIfHandled
\* Shutdown returns - whatever the client does (it may stay stalled for ever)
ShutdownReturns == (sd = "called") ~> (sd = "returned")
=============================================================================
