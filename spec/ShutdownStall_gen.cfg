SPECIFICATION MCSpec
CHECK_DEADLOCK FALSE
