SPECIFICATION Spec
INVARIANTS Inv
PROPERTIES ShutdownReturns
CHECK_DEADLOCK FALSE
