SPECIFICATION TraceSpec
INVARIANTS TraceInv
CONSTRAINT HighWater
POSTCONDITION TraceAccepted
CHECK_DEADLOCK FALSE
