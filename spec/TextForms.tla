------------------------------ MODULE TextForms ------------------------------
(***************************************************************************)
(* Lexical forms of TTLV items in the XML and JSON encodings (C04).        *)
(*                                                                         *)
(* An item is [tag, type, value].  For every type the specification gives  *)
(*   - the abstract value space, enumerated around every boundary that a   *)
(*     lexical rule depends on (numbers are sequences of 16-bit limbs,     *)
(*     most significant first, because TLC integers are 32 bits);          *)
(*   - Form(enc, item): the form the writer must produce, as a descriptor  *)
(*     [lex |-> class, ...] that the harness renders with python integers  *)
(*     and compares with the real document parsed by python's own XML and  *)
(*     JSON parsers;                                                       *)
(*   - Foreign(enc, item): other forms that denote the same value and that *)
(*     a document produced elsewhere may use; the reader must accept them; *)
(*   - Equivalent(a, b): when two lexical tokens of a type denote the same *)
(*     value (used to judge re-encoded OASIS vectors: TraceTextForms).     *)
(* Names come from the pinned registry (spec/ref/registry.ref.json).       *)
(***************************************************************************)
EXTENDS Integers, Sequences, FiniteSets, TLC, Json, IOUtils

Ref == JsonDeserialize(IOEnv.REF_FILE)
Idx(s) == 1..Len(s)

(* ---------------------------------------------------------------- numbers as limbs *)
\* signed 64-bit: <<l3, l2, l1, l0>>, l3 in -32768..32767 (sign carrying), others 0..65535
Limb == {0, 1, 65535}
TopLimbs64 == {-32768, -17, -16, -15, -1, 0, 15, 16, 17, 32767}
Long64 == {<<a, b, c, d>> : a \in TopLimbs64, b \in Limb, c \in Limb, d \in Limb}
\* |v| >= 2^52: the JSON threshold (2^52 = limb3 16 exactly)
Beyond52(l) == l[1] >= 16 \/ l[1] <= -17 \/ (l[1] = -16 /\ l[2] = 0 /\ l[3] = 0 /\ l[4] = 0)
\* signed 32-bit: <<hi, lo>>, hi in -32768..32767
Int32 == {<<a, b>> : a \in {-32768, -32767, -1, 0, 1, 32767}, b \in Limb}
\* unsigned 32-bit: <<hi, lo>>
UInt32 == {<<a, b>> : a \in {0, 1, 32767, 32768, 65535}, b \in Limb}

(* ---------------------------------------------------------------- big integers: sign and magnitude bytes (minimal, most significant first) *)
MagLens == {1, 2, 6, 7, 8, 9, 16, 17}
FirstBytes == {1, 15, 16, 127, 128, 255}
RestBytes == {0, 255}
Mags == {<<>>} \cup UNION {{[i \in 1..n |-> IF i = 1 THEN f ELSE r] : f \in FirstBytes, r \in RestBytes} : n \in MagLens}
BigInts == {[neg |-> s, mag |-> m] : s \in BOOLEAN, m \in Mags} \ {[neg |-> TRUE, mag |-> <<>>]}
BigBeyond52(b) == Len(b.mag) > 7 \/ (Len(b.mag) = 7 /\ b.mag[1] >= 16)

(* ---------------------------------------------------------------- registry views *)
EnumEntries == {Ref.enums[i] : i \in Idx(Ref.enums)}
ValuesOf(e) == {e[3][k][1] : k \in Idx(e[3])}
NameOfValue(e, v) == IF v \in ValuesOf(e) THEN e[3][CHOOSE k \in Idx(e[3]) : e[3][k][1] = v][2] ELSE ""
MaxVal(e) == CHOOSE v \in ValuesOf(e) : \A w \in ValuesOf(e) : w <= v
MinVal(e) == CHOOSE v \in ValuesOf(e) : \A w \in ValuesOf(e) : w >= v
MaskEntries == {Ref.masks[i] : i \in Idx(Ref.masks)}
Pow2(b) == 2 ^ b
BitName(m, b) == IF b <= 30 /\ \E k \in Idx(m[3]) : m[3][k][1] = Pow2(b)
                 THEN m[3][CHOOSE k \in Idx(m[3]) : m[3][k][1] = Pow2(b)][2] ELSE ""
TagName(t) == IF \E i \in Idx(Ref.tags) : Ref.tags[i][1] = t THEN Ref.tags[CHOOSE i \in Idx(Ref.tags) : Ref.tags[i][1] = t][2] ELSE ""

(* ---------------------------------------------------------------- value spaces *)
TextClasses == {"empty", "ascii", "markup", "quotes", "spaces", "tab-nl-cr", "latin1", "c1-controls", "bmp", "non-bmp", "combining", "line-separators",
                "json-controls", "del", "backslash", "long", "ampersand-entities", "cdata-like", "surrogate-range-neighbours", "nonchar-fffe"}
\* classes that XML 1.0 cannot carry at all (excluded from XML by the property's premise)
NotXML == {"json-controls", "nonchar-fffe"}
ByteClasses == {"empty", "00", "ff", "0001", "16", "255", "deadbeef"}
Instants == {"epoch", "one", "minus-one", "year1", "year9999-end", "2038-last", "2038-next", "2106", "1900", "now", "leap-day"}
Zones == {"Z", "+02:00", "-11:00", "+05:45"}
\* instants at the edge of the year range are only written in UTC: their local rendering in another zone leaves years 1..9999
EdgeInstants == {"year1", "year9999-end"}

CONSTANT Deep     \* BOOLEAN: thorough tier - every enumeration of the registry instead of nine
SomeEnums == IF Deep THEN EnumEntries
             ELSE {e \in EnumEntries : e[2] \in {"CryptographicAlgorithm", "ObjectType", "Operation", "ResultReason", "KeyFormatType", "NameType", "State", "RecommendedCurve", "BatchErrorContinuationOption"}}
EnumValues(e) == {MinVal(e), MaxVal(e)} \cup {v \in ValuesOf(e) : v % 7 = 3} \cup {0, MaxVal(e) + 1, MaxVal(e) + 4096, 2147483647}
\* enumeration values beyond 2^31 (extensions): as limbs
EnumHigh == {<<32768, 0>>, <<32768, 1>>, <<65535, 65535>>}

BitSets(m) == {{}} \cup {{b} : b \in 0..31} \cup {{0, 1}, {1, 19}, {19, 20}, {0, 31}, {20, 31}, {0, 1, 2, 3}, 0..19, 0..31, 20..31, {2, 25, 31}}

Tags == {4325385, 5505025}        \* 0x420009 (registered: AttributeIndex) and 0x540001 (unregistered)

Leaf(ty, v) == [type |-> ty, v |-> v]
\* one homogeneous set of leaves per type (TLC cannot hold values of different shapes in one set)
Leaves(ty) ==
  CASE ty = "Integer" -> {Leaf(ty, x) : x \in Int32}
    [] ty = "LongInteger" -> {Leaf(ty, x) : x \in Long64}
    [] ty = "BigInteger" -> {Leaf(ty, x) : x \in BigInts}
    [] ty = "Enumeration" -> UNION {{Leaf(ty, [etag |-> e[1], ename |-> e[2], num |-> <<0, n>>, name |-> NameOfValue(e, n)]) : n \in EnumValues(e)} : e \in SomeEnums}
                       \cup UNION {{Leaf(ty, [etag |-> e[1], ename |-> e[2], num |-> h, name |-> ""]) : h \in EnumHigh} : e \in {x \in SomeEnums : x[2] = "ObjectType"}}
    [] ty = "Boolean" -> {Leaf(ty, b) : b \in BOOLEAN}
    [] ty = "TextString" -> {Leaf(ty, x) : x \in TextClasses}
    [] ty = "ByteString" -> {Leaf(ty, x) : x \in ByteClasses}
    [] ty = "DateTime" -> {Leaf(ty, [at |-> i, zone |-> z]) : i \in Instants \ EdgeInstants, z \in Zones} \cup {Leaf(ty, [at |-> i, zone |-> "Z"]) : i \in EdgeInstants}
    [] ty = "Interval" -> {Leaf(ty, x) : x \in UInt32}
    [] ty = "Bitmask" -> UNION {{Leaf(ty, [mtag |-> m[1], mname |-> m[2], bits |-> B]) : B \in BitSets(m)} : m \in MaskEntries}
LeafTypes == {"Integer", "LongInteger", "BigInteger", "Enumeration", "Boolean", "TextString", "ByteString", "DateTime", "Interval", "Bitmask"}

(* ---------------------------------------------------------------- forms *)
\* the element / member naming of an item
TagForm(t) == IF TagName(t) # "" THEN [registered |-> TRUE, name |-> TagName(t), tag |-> t] ELSE [registered |-> FALSE, name |-> "", tag |-> t]
TypeName(ty) == IF ty = "Bitmask" THEN "Integer" ELSE ty

\* the flag tokens of a mask value: the registered name of each set bit, else the bit alone in hexadecimal
MaskEntry(mt) == CHOOSE m \in MaskEntries : m[1] = mt
MaskTokens(v) == {IF BitName(MaskEntry(v.mtag), b) # "" THEN [lex |-> "name", s |-> BitName(MaskEntry(v.mtag), b)] ELSE [lex |-> "bit", b |-> b] : b \in v.bits}

Form(enc, it) ==
  CASE it.type = "Integer" -> [lex |-> IF enc = "json" THEN "number" ELSE "dec", int32 |-> it.v]
    [] it.type = "LongInteger" -> IF enc = "json" /\ Beyond52(it.v) THEN [lex |-> "hex64", int64 |-> it.v]
                                  ELSE [lex |-> IF enc = "json" THEN "number" ELSE "dec", int64 |-> it.v]
    [] it.type = "BigInteger" -> IF enc = "json" /\ ~BigBeyond52(it.v) THEN [lex |-> "number", big |-> it.v]
                                 ELSE [lex |-> "twos-complement-hex", big |-> it.v, prefix |-> enc = "json"]
    [] it.type = "Enumeration" -> IF it.v.name # "" THEN [lex |-> "name", s |-> it.v.name] ELSE [lex |-> "hex32", uint32 |-> it.v.num]
    [] it.type = "Boolean" -> [lex |-> IF enc = "json" THEN "json-bool" ELSE "bool", b |-> it.v]
    [] it.type = "TextString" -> [lex |-> "text", class |-> it.v]
    [] it.type = "ByteString" -> [lex |-> "hex-bytes", class |-> it.v]
    [] it.type = "DateTime" -> [lex |-> "rfc3339", at |-> it.v.at]
    \* (an Interval is a whole number of seconds: the driver hands the writers durations with a fraction of a second, too; the form is
    \* that of the whole seconds in every encoding)
    [] it.type = "Interval" -> [lex |-> IF enc = "json" THEN "number" ELSE "dec", uint32 |-> it.v]
    [] it.type = "Bitmask" -> [lex |-> "mask", sep |-> IF enc = "json" THEN "|" ELSE " ", tokens |-> MaskTokens(it.v), mtag |-> it.v.mtag]

\* forms written elsewhere that denote the same value: the reader must decode them to the same item
\* (XML's integer types - xsd:int and the like - allow leading zeros: "010" is ten, never eight)
Foreign(enc, it) ==
  CASE it.type = "LongInteger" -> IF enc = "json" THEN {[lex |-> "hex64", int64 |-> it.v]} ELSE {[lex |-> "dec-padded", zeros |-> z] : z \in {1, 2}}
    [] it.type \in {"Integer", "Interval"} -> IF enc = "xml" THEN {[lex |-> "dec-padded", zeros |-> z] : z \in {1, 2}} ELSE {}
    [] it.type = "BigInteger" -> {[lex |-> "twos-complement-hex", big |-> it.v, prefix |-> enc = "json", pad |-> p] : p \in {1, 8, 16}}
    [] it.type = "Enumeration" -> {[lex |-> "hex32", uint32 |-> it.v.num]}
    [] it.type = "ByteString" -> {[lex |-> "hex-bytes-lower", class |-> it.v]}
    [] it.type = "DateTime" -> {[lex |-> "rfc3339-zone", at |-> it.v.at, zone |-> z] : z \in (IF it.v.at \in EdgeInstants THEN {"Z"} ELSE Zones)}
    [] it.type = "Bitmask" -> {[lex |-> "mask-hex", sep |-> IF enc = "json" THEN "|" ELSE " ", bits |-> it.v.bits],
                               [lex |-> "mask-reversed", sep |-> IF enc = "json" THEN "|" ELSE " ", tokens |-> MaskTokens(it.v), mtag |-> it.v.mtag]}
    [] OTHER -> {}

Representable(enc, it) == ~(enc = "xml" /\ it.type = "TextString" /\ it.v \in NotXML)

(* ---------------------------------------------------------------- cases *)
VARIABLE c
LeafCases(ty) == {[part |-> "leaf", tag |-> TagForm(t), type |-> TypeName(l.type), kind |-> l.type, value |-> l.v,
                   xml |-> IF Representable("xml", l) THEN <<Form("xml", l)>> ELSE <<>>, json |-> <<Form("json", l)>>,
                   xmlforeign |-> Foreign("xml", l), jsonforeign |-> Foreign("json", l)] : t \in Tags, l \in Leaves(ty)}
\* structures: shapes over leaves (the children are named by index into a fixed leaf list chosen by the harness)
Shapes == {<<>>, <<"L">>, <<"L", "L">>, <<"S0">>, <<"L", "S1", "L">>, <<"S2">>, <<"S0", "S0">>}   \* S0: empty structure, S1: structure of one leaf, S2: structure of a structure of two leaves
StructCases == {[part |-> "struct", tag |-> TagForm(t), shape |-> s] : t \in Tags, s \in Shapes}
Init == (\E ty \in LeafTypes : c \in LeafCases(ty)) \/ c \in StructCases
Next == UNCHANGED c
Spec == Init /\ [][Next]_c

(* ---------------------------------------------------------------- invariants of the forms *)
\* the JSON threshold: a 64-bit value is written as a number exactly when its magnitude is below 2^52
ThresholdOK == (c.part = "leaf" /\ c.kind = "LongInteger") =>
                 /\ (c.json[1].lex = "hex64") = Beyond52(c.value)
                 /\ (c.value = <<16, 0, 0, 0>> => c.json[1].lex = "hex64") /\ (c.value = <<15, 65535, 65535, 65535>> => c.json[1].lex = "number")
                 /\ (c.value = <<-16, 0, 0, 0>> => c.json[1].lex = "hex64") /\ (c.value = <<-16, 0, 0, 1>> => c.json[1].lex = "number")
\* a registered enumeration value is written by name, any other in hexadecimal; names denote one value
EnumOK == (c.part = "leaf" /\ c.kind = "Enumeration") =>
             /\ (c.xml[1].lex = "name") = (c.value.name # "") /\ c.xml[1] = c.json[1]
             /\ c.value.name # "" => \A e \in EnumEntries : e[1] = c.value.etag => Cardinality({k \in Idx(e[3]) : e[3][k][2] = c.value.name}) = 1
\* every set bit of a mask appears as exactly one token
MaskOK == (c.part = "leaf" /\ c.kind = "Bitmask") => Cardinality(c.xml[1].tokens) = Cardinality(c.value.bits) /\ c.xml[1].tokens = c.json[1].tokens
FormsOK == ThresholdOK /\ EnumOK /\ MaskOK
Emit == PrintT(<<"CASE", ToJson(c)>>)

(* ---------------------------------------------------------------- equivalence of lexical tokens (re-encoded vectors) *)
\* Tokens are produced by the harness tokenizer from attribute values: [lex, ...] as above with concrete numbers as limbs.
\* the enumeration that governs an element is named by the element's tag, except where KMIP reuses an enumeration under another tag
Scope(etag) == IF etag = 4325634 THEN 4325432 ELSE etag        \* Mask Generator Hashing Algorithm: values of Hashing Algorithm
EnumNum(etag, tok) == IF tok.lex = "name"
                      THEN LET es == {e \in EnumEntries : e[1] = Scope(etag)} IN
                           IF es = {} THEN <<-1, -1>> ELSE LET e == CHOOSE x \in es : TRUE IN
                           IF \E k \in Idx(e[3]) : e[3][k][2] = tok.s THEN <<0, e[3][CHOOSE k \in Idx(e[3]) : e[3][k][2] = tok.s][1]>> ELSE <<-1, -1>>
                      ELSE tok.num
\* toks: sequence of tokens [lex |-> "name", s] or [lex |-> "bits", bits |-> sequence of bit numbers]
SeqSet(q) == {q[i] : i \in DOMAIN q}
MaskBits(mtag, toks) == UNION {IF t.lex = "name"
                               THEN LET ms == {m \in MaskEntries : m[1] = mtag} IN
                                    IF ms = {} THEN {-1} ELSE LET m == CHOOSE x \in ms : TRUE IN
                                    IF \E k \in Idx(m[3]) : m[3][k][2] = t.s THEN {b \in 0..30 : Pow2(b) = m[3][CHOOSE k \in Idx(m[3]) : m[3][k][2] = t.s][1]} ELSE {-1}
                               ELSE SeqSet(t.bits) : t \in SeqSet(toks)}
Equivalent(ty, a, b) ==
  CASE ty = "Enumeration" -> EnumNum(a.etag, a) = EnumNum(b.etag, b) /\ EnumNum(a.etag, a) # <<-1, -1>>
    [] ty = "Bitmask" -> MaskBits(a.mtag, a.tokens) = MaskBits(b.mtag, b.tokens) /\ -1 \notin MaskBits(a.mtag, a.tokens)
    [] ty \in {"Integer", "LongInteger", "Interval", "DateTime", "BigInteger"} -> a.num = b.num     \* same number (limbs), whatever the notation
    [] ty = "ByteString" -> a.bytes = b.bytes                                                      \* same bytes, whatever the letter case
    [] ty = "Boolean" -> a.b = b.b
    [] OTHER -> FALSE                                                                              \* text must be identical (identical pairs are not submitted)
=============================================================================
