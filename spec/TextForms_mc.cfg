SPECIFICATION Spec
INVARIANTS FormsOK
CHECK_DEADLOCK FALSE
