CONSTANTS Deep = TRUE
SPECIFICATION Spec
INVARIANTS FormsOK
CHECK_DEADLOCK FALSE
