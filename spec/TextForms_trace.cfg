CONSTANTS Deep = FALSE
SPECIFICATION TSpec
INVARIANT Done
CHECK_DEADLOCK FALSE
