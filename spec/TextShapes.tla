------------------------------ MODULE TextShapes ------------------------------
(***************************************************************************)
(* Shapes of XML and JSON documents handed to the text decoders (C02, and  *)
(* the HTTP transport of C08).                                             *)
(*                                                                         *)
(* A document is a tree of items; it is given here as the preorder list of *)
(* its nodes [d: depth, n: tag name, t: type, v: lexical value].  A case   *)
(* is one base document, one encoding, one node and one mutation of that   *)
(* node (or of the text around it).  Ops enumerates every way a member of  *)
(* the item syntax (tag, type, value, children, the node's own JSON kind,  *)
(* the XML token stream) can disagree with what a reader expects.          *)
(* keeps = "same": the mutated document is still a conformant document of  *)
(* the same message (alternative notation) and must decode to the same     *)
(* binary; keeps = "any": the decoder may accept or reject it, but must    *)
(* return normally, leave the input unchanged and give the same result     *)
(* when asked again (the harness renders the document and replays it       *)
(* through the typed message target, the untyped value target and the      *)
(* HTTP handler).                                                          *)
(***************************************************************************)
EXTENDS Naturals, Sequences, FiniteSets, TLC, Json

S(d, n) == [d |-> d, n |-> n, t |-> "Structure", v |-> ""]
L(d, n, t, v) == [d |-> d, n |-> n, t |-> t, v |-> v]

GetRequest == <<
  S(0, "RequestMessage"),
    S(1, "RequestHeader"),
      S(2, "ProtocolVersion"), L(3, "ProtocolVersionMajor", "Integer", "1"), L(3, "ProtocolVersionMinor", "Integer", "4"),
      L(2, "MaximumResponseSize", "Integer", "4096"),
      L(2, "AsynchronousIndicator", "Boolean", "false"),
      L(2, "TimeStamp", "DateTime", "2024-02-29T12:00:00Z"),
      L(2, "BatchCount", "Integer", "1"),
    S(1, "BatchItem"),
      L(2, "Operation", "Enumeration", "Get"),
      L(2, "UniqueBatchItemID", "ByteString", "0A0B"),
      S(2, "RequestPayload"), L(3, "UniqueIdentifier", "TextString", "id-1"), L(3, "KeyFormatType", "Enumeration", "Raw") >>

RegisterRequest == <<
  S(0, "RequestMessage"),
    S(1, "RequestHeader"),
      S(2, "ProtocolVersion"), L(3, "ProtocolVersionMajor", "Integer", "1"), L(3, "ProtocolVersionMinor", "Integer", "2"),
      L(2, "BatchCount", "Integer", "1"),
    S(1, "BatchItem"),
      L(2, "Operation", "Enumeration", "Register"),
      S(2, "RequestPayload"),
        L(3, "ObjectType", "Enumeration", "PublicKey"),
        S(3, "TemplateAttribute"),
          S(4, "Attribute"), L(5, "AttributeName", "TextString", "Cryptographic Usage Mask"), L(5, "AttributeValue", "Integer", "Verify"),
          S(4, "Attribute"), L(5, "AttributeName", "TextString", "Activation Date"), L(5, "AttributeValue", "DateTime", "2024-02-29T12:00:00Z"),
          S(4, "Attribute"), L(5, "AttributeName", "TextString", "Cryptographic Algorithm"), L(5, "AttributeValue", "Enumeration", "RSA"),
          S(4, "Attribute"), L(5, "AttributeName", "TextString", "Usage Limits"),
            S(5, "AttributeValue"), L(6, "UsageLimitsTotal", "LongInteger", "4503599627370497"), L(6, "UsageLimitsCount", "LongInteger", "10"), L(6, "UsageLimitsUnit", "Enumeration", "Byte"),
        S(3, "PublicKey"),
          S(4, "KeyBlock"),
            L(5, "KeyFormatType", "Enumeration", "TransparentRSAPublicKey"),
            S(5, "KeyValue"),
              S(6, "KeyMaterial"), L(7, "Modulus", "BigInteger", "00C5A1B2"), L(7, "PublicExponent", "BigInteger", "010001"),
            L(5, "CryptographicAlgorithm", "Enumeration", "RSA"),
            L(5, "CryptographicLength", "Integer", "1024") >>

LeaseResponse == <<
  S(0, "ResponseMessage"),
    S(1, "ResponseHeader"),
      S(2, "ProtocolVersion"), L(3, "ProtocolVersionMajor", "Integer", "1"), L(3, "ProtocolVersionMinor", "Integer", "0"),
      L(2, "TimeStamp", "DateTime", "2024-02-29T12:00:00Z"),
      L(2, "BatchCount", "Integer", "1"),
    S(1, "BatchItem"),
      L(2, "Operation", "Enumeration", "ObtainLease"),
      L(2, "ResultStatus", "Enumeration", "Success"),
      S(2, "ResponsePayload"),
        L(3, "UniqueIdentifier", "TextString", "id-1"),
        L(3, "LeaseTime", "Interval", "3600"),
        L(3, "LastChangeDate", "DateTime", "2024-02-29T12:00:00Z") >>

Docs == [get |-> GetRequest, register |-> RegisterRequest, lease |-> LeaseResponse]
DocNames == {"get", "register", "lease"}
Encodings == {"xml", "json"}
Types == {"Structure", "Integer", "LongInteger", "BigInteger", "Enumeration", "Boolean", "TextString", "ByteString", "DateTime", "Interval"}

(* ---------------------------------------------------------------- mutations of one node *)
\* members of the item syntax, both encodings
\* ("tag-hex-wide-*": a hexadecimal tag wider than three bytes whose low three bytes are the node's own / an unregistered tag)
TagOps == {"tag-unknown-name", "tag-empty", "tag-hex-bad", "tag-hex-unregistered", "tag-hex-own", "tag-other-registered", "tag-missing", "tag-hex-negative", "tag-hex-huge",
           "tag-hex-wide-own", "tag-hex-wide-unregistered"}
TypeOps == {"type-unknown", "type-empty", "type-lowercase"} \cup {"type-as:" \o t : t \in Types}
LeafValueOps == {"value-missing", "value-empty", "value-garbage", "value-hex-odd", "value-0x", "value-huge", "value-negative", "value-float", "value-spaces", "value-long"}
\* ("nest-under-previous": the node is moved into a structure with an unregistered tag appended to its previous sibling, when that one
\* is a structure - the node is then no member of its former parent any more, in any encoding)
TreeOps == {"drop-node", "dup-node", "swap-with-next", "nest-under-previous"}
LeafShapeOps == {"leaf-with-children", "type-missing"}
StructShapeOps == {"struct-empty", "struct-with-value", "struct-with-leaf-type-and-value"}
\* the node's own kind (JSON)
JsonNodeOps == {"node-array", "node-string", "node-number", "node-null", "node-true", "node-empty-object"}
JsonMemberOps == {"tag-number", "tag-null", "tag-array", "type-number", "type-null", "type-array", "dup-key-tag", "dup-key-value", "dup-key-type", "extra-key", "keys-reordered",
                  "key-case-variants-tag", "key-case-variants-type", "key-case-variants-value", "keys-uppercase"}
JsonLeafValueOps == {"value-null", "value-bool", "value-number", "value-quoted-number", "value-array", "value-object", "value-array-of-scalars", "value-nested-arrays"}
JsonStructValueOps == {"value-null", "value-string", "value-number", "value-object", "value-array-of-scalars", "value-array-with-null", "value-nested-arrays"}
JsonTextOps == {"truncate-at-node", "trailing-garbage", "trailing-second-document", "empty-document", "whitespace-document", "bom", "bare-nan", "single-quotes", "trailing-comma", "deep-nesting"}
\* the token stream (XML)
XmlNodeOps == {"attr-dup", "text-content", "comment-inside", "pi-inside", "cdata-inside", "ns-prefix", "ns-default", "ttlv-element-without-tag", "entity-undefined", "char-ref", "value-in-child-text", "extra-attribute", "attr-single-quotes", "unclosed", "mismatched-close"}
XmlTextOps == {"truncate-at-node", "two-roots", "empty-document", "whitespace-document", "bom", "xml-declaration", "xml-declaration-latin1", "doctype-internal-entity", "leading-comment", "trailing-garbage", "utf16"}

Applicable(enc, node, op) ==
  LET leaf == node.t # "Structure" IN
    \/ op \in TagOps \cup TypeOps \cup TreeOps
    \/ leaf /\ op \in LeafValueOps \cup LeafShapeOps
    \/ ~leaf /\ op \in StructShapeOps
    \/ enc = "json" /\ op \in JsonNodeOps \cup JsonMemberOps \cup JsonTextOps
    \/ enc = "json" /\ leaf /\ op \in JsonLeafValueOps
    \/ enc = "json" /\ ~leaf /\ op \in JsonStructValueOps
    \/ enc = "xml" /\ op \in XmlNodeOps \cup XmlTextOps
AllOps == TagOps \cup TypeOps \cup LeafValueOps \cup TreeOps \cup LeafShapeOps \cup StructShapeOps \cup JsonNodeOps \cup JsonMemberOps \cup JsonLeafValueOps
          \cup JsonStructValueOps \cup JsonTextOps \cup XmlNodeOps \cup XmlTextOps

\* mutations after which the document is still a conformant notation of the same message
Keeps(enc, node, op) ==
  IF \/ op \in {"tag-hex-own", "keys-reordered", "comment-inside", "pi-inside", "char-ref", "attr-single-quotes", "xml-declaration", "leading-comment", "whitespace-around"}
     \/ (op = "type-as:" \o node.t)
  THEN "same" ELSE "any"

\* document-level text mutations are applied once per document (at the root), node-level ones at every node
TextLevel(op) == op \in JsonTextOps \cup XmlTextOps
CONSTANT Deep      \* BOOLEAN: thorough tier - every case also combined with a second mutation at the last node of the document
SecondOps == {"type-unknown", "value-garbage", "drop-node", "tag-unknown-name", "leaf-with-children", "value-missing"}
VARIABLE c
Init == \E dn \in DocNames, e \in Encodings, op \in AllOps :
          \E i \in 1..Len(Docs[dn]) :
             /\ Applicable(e, Docs[dn][i], op)
             /\ (TextLevel(op) => i \in {1, Len(Docs[dn])} \/ op = "truncate-at-node")
             /\ \E o2 \in (IF Deep /\ i # Len(Docs[dn]) /\ ~TextLevel(op) THEN SecondOps \cup {"none"} ELSE {"none"}) :
                  c = [doc |-> dn, enc |-> e, at |-> i, op |-> op, keeps |-> IF o2 = "none" THEN Keeps(e, Docs[dn][i], op) ELSE "any", node |-> Docs[dn][i],
                       op2 |-> o2, at2 |-> Len(Docs[dn])]
Next == UNCHANGED c
Spec == Init /\ [][Next]_c

\* the base documents are well-formed trees: depths start at 0 and grow by at most one; leaves have values; structures have none
WellFormedDoc(D) == /\ D[1].d = 0 /\ D[1].t = "Structure"
                    /\ \A i \in 2..Len(D) : D[i].d >= 1 /\ D[i].d <= D[i - 1].d + 1 /\ (D[i].d = D[i - 1].d + 1 => D[i - 1].t = "Structure")
                    /\ \A i \in 1..Len(D) : D[i].t \in Types /\ ((D[i].t = "Structure") = (D[i].v = ""))
DocsOK == \A dn \in DocNames : WellFormedDoc(Docs[dn])
\* every type occurs in some base document, so every typed reader is reached
TypesCovered == \A t \in Types : \E dn \in DocNames : \E i \in 1..Len(Docs[dn]) : Docs[dn][i].t = t
ShapesOK == DocsOK /\ TypesCovered /\ c.op \in AllOps /\ Applicable(c.enc, c.node, c.op)
Emit == PrintT(<<"CASE", ToJson(c)>>)
\* the base documents are handed to the harness once per run
ASSUME PrintT(<<"DOCS", ToJson(Docs)>>)
=============================================================================
