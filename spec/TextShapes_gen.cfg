SPECIFICATION Spec
INVARIANTS Emit
CHECK_DEADLOCK FALSE
