CONSTANTS Deep = TRUE
SPECIFICATION Spec
INVARIANTS Emit
CHECK_DEADLOCK FALSE
