CONSTANTS Deep = TRUE
SPECIFICATION Spec
INVARIANTS ShapesOK
CHECK_DEADLOCK FALSE
