------------------------------ MODULE TlsAccept ------------------------------
(***************************************************************************)
(* The TLS front of the server (C08, C16): connections accepted from a TLS *)
(* listener perform their handshake in their own handler, so what one      *)
(* client does (or fails to do) during its handshake never delays another. *)
(*                                                                         *)
(* Clients are silent (connect and send nothing), abort (start the         *)
(* handshake, then close) or full (handshake, one request, read the        *)
(* response, close).  A history is a sequence of client steps, a Shutdown  *)
(* at the end.  Expectations checked on the real server after every step:  *)
(*   - a full client whose request step happened is answered, whatever the *)
(*     other clients are doing at that moment;                             *)
(*   - the terminate hook runs exactly for the connections whose connect   *)
(*     hook ran (handshake completed), once they ended;                    *)
(*   - Shutdown returns (at the latest when the grace period has expired   *)
(*     and the silent clients were cut), no handler goroutine is left.     *)
(***************************************************************************)
EXTENDS Naturals, Sequences, FiniteSets, TLC, Json
CONSTANTS NClients, MaxLen
Clients == 1..NClients
Kinds == {"silent", "abort", "full"}
VARIABLES kind, st, hist
vars == <<kind, st, hist>>
\* st[c]: "new" -> "connected" -> (full: "shaken" -> "asked" -> "answered") -> "closed"
Init == kind \in [Clients -> Kinds] /\ st = [c \in Clients |-> "new"] /\ hist = <<>>
Step(c, op, next) == st' = [st EXCEPT ![c] = next] /\ hist' = Append(hist, [c |-> c, op |-> op]) /\ UNCHANGED kind
Connect(c) == st[c] = "new" /\ Step(c, "connect", "connected")
Handshake(c) == st[c] = "connected" /\ kind[c] = "full" /\ Step(c, "handshake", "shaken")
HelloThenClose(c) == st[c] = "connected" /\ kind[c] = "abort" /\ Step(c, "hello-close", "closed")
Request(c) == st[c] = "shaken" /\ Step(c, "request", "answered")             \* the response is read in the same step: it must be there
Close(c) == st[c] \in {"connected", "shaken", "answered"} /\ kind[c] # "abort" /\ Step(c, "close", "closed")
Next == Len(hist) < MaxLen /\ \E c \in Clients : Connect(c) \/ Handshake(c) \/ HelloThenClose(c) \/ Request(c) \/ Close(c)
Spec == Init /\ [][Next]_vars
\* what the harness must observe at the end of the history
Answered == {c \in Clients : st[c] \in {"answered"} \/ (st[c] = "closed" /\ \E k \in 1..Len(hist) : hist[k].c = c /\ hist[k].op = "request")}
Hooked == {c \in Clients : \E k \in 1..Len(hist) : hist[k].c = c /\ hist[k].op = "handshake"}
StillOpen == {c \in Clients : st[c] \in {"connected", "shaken", "answered"}}
\* independence: whether a client can take its next step never depends on the state of another client
Independent == \A c \in Clients : (st[c] = "shaken") => ENABLED Request(c) \/ Len(hist) >= MaxLen
Emit == (Len(hist) = MaxLen \/ ~ENABLED Next) => PrintT(<<"CASE", ToJson([kind |-> kind, h |-> hist, answered |-> Answered, hooked |-> Hooked, open |-> StillOpen])>>)
=============================================================================
