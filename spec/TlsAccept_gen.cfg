SPECIFICATION Spec
CONSTANTS NClients = 3
 MaxLen = 5
INVARIANTS Emit
CHECK_DEADLOCK FALSE
