SPECIFICATION Spec
CONSTANTS NClients = 3
 MaxLen = 7
INVARIANTS Emit
CHECK_DEADLOCK FALSE
