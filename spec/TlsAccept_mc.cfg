SPECIFICATION Spec
CONSTANTS NClients = 3
 MaxLen = 5
INVARIANTS Independent
CHECK_DEADLOCK FALSE
