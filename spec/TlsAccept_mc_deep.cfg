SPECIFICATION Spec
CONSTANTS NClients = 3
 MaxLen = 7
INVARIANTS Independent
CHECK_DEADLOCK FALSE
