----------------------------- MODULE TraceBatch -----------------------------
(***************************************************************************)
(* Trace validation (B3) of recorded executions of the real                *)
(* kmipserver.BatchExecutor against Batch.tla.  The log (ndjson) holds     *)
(*   start(r, req)      before HandleRequest is called for request r       *)
(*   call(r, i, ph)     at entry of the operation handler of item i; ph is *)
(*                      what kmipserver.IdPlaceholder(ctx) returned there  *)
(*   resp(r, items, hdr) the projected response after HandleRequest        *)
(* Events of concurrent requests are interleaved in the order of their     *)
(* sequence numbers (taken under the recorder's mutex).  Unlogged steps    *)
(* (Validate, items that do not reach a handler, Skip, Finish) are silent; *)
(* they are taken only for the request of the NEXT log line: all variables *)
(* are per request, so silent steps of r commute with every step of other  *)
(* requests and this restriction loses no behaviour while keeping the      *)
(* search linear in the trace length.                                      *)
(***************************************************************************)
EXTENDS Batch, Json, IOUtils, TLCExt

Log == ndJsonDeserialize(IOEnv.TRACE_FILE)
TraceRids == 1..Log[1].slots          \* first line: {"ev":"meta","slots":N}; slots are reused after resp

VARIABLE l
tvars == <<vars, l>>

Cur == Log[l]
More == l <= Len(Log)

TraceInit == Init /\ l = 2

TStart == /\ More /\ Cur.ev = "start"
          /\ st[Cur.r] \in {"idle", "done"}          \* slot reuse = TraceReset of that slot
          /\ Fresh(Cur.r, Cur.req, Cur.u)
          /\ l' = l + 1

TCall == /\ More /\ Cur.ev = "call"
         /\ LET r == Cur.r IN
              /\ st[r] = "items" /\ idx[r] = Cur.i
              /\ idx[r] <= Len(req[r].items) /\ CallsHandler(req[r].items[idx[r]].out)
              /\ ph[r] = Cur.ph                \* the value the real handler observed
              /\ Exec(r)
         /\ l' = l + 1

TResp == /\ More /\ Cur.ev = "resp"
         /\ LET r == Cur.r IN
              /\ st[r] = "done"
              /\ resp[r] = Cur.items
              /\ hdr[r] = Cur.hdr
         /\ l' = l + 1
         /\ UNCHANGED vars

Silent == /\ More
          /\ LET r == Cur.r IN
               \/ Validate(r)
               \/ (Exec(r) /\ ~CallsHandler(req[r].items[idx[r]].out))
               \/ Skip(r)
               \/ Finish(r)
          /\ UNCHANGED l

TraceNext == TStart \/ TCall \/ TResp \/ Silent
TraceSpec == TraceInit /\ [][TraceNext]_tvars

\* the C09/C15 invariants, evaluated after every step for the request that step belongs to
TraceInv == l > 2 => AllFor(Log[l-1].r)

\* acceptance: the highest log position reached is kept in TLC register 1 (-workers 1)
HighWater == TLCSet(1, IF TLCGet(1) > l THEN TLCGet(1) ELSE l)
TraceAccepted == IF TLCGet(1) = Len(Log) + 1 THEN TRUE ELSE Print(<<"REJECTED_AT", TLCGet(1)>>, FALSE)
ASSUME TLCSet(1, 0)
=============================================================================
