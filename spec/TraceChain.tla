----------------------------- MODULE TraceChain -----------------------------
(***************************************************************************)
(* Trace validation of recorded middleware call traces against Chain.tla.  *)
(* The instrumented stages and cores of the harness log                    *)
(*   begin(q, chain)   enter(q, s, c, m)   core(q, c, m)   exit(q, s, k, f)*)
(*   final(q, k, f)                                                        *)
(* The model appends the same abstract events to hist[q]; seen[q] is how   *)
(* many of them have been matched with logged events.  Model steps are     *)
(* silent and taken just in time (only for the request of the next log     *)
(* line and only while no produced event is unconsumed); per-request state *)
(* is independent, so this loses no behaviour.  c = -1 in a logged core    *)
(* event means "not observable at this core" (client transport).           *)
(***************************************************************************)
EXTENDS Chain, Json, IOUtils, TLCExt, Integers

Log == ndJsonDeserialize(IOEnv.TRACE_FILE)
TraceQids == 1..Log[1].slots

VARIABLES l, seen
tvars == <<vars, l, seen>>
Cur == Log[l]
More == l <= Len(Log)

TraceInit == Init /\ l = 2 /\ seen = [q \in Qids |-> 0]

TBegin == /\ More /\ Cur.ev = "begin"
          /\ final[Cur.q][1] \in {"idle", "ok", "err"}        \* slot reuse = TraceReset of the slot
          /\ BeginFresh(Cur.q, Cur.chain)
          /\ seen' = [seen EXCEPT ![Cur.q] = 0]
          /\ l' = l + 1

Matches(ev, h) ==
    /\ ev.ev = h.e
    /\ CASE h.e = "enter" -> ev.s = h.s /\ ev.c = h.c /\ ev.m = h.m
         [] h.e = "core"  -> (ev.c = -1 \/ ev.c = h.c) /\ ev.m = h.m
         [] h.e = "exit"  -> ev.s = h.s /\ ev.k = h.k /\ ev.f = h.f

TObserve == /\ More /\ Cur.ev \in {"enter", "core", "exit"}
            /\ LET q == Cur.q IN
                 /\ seen[q] < Len(hist[q])
                 /\ Matches(Cur, hist[q][seen[q] + 1])
                 /\ seen' = [seen EXCEPT ![q] = @ + 1]
            /\ l' = l + 1
            /\ UNCHANGED vars

TFinal == /\ More /\ Cur.ev = "final"
          /\ LET q == Cur.q IN
               /\ seen[q] = Len(hist[q])
               /\ final[q] = <<Cur.k, Cur.f>>
          /\ l' = l + 1
          /\ UNCHANGED <<vars, seen>>

Silent == /\ More /\ Cur.ev # "begin"
          /\ seen[Cur.q] = Len(hist[Cur.q])
          /\ Step(Cur.q)
          /\ UNCHANGED <<l, seen>>

TraceNext == TBegin \/ TObserve \/ TFinal \/ Silent
TraceSpec == TraceInit /\ [][TraceNext]_tvars

TraceInv == l > 2 => AllFor(Log[l-1].q)

HighWater == TLCSet(1, IF TLCGet(1) > l THEN TLCGet(1) ELSE l)
TraceAccepted == IF TLCGet(1) = Len(Log) + 1 THEN TRUE ELSE Print(<<"REJECTED_AT", TLCGet(1)>>, FALSE)
ASSUME TLCSet(1, 0)
=============================================================================
