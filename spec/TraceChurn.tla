----------------------------- MODULE TraceChurn -----------------------------
(* Trace validation of a recorded free-running churn run against Churn.tla. *)
EXTENDS Churn, Json, IOUtils, TLCExt
Log == ndJsonDeserialize(IOEnv.TRACE_FILE)
VARIABLE l
Cur == Log[l]
More == l <= Len(Log)
\* connection numbers of the log are mapped onto the slots 1..MaxConn by the harness (a slot is reused after `reset`)
TReset == More /\ Cur.ev = "reset" /\ st' = [c \in Conns |-> "none"] /\ sent' = [c \in Conns |-> 0] /\ got' = [c \in Conns |-> 0] /\ l' = l + 1
TConnect == More /\ Cur.ev = "connect" /\ Connect(Cur.c) /\ l' = l + 1
TSend == More /\ Cur.ev = "send" /\ Send(Cur.c) /\ l' = l + 1
TRecv == More /\ Cur.ev = "recv" /\ Recv(Cur.c, Cur.k) /\ l' = l + 1
TClose == More /\ Cur.ev = "close" /\ Close(Cur.c) /\ l' = l + 1
TraceInit == Init /\ l = 1
TraceNext == TReset \/ TConnect \/ TSend \/ TRecv \/ TClose
TraceSpec == TraceInit /\ [][TraceNext]_<<vars, l>>
HighWater == TLCSet(1, IF TLCGet(1) > l THEN TLCGet(1) ELSE l)
TraceAccepted == IF TLCGet(1) = Len(Log) + 1 THEN TRUE ELSE Print(<<"REJECTED_AT", TLCGet(1)>>, FALSE)
ASSUME TLCSet(1, 0)
=============================================================================
