----------------------------- MODULE TraceClient -----------------------------
(* Trace validation of controlled executions of the real kmipclient against    *)
(* ClientConn.tla (same scheme as TraceServer.tla).                             *)
EXTENDS ClientConn, Json, IOUtils, TLCExt

Log == ndJsonDeserialize(IOEnv.TRACE_FILE)
VARIABLE l
tvars == <<vars, l>>
Cur == Log[l]
More == l <= Len(Log)
P(x) == <<x[1], x[2]>>

TraceInit == Init /\ l = 1

TReset == /\ More /\ Cur.ev = "reset" /\ l' = l + 1
  /\ pc' = [p \in Procs |-> IF p \in {R(1), W(1)} THEN "new!" ELSE "none"] /\ res' = [p \in Procs |-> "-"]
  /\ ret' = [p \in Procs |-> <<"-", "-", "-">>] /\ tg' = [p \in Procs |-> 0]
  /\ lock' = 0 /\ cur' = 1 /\ nextGen' = 2 /\ clientClosed' = FALSE
  /\ retry' = [k \in Callers |-> 3] /\ inLoop' = [k \in Callers |-> FALSE] /\ cancelled' = [k \in Callers |-> FALSE]
  /\ result' = [k \in Callers |-> <<"none", 0>>] /\ tries' = [k \in Callers |-> 0]
  /\ deadAtLock' = [k \in Callers |-> FALSE] /\ dialed' = [k \in Callers |-> FALSE] /\ startedAfterClose' = [k \in Callers |-> FALSE]
  /\ alive' = [g \in Gens |-> g = 1] /\ closed' = [g \in Gens |-> FALSE] /\ ctx' = [g \in Gens |-> FALSE] /\ cause' = [g \in Gens |-> "-"]
  /\ tx' = [g \in Gens |-> "chan"] /\ txClosed' = [g \in Gens |-> FALSE] /\ mtx' = [g \in Gens |-> "-"] /\ wtx' = [g \in Gens |-> "-"]
  /\ cliSock' = [g \in Gens |-> FALSE] /\ srvClosed' = [g \in Gens |-> FALSE] /\ srvReset' = [g \in Gens |-> FALSE]
  /\ c2s' = [g \in Gens |-> <<>>] /\ pending' = [g \in Gens |-> {}] /\ s2c' = [g \in Gens |-> <<>>]
  /\ rcur' = [g \in Gens |-> 0] /\ wcur' = [g \in Gens |-> 0] /\ rxClosed' = [g \in Gens |-> FALSE] /\ errch' = [g \in Gens |-> "none"]
  /\ panicked' = FALSE

TRel == /\ More /\ Cur.ev = "rel" /\ l' = l + 1
        /\ pc[P(Cur.p)] = Cur.g
        /\ Release(P(Cur.p))
        /\ Cur.g = "rt.dial" => res'[P(Cur.p)] = Cur.out

TArr == /\ More /\ Cur.ev = "arr" /\ l' = l + 1
        /\ Arrive(P(Cur.p))
        /\ pc'[P(Cur.p)] = Cur.g

THand == /\ More /\ Cur.ev = "hand" /\ l' = l + 1
         /\ CASE Cur.k = "tx" -> TxHandoff(Cur.g) /\ pc'[W(Cur.g)] = Cur.o
              [] Cur.k = "rx" -> RxHandoff(Cur.g) /\ pc'[R(Cur.g)] = Cur.o
         /\ pc'[K(Cur.c)] = Cur.m

TEnv == /\ More /\ Cur.ev = "env" /\ l' = l + 1
        /\ CASE Cur.act = "StartCall" -> StartCall(Cur.c)
             [] Cur.act = "Cancel" -> Cancel(Cur.c)
             [] Cur.act = "SrvRead" -> SrvRead(Cur.g) /\ Cur.id \in pending'[Cur.g]
             [] Cur.act = "SrvReply" -> SrvReply(Cur.g, Cur.id)
             [] Cur.act = "SrvClose" -> SrvClose(Cur.g)
             [] Cur.act = "SrvReset" -> SrvReset(Cur.g)
             [] Cur.act = "StartClose" -> StartClose

TEnd == /\ More /\ Cur.ev = "end" /\ l' = l + 1
        /\ \A p \in Procs : pc[p] \in {"none", "done"}
        /\ \A k \in Callers : result[k] = Cur.results[k]
        /\ \A k \in Callers : tries[k] = Cur.tries[k]
        /\ UNCHANGED vars

TNote == More /\ Cur.ev \in {"note", "obs"} /\ l' = l + 1 /\ UNCHANGED vars

TraceNext == TReset \/ TRel \/ TArr \/ THand \/ TEnv \/ TEnd \/ TNote
TraceSpec == TraceInit /\ [][TraceNext]_tvars
TraceInv == Safety /\ Recovers

HighWater == TLCSet(1, IF TLCGet(1) > l THEN TLCGet(1) ELSE l)
TraceAccepted == IF TLCGet(1) = Len(Log) + 1 THEN TRUE ELSE Print(<<"REJECTED_AT", TLCGet(1)>>, FALSE)
ASSUME TLCSet(1, 0)
=============================================================================
