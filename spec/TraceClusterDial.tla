-------------------------- MODULE TraceClusterDial --------------------------
(* Trace validation of recorded cluster-client runs against ClusterDial.tla.  Events:                                   *)
(*   reset | flip(s) | tick | build(attempts, result, at) | call(attempts, result, at)                                  *)
EXTENDS ClusterDial, Json, IOUtils, TLCExt
Log == ndJsonDeserialize(IOEnv.TRACE_FILE)
VARIABLE l
tvars == <<vars, l>>
Cur == Log[l]
More == l <= Len(Log)
TraceInit == Init /\ l = 1
TReset == /\ More /\ Cur.ev = "reset"
          /\ up' = Servers /\ now' = 1 /\ lastErr1' = Never /\ client' = "none" /\ at' = 0 /\ attempts' = <<>> /\ result' = "none" /\ steps' = 0
          /\ l' = l + 1
TFlip == More /\ Cur.ev = "flip" /\ Flip(Cur.s) /\ l' = l + 1
TTick == More /\ Cur.ev = "tick" /\ Tick /\ l' = l + 1
Matches == attempts' = Cur.attempts /\ result' = Cur.result /\ at' = Cur.at
TBuild == More /\ Cur.ev = "build" /\ Build /\ Matches /\ l' = l + 1
TCall == More /\ Cur.ev = "call" /\ Call /\ Matches /\ l' = l + 1
TraceNext == TReset \/ TFlip \/ TTick \/ TBuild \/ TCall
TraceSpec == TraceInit /\ [][TraceNext]_tvars
TraceInv == Inv
HighWater == TLCSet(1, IF TLCGet(1) > l THEN TLCGet(1) ELSE l)
TraceAccepted == IF TLCGet(1) = Len(Log) + 1 THEN TRUE ELSE Print(<<"REJECTED_AT", TLCGet(1)>>, FALSE)
ASSUME TLCSet(1, 0)
=============================================================================
