----------------------------- MODULE TraceCodec -----------------------------
(***************************************************************************)
(* Trace validation of the plan caches (C20).  The gate controller records *)
(* every cache miss (a goroutine starts building the plan of a type) and   *)
(* every store, and the digest of every call's result.  Against the        *)
(* discipline of CodecCache.tla:                                           *)
(*   a miss only happens for a plan that is not stored yet;                *)
(*   plans are built strictly nested per goroutine (Store pops the type    *)
(*   the innermost Miss pushed): a plan is stored only when complete;      *)
(*   a call ends with no build in progress and with the result the same    *)
(*   call gives alone in a fresh process (Ref, computed by the driver's    *)
(*   reference children).                                                  *)
(* The member relation Sub of CodecCache.tla is not needed: the nesting    *)
(* of the recorded events IS the recursion of the plan builder.            *)
(***************************************************************************)
EXTENDS Naturals, Sequences, FiniteSets, TLC, Json, IOUtils, TLCExt

Log == ndJsonDeserialize(IOEnv.TRACE_FILE)
Ref == JsonDeserialize(IOEnv.REF_FILE)
Procs == {"1", "2", "3", "4", "5", "6", "7", "8"}

VARIABLES l, cache, stack
vars == <<l, cache, stack>>
Cur == Log[l]
More == l <= Len(Log)

Init == l = 1 /\ cache = {} /\ stack = [p \in Procs |-> <<>>]
TReset == More /\ Cur.ev = "reset" /\ l' = l + 1 /\ cache' = {} /\ stack' = [p \in Procs |-> <<>>]
TMiss == /\ More /\ Cur.ev = "miss" /\ l' = l + 1
         /\ <<Cur.cache, Cur.t>> \notin cache
         /\ stack' = [stack EXCEPT ![Cur.p] = Append(@, <<Cur.cache, Cur.t>>)]
         /\ UNCHANGED cache
TStore == /\ More /\ Cur.ev = "store" /\ l' = l + 1
          /\ stack[Cur.p] # <<>> /\ stack[Cur.p][Len(stack[Cur.p])] = <<Cur.cache, Cur.t>>
          /\ stack' = [stack EXCEPT ![Cur.p] = SubSeq(@, 1, Len(@) - 1)]
          /\ cache' = cache \cup {<<Cur.cache, Cur.t>>}
TCall == /\ More /\ Cur.ev = "call" /\ l' = l + 1
         /\ stack[Cur.p] = <<>>
         /\ Cur.err = ""
         /\ Cur.digest = Ref[Cur.key]
         /\ UNCHANGED <<cache, stack>>
Next == TReset \/ TMiss \/ TStore \/ TCall
Spec == Init /\ [][Next]_vars
\* at most one goroutine's worth of nesting per goroutine; nothing is built twice by the same goroutine at once
Inv == \A p \in Procs : \A i, j \in 1..Len(stack[p]) : i # j => stack[p][i] # stack[p][j]

HighWater == TLCSet(1, IF TLCGet(1) > l THEN TLCGet(1) ELSE l)
TraceAccepted == IF TLCGet(1) = Len(Log) + 1 THEN TRUE ELSE Print(<<"REJECTED_AT", TLCGet(1)>>, FALSE)
ASSUME TLCSet(1, 0)
=============================================================================
