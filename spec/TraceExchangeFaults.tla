------------------------ MODULE TraceExchangeFaults ------------------------
(* Trace validation of recorded client runs against ExchangeFaults.tla.  One run is                                   *)
(*   case(plan) { begin {dial | rx | fault | reply}* ret }*                                                            *)
(* `case` is the reset between runs.  The events are recorded by the harness around an unmodified client: `dial` in   *)
(* the dial function, `rx` / `reply` in the scripted server, `fault` in the connection wrapper, `begin` / `ret` around *)
(* Dial and every call.                                                                                                *)
EXTENDS ExchangeFaults, Json, IOUtils, TLCExt

Log == ndJsonDeserialize(IOEnv.TRACE_FILE)
VARIABLE l
tvars == <<vars, l>>
Cur == Log[l]
More == l <= Len(Log)

TraceInit == /\ l = 1 /\ plan = NoPlan /\ exch = MaxExch /\ pc = "idle" /\ gen = 0 /\ dead = FALSE /\ sent = FALSE /\ replied = FALSE
             /\ tries = 0 /\ dials = 0 /\ attempts = 0 /\ budget = 3 /\ failedNow = FALSE /\ fired = 0 /\ result = <<>> /\ idleDeath = FALSE

TCase == /\ More /\ Cur.ev = "case" /\ pc = "idle"
         /\ plan' = [pt |-> Cur.pt, kind |-> Cur.kind, persist |-> Cur.persist, exch |-> Cur.exch, refuse |-> Cur.refuse]
         /\ exch' = 0 /\ pc' = "idle" /\ gen' = 0 /\ dead' = FALSE /\ sent' = FALSE /\ replied' = FALSE
         /\ tries' = 0 /\ dials' = 0 /\ attempts' = 0 /\ budget' = 3 /\ failedNow' = FALSE /\ fired' = 0 /\ result' = <<>> /\ idleDeath' = FALSE
         /\ l' = l + 1
TBegin == More /\ Cur.ev = "begin" /\ Begin /\ l' = l + 1
TDial == More /\ Cur.ev = "dial" /\ Dial /\ gen' = Cur.g /\ l' = l + 1
TRx == More /\ Cur.ev = "rx" /\ Cur.g = gen /\ Rx /\ l' = l + 1
TFault == More /\ Cur.ev = "fault" /\ Cur.g = gen /\ (FaultWrite \/ FaultRead \/ FaultAfter \/ FaultWithReply) /\ l' = l + 1
TReply == More /\ Cur.ev = "reply" /\ Cur.g = gen /\ Reply /\ l' = l + 1
TRet == /\ More /\ Cur.ev = "ret" /\ l' = l + 1
        /\ \/ Cur.outcome = "resp" /\ RetResp
           \/ Cur.outcome = "err" /\ (RetErr \/ RetRefused)

TraceNext == TCase \/ TBegin \/ TDial \/ TRx \/ TFault \/ TReply \/ TRet
TraceSpec == TraceInit /\ [][TraceNext]_tvars
TraceInv == Inv

HighWater == TLCSet(1, IF TLCGet(1) > l THEN TLCGet(1) ELSE l)
TraceAccepted == IF TLCGet(1) = Len(Log) + 1 THEN TRUE ELSE Print(<<"REJECTED_AT", TLCGet(1)>>, FALSE)
ASSUME TLCSet(1, 0)
=============================================================================
