---------------------------- MODULE TraceFraming ----------------------------
(***************************************************************************)
(* Trace validation of ttlv.Stream.Recv against Framing.tla.  The          *)
(* instrumented transport logs every Read call (bytes requested, bytes     *)
(* returned, end-of-stream flag); the driver logs the start and the result *)
(* of every Recv call with the number of bytes consumed from the transport *)
(* so far.  `reset` starts a new run with its own stream parameters.       *)
(* Every logged read must REQUEST exactly what the model's receiver        *)
(* requests in that state (the missing bytes of the current message).      *)
(***************************************************************************)
EXTENDS Framing, Json, IOUtils, TLCExt

Log == ndJsonDeserialize(IOEnv.TRACE_FILE)
VARIABLES l, seen
tvars == <<vars, l, seen>>
Cur == Log[l]
More == l <= Len(Log)

TraceInit == /\ l = 1 /\ seen = 0
             /\ A = <<>> /\ trunc = 0 /\ max = 0 /\ bad = {}
             /\ pc = "idle" /\ pos = 0 /\ i = 1 /\ read = 0 /\ need = 8 /\ cap = 512 /\ eofPending = FALSE /\ out = <<>>

TReset == /\ More /\ Cur.ev = "reset"
          /\ A' = Cur.A /\ trunc' = Cur.trunc /\ max' = Cur.max /\ bad' = {Cur.bad[j] : j \in 1..Len(Cur.bad)}
          /\ pc' = "idle" /\ pos' = 0 /\ i' = 1 /\ read' = 0 /\ need' = 8 /\ cap' = 512 /\ eofPending' = FALSE /\ out' = <<>>
          /\ seen' = 0 /\ l' = l + 1

TStart == /\ More /\ Cur.ev = "start" /\ seen = Len(out)
          /\ RecvStart /\ l' = l + 1 /\ UNCHANGED seen

TRead == /\ More /\ Cur.ev = "read"
         /\ pc = "reading"
         /\ Cur.req = Requested                       \* never asks for bytes beyond the current message
         /\ IF Cur.n = 0 THEN Cur.eof /\ ReadEOF ELSE ReadChunk(Cur.n, Cur.eof)
         /\ l' = l + 1 /\ UNCHANGED seen

TRecv == /\ More /\ Cur.ev = "recv"
         /\ Len(out) = seen + 1
         /\ LET o == out[Len(out)] IN
              /\ o[3] = Cur.consumed
              /\ IF Cur.res \in {"msg", "bad"} THEN o[1] = Cur.res /\ o[2] = Cur.id
                 ELSE /\ o[1] = "err"
                      /\ o[2] = "toobig" => (Cur.kind = "toobig" /\ ~Cur.big)    \* rejected without buffering the announced size
                      /\ o[2] # "toobig" => Cur.kind = "eof"
         /\ seen' = seen + 1 /\ l' = l + 1 /\ UNCHANGED vars

TraceNext == TReset \/ TStart \/ TRead \/ TRecv
TraceSpec == TraceInit /\ [][TraceNext]_tvars
TraceInv == Inv

HighWater == TLCSet(1, IF TLCGet(1) > l THEN TLCGet(1) ELSE l)
TraceAccepted == IF TLCGet(1) = Len(Log) + 1 THEN TRUE ELSE Print(<<"REJECTED_AT", TLCGet(1)>>, FALSE)
ASSUME TLCSet(1, 0)
=============================================================================
