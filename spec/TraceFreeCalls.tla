--------------------------- MODULE TraceFreeCalls ---------------------------
(* Trace validation of a recorded free-running run against FreeCalls.tla: `ret` carries the id the caller found in its response. *)
EXTENDS FreeCalls, Sequences, Json, IOUtils, TLCExt
Log == ndJsonDeserialize(IOEnv.TRACE_FILE)
VARIABLE l
Cur == Log[l]
More == l <= Len(Log)
TCall == More /\ Cur.ev = "call" /\ Call(Cur.k, Cur.id) /\ l' = l + 1
TRet == /\ More /\ Cur.ev = "ret" /\ l' = l + 1
        /\ \/ Cur.outcome = "resp" /\ Cur.id = cur[Cur.k] /\ RetOwn(Cur.k)
           \/ Cur.outcome = "err" /\ RetErr(Cur.k)
TraceInit == Init /\ l = 1
TraceNext == TCall \/ TRet
TraceSpec == TraceInit /\ [][TraceNext]_<<cur, l>>
HighWater == TLCSet(1, IF TLCGet(1) > l THEN TLCGet(1) ELSE l)
TraceAccepted == IF TLCGet(1) = Len(Log) + 1 THEN TRUE ELSE Print(<<"REJECTED_AT", TLCGet(1)>>, FALSE)
ASSUME TLCSet(1, 0)
=============================================================================
