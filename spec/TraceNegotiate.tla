--------------------------- MODULE TraceNegotiate ---------------------------
(* Trace validation of recorded Dial runs against Negotiate.tla.  One run is    *)
(*   conf(C, enforced) [offer(list) reply(list)] result(outcome, adopted) req(v)* *)
(* `conf` is the TraceReset between runs; Scan/Adopt/Enforce are silent.         *)
EXTENDS Negotiate, Json, IOUtils, TLCExt

Log == ndJsonDeserialize(IOEnv.TRACE_FILE)
VARIABLE l
tvars == <<vars, l>>
Cur == Log[l]
More == l <= Len(Log)

TraceInit == /\ l = 1 /\ pc = "reset" /\ C = {} /\ enforced = None
             /\ offered = <<>> /\ reply = <<>> /\ best = None /\ scan = 0 /\ adopted = None /\ sent = <<>>

TConf == /\ More /\ Cur.ev = "conf"
         /\ pc \in {"reset", "connected", "failed"}
         /\ C' = Range(Cur.C) /\ enforced' = Cur.enforced /\ pc' = "config"
         /\ offered' = <<>> /\ reply' = <<>> /\ best' = None /\ scan' = 0 /\ adopted' = None /\ sent' = <<>>
         /\ l' = l + 1
TOffer == /\ More /\ Cur.ev = "offer" /\ Offer /\ offered' = Cur.list /\ l' = l + 1
TReply == /\ More /\ Cur.ev = "reply" /\ Reply(Cur.list) /\ l' = l + 1
TResult == /\ More /\ Cur.ev = "result"
           /\ pc \in {"connected", "failed"} /\ pc = Cur.outcome /\ adopted = Cur.adopted
           /\ l' = l + 1 /\ UNCHANGED vars
TReq == /\ More /\ Cur.ev = "req" /\ Request /\ sent'[Len(sent')] = Cur.v /\ l' = l + 1
TReconnect == /\ More /\ Cur.ev = "reconnect" /\ Reconnect /\ Cur.discoveries = (IF enforced = None THEN 1 ELSE 0) /\ l' = l + 1
Silent == /\ More /\ Cur.ev = "result" /\ (Enforce \/ Scan \/ Adopt) /\ UNCHANGED l

TraceNext == TReconnect \/ TConf \/ TOffer \/ TReply \/ TResult \/ TReq \/ Silent
TraceSpec == TraceInit /\ [][TraceNext]_tvars
TraceInv == pc # "reset" => Inv

HighWater == TLCSet(1, IF TLCGet(1) > l THEN TLCGet(1) ELSE l)
TraceAccepted == IF TLCGet(1) = Len(Log) + 1 THEN TRUE ELSE Print(<<"REJECTED_AT", TLCGet(1)>>, FALSE)
ASSUME TLCSet(1, 0)
=============================================================================
