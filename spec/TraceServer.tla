----------------------------- MODULE TraceServer -----------------------------
(***************************************************************************)
(* Trace validation of controlled executions of the real kmipserver        *)
(* against Server.tla.  The gate controller releases one goroutine (or     *)
(* performs one environment action) at a time and waits for quiescence, so *)
(* the log order is the real order.  Log lines:                            *)
(*   reset                                   a fresh server (TraceReset)   *)
(*   rel  p g [out]                          goroutine p released from g   *)
(*   arr  p g                                goroutine p reached gate g    *)
(*   hand c k m o                            rendezvous k (rx|tx|err) on   *)
(*                                           connection c; M reached m,    *)
(*                                           the partner reached o         *)
(*   env  act [c] [kind]                     environment action            *)
(*   end                                     the run is over: every        *)
(*                                           goroutine must have ended     *)
(* Everything is logged, so the validation is a linear walk.               *)
(***************************************************************************)
EXTENDS Server, Json, IOUtils, TLCExt

Log == ndJsonDeserialize(IOEnv.TRACE_FILE)
VARIABLE l
tvars == <<vars, l>>
Cur == Log[l]
More == l <= Len(Log)
P(x) == <<x[1], x[2]>>

TraceInit == Init /\ l = 1

TReset == /\ More /\ Cur.ev = "reset" /\ l' = l + 1
          /\ pc' = [p \in Procs |-> IF p = S THEN "serve.accept" ELSE "none"]
          /\ res' = [p \in Procs |-> "-"] /\ ret' = [p \in Procs |-> "-"]
          /\ closed' = [c \in Conns |-> FALSE] /\ ctx' = [c \in Conns |-> FALSE]
          /\ tx' = [c \in Conns |-> "chan"] /\ txClosed' = [c \in Conns |-> FALSE]
          /\ mtx' = [c \in Conns |-> "-"] /\ wtx' = [c \in Conns |-> "-"]
          /\ srvClosed' = [c \in Conns |-> FALSE] /\ cliWr' = [c \in Conns |-> FALSE] /\ cliClosed' = [c \in Conns |-> FALSE]
          /\ inbox' = [c \in Conns |-> <<>>] /\ sentk' = [c \in Conns |-> 0]
          /\ rcur' = [c \in Conns |-> NoMsg] /\ mcur' = [c \in Conns |-> NoMsg] /\ wcur' = [c \in Conns |-> NoMsg]
          /\ lastReply' = [c \in Conns |-> FALSE]
          /\ rxClosed' = [c \in Conns |-> FALSE] /\ errch' = [c \in Conns |-> "none"]
          /\ outbox' = [c \in Conns |-> <<>>] /\ handled' = [c \in Conns |-> <<>>]
          /\ hookC' = [c \in Conns |-> "none"] /\ termHooks' = [c \in Conns |-> 0]
          /\ listener' = "open" /\ acceptQ' = <<>> /\ wg' = 0 /\ recvCtx' = FALSE /\ srvCtx' = FALSE /\ timer' = "off"
          /\ serveRes' = "-" /\ sdReturned' = FALSE /\ lateHandler' = FALSE /\ panicked' = FALSE /\ shuttingDown' = FALSE

TRel == /\ More /\ Cur.ev = "rel" /\ l' = l + 1
        /\ pc[P(Cur.p)] = Cur.g
        /\ Release(P(Cur.p))
        /\ Cur.g = "u.connect" => hookC'[Cur.p[1]] = Cur.out

TArr == /\ More /\ Cur.ev = "arr" /\ l' = l + 1
        /\ Arrive(P(Cur.p))
        /\ pc'[P(Cur.p)] = Cur.g

THand == /\ More /\ Cur.ev = "hand" /\ l' = l + 1
         /\ LET c == Cur.c IN
            /\ CASE Cur.k = "rx" -> RxHandoff(c) /\ pc'[R(c)] = Cur.o
                 [] Cur.k = "tx" -> TxHandoff(c) /\ pc'[W(c)] = Cur.o
                 [] Cur.k = "err" -> ErrHandoff(c) /\ pc'[W(c)] = Cur.o
            /\ pc'[M(c)] = Cur.m

TEnv == /\ More /\ Cur.ev = "env" /\ l' = l + 1
        /\ CASE Cur.act = "CliConnect" -> CliConnect(Cur.c)
             [] Cur.act = "CliSend" -> CliSend(Cur.c, Cur.kind)
             [] Cur.act = "CliHalfClose" -> CliHalfClose(Cur.c)
             [] Cur.act = "CliClose" -> CliClose(Cur.c)
             [] Cur.act = "StartShutdown" -> StartShutdown
             [] Cur.act = "TimerFire" -> TimerFire
             [] Cur.act = "OwnerClose" -> OwnerClose

MaskInv(s) == [i \in 1..Len(s) |-> IF s[i][1] = "inv" THEN <<"inv", 0>> ELSE s[i]]

\* the responses the client read, as the driver decoded them, must be what the model says was written
TEnd == /\ More /\ Cur.ev = "end" /\ l' = l + 1
        /\ \A p \in Procs : pc[p] \in {"none", "done"} \/ (p = S /\ pc[p] = "serve.accept!")
        /\ \A c \in Conns : MaskInv(outbox[c]) = Cur.out[c]
        /\ \A c \in Conns : handled[c] = Cur.handled[c]
        /\ \A c \in Conns : termHooks[c] = Cur.termhooks[c]
        /\ serveRes = Cur.serve
        /\ UNCHANGED vars

\* driver annotations (start of the drain phase, observations) carry no behaviour
TNote == More /\ Cur.ev \in {"note", "obs"} /\ l' = l + 1 /\ UNCHANGED vars

TraceNext == TReset \/ TRel \/ TArr \/ THand \/ TEnv \/ TEnd \/ TNote
TraceSpec == TraceInit /\ [][TraceNext]_tvars
TraceInv == Safety

HighWater == TLCSet(1, IF TLCGet(1) > l THEN TLCGet(1) ELSE l)
TraceAccepted == IF TLCGet(1) = Len(Log) + 1 THEN TRUE ELSE Print(<<"REJECTED_AT", TLCGet(1)>>, FALSE)
ASSUME TLCSet(1, 0)
=============================================================================
