------------------------ MODULE TraceShutdownStall ------------------------
(* Trace validation of recorded runs of a real kmipserver against ShutdownStall.tla.  One run is                       *)
(*   reset {stall | resume | request | handler-enter | handler-exit | shutdown-call | grace | term-hook |              *)
(*          shutdown-return}* end(sd, answered, hooks)                                                                 *)
(* The write loop's steps, the sender giving up and the idle connection leaving its loop are not logged: they are      *)
(* silent steps, pinned down by the `end` event (was the response delivered, did Shutdown return, how many hooks).     *)
EXTENDS ShutdownStall, Sequences, Json, IOUtils, TLCExt
Log == ndJsonDeserialize(IOEnv.TRACE_FILE)
VARIABLE l
tvars == <<vars, l>>
Cur == Log[l]
More == l <= Len(Log)
TraceInit == Init /\ l = 1
TReset == /\ More /\ Cur.ev = "reset" /\ l' = l + 1
          /\ cli' = "reading" /\ req' = "none" /\ m' = "recv" /\ w' = "idle" /\ conn' = "open" /\ sd' = "none" /\ answered' = FALSE /\ hooks' = 0
Ev(name, A) == More /\ Cur.ev = name /\ A /\ l' = l + 1
TEnd == /\ More /\ Cur.ev = "end" /\ l' = l + 1
        /\ sd = Cur.sd /\ answered = Cur.answered /\ hooks = Cur.hooks
        /\ UNCHANGED vars
Silent == (MRecvCancelled \/ CtxTerminate \/ WriteOK \/ WriteFail \/ WExit) /\ UNCHANGED l
TraceNext == \/ TReset \/ TEnd \/ Silent
             \/ Ev("stall", CliStall) \/ Ev("resume", CliResume) \/ Ev("request", CliRequest)
             \/ Ev("handler-enter", MRecv) \/ Ev("handler-exit", HandlerDone)
             \/ Ev("shutdown-call", SdCall) \/ Ev("grace", Grace) \/ Ev("term-hook", MTerm) \/ Ev("shutdown-return", SdReturn)
TraceSpec == TraceInit /\ [][TraceNext]_tvars
TraceInv == Inv
HighWater == TLCSet(1, IF TLCGet(1) > l THEN TLCGet(1) ELSE l)
TraceAccepted == IF TLCGet(1) = Len(Log) + 1 THEN TRUE ELSE Print(<<"REJECTED_AT", TLCGet(1)>>, FALSE)
ASSUME TLCSet(1, 0)
=============================================================================
