--------------------------- MODULE TraceTextForms ---------------------------
(***************************************************************************)
(* Judges pairs of lexical tokens recorded while comparing documents (the  *)
(* vector's own XML tree, the re-encoded XML and JSON trees, the binary    *)
(* tree): each line of the trace is [ty, a, b]; the pair is accepted iff   *)
(* TextForms!Equivalent holds (names resolved with the pinned registry).   *)
(* Every pair is visited; the rejected ones are printed.                   *)
(***************************************************************************)
EXTENDS TextForms
Pairs == ndJsonDeserialize(IOEnv.TRACE_FILE)
VARIABLE l
TInit == l = 1 /\ c = 0
TNext == /\ l <= Len(Pairs)
         /\ l' = l + 1
         /\ UNCHANGED c
         /\ (Equivalent(Pairs[l].ty, Pairs[l].a, Pairs[l].b) \/ PrintT(<<"NOTEQ", l>>))
TSpec == TInit /\ [][TNext]_<<l, c>>
Done == (l = Len(Pairs) + 1) => PrintT(<<"JUDGED", Len(Pairs)>>)
=============================================================================
