-------------------------------- MODULE Wire --------------------------------
(***************************************************************************)
(* The KMIP TTLV binary wire format (KMIP 1.4 section 9.1), written from   *)
(* the specification, not from the library: an independent reference for   *)
(* C03 (encoder output is well-formed TTLV), C02 (decoding arbitrary bytes  *)
(* stays inside the declared extents) and C18 (re-encoding reaches a fixed  *)
(* point).                                                                  *)
(*                                                                         *)
(* An item is [tag, ty, v]: ty 1..10 = Structure, Integer, Long Integer,    *)
(* Big Integer, Enumeration, Boolean, Text String, Byte String, Date-Time,  *)
(* Interval.  Values TLC cannot hold as numbers are byte sequences:         *)
(*   Integer / Enumeration / Interval   4 bytes (big endian pattern)        *)
(*   Long Integer / Date-Time           8 bytes                             *)
(*   Boolean                            TRUE / FALSE                        *)
(*   Text String / Byte String          byte sequence                       *)
(*   Big Integer                        [neg, mag]: sign and minimal        *)
(*                                      big-endian magnitude (<<>> = 0)     *)
(*   Structure                          sequence of items                   *)
(***************************************************************************)
EXTENDS Naturals, Sequences, FiniteSets, TLC

Byte == 0..255
Pad8(n) == (8 - (n % 8)) % 8

RECURSIVE Zeros(_)
Zeros(n) == IF n = 0 THEN <<>> ELSE <<0>> \o Zeros(n - 1)
RECURSIVE Rep(_, _)
Rep(b, n) == IF n = 0 THEN <<>> ELSE <<b>> \o Rep(b, n - 1)

\* big endian encoding of a natural number < 2^32 on 4 bytes, 3 bytes
U32(n) == << (n \div 16777216) % 256, (n \div 65536) % 256, (n \div 256) % 256, n % 256 >>
U24(n) == << (n \div 65536) % 256, (n \div 256) % 256, n % 256 >>
FromU32(b) == b[1] * 16777216 + b[2] * 65536 + b[3] * 256 + b[4]      \* only used for lengths < 2^31
FromU24(b) == b[1] * 65536 + b[2] * 256 + b[3]

-----------------------------------------------------------------------------
(* Big integers: two's complement, sign-extended to a multiple of 8 bytes.  *)

\* one's complement of a byte sequence
Inv(s) == [i \in 1..Len(s) |-> 255 - s[i]]
\* s + 1 on a fixed width (overflow wraps)
RECURSIVE Inc(_)
Inc(s) == IF s = <<>> THEN <<>>
          ELSE IF s[Len(s)] < 255 THEN [s EXCEPT ![Len(s)] = @ + 1]
          ELSE Inc(SubSeq(s, 1, Len(s) - 1)) \o <<0>>
RECURSIVE Dec(_)
Dec(s) == IF s = <<>> THEN <<>>
          ELSE IF s[Len(s)] > 0 THEN [s EXCEPT ![Len(s)] = @ - 1]
          ELSE Dec(SubSeq(s, 1, Len(s) - 1)) \o <<255>>
RECURSIVE StripZeros(_)
StripZeros(s) == IF s # <<>> /\ s[1] = 0 THEN StripZeros(Tail(s)) ELSE s
AllZero(s) == \A i \in 1..Len(s) : s[i] = 0

\* the value bytes of a Big Integer [neg, mag]: minimal two's complement width, then sign extension to 8k bytes
BigBytes(bi) ==
  IF bi.mag = <<>> THEN Zeros(8)
  ELSE LET m == bi.mag
           \* width needed: one more byte when the top bit would contradict the sign,
           \* except for the exact negative power -2^(8k-1) whose two's complement fits
           isPow == bi.neg /\ m[1] = 128 /\ AllZero(Tail(m))
           w == IF m[1] >= 128 /\ ~isPow THEN Len(m) + 1 ELSE Len(m)
           wide == Zeros(w - Len(m)) \o m
           body == IF bi.neg THEN Inc(Inv(wide)) ELSE wide
           total == w + Pad8(w)
       IN Rep(IF bi.neg THEN 255 ELSE 0, total - w) \o body

\* the Big Integer denoted by value bytes (any length >= 1): inverse of BigBytes on canonical input
BigOf(b) ==
  IF b[1] >= 128
  THEN [neg |-> TRUE, mag |-> StripZeros(Inv(Dec(b)))]
  ELSE [neg |-> FALSE, mag |-> StripZeros(b)]

-----------------------------------------------------------------------------
(* Encoding                                                                 *)
RECURSIVE Enc(_), EncSeq(_)
ValueBytes(t) ==
  CASE t.ty = 1 -> EncSeq(t.v)
    [] t.ty \in {2, 5, 10} -> t.v
    [] t.ty \in {3, 9} -> t.v
    [] t.ty = 4 -> BigBytes(t.v)
    [] t.ty = 6 -> Zeros(7) \o <<IF t.v THEN 1 ELSE 0>>
    [] t.ty \in {7, 8} -> t.v
Enc(t) == LET vb == ValueBytes(t) IN U24(t.tag) \o <<t.ty>> \o U32(Len(vb)) \o vb \o Zeros(Pad8(Len(vb)))
EncSeq(s) == IF s = <<>> THEN <<>> ELSE Enc(Head(s)) \o EncSeq(Tail(s))

-----------------------------------------------------------------------------
(* Parsing: a total function on byte sequences.  ParseAt(b, lo, hi) parses  *)
(* one item from positions lo..hi of b and never looks outside lo..hi.      *)
(* Lenient where the wire format leaves room and decoders commonly are:     *)
(* padding bytes are not inspected, a Big Integer may be over-long, a       *)
(* Boolean is "last byte non-zero".  `strict` adds the canonical-form rules *)
(* (zero padding, Big Integer minimal and multiple of 8, Boolean 0/1).      *)
Reject(why) == [ok |-> FALSE, why |-> why]
Slice(b, lo, n) == SubSeq(b, lo, lo + n - 1)

RECURSIVE ParseAt(_, _, _, _), ParseSeq(_, _, _, _)
ParseAt(b, lo, hi, strict) ==
  IF hi - lo + 1 < 8 THEN Reject("header-short")
  ELSE LET tag == FromU24(Slice(b, lo, 3))
           ty == b[lo + 3]
           lb == Slice(b, lo + 4, 4)
       IN IF lb[1] >= 128 \/ FromU32(lb) > hi - lo THEN Reject("value-short")   \* announced length beyond the buffer (incl. >= 2^31)
          ELSE LET n == FromU32(lb)
                   pn == n + Pad8(n)
                   vlo == lo + 8
               IN IF hi - vlo + 1 < pn THEN Reject("value-short")
                  ELSE IF ty < 1 \/ ty > 10 THEN Reject("bad-type")
                  ELSE IF strict /\ ~AllZero(Slice(b, vlo + n, pn - n)) THEN Reject("nonzero-padding")
                  ELSE LET vb == Slice(b, vlo, n)
                           next == vlo + pn
                       IN CASE ty = 1 ->
                                 LET kids == ParseSeq(b, vlo, vlo + n - 1, strict) IN
                                 IF kids.ok THEN [ok |-> TRUE, item |-> [tag |-> tag, ty |-> 1, v |-> kids.items], next |-> next]
                                 ELSE kids
                            [] ty \in {2, 5, 10} ->
                                 IF n # 4 THEN Reject("bad-length") ELSE [ok |-> TRUE, item |-> [tag |-> tag, ty |-> ty, v |-> vb], next |-> next]
                            [] ty \in {3, 9} ->
                                 IF n # 8 THEN Reject("bad-length") ELSE [ok |-> TRUE, item |-> [tag |-> tag, ty |-> ty, v |-> vb], next |-> next]
                            [] ty = 6 ->
                                 IF n # 8 THEN Reject("bad-length")
                                 ELSE IF strict /\ (~AllZero(SubSeq(vb, 1, 7)) \/ vb[8] > 1) THEN Reject("bad-boolean")
                                 ELSE [ok |-> TRUE, item |-> [tag |-> tag, ty |-> 6, v |-> vb[8] # 0], next |-> next]
                            [] ty = 4 ->
                                 IF n = 0 THEN Reject("bad-length")
                                 ELSE IF strict /\ (n % 8 # 0 \/ BigBytes(BigOf(vb)) # vb) THEN Reject("non-canonical-biginteger")
                                 ELSE [ok |-> TRUE, item |-> [tag |-> tag, ty |-> 4, v |-> BigOf(vb)], next |-> next]
                            [] ty \in {7, 8} -> [ok |-> TRUE, item |-> [tag |-> tag, ty |-> ty, v |-> vb], next |-> next]

\* the items filling lo..hi exactly
ParseSeq(b, lo, hi, strict) ==
  IF lo > hi THEN [ok |-> TRUE, items |-> <<>>]
  ELSE LET r == ParseAt(b, lo, hi, strict) IN
       IF ~r.ok THEN r
       ELSE LET rest == ParseSeq(b, r.next, hi, strict) IN
            IF rest.ok THEN [ok |-> TRUE, items |-> <<r.item>> \o rest.items] ELSE rest

\* a whole buffer holding exactly one item
Parse(b, strict) ==
  LET r == ParseAt(b, 1, Len(b), strict) IN
  IF ~r.ok THEN r ELSE IF r.next # Len(b) + 1 THEN Reject("trailing-bytes") ELSE r

Canon(b) == Enc(Parse(b, FALSE).item)

-----------------------------------------------------------------------------
(* Well-formedness of an encoding, stated directly on the bytes.            *)
WellFormed(b) == Len(b) % 8 = 0 /\ Parse(b, TRUE).ok
=============================================================================
