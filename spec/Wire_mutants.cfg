SPECIFICATION Spec
CONSTANTS
  Mode = "mutants"
INVARIANTS EncodingOK ParseTotal FixedPoint
CHECK_DEADLOCK FALSE
