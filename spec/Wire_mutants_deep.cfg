SPECIFICATION Spec
CONSTANTS
  Deep = TRUE
  Mode = "mutants"
INVARIANTS EncodingOK ParseTotal FixedPoint
CHECK_DEADLOCK FALSE
