SPECIFICATION Spec
CONSTANTS
  Deep = TRUE
  Mode = "mutants"
INVARIANTS Emit
CHECK_DEADLOCK FALSE
