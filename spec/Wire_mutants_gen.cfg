SPECIFICATION Spec
CONSTANTS
  Mode = "mutants"
INVARIANTS Emit
CHECK_DEADLOCK FALSE
