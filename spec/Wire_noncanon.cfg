SPECIFICATION Spec
CONSTANTS
  Deep = FALSE
  Mode = "noncanon"
INVARIANTS EncodingOK ParseTotal FixedPoint
CHECK_DEADLOCK FALSE
