SPECIFICATION Spec
CONSTANTS
  Mode = "noncanon"
INVARIANTS EncodingOK ParseTotal FixedPoint
CHECK_DEADLOCK FALSE
