SPECIFICATION Spec
CONSTANTS
  Deep = TRUE
  Mode = "noncanon"
INVARIANTS EncodingOK ParseTotal FixedPoint
CHECK_DEADLOCK FALSE
