SPECIFICATION Spec
CONSTANTS
  Deep = TRUE
  Mode = "noncanon"
INVARIANTS Emit
CHECK_DEADLOCK FALSE
