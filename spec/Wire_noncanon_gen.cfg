SPECIFICATION Spec
CONSTANTS
  Mode = "noncanon"
INVARIANTS Emit
CHECK_DEADLOCK FALSE
