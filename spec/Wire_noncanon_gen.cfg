SPECIFICATION Spec
CONSTANTS
  Deep = FALSE
  Mode = "noncanon"
INVARIANTS Emit
CHECK_DEADLOCK FALSE
