SPECIFICATION Spec
CONSTANTS
  Mode = "trees"
INVARIANTS EncodingOK ParseTotal FixedPoint
CHECK_DEADLOCK FALSE
