SPECIFICATION Spec
CONSTANTS
  Deep = FALSE
  Mode = "trees"
INVARIANTS EncodingOK ParseTotal FixedPoint
CHECK_DEADLOCK FALSE
