SPECIFICATION Spec
CONSTANTS
  Deep = TRUE
  Mode = "trees"
INVARIANTS EncodingOK ParseTotal FixedPoint
CHECK_DEADLOCK FALSE
