SPECIFICATION Spec
CONSTANTS
  Deep = TRUE
  Mode = "trees"
INVARIANTS Emit
CHECK_DEADLOCK FALSE
