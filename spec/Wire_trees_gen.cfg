SPECIFICATION Spec
CONSTANTS
  Mode = "trees"
INVARIANTS Emit
CHECK_DEADLOCK FALSE
