SPECIFICATION Spec
CONSTANTS
  Deep = FALSE
  Mode = "trees"
INVARIANTS Emit
CHECK_DEADLOCK FALSE
