SPECIFICATION Spec
CONSTANTS
  Deep = FALSE
  Mode = "twins"
INVARIANTS TwinsOK
CHECK_DEADLOCK FALSE
