SPECIFICATION Spec
CONSTANTS
  Deep = TRUE
  Mode = "twins"
INVARIANTS TwinsOK
CHECK_DEADLOCK FALSE
