SPECIFICATION Spec
CONSTANTS
  Deep = TRUE
  Mode = "twins"
INVARIANTS Emit
CHECK_DEADLOCK FALSE
