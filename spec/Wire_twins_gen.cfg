SPECIFICATION Spec
CONSTANTS
  Deep = FALSE
  Mode = "twins"
INVARIANTS Emit
CHECK_DEADLOCK FALSE
