#!/bin/bash
# confirm_seed.sh <seed-name> <property> <worktree> <demo-dest-relpath> <go test pkg> <run regex>
# Confirms independently that a seeded change (a) compiles, (b) keeps the existing suite green,
# (c) makes its demonstration fail, and (d) the demonstration passes without it. Then stores it under /verif/seeded/<seed-name>/.
set -u
name=$1; prop=$2; wt=$3; dest=$4; pkg=$5; run=$6
export GOFLAGS="-mod=mod ${VERIF_TAGS:+-tags=$VERIF_TAGS}" GOPROXY=off
unset GOTOOLCHAIN
cd "$wt" || exit 2
case "$dest" in /*|_mut/*) echo "argument 4 is the demo DESTINATION relative to the worktree (e.g. kmipclient/demo_mut_test.go), not the demo itself"; exit 2;; esac
demo=$(ls _mut/demo*_test.go _mut/demo_test.go 2>/dev/null | head -1)
[ -f _mut/patch.diff ] || { echo "no patch"; exit 2; }
git checkout -q -- . ; rm -f "$dest"
git apply _mut/patch.diff || { echo "patch does not apply"; exit 2; }
go build ./... || { echo "BUILD FAILS"; exit 1; }
suite=$(go test -mod=mod -vet=off -count=1 ./... 2>&1); src=$?
cp "$demo" "$dest"
with=$(go test -mod=mod -vet=off -count=1 -run "$run" "$pkg" 2>&1); wrc=$?
git apply -R _mut/patch.diff
without=$(go test -mod=mod -vet=off -count=1 -run "$run" "$pkg" 2>&1); worc=$?
rm -f "$dest"
echo "$name: suite_rc=$src demo_with_change_rc=$wrc demo_without_rc=$worc"
if [ $src -eq 0 ] && [ $wrc -ne 0 ] && [ $worc -eq 0 ]; then
  d=/verif/seeded/$name; mkdir -p $d
  cp _mut/patch.diff $d/patch.diff; cp "$demo" $d/$(basename "$dest"); cp _mut/notes.md $d/notes.md 2>/dev/null
  python3 - "$d" "$name" "$prop" "$dest" "$pkg" "$run" <<'PY'
import json,sys
d,name,prop,dest,pkg,run=sys.argv[1:7]
json.dump({"seed":name,"property":prop,"source":"independent sub-agent given only the property text and a scratch worktree",
 "demo_file":dest,"demo_cmd":"cp demo to %s; go test -mod=mod -vet=off -count=1 -run '%s' %s"%(dest,run,pkg),
 "confirmed":{"builds":True,"existing_suite_passes_with_change":True,"demo_fails_with_change":True,"demo_passes_without_change":True},
 "needs_to_manifest":"see notes.md","detected_by":None},open(d+"/meta.json","w"),indent=1)
PY
  echo "$name: CONFIRMED and stored"
else
  echo "$name: NOT confirmed"; echo "$suite" | tail -5; echo "$with" | tail -5; echo "$without" | tail -5
fi
