#!/usr/bin/env python3
"""kf.py fixed <KF-id> <property> <commit> <signature> <what>   |   kf.py open <KF-id> <property> <signature> <what>
Maintains /verif/known_findings.json (never written by checks at run time)."""
import json, sys
p = '/verif/known_findings.json'
kf = json.load(open(p))
mode = sys.argv[1]
if mode == 'fixed':
    _, _, kid, prop, commit, sig, what = sys.argv
    e = {"id": kid, "property": prop, "status": "fixed", "commit": commit, "signature": sig, "what": what,
         "line": "fixed: property=%s %s %s" % (prop, commit, what)}
else:
    _, _, kid, prop, sig, what = sys.argv
    e = {"id": kid, "property": prop, "status": "open", "signature": sig, "what": what}
kf = [x for x in kf if x["id"] != kid] + [e]
json.dump(kf, open(p, 'w'), indent=1)
print(e.get("line", e))
