#!/usr/bin/env python3
"""Print the prompt given to an independent sub-agent that writes a property-breaking change.
Only the property text and a scratch worktree path are given (nothing from /verif)."""
import json, sys
pid, wt = sys.argv[1], sys.argv[2]
extra = sys.argv[3] if len(sys.argv) > 3 else ""
for l in open('/verif/properties.jsonl'):
    p = json.loads(l)
    if p['id'] == pid:
        break
else:
    sys.exit("no such property")
print(f"""You are testing how robust a Go library's quality gates are. You have your own scratch git worktree of the Go library ovh/kmip-go (a KMIP v1.0-1.4 client/server library with its own TTLV codec) at {wt}. Work ONLY inside {wt} (never touch /repo or /verif, never read /verif).

Environment: no network. Before any go command run: export GOFLAGS=-mod=mod GOPROXY=off GOSUMDB=off  (do NOT set GOTOOLCHAIN). The existing test suite is run with: cd {wt} && go test -mod=mod -vet=off -count=1 ./...   (takes ~20 s).

Here is a semantic property the library is supposed to satisfy:

TITLE: {p['title']}
STATEMENT: {p['statement']}
QUANTIFIED OVER: {p['quantifier']['text']}

Your task: make ONE realistic source change to the library (non-test .go files only; something a developer could plausibly write during a refactor, optimisation or feature addition - not sabotage that looks absurd) that BREAKS this property while the library still compiles and the existing test suite above still passes completely. Prefer a change that needs something specific to manifest - a particular interleaving, a fault at a particular point, a multi-step sequence of operations, an unusual input or configuration, or two cooperating sites that each look fine alone - rather than something ordinary use would expose at once. Keep the change small (a few lines to ~30 lines). {extra}

Deliverables, all written into the directory {wt}/_mut/ (create it):
 1. patch.diff  - output of `git -C {wt} diff -- . ':!_mut'` (your change to the library only, no test files, no _mut files).
 2. demo_test.go (package of your choice; say in notes where it must be placed, e.g. kmipserver/demo_mut_test.go) or a small main program - a demonstration that FAILS with your change applied and PASSES on the original code. It must be deterministic or near-deterministic (if it relies on timing, loop until it manifests with a bound).
 3. notes.md - which file(s)/function(s) you changed, why it breaks the property, what is needed for it to manifest, where the demo goes and the exact command to run it, and the output you saw with and without the change.

Verify yourself before finishing: (a) with the change: go build ./... ok, the full existing suite passes, the demo fails; (b) with the change reverted (git stash or git apply -R): the demo passes. Leave the worktree with your change APPLIED and the demo file copied in place as well as in _mut/. Be economical: read only the files you need. Final answer: a 5-line summary (changed function, how it breaks the property, what it takes to manifest, demo command, confirmation of (a) and (b)).""")
