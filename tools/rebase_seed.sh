#!/bin/bash
# rebase_seed.sh <seed-name> <rebased patch> <demo-dest-relpath> <go test pkg> <run regex>
# Re-confirms a seed whose patch was rebased onto the current /repo HEAD (after a fix: commit touched its context) in a scratch
# worktree: builds, suite green, demo fails with it and passes without. On success the rebased patch replaces patch.diff
# (the original is kept as patch.orig.diff) and meta.json records the commit it was rebased onto.
set -u
name=$1; patch=$2; dest=$3; pkg=$4; run=$5
export GOFLAGS=-mod=mod GOPROXY=off
unset GOTOOLCHAIN
W=$(mktemp -d /tmp/rebase.XXXXXX); rmdir $W
git -C /repo worktree add --detach $W HEAD -q || exit 2
trap 'git -C /repo worktree remove --force $W' EXIT
cd $W
git apply "$patch" || { echo "rebased patch does not apply"; exit 2; }
go build ./... || { echo BUILD FAILS; exit 1; }
go test -mod=mod -vet=off -count=1 ./... >/dev/null 2>&1; src=$?
cp /verif/seeded/$name/$(basename $dest) $dest
go test -mod=mod -vet=off -count=1 -run "$run" $pkg >/dev/null 2>&1; wrc=$?
git apply -R "$patch"
go test -mod=mod -vet=off -count=1 -run "$run" $pkg >/dev/null 2>&1; worc=$?
echo "$name: suite_rc=$src demo_with_change_rc=$wrc demo_without_rc=$worc"
if [ $src -eq 0 ] && [ $wrc -ne 0 ] && [ $worc -eq 0 ]; then
  d=/verif/seeded/$name
  [ -f $d/patch.orig.diff ] || cp $d/patch.diff $d/patch.orig.diff
  cp "$patch" $d/patch.diff
  python3 - $d $(git -C /repo rev-parse --short HEAD) <<'PY'
import json,sys
d,head=sys.argv[1:3]
m=json.load(open(d+"/meta.json")); m["rebased_onto"]=head
json.dump(m,open(d+"/meta.json","w"),indent=1)
PY
  echo "$name: rebased and stored"
else
  echo "$name: NOT confirmed"; exit 1
fi
