#!/usr/bin/env python3
"""seedmeta.py <seed-dir-name> <detected_by> [needs_to_manifest]  - record which check catches a seeded change"""
import json, sys
p = '/verif/seeded/%s/meta.json' % sys.argv[1]
m = json.load(open(p))
m['detected_by'] = sys.argv[2]
if len(sys.argv) > 3:
    m['needs_to_manifest'] = sys.argv[3]
json.dump(m, open(p, 'w'), indent=1)
