#!/opt/veriftools/pyvenv/bin/python
"""Validate MANIFEST.json and evidence files against the vp schemas (uses the tooling venv's jsonschema)."""
import json, jsonschema, glob, sys
jsonschema.validate(json.load(open('/verif/MANIFEST.json')), json.load(open('/root/.vp/MANIFEST.schema.json')))
es = json.load(open('/root/.vp/EVIDENCE.schema.json'))
man = json.load(open('/verif/MANIFEST.json'))
bad = 0
for c in man['checks']:
    try:
        ev = json.load(open(c['evidence_file']))
        jsonschema.validate(ev, es)
        assert ev['level'] == c['level_claimed']['category'], "level mismatch"
    except Exception as e:
        bad += 1
        print("BAD", c['property_id'], str(e)[:300])
ids = {c['property_id'] for c in man['checks']} | {n['property_id'] for n in man.get('not_applicable', [])}
allp = {json.loads(l)['id'] for l in open('/verif/properties.jsonl')}
if ids != allp:
    print("properties not accounted for:", allp ^ ids); bad += 1
print("manifest ok; %d checks; %d bad evidence" % (len(man['checks']), bad))
sys.exit(1 if bad else 0)
